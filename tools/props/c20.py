"""C20 - client configuration is honoured exactly as documented, in both input syntaxes."""
import base64, json, os, re, subprocess
import vlib

PROP_FILES = ['Properties/C20']
TRUSTED = [
    'Coq 8.16.1 kernel incl. vm_compute (examples / counter-examples only); all C20_* theorems: Closed under the global context',
    'hand-written model coq/Model/Config.v of internal/client/state.go (ssvToJson, ProcessRawConfig) and the README.md client option table transcribed as spec',
    'encoding/json is a black box: the model of the front end ends at the JSON text / member list; the typed RawConfig fed to the model is produced by the case generator (what the JSON rendering denotes), the real decoder is exercised on both syntaxes',
    'strings.ToLower is modelled on ASCII (the keywords contain no letter that a non-ASCII rune lower-cases to); net.JoinHostPort brackets hosts containing ":" or "%" (read from the library source, sampled)',
    'the hand-over of the processed keep-alive to net.Dialer in cmd/ck-client/ck-client.go is checked textually (regex over the source), not executed',
    'correspondence: in-package Go driver harness/client/c20_test.go (real ParseConfig on option strings and on JSON files, real ProcessRawConfig, real ssvToJson) vs extracted OCaml model, ocaml/c20_driver.ml',
]
ASSUMPTIONS = [
    'KeepAlive and StreamTimeout are second counts that fit a time.Duration (|n| <= 9223372036, about 292 years); beyond that the int64 multiplication wraps (Example C20_secs_boundary)',
    'option-string equivalence is claimed on the stated domain only (no ; " \\ or control characters in values, no comma in alternative names, non-empty name list); the boundary is shown by counter-examples and sampled on the real code',
    'values are valid UTF-8 (encoding/json replaces invalid bytes)',
    'documented defaults not spelled out in README prose are taken from example_config/ckclient.json (Transport direct, BrowserSig chrome, StreamTimeout 300); README calls NumConn 4 "the default" but an absent NumConn is 0 = one connection per stream (observation, the property text fixes NumConn <= 0)',
]

SECOND = 10**9
ENC = {'plain': 0, 'aes-256-gcm': 1, 'aes-gcm': 1, 'aes-128-gcm': 3, 'chacha20-poly1305': 2}   # codes: multiplex package constants
BROWSER = {'chrome': 0, 'firefox': 1, 'safari': 2}
ORDER = ['ServerName', 'ProxyMethod', 'EncryptionMethod', 'UID', 'PublicKey', 'NumConn', 'LocalHost', 'LocalPort', 'RemoteHost',
         'RemotePort', 'AlternativeNames', 'UDP', 'BrowserSig', 'Transport', 'CDNOriginHost', 'CDNWsUrlPath', 'StreamTimeout', 'KeepAlive']
BYTES = ('UID', 'PublicKey')
INTS = ('NumConn', 'StreamTimeout', 'KeepAlive')


def hx(b):
    if isinstance(b, str):
        b = b.encode()
    return b.hex() if b else '-'


# ----------------------------------------------------------------------------------------
# renderings of one configuration (dict option -> typed python value)
def render_json(opts, rng=None):
    d = {}
    keys = list(opts)
    if rng is not None and rng.random() < 0.5:
        rng.shuffle(keys)
    for k in keys:
        v = opts[k]
        d[k] = base64.b64encode(v).decode() if k in BYTES else v
    return json.dumps(d, indent=rng.choice([None, None, 1]) if rng else None)


def ssv_value(k, v):
    if k in BYTES:
        s = base64.b64encode(v).decode()
    elif isinstance(v, bool):
        s = 'true' if v else 'false'
    elif isinstance(v, int):
        s = str(v)
    elif isinstance(v, list):
        s = ','.join(v)
    else:
        s = v
    return s.replace('=', '\\=')        # what plugin hosts do to base64 padding


def render_ssv(opts, rng=None):
    keys = list(opts)
    if rng is not None and rng.random() < 0.5:
        rng.shuffle(keys)
    return ''.join('%s=%s;' % (k, ssv_value(k, opts[k])) for k in keys)


def typed_raw(opts):
    """the RawConfig the JSON rendering denotes (absent option = Go zero value)"""
    f = []
    for k in ORDER:
        v = opts.get(k)
        if k in INTS:
            f.append(str(v or 0))
        elif k == 'UDP':
            f.append('1' if v else '0')
        elif k == 'AlternativeNames':
            f.append('none' if not v else ','.join(hx(n) for n in v))
        else:
            f.append(hx(v or b''))
    return 'R:' + ':'.join(f)


# ----------------------------------------------------------------------------------------
# the oracle: README.md "### Client" + example_config/ckclient.json, coded independently of the Coq model
def join_host_port(h, p):
    return ('[%s]:%s' % (h, p)) if (':' in h or '%' in h) else '%s:%s' % (h, p)


def readme_expected(o):
    """None = the configuration must be rejected; else the documented effect of every option."""
    def s(k):
        return o.get(k) or ''
    enc = ENC.get(s('EncryptionMethod').lower())
    if not s('ServerName') or not s('ProxyMethod') or not o.get('UID') or len(o.get('PublicKey') or b'') != 32 or enc is None \
            or not s('RemoteHost') or not s('RemotePort') or not s('LocalHost') or not s('LocalPort'):
        return None
    e = {}
    n = o.get('NumConn') or 0
    e['sp'] = '1' if n <= 0 else '0'                  # "Setting it to 0 will disable connection multiplexing" (property: <= 0)
    e['nc'] = str(1 if n <= 0 else n)
    ka = o.get('KeepAlive') or 0
    e['ka'] = str(ka * SECOND) if ka > 0 else 'disabled'   # "Zero or negative value disables it. Default is 0 (disabled)"
    st = o.get('StreamTimeout') or 0
    e['to'] = str((st if st != 0 else 300) * SECOND)       # example_config: 300
    e['ra'] = hx(join_host_port(s('RemoteHost'), s('RemotePort')))
    e['la'] = hx(join_host_port(s('LocalHost'), s('LocalPort')))
    if s('Transport').lower() == 'cdn':                    # "Transport can be either direct or CDN"
        origin = s('CDNOriginHost') or s('RemoteHost')    # "If unset, it will default to the remote hostname"
        path = s('CDNWsUrlPath') or '/'                    # "If unset, it will default to "/""
        e['tm'] = hx('cdn'); e['ws'] = hx('ws://' + join_host_port(origin, s('RemotePort')) + path)
    else:
        e['tm'] = hx('direct'); e['ws'] = '-'
        e['br'] = str(BROWSER.get(s('BrowserSig').lower(), 0))     # chrome, firefox, safari; example_config: chrome
    names = [x for x in (o.get('AlternativeNames') or []) if x] + [s('ServerName')]
    e['mock'] = ','.join(hx(x) for x in names)            # "used alongside ServerName to shuffle between different ServerNames"
    e['uid'] = hx(o['UID']); e['pm'] = hx(s('ProxyMethod')); e['em'] = str(enc)
    e['un'] = '1' if o.get('UDP') else '0'; e['pk'] = hx(o['PublicKey']); e['md'] = hx(s('ServerName')); e['sid'] = '0'
    return e


def parse_obs(obs):
    if not obs.startswith('ok:'):
        return None
    d = {}
    for part in obs[3:].split(';'):
        # mock= is a comma list itself: split on ',' only before a key=
        for m in re.finditer(r'(\w+)=([^=]*?)(?=,\w+=|$)', part):
            d[m.group(1)] = m.group(2)
    return d


def oracle_one(opts, obs, via):
    """None or (signature, message)"""
    exp = readme_expected(opts)
    if obs.startswith('PANIC'):
        return ('panic:' + obs, 'crash instead of an error (%s): %s' % (via, obs))
    if exp is None:
        if obs.startswith('ok:'):
            return ('incomplete-accepted', 'incomplete/invalid configuration accepted (%s)' % via)
        return None
    if not obs.startswith('ok:'):
        return ('valid-rejected', 'complete configuration rejected (%s): %s' % (via, obs))
    got = parse_obs(obs)
    for k, v in exp.items():
        g = got.get(k)
        if k == 'ka' and v == 'disabled':
            if g is None or int(g) >= 0:       # net.Dialer: negative disables; 0 would mean "default keep-alive", not off
                return ('keepalive', 'KeepAlive=%s must disable keep-alive (negative period), got %s ns (%s)' % (opts.get('KeepAlive'), g, via))
            continue
        if g != v:
            name = {'ka': 'KeepAlive', 'to': 'StreamTimeout', 'br': 'BrowserSig', 'sp': 'NumConn', 'nc': 'NumConn', 'ws': 'CDNOriginHost/CDNWsUrlPath',
                    'tm': 'Transport', 'mock': 'AlternativeNames', 'em': 'EncryptionMethod', 'ra': 'RemoteHost/RemotePort',
                    'la': 'LocalHost/LocalPort', 'un': 'UDP'}.get(k, k)
            return ('field:' + k, '%s: documented effect %s=%s, processed configuration has %s=%s (%s; configured %s)' %
                    (name, k, v, k, g, via, {n: opts.get(n) for n in name.split('/')}))
    return None


# ----------------------------------------------------------------------------------------
def pick(rng, xs):
    return xs[rng.randrange(len(xs))]


def mixcase(rng, s):
    r = rng.random()
    if r < 0.5:
        return s
    if r < 0.7:
        return s.upper()
    return ''.join(c.upper() if rng.random() < 0.5 else c for c in s)


def gen_opts(k, rng):
    o = {}
    def maybe(name, p_absent, f):
        if rng.random() >= p_absent:
            o[name] = f()
    maybe('ServerName', 0.03, lambda: pick(rng, ['www.bing.com', 'a.b', 'random', 'x']))
    maybe('ProxyMethod', 0.03, lambda: pick(rng, ['shadowsocks', 'openvpn', 'tor']))
    maybe('EncryptionMethod', 0.03, lambda: mixcase(rng, pick(rng, ['plain', 'aes-gcm', 'aes-256-gcm', 'aes-128-gcm', 'chacha20-poly1305', 'chacha20-poly1305', 'bogus', 'aes'][: 8 if rng.random() < 0.12 else 6])))
    maybe('UID', 0.03, lambda: bytes(rng.randrange(256) for _ in range(pick(rng, [16, 16, 16, 15, 17]))))
    maybe('PublicKey', 0.03, lambda: bytes(rng.randrange(256) for _ in range(32 if rng.random() < 0.95 else pick(rng, [31, 33, 16]))))
    maybe('NumConn', 0.2, lambda: pick(rng, [-1, 0, 1, 4]))
    maybe('LocalHost', 0.03, lambda: pick(rng, ['127.0.0.1', '::1', 'localhost']))
    maybe('LocalPort', 0.03, lambda: pick(rng, ['1984', '0']))
    maybe('RemoteHost', 0.03, lambda: pick(rng, ['1.2.3.4', 'example.com', '2001:db8::1', 'fe80::1%eth0']))
    maybe('RemotePort', 0.03, lambda: pick(rng, ['443', '8443']))
    maybe('AlternativeNames', 0.4, lambda: pick(rng, [['a.com'], ['a.com', 'b.org'], ['a.com', '', 'b.org'], [''], ['', ''], ['cloudflare.com', 'github.com', '']]))
    maybe('UDP', 0.5, lambda: rng.random() < 0.5)
    maybe('BrowserSig', 0.3, lambda: pick(rng, ['', 'chrome', 'Chrome', 'firefox', 'FIREFOX', 'safari', 'Safari', 'opera']))
    maybe('Transport', 0.3, lambda: pick(rng, ['', 'direct', 'Direct', 'CDN', 'cdn', 'cdn', 'bogus']))
    maybe('CDNOriginHost', 0.5, lambda: pick(rng, ['origin.example.com', '2001:db8::2', '']))
    maybe('CDNWsUrlPath', 0.5, lambda: pick(rng, ['/ws', '/a/b?x=1', '']))
    maybe('StreamTimeout', 0.3, lambda: pick(rng, [0, 1, 300, -1]))
    maybe('KeepAlive', 0.3, lambda: pick(rng, [-5, 0, 1, 30]))
    return o


BOUNDARY = [   # out of the stated domain: (what, option, value)
    ('semicolon in a value', 'ServerName', 'a;b'), ('semicolon written as backslash-semicolon', 'CDNWsUrlPath', '/p;q'),
    ('double quote in a value', 'ServerName', 'a"b'), ('backslash in a value', 'CDNWsUrlPath', '/a\\b'),
    ('trailing backslash', 'ServerName', 'ab\\'), ('two backslashes', 'ServerName', 'a\\\\b'),
    ('control character', 'ServerName', 'a\nb'), ('tab', 'ProxyMethod', 'a\tb'),
    ('comma inside an alternative name', 'AlternativeNames', ['a,b']), ('empty name list', 'AlternativeNames', []),
]
MALFORMED_SSV = [
    'a=b;;ServerName=x;', 'novalue;ServerName=x;', '=;', ';=', 'ServerName=x', 'NumConn=abc;', 'UDP=maybe;', 'AlternativeNamesX=a,b;',
    'NumConn=4;NumConn=5;ServerName=x;', 'ServerName=x\\', 'ServerName=x\\;', 'ServerName=\\\\=;', 'ServerName=\\\\\\=;',
    'AlternativeNames=;ServerName=x;', 'AlternativeNames=,;', 'MaskBrowser=chrome;ServerName=www.bing.com;', 'ServerName=x;junk',
    'ServerName==x;', 'NumConn=;', 'KeepAlive=1.5;', 'StreamTimeout=99999999999999999999;', 'UID=!!!;', 'UID=QQ;ServerName=x;',
    '=x;ServerName=y;', ';ServerName=x;=', 'ServerName=x;;;', 'a;b=c', 'UDP=true;UDP=false;',
]


def base_valid(rng):
    return dict(ServerName='www.bing.com', ProxyMethod='shadowsocks', EncryptionMethod='plain', UID=bytes(range(16)),
                PublicKey=bytes(range(32)), LocalHost='127.0.0.1', LocalPort='1984', RemoteHost='1.2.3.4', RemotePort='443')


def in_domain(opts):
    for k, v in opts.items():
        vals = v if isinstance(v, list) else [v] if isinstance(v, str) else []
        if isinstance(v, list) and (not v or any(',' in n for n in v)):
            return False
        for s in vals:
            if any(c in s for c in ';"\\') or any(ord(c) < 32 for c in s):
                return False
    return True


def gen_cases(ctx):
    rng = ctx.rng
    cases = []
    n = 3000 if ctx.quick() else 40000
    for k in range(n):
        o = gen_opts(k, rng)
        if k % 5 == 0:       # a share with every mandatory item present, so that the processed values are compared
            b = base_valid(rng); b.update(o); o = b
        cases.append(('g%d' % k, dict(kind='seeded', opts=o, ssv=render_ssv(o, rng), json=render_json(o, rng), domain=True)))
    # single-option sweeps on a valid base: every documented option, each documented value
    sweep = [('NumConn', v) for v in (-1, 0, 1, 4)] + [('KeepAlive', v) for v in (-5, 0, 1, 30, 9223372036)] + \
            [('StreamTimeout', v) for v in (0, 1, 300, -1)] + [('Transport', v) for v in ('', 'direct', 'CDN', 'cdn', 'bogus')] + \
            [('BrowserSig', v) for v in ('', 'chrome', 'firefox', 'Firefox', 'safari', 'opera')] + \
            [('EncryptionMethod', v) for v in ('plain', 'AES-GCM', 'aes-256-gcm', 'aes-128-gcm', 'ChaCha20-Poly1305', 'rc4', '')] + \
            [('UDP', v) for v in (True, False)]
    for i, (k, v) in enumerate(sweep):
        for cdn in (False, True):
            o = base_valid(rng); o[k] = v
            if cdn:
                o.setdefault('Transport', 'CDN')
                if i % 2:
                    o['CDNOriginHost'] = 'origin.example.com'
                if i % 3 == 0:
                    o['CDNWsUrlPath'] = '/ws'
            cases.append(('w%d%s' % (i, 'c' if cdn else 'd'), dict(kind='sweep', opts=o, ssv=render_ssv(o), json=render_json(o), domain=True)))
    # each mandatory item missing on its own
    for i, k in enumerate(list(base_valid(rng))):
        o = base_valid(rng); del o[k]
        cases.append(('m%d' % i, dict(kind='missing', opts=o, ssv=render_ssv(o), json=render_json(o), domain=True)))
    # boundary of the domain: the two syntaxes are expected to part ways
    for i, (what, k, v) in enumerate(BOUNDARY):
        o = base_valid(rng); o[k] = v
        if k.startswith('CDN'):
            o['Transport'] = 'CDN'
        ssv = render_ssv(o)
        if what == 'semicolon written as backslash-semicolon':
            ssv = ssv.replace('/p;q', '/p\\;q')
        cases.append(('b%d' % i, dict(kind='boundary', what=what, opts=o, ssv=ssv, json=render_json(o), domain=False)))
    # malformed option strings (no JSON twin) + random soup over the special characters
    ms = list(MALFORMED_SSV)
    alphabet = ';=\\,"aN1 \n'
    for _ in range(300 if ctx.quick() else 5000):
        body = ''.join(pick(rng, alphabet) for _ in range(rng.randrange(1, 24)))
        ms.append(pick(rng, ['', 'ServerName=x;', 'NumConn', 'AlternativeNames=']) + body)
    for i, s in enumerate(ms):
        cases.append(('x%d' % i, dict(kind='malformed', opts=None, ssv=s, json=None, domain=False)))
    return cases


def case_line(cid, c):
    return '%s %s %s %s' % (cid, hx(c['ssv']) if c['ssv'] is not None else '-', hx(c['json']) if c['json'] is not None else '-',
                            typed_raw(c['opts']) if c['opts'] is not None and c['domain'] else 'X')


def fields(line):
    d = {}
    for tok in line.split():
        if '=' in tok[:2]:
            d[tok[0]] = tok[2:]
    return d


def run_impl(ctx, lines, tag):
    inp = '%s/%s.in' % (ctx.work, tag)
    out = '%s/%s.go.out' % (ctx.work, tag)
    open(inp, 'w').write('\n'.join(lines) + '\n')
    if os.path.exists(out):
        os.remove(out)
    rc, log, dt = vlib.go_test(ctx, 'client', 'TestVerifC20', files=['c20_test.go'], env=dict(VERIF_IN=inp, VERIF_OUT=out), util=False)
    return rc, log, vlib.read_lines_by_id(out), inp, dt


def run_model(ctx, inp, tag):
    out = '%s/%s.model.out' % (ctx.work, tag)
    rc, err = vlib.run_model('c20', inp, out)
    return rc, err, vlib.read_lines_by_id(out)


def check_dialer(ctx):
    """the processed keep-alive must be what net.Dialer gets in cmd/ck-client/ck-client.go"""
    path = vlib.REPO + '/cmd/ck-client/ck-client.go'
    xo = os.environ.get('VERIF_EXTRA_OVERLAY')
    if xo:
        path = json.load(open(xo)).get('Replace', {}).get(path, path)
    src = open(path).read()
    src = re.sub(r'//[^\n]*', '', src)
    m = re.search(r'(\w+)\s*,\s*(\w+)\s*,\s*(\w+)\s*,\s*\w+\s*:?=\s*\w+\.ProcessRawConfig\(', src)
    if not m:
        return 'ck-client.go: the call of ProcessRawConfig was not found'
    remote = m.group(2)
    d = re.search(r'&?net\.Dialer\{([^}]*)\}', src)
    if not d:
        return 'ck-client.go: no net.Dialer literal found'
    if not re.search(r'KeepAlive\s*:\s*%s\.KeepAlive\b' % re.escape(remote), d.group(1)):
        return 'ck-client.go: net.Dialer{%s} does not take KeepAlive from %s.KeepAlive (the processed RemoteConnConfig)' % (d.group(1).strip(), remote)
    if not re.search(r'MakeSession\(\s*%s\s*,' % re.escape(remote), src):
        return 'ck-client.go: MakeSession is no longer given %s' % remote
    return None


def shrink(ctx, c, sig, via):
    """drop options greedily while the same oracle signature persists (one Go run per round)"""
    opts = dict(c['opts'])
    for _ in range(12):
        cands = []
        for k in list(opts):
            o = {x: y for x, y in opts.items() if x != k}
            cands.append((k, o))
        lines = [case_line('s%d' % i, dict(opts=o, ssv=render_ssv(o), json=render_json(o), domain=True)) for i, (k, o) in enumerate(cands)]
        rc, log, impl, inp, _ = run_impl(ctx, lines, 'shrink')
        hit = None
        for i, (k, o) in enumerate(cands):
            f = fields(impl.get('s%d' % i, ''))
            r = oracle_one(o, f.get(via, ''), via) if f.get(via) else None
            if r and r[0] == sig:
                hit = o
                break
        if hit is None:
            break
        opts = hit
    return opts


def correspondence(ctx, verdict, pr):
    res = dict(broken=[])
    cases = []
    cdir = vlib.V + '/corpus/C20'
    ncorpus = 0
    if os.path.isdir(cdir):
        for fn in sorted(os.listdir(cdir)):
            c = json.load(open(os.path.join(cdir, fn)))
            c['opts'] = decode_opts(c['opts'])
            cases.append((c['id'], c)); ncorpus += 1
    cases += gen_cases(ctx)
    lines = [case_line(cid, c) for cid, c in cases]
    rc, log, impl, inp, dt = run_impl(ctx, lines, 'cases')
    if rc != 0:
        res['broken'].append(('Go driver TestVerifC20 failed to build or run', log[-3000:]))
    mrc, merr, model = run_model(ctx, inp, 'cases')
    if mrc != 0:
        res['broken'].append(('extracted model c20 failed', (merr or '')[-2000:]))
    msg = check_dialer(ctx)
    if msg:
        res['broken'].append(('keep-alive hand-over to net.Dialer', msg))
    mism, orc_fail, prefix_like = [], 0, 0
    stats = dict(kinds={}, outcomes={}, present={}, boundary={}, json_text_compared=0, equivalence_checked=0)
    distinct = set()
    for cid, c in cases:
        io, mo = impl.get(cid), model.get(cid)
        if io is None:
            continue
        fi, fm = fields(io), fields(mo or '')
        stats['kinds'][c['kind']] = stats['kinds'].get(c['kind'], 0) + 1
        distinct.add((c['ssv'], c['json']))
        # 1. the JSON text ssvToJson builds, byte for byte
        if mo is not None and 'J' in fm:
            stats['json_text_compared'] += 1
            if fi.get('J') != fm.get('J'):
                mism.append((cid, 'ssvToJson text', c, fi.get('J'), fm.get('J')))
        if any(fi.get(v, '').startswith('PANIC') for v in 'JSF'):
            orc_fail += 1
            if orc_fail <= 2:
                verdict.oracle_failure('panic:' + io[:80], 'C20 oracle: crash instead of an error: %s' % io[:300],
                                       dict(case_id=cid, ssv=c['ssv'], json=c['json'], implementation=io))
            continue
        if c['opts'] is None:
            continue
        for k in c['opts']:
            stats['present'][k] = stats['present'].get(k, 0) + 1
        if not c['domain']:
            differs = fi.get('S') != fi.get('F')
            stats['boundary'][c['what']] = 'syntaxes differ' if differs else 'syntaxes agree'
            continue
        cls = fi.get('S', '')[:3] + ('' if fi.get('S', '').startswith('ok') else fi.get('S', '')[3:])
        stats['outcomes'][cls] = stats['outcomes'].get(cls, 0) + 1
        # 2. model vs implementation, both syntaxes; the model's own spec check
        if mo is not None:
            if fm.get('D') != '1':
                mism.append((cid, 'extracted process vs extracted spec (C20_process_meets_spec at extraction level)', c, fm.get('P'), 'D=0'))
            for via in 'SF':
                if fi.get(via) != fm.get('P'):
                    if fi.get(via) == fm.get('Q'):
                        prefix_like += 1
                    mism.append((cid, 'processed configuration (%s)' % ('option string' if via == 'S' else 'JSON file'), c, fi.get(via), fm.get('P')))
        # 3. the oracle: README table on both syntaxes, and their equivalence
        fail = None
        for via in 'SF':
            r = oracle_one(c['opts'], fi.get(via, ''), via)
            if r:
                fail = (r[0], r[1], via)
                break
        stats['equivalence_checked'] += 1
        if fail is None and fi.get('S') != fi.get('F'):
            fail = ('syntaxes-differ', 'the option string and the JSON file of the same configuration are processed differently: %s vs %s' % (fi.get('S'), fi.get('F')), 'S')
        if fail:
            orc_fail += 1
            if orc_fail <= 2:
                sig, msg, via = fail
                small = shrink(ctx, c, sig, via) if sig != 'syntaxes-differ' else c['opts']
                verdict.oracle_failure(sig, 'C20 oracle: ' + msg,
                                       dict(case_id=cid, config=encode_opts(small), ssv=render_ssv(small), json=render_json(small),
                                            original_config=encode_opts(c['opts']), implementation=io, model=mo, via=via,
                                            how='python3 tools/check.py C20 --replay <this file>'))
    if mism and rc == 0 and mrc == 0:
        cid, what, c, a, b = min(mism, key=lambda m: len(m[2]['ssv'] or '') + len(m[2]['json'] or ''))
        res['broken'].append(('model Config.v vs client: %d differences in %d cases (first kind: %s)%s' %
                              (len(mism), len(cases), what, '; %d of them match the model variant before commit b378e52 (F9 KeepAlive)' % prefix_like if prefix_like else ''),
                              'smallest differing case %s\nssv:  %r\njson: %r\nimplementation: %s\nmodel:          %s' % (cid, c['ssv'], c['json'], a, b)))
    verdict.cov.update(
        evaluations=len(impl), distinct_nontrivial=len(distinct),
        rule='distinct = distinct (option string, JSON text) pairs; every case is run through the real ParseConfig/ProcessRawConfig and the model; in-domain cases through both syntaxes',
        samples=[cases[ncorpus][1]['ssv'][:300], cases[ncorpus][1]['json'][:300], cases[-1][1]['ssv'][:100]],
        traces_validated_against_impl=len(impl), mismatches=len(mism), oracle_failures=orc_fail,
        input_distribution=dict(cases_by_kind=stats['kinds'], outcome_classes=stats['outcomes'], option_present=stats['present'],
                                boundary_cases=stats['boundary'], json_text_compared=stats['json_text_compared'],
                                both_syntaxes_compared=stats['equivalence_checked'], go_seconds=round(dt, 1)),
        corpus_cases=ncorpus, exhaustive=False, dialer_check=msg or 'net.Dialer gets the processed KeepAlive; MakeSession gets the processed RemoteConnConfig')
    ctx.notes.append('observation: README calls NumConn 4 "the default" (it is the value of example_config/ckclient.json); an absent NumConn is 0 = one connection per stream')
    ctx.notes.append('observation: an empty ProxyMethod is reported as "ServerName cannot be empty" (message only)')
    return res


def encode_opts(o):
    return {k: (dict(base64=base64.b64encode(v).decode()) if isinstance(v, bytes) else v) for k, v in o.items()}


def decode_opts(o):
    return {k: (base64.b64decode(v['base64']) if isinstance(v, dict) else v) for k, v in o.items()}


def replay(ctx, verdict):
    r = ctx.replay
    if 'config' not in r:
        print(json.dumps(r, indent=1)); return 0
    opts = decode_opts(r['config'])
    c = dict(opts=opts, ssv=render_ssv(opts), json=render_json(opts), domain=in_domain(opts), kind='replay')
    rc, log, impl, inp, _ = run_impl(ctx, [case_line('r0', c)], 'replay')
    mrc, merr, model = run_model(ctx, inp, 'replay')
    print('option string:', c['ssv']); print('JSON:', c['json'])
    print('implementation:', impl.get('r0')); print('model:         ', model.get('r0'))
    fi = fields(impl.get('r0', ''))
    bad = 0
    for via in 'SF':
        res = oracle_one(opts, fi.get(via, ''), via)
        print('oracle (%s):' % via, res)
        bad |= bool(res)
    print('expected (README):', readme_expected(opts))
    return 1 if bad else 0


MANIFEST = dict(
    technique='Coq proofs over all raw configurations (ProcessRawConfig = documented table; rejection = incompleteness; totality) and over all option lists of the stated domain (option-string parsing = JSON members, by an escaping/splitting argument), with counter-example lemmas at the domain boundary; model tied to the code by differential execution (real ParseConfig on option strings and JSON files, real ProcessRawConfig and ssvToJson vs the extracted model); README table coded independently in Python as oracle; textual check that the processed keep-alive reaches net.Dialer',
    level_text='C20_process_meets_spec (every raw configuration with second counts that fit a time.Duration: the processed configuration or the rejection is exactly what the documented table prescribes), C20_keepalive / C20_refuted_prefix_keepalive (F9, repaired), C20_rejects_incomplete (rejected iff incomplete, error for each missing item, no other outcome), C20_ssv_equiv (for every configuration of the stated domain the option string denotes the same members as the JSON rendering and the text written is plain JSON), C20_ssv_guard_is_boundary - all proved in Coq without axioms.',
    level_note='Trusted: Coq kernel; extraction; encoding/json (black box, exercised on every case through both syntaxes); ASCII model of strings.ToLower; net.JoinHostPort; the regex reading of ck-client.go. Defaults absent from README prose are taken from example_config/ckclient.json.',
    design_ref='DESIGN.md section 6, C20; section 7 F9')


# ---- StreamTimeout where it is consumed: "Cloak will not enforce any timeout on TCP connections after it is established"
# (README); client.RouteTCP applies the configured value to the local connection's first read only.  The driver of C01's
# relay level (RouteTCP on a local connection that enforces the deadlines armed on it, virtual clock) is run here as well.
_corr_before_deadlines = correspondence
_replay_before_deadlines = replay


def correspondence(ctx, verdict, pr):
    res = _corr_before_deadlines(ctx, verdict, pr)
    import winlib
    res['broken'] += winlib.c01_deadlines(ctx, verdict)
    return res


def replay(ctx, verdict):
    if ctx.replay.get('kind') == 'window':
        import winlib
        return winlib.replay(ctx, verdict)
    return _replay_before_deadlines(ctx, verdict)


TRUSTED = list(TRUSTED) + ['StreamTimeout at its point of use: harness/client/c01_deadline_test.go (client.RouteTCP inside a testing/synctest bubble on a local connection that enforces the deadlines armed on it)']
