"""C06 - client and server agree on identity, options and session key after the handshake."""
import os, json, re, itertools, concurrent.futures
import vlib

PROP_FILES = ['Properties/C06', 'Properties/C06_bridge']
EXTRA_OBLIGATION_FILES = ['Proofs/X25519', 'Proofs/AtomFront']
TRUSTED = [
    'Coq 8.16.1 kernel incl. vm_compute (no native_compute); every C06 theorem is Closed under the global context',
    'SECTION HYPOTHESIS dh_comm (forall a b, dh a (pub b) = dh b (pub a)): commutativity of X25519 is NOT proved; it appears as a premise of '
    'C06_agreement_tls / C06_agreement_ws / C06_agreement_tls_front and is validated on every run (both ends\' shared secrets computed by '
    'golang.org/x/crypto/curve25519 are equal on every handshake of the sample; the Gallina ladder coq/Model/Crypto/X25519.v agrees with Go on '
    'the sampled keys and reproduces the RFC 7748 vectors by vm_compute in coq/Proofs/X25519.v)',
    'SECTION HYPOTHESES about the AEAD (open k n (seal k n p a) a = Some p; |seal k n p a| = |p| + 16): premises of the agreement theorems; '
    'discharged for the Gallina AES-GCM by gcm_open_seal / gcm_seal_length (coq/Proofs/Crypto.v, worker codec) in C06_agreement_*_gcm',
    'hand-written models coq/Model/Auth.v (makeAuthenticationPayload, decryptClientInfo, composeServerHello/composeReply, TLSConn.Read, both '
    'transports) and coq/Model/HelloGrammar.v (grammar/composer of ClientHellos standing in for uTLS); coq/Model/Hello.v (worker front: the '
    'server\'s own parser) for the bridge theorem',
    'uTLS (BuildHandshakeState), net/http, gorilla/websocket, encoding/base64 are black boxes: real ClientHellos are only shown to satisfy '
    'wf_client_hello by the correspondence; the WebSocket transport is modelled from the value of the `hidden` header to the 60-byte message',
    'correspondence: in-package Go driver harness/server/c06_test.go + c06_rig_test.go (real client.DirectTLS/WSOverTLS.Handshake against real '
    'dispatchConnection over tapped in-memory conns; CDN through a crypto/tls terminator with a self-signed certificate) vs extracted OCaml model '
    '(ExtrOcamlBasic only), ocaml/c06_driver.ml; Diffie-Hellman in the model is the Gallina ladder for a sample and a Go-computed table for the rest',
]
ASSUMPTIONS = [
    'every connection of a session: Model/SessionKey.v (reply carries the key of the session the connection joined; fresh key only on creation) with C06_agreement_every_connection_tls / C06_same_session_same_key; the correspondence presents k = 1..4 connections with one session id and one with another to ONE server State, in sequence and overlapped, and demands client key = server session key for each. Which connection of an overlapped batch creates the session is decided by the scheduler and not represented (the statement does not depend on it). One session per id / cap / ownership of the table are C15\'s (its check reports a joining connection that gets another key as key-changed)',
    'the admin session is private to dispatchConnection: agreement there is checked functionally (an API request through a multiplexer session built from the client\'s key must get an HTTP answer)',
    'UID of exactly 16 bytes; proxy-method name of 1..12 bytes without leading/trailing NUL (both guards are exact: C06_method_trailing_nul, '
    'C06_method_13_truncated, C06_uid_18_spills)',
    'timestamps below 2^62 s for C06_window (beyond that time.Unix wraps; the model reproduces the wrap, the correspondence samples it)',
    'the client\'s clock is inside the window AFTER truncation to whole seconds (Unix()); an offset in (-180 s, -179 s) can fall outside '
    '(C06_truncation_edge); -179 s <= offset < +180 s always suffices (C06_offset_suffices)',
    'domain of the oracle = client clock offsets in [-179 s, +180 s) at nanosecond resolution of the SERVER clock, which includes the last '
    'sub-second of the window (server clock part-way through a second, client ahead by 180 s minus less than that fraction: generated on '
    'every run, must be served). Offsets of exactly +180 s and beyond are outside the statement ("strictly inside"): the unchanged code still '
    'accepts +180 s .. +180 s + fraction because the client sends whole seconds; these are compared with the model only (cases x3, x4)',
    'empty replay cache (replays are C08); the client\'s X25519 did not return the all-zero secret (hypothesis dh_ok; Go panics otherwise)',
]

MOD = 'c06'
ENC_NAMES = {'plain': 'mux_EncryptionMethodPlain', 'aes-gcm': 'mux_EncryptionMethodAES256GCM',
             'aes-256-gcm': 'mux_EncryptionMethodAES256GCM', 'aes-128-gcm': 'mux_EncryptionMethodAES128GCM',
             'chacha20-poly1305': 'mux_EncryptionMethodChaha20Poly1305'}


def consts():
    d = {}
    for m in re.finditer(r'Definition (\w+) : Z := (-?\d+)\.', open(vlib.COQ + '/Gen/Consts.v').read()):
        d[m.group(1)] = int(m.group(2))
    return d


def hx(b):
    return b.hex() if b else '-'


def zhex(z):
    return ('-%x' % -z) if z < 0 else ('%x' % z)


BASE_NOW = 1700000000 * 10**9


def pairwise(rng, dims, extra_random=0):
    """Greedy pairwise covering array over dims (list of lists)."""
    need = set()
    for (i, a), (j, b) in itertools.combinations(enumerate(dims), 2):
        for x in range(len(a)):
            for y in range(len(b)):
                need.add((i, x, j, y))
    rows = []
    while need:
        best, bestc = None, -1
        for _ in range(40):
            cand = [rng.randrange(len(d)) for d in dims]
            # seed the candidate with one uncovered pair
            (i, x, j, y) = rng.choice(sorted(need)) if len(need) < 400 else next(iter(need))
            cand[i], cand[j] = x, y
            c = sum(1 for (i2, j2) in itertools.combinations(range(len(dims)), 2) if (i2, cand[i2], j2, cand[j2]) in need)
            if c > bestc:
                best, bestc = cand, c
        rows.append(best)
        for (i2, j2) in itertools.combinations(range(len(dims)), 2):
            need.discard((i2, best[i2], j2, best[j2]))
    for _ in range(extra_random):
        rows.append([rng.randrange(len(d)) for d in dims])
    return [[d[k] for d, k in zip(dims, r)] for r in rows]


def hs_line(cid, c):
    return ' '.join([cid, 'HS', c['transport'], c['browser'], c['enc'], str(c['sid']), '1' if c['unordered'] else '0',
                     hx(c['name'].encode()), hx(c['uid']), hx(c['method']), str(c['snow']), str(c['cnow']), c['seed']])


def gen_cases(ctx):
    rng = ctx.rng
    q = ctx.quick()
    cases = []   # (id, go_line, meta)
    names = ['www.example.com', 'random', 'RaNdOm', 'a.b', 'xn--bcher-kva.example', 'cdn-' + 'x' * 40 + '.example.org']
    LONG = 'a' * 63 + '.' + 'b' * 63 + '.' + 'c' * 63 + '.' + 'd' * 57 + '.org'      # the longest server name DNS allows (253)
    names.append(LONG)
    uids = [bytes(range(16)), bytes(16), b'\xff' * 16, None]
    methods = [b'shadowsocks', b'openvpn', b'a', b'twelve_bytes', b'a\x00b', b'\xc3\xa9t\xc3\xa9', None]
    dims = [
        [('direct', 'chrome'), ('direct', 'firefox'), ('direct', 'safari'), ('cdn', 'chrome')],
        ['plain', 'aes-gcm', 'aes-256-gcm', 'aes-128-gcm', 'chacha20-poly1305'],
        [0, 1, 2**32 - 1, None],
        [False, True],
        names,
        [-179 * 10**9, 0, 179 * 10**9, None],
        uids,
        methods,
    ]
    rows = pairwise(rng, dims, extra_random=30 if q else 600)
    # the largest first flights: chrome's hello with the longest server name (its GREASE ECH payload has four lengths)
    rows += [(('direct', 'chrome'), 'aes-gcm', None, False, LONG, 0, None, b'shadowsocks') for _ in range(10 if q else 40)]
    for k, (tb, enc, sid, flag, name, off, uid, method) in enumerate(rows):
        snow = BASE_NOW + rng.randrange(10**9) + rng.randrange(10**7) * 10**9
        if off is None:
            # anything that is inside the window after truncation to seconds
            off = rng.randrange(-179 * 10**9, 180 * 10**9)
        c = dict(kind='H', transport=tb[0], browser=tb[1], enc=enc, sid=rng.randrange(2**32) if sid is None else sid,
                 unordered=flag, name=name, uid=bytes(rng.randrange(256) for _ in range(16)) if uid is None else uid,
                 method=bytes(rng.randrange(1, 256) for _ in range(rng.randrange(1, 13))) if method is None else method,
                 snow=snow, cnow=snow + off, offset=off, seed='h%d-%d' % (ctx.seed, k), indomain=True)
        cases.append(['h%d' % k, None, c])
    # the last sub-second of the window: the server clock is part-way through a second (fraction f > 0) and the client
    # is ahead by an offset in [180 s - f, 180 s) - strictly inside the window (C06_offset_suffices), so the property's
    # oracle applies in full: such a client MUST be served.  (A server that compares whole seconds rejects exactly these.)
    edge = []
    for f in (1, 500000000, 999999999):
        for off in (180 * 10**9 - f, 180 * 10**9 - 1, 180 * 10**9 - (f + 1) // 2):
            edge.append((f, off))
    for f, off in ((1, -179 * 10**9), (999999999, -179 * 10**9)):     # and the documented lower bound of the domain
        edge.append((f, off))
    for k, (f, off) in enumerate(edge):
        tb = [('direct', 'firefox'), ('cdn', 'chrome'), ('direct', 'chrome'), ('direct', 'safari')][k % 4]
        snow = BASE_NOW + (77 + k) * 10**9 + f
        c = dict(kind='H', transport=tb[0], browser=tb[1], enc=['aes-gcm', 'plain', 'chacha20-poly1305'][k % 3], sid=2000 + k, unordered=bool(k & 1),
                 name='www.example.com', uid=bytes(range(16)), method=b'shadowsocks', snow=snow, cnow=snow + off, offset=off,
                 seed='e%d-%d' % (ctx.seed, k), indomain=True, edge='server fraction %d ns, client ahead by %d ns' % (f, off))
        cases.append(['e%d' % k, None, c])
    # out-of-domain / outside-window handshakes: model vs implementation only
    xs = []
    for off in (-181 * 10**9, -180 * 10**9 - 1, -180 * 10**9, 180 * 10**9, 180 * 10**9 + 1, 181 * 10**9, -(179 * 10**9 + 999999999), 3600 * 10**9):
        xs.append(dict(offset=off))
    for m in (b'thirteen_byte', b'name\x00', b'\x00name', b'a_very_long_method_name_', b'\x00'):
        xs.append(dict(method=m))
    for u in (bytes(range(20)), bytes(range(8)), bytes(range(48)), bytes(range(60))):
        xs.append(dict(uid=u))
    for k, x in enumerate(xs):
        snow = BASE_NOW + 500000000 + k * 10**9
        tb = [('direct', 'firefox'), ('cdn', 'chrome'), ('direct', 'chrome'), ('direct', 'safari')][k % 4]
        c = dict(kind='X', transport=tb[0], browser=tb[1], enc='aes-gcm', sid=1000 + k, unordered=bool(k & 1), name='www.example.com',
                 uid=x.get('uid', bytes(range(16))), method=x.get('method', b'shadowsocks'), snow=snow,
                 cnow=snow + x.get('offset', 0), offset=x.get('offset', 0), seed='x%d-%d' % (ctx.seed, k), indomain=False)
        cases.append(['x%d' % k, None, c])
    # Gallina Diffie-Hellman for a sample (3 ladder evaluations each), table for the rest
    hs = [c for c in cases if c[2]['kind'] == 'H']
    ng = 5 if q else 40
    pick = set()
    for tr, br in (('direct', 'chrome'), ('direct', 'firefox'), ('direct', 'safari'), ('cdn', 'chrome')):
        for c in hs:
            if (c[2]['transport'], c[2]['browser']) == (tr, br):
                pick.add(c[0]); break
    for c in hs:
        if len(pick) >= ng:
            break
        pick.add(c[0])
    pick.add('x0')
    for c in cases:
        c[2]['dh'] = 'g' if c[0] in pick else 't'
        c[1] = hs_line(c[0], c[2])
    # several connections of one session (NumConn >= 2, reconnects): k connections with session id A and one with B on one
    # server, in sequence and overlapped, every transport; each must end up with the key of the session it joined
    k = 0
    for (tr, br) in (('direct', 'chrome'), ('direct', 'firefox'), ('direct', 'safari'), ('cdn', 'chrome')):
        for nconn in (1, 2, 3, 4):
            for mode in ('seq', 'par'):
                if q and not ((nconn + k) % 2 == 0 or nconn == 2):
                    k += 1
                    continue
                cid = 'm%d' % k
                enc = ['aes-gcm', 'plain', 'chacha20-poly1305', 'aes-128-gcm'][k % 4]
                cases.append([cid, '%s MS %s %s %s %d %s m%d-%d' % (cid, tr, br, enc, nconn, mode, ctx.seed, k),
                              dict(kind='M', transport=tr, browser=br, enc=enc, nconn=nconn, mode=mode, dh='-', name='www.example.com')])
                k += 1
    # the admin session (AdminUID, session id 0): the server's session object is private to dispatchConnection, so key agreement
    # is shown functionally - an API request sent through a multiplexer session built from the CLIENT's key must be answered
    for k, (tr, br) in enumerate((('direct', 'firefox'), ('cdn', 'chrome'), ('direct', 'chrome'), ('direct', 'safari'))[:2 if q else 4]):
        enc = ['aes-gcm', 'plain', 'chacha20-poly1305', 'aes-128-gcm'][k % 4]
        cases.append(['a%d' % k, 'a%d AS %s %s %s a%d-%d' % (k, tr, br, enc, ctx.seed, k),
                      dict(kind='A', transport=tr, browser=br, enc=enc, dh='-', name='www.example.com')])
    # forged first packets: ephemeral value = a small-order X25519 input (or an encoding that is one only without the
    # bit-255 masking), block sealed by the sender under the all-zero key.  Not a handshake of any configured client:
    # only the two server-side models (this one and Model/Hello.v of C07) are compared with the real parser + decryptor
    from props.c09 import FORGE_POINTS
    fpts = FORGE_POINTS if not q else [pt for pt in FORGE_POINTS if pt[0] in ('zero', 'one', 'order8a', 'order8b', 'p-1|bit255', 'p', 'p+1+p')]
    k = 0
    for tr, br in (('direct', 'firefox'), ('cdn', 'chrome')):
        for pn, u in fpts:
            cid = 'f%d' % k
            cases.append([cid, '%s FP %s %s %s %s f%d-%d' % (cid, tr, br, u.hex(), '00' * 32, ctx.seed, k),
                          dict(kind='F', transport=tr, browser=br, point=pn, u=u.hex(), dh='g', name='www.example.com')])
            k += 1
    # decryptClientInfo on crafted plaintexts: window edges to the nanosecond, wraps, flag/method/reserved variants
    tol = consts()['server_timestampTolerance_ns']
    nd = 400 if q else 20000
    for k in range(nd):
        r = rng.random()
        sec = 1700000000 + rng.randrange(-10**8, 10**8)
        nsec = rng.choice([0, 1, 999999999, rng.randrange(10**9)])
        now = sec * 10**9 + nsec
        if r < 0.45:       # exactly around an edge: ts*1e9 - now close to +-tol
            side = rng.choice([-1, 1])
            want = now + side * tol + rng.choice([-2 * 10**9, -10**9, -1, 0, 1, 10**9, 2 * 10**9])
            ts = want // 10**9 + rng.choice([-1, 0, 0, 1])
        elif r < 0.7:
            ts = sec + rng.randrange(-400, 400)
        elif r < 0.85:
            ts = rng.choice([0, 1, 2**31, 2**32, 2**62 - 1, 2**62, 2**63 - 1, 2**63, 2**63 + 5, 2**64 - 1, 2**64 - 200, 2**63 - 62135596800, 2**63 - 62135596801])
            if rng.random() < 0.4:
                v = ts - 2**64 if ts >= 2**63 else ts
                if abs(v) < 2**55:
                    sec = v + rng.randrange(-181, 182); now = sec * 10**9 + nsec
        else:
            ts = rng.randrange(2**64)
        ts %= 2**64
        uid = bytes(rng.randrange(256) for _ in range(16))
        mf = rng.choice([b'shadowsocks\x00', b'\x00' * 12, b'\x00\x00ab\x00\x00cd\x00\x00\x00\x00', b'abcdefghijkl', b'a' + b'\x00' * 11,
                         b'\x00' * 11 + b'z', bytes(rng.randrange(256) for _ in range(12))])
        flagb = rng.choice([0, 1, 2, 3, 0x80, 0xfe, 0xff, rng.randrange(256)])
        rsv = rng.choice([b'\x00' * 6, bytes(rng.randrange(256) for _ in range(6))])
        pt = uid + mf + bytes([rng.randrange(256)]) + ts.to_bytes(8, 'big') + rng.choice([0, 1, 2**32 - 1, rng.randrange(2**32)]).to_bytes(4, 'big') + bytes([flagb]) + rsv
        assert len(pt) == 48
        cases.append(['d%d' % k, 'd%d D %s %d %d' % (k, pt.hex(), sec, nsec),
                      dict(kind='D', pt=pt.hex(), now=now, ts=ts, delta=(ts if ts < 2**63 else ts - 2**64) * 10**9 - now)])
    return cases


def kv(line):
    d = {}
    for tok in line.split(' '):
        if '=' in tok:
            k, v = tok.split('=', 1)
            d[k] = v
    return d


def run_impl(ctx, lines, tag):
    inp = '%s/%s.in' % (ctx.work, tag)
    out = '%s/%s.go.out' % (ctx.work, tag)
    open(inp, 'w').write('\n'.join(lines) + '\n')
    rc, log, dt = vlib.go_test(ctx, 'server', 'TestVerifC06', files=['c06_test.go', 'c06_rig_test.go'],
                               env=dict(VERIF_IN=inp, VERIF_OUT=out), timeout=1500)
    return rc, log, vlib.read_lines_by_id(out), dt


def model_line(cid, c, io):
    if c['kind'] == 'D':
        return '%s D %s %s' % (cid, c['pt'], zhex(c['now']))
    g = kv(io)
    if c['kind'] == 'A':
        return None
    if c['kind'] == 'M':
        # arrival order = index order; the first connection of a session id brings the key the server session holds
        # (observed), the later ones a key of their own that must NOT show up anywhere
        seen, conns = set(), []
        for i in range(int(g.get('n', 0))):
            sid = g['sid%d' % i]
            name = 'A' if sid == 'a0a0' else 'B'
            if sid not in seen and g.get('skey' + name, '-') != '-':
                fresh = g['skey' + name]
            else:
                fresh = '%02x' % (0xf0 + i) * 32
            seen.add(sid)
            conns.append('%s:%s' % (sid, fresh))
        return '%s MS %s' % (cid, ','.join(conns)) if conns else None
    if c['kind'] == 'F':
        if 'fp' not in g:
            return None
        return '%s FP %s %s %s %s' % (cid, g['tr'], g['spv'], zhex(int(g['snow'])), g['fp'])
    if 'fp' not in g:
        return None
    tr = g['tr']
    name = c['name']
    if name.lower() == 'random':
        name = ''      # filled from the hello itself: see below
    enc = consts()[ENC_NAMES[c['enc']]]
    return ' '.join([cid, 'HS', tr, c['dh'], g['spv'], g['ephpv'], g['spub'], g['epub'], g['ss'], zhex(c['snow']), '%x' % int(g['ts']),
                     g['fp'], g['reply'], g['skey'], hx(c['uid']), hx(c['method']), '%x' % enc, '%x' % c['sid'],
                     '1' if c['unordered'] else '0', hx(sni_of(g['fp']) if c['name'].lower() == 'random' and tr == 'tls' else c['name'].encode())])


def sni_of(fp_hex):
    """Server name of a ClientHello (python side, for the 'random' configuration): first server_name extension."""
    try:
        b = bytes.fromhex(fp_hex)
        p = 5 + 4 + 2 + 32
        p += 1 + b[p]
        p += 2 + int.from_bytes(b[p:p + 2], 'big')
        p += 1 + b[p]
        end = p + 2 + int.from_bytes(b[p:p + 2], 'big')
        p += 2
        while p < end:
            t = int.from_bytes(b[p:p + 2], 'big'); ln = int.from_bytes(b[p + 2:p + 4], 'big')
            if t == 0:
                return b[p + 9:p + 4 + ln]
            p += 4 + ln
    except Exception:
        pass
    return b''


RANDOM_NAME = re.compile(rb'[a-z]{3,12}\.(com|net|org|it|fr|me|ru|cn|es|tr|top|xyz|info)')


def run_model(ctx, lines, tag, par=4):
    chunks = [lines[i::par] for i in range(par)]
    res = {}
    errs = []

    def one(i):
        inp = '%s/%s.model%d.in' % (ctx.work, tag, i)
        out = '%s/%s.model%d.out' % (ctx.work, tag, i)
        open(inp, 'w').write('\n'.join(chunks[i]) + '\n')
        rc, err = vlib.run_model(MOD, inp, out)
        return rc, err, vlib.read_lines_by_id(out)
    with concurrent.futures.ThreadPoolExecutor(par) as ex:
        for rc, err, d in ex.map(one, range(par)):
            res.update(d)
            if rc != 0:
                errs.append('rc=%s %s' % (rc, err[-1500:]))
    return errs, res


def oracle(c, g):
    """Property text: the server recovers exactly the configured UID, method, encryption method, session id and flag,
    and both ends hold the same 32-byte session key.  c = configured, g = what the implementation did."""
    if c['kind'] == 'A':
        if g.get('ok') != '1':
            return 'admin handshake failed for a correctly configured admin client: %s' % g.get('cerr', g.get('note', g))
        if not bytes.fromhex(g['api'] if g.get('api', '-') != '-' else '').startswith(b'HTTP/1.'):
            return ('admin session: the two ends do not hold the same session key - an API request sent through a multiplexer session built '
                    'from the client\'s key %s.. got no HTTP answer (%s)' % (g.get('ckey', '?')[:16], g.get('api')))
        return None
    if c['kind'] == 'M':
        # property text: both ends end up with the same 32-byte session key - for EVERY connection of the session
        n = int(g.get('n', 0))
        for i in range(n):
            name = 'A' if g['sid%d' % i] == 'a0a0' else 'B'
            if g.get('ok%d' % i) != '1':
                return 'connection %d of %d (session %s, %s) of a correctly configured client was not served' % (i + 1, n, name, c['mode'])
            sk = g.get('skey' + name, '-')
            if sk == '-' or g['ckey%d' % i] != sk:
                first = [j for j in range(n) if g['sid%d' % j] == g['sid%d' % i]][0]
                return ('session keys differ on connection %d of %d (session id %s, %s; the first connection of that session is number %d): '
                        'client %s, server session %s' % (i + 1, n, g['sid%d' % i], c['mode'], first + 1, g['ckey%d' % i], sk))
        if n > 1 and g.get('skeyA') == g.get('skeyB'):
            return 'two different session ids of one user share the session key %s' % g.get('skeyA')
        if g.get('redir') != '0':
            return 'server redirected a connection of a correctly configured client'
        return None
    if c['kind'] != 'H':
        return None
    enc = consts()[ENC_NAMES[c['enc']]]
    want = 'A:%s:%s:%x:%x:%s' % (hx(c['uid']), hx(c['method']), enc, c['sid'], '1' if c['unordered'] else '0')
    if g.get('ok') != '1':
        return 'handshake failed for a correctly configured client whose clock offset %d ns is strictly inside the +-180 s window (server clock %d ns, client clock %d ns): %s' % (
            c['offset'], c['snow'], c['cnow'], g.get('cerr', g.get('S', g)))
    if g.get('S') != want:
        return 'server recovered %s, client was configured with %s' % (g.get('S'), want)
    if g.get('skey', '-') == '-' or len(g['skey']) != 64:
        return 'server holds no session for (uid, sid) after a successful handshake'
    if g.get('ckey') != g.get('skey'):
        return 'session keys differ: client %s server %s' % (g.get('ckey'), g.get('skey'))
    if g.get('sun') != ('1' if c['unordered'] else '0'):
        return 'server session unordered=%s, configured %s' % (g.get('sun'), c['unordered'])
    if g.get('redir') != '0':
        return 'server redirected the connection of a correctly configured client'
    return None


def compare(c, g, mo):
    """model vs implementation on the projected observables; returns list of differences"""
    m = kv(mo)
    if c['kind'] == 'D':
        return [] if m.get('S') == g.get('S') else ['unpack: model %s implementation %s' % (m.get('S'), g.get('S'))]
    if c['kind'] == 'M':
        want = ','.join(g['ckey%d' % i] for i in range(int(g.get('n', 0))))
        d = [] if m.get('keys') == want else ['session key carried by each reply: model (Model/SessionKey.v serve_keys) %s, clients obtained %s' % (m.get('keys'), want)]
        tb = dict(x.split(':') for x in m.get('table', '').split(',') if ':' in x)
        for name, sid in (('A', 'a0a0'), ('B', 'b0b0')):
            if sid in tb and tb[sid] != g.get('skey' + name):
                d.append('session table: model %s -> %s, server session %s' % (sid, tb[sid], g.get('skey' + name)))
        return d
    if c['kind'] == 'F':
        d = [] if m.get('S') == g.get('S') else ['server_process on a forged first packet (ephemeral value %s = %s, block sealed under the all-zero key): model %s implementation %s'
                                                 % (c['point'], c['u'], m.get('S'), g.get('S'))]
        if (m.get('S') == 'R:dh') != (g.get('x25519err') == '1'):
            d.append('X25519 on %s: Gallina ladder %s, Go error=%s' % (c['point'], m.get('S'), g.get('x25519err')))
        return d
    d = []
    if m.get('S') != g.get('S'):
        d.append('server_process: model %s implementation %s' % (m.get('S'), g.get('S')))
    if g.get('pt', '-') != '-' and m.get('PT') != g.get('pt'):
        d.append('pack: model %s implementation %s' % (m.get('PT'), g.get('pt')))
    if m.get('PL') != '1':
        d.append('client payload (ephemeral public key, sealed block) of the model differs from the fields of the real first packet: PL=%s' % m.get('PL'))
    if g.get('ok') == '1':
        if m.get('F') != g.get('ckey'):
            d.append('client_finish on the real reply: model %s implementation %s' % (m.get('F'), g.get('ckey')))
        if m.get('RP') != '1':
            d.append('server_reply: model bytes differ from the real reply (RP=%s)' % m.get('RP'))
    if g.get('tr') == 'tls' and m.get('W') != '1' and c.get('indomain'):
        d.append('real ClientHello does not satisfy wf_client_hello with the configured server name')
    if g.get('dhc') != '1' or g.get('seenpub') != '1':
        d.append('harness: shared secrets of the two ends differ or ephemeral key not the predicted one (dhc=%s seenpub=%s)' % (g.get('dhc'), g.get('seenpub')))
    return d


def run_all(ctx, cases, tag):
    rc, log, impl, dt = run_impl(ctx, [c[1] for c in cases], tag)
    mlines = []
    for cid, line, c in cases:
        io = impl.get(cid)
        if io is None:
            continue
        ml = model_line(cid, c, io)
        if ml:
            mlines.append(ml)
    merrs, model = run_model(ctx, mlines, tag)
    return rc, log, impl, merrs, model, dt



def coq_bytes(hexs):
    b = bytes.fromhex(hexs) if hexs not in ('-', '') else b''
    return '[' + ';'.join(str(x) for x in b) + ']%N'


def vm_sample(ctx, cases, impl, model):
    """Thorough tier: evaluate the model on a few real packets INSIDE Coq (vm_compute), so that extraction is not the
    only execution path.  Returns list of (what, detail) problems."""
    picks = []
    for cid, line, c in cases:
        if c['kind'] == 'H' and c.get('dh') == 'g' and cid in impl and cid in model:
            picks.append((cid, c, kv(impl[cid]), kv(model[cid])))
        if len(picks) >= 3:
            break
    if not picks:
        return []
    src = ['From Coq Require Import NArith ZArith List.', 'From Cloak Require Import Model.HelloGrammar Model.Auth.',
           'Import ListNotations.', 'Definition show (r : sres) : option (list N * list N * N * N * bool) :=',
           '  match r with Accept i _ _ => Some (i_uid i, i_method i, i_enc i, i_sid i, i_unordered i) | _ => None end.']
    want = []
    for n, (cid, c, g, m) in enumerate(picks):
        f = 'x_server_process_tls' if g['tr'] == 'tls' else 'x_server_process_ws'
        src.append('Definition r%d := Eval vm_compute in show (%s dh_x25519 %s %s %d%%Z).' % (n, f, coq_bytes(g['fp']), coq_bytes(g['spv']), c['snow']))
        src.append('Print r%d.' % n)
        want.append((cid, g['S']))
    path = '%s/vmsample.v' % ctx.work
    open(path, 'w').write('\n'.join(src) + '\n')
    rc, out, dt = vlib.sh(['coqc', '-Q', vlib.COQ, 'Cloak', '-o', path + 'o', path], cwd=ctx.work, timeout=900)
    if rc != 0:
        return [('vm_compute sample of the C06 model failed to evaluate', out[-1500:])]
    probs = []
    flat = re.sub(r'\s+', ' ', out).replace('%N', '')
    for n, (cid, s_go) in enumerate(want):
        mm = re.search(r'r%d = Some \(\[([0-9; ]*)\], \[([0-9; ]*)\], (\d+), (\d+), (true|false)\)' % n, flat)
        if not mm:
            probs.append(('vm_compute sample: model inside Coq did not accept case %s' % cid, flat[:600]))
            continue
        tohex = lambda t: hx(bytes(int(x) for x in t.replace(' ', '').split(';') if x))
        got = 'A:%s:%s:%x:%x:%s' % (tohex(mm.group(1)), tohex(mm.group(2)), int(mm.group(3)), int(mm.group(4)), '1' if mm.group(5) == 'true' else '0')
        if got != s_go:
            probs.append(('vm_compute sample: model inside Coq says %s, implementation %s (case %s)' % (got, s_go, cid), ''))
    ctx.notes.append('vm_compute sample: %d real first packets processed by the model inside Coq (Gallina X25519 + AES-GCM) in %.0f s' % (len(want), dt))
    return probs


def correspondence(ctx, verdict, pr):
    res = dict(broken=[])
    cases = []
    cdir = vlib.V + '/corpus/C06'
    if os.path.isdir(cdir):
        for fn in sorted(os.listdir(cdir)):
            c = json.load(open(os.path.join(cdir, fn)))
            m = c['meta']
            for k in ('uid', 'method'):
                if k in m and isinstance(m[k], str):
                    m[k] = bytes.fromhex(m[k])
            cases.append([c['id'], c['line'], m])
    ncorpus = len(cases)
    cases += gen_cases(ctx)
    rc, log, impl, merrs, model, dt = run_all(ctx, cases, 'cases')
    if rc != 0:
        res['broken'].append(('Go driver TestVerifC06 failed to build or run', log[-3000:]))
    for e in merrs:
        res['broken'].append(('extracted model c06 failed', e))
    mism, orc_fail, kinds, distinct = [], 0, [], set()
    missing = 0
    for cid, line, c in cases:
        io = impl.get(cid)
        if io is None:
            missing += 1
            continue
        g = kv(io)
        if 'panic' in g or 'cfgerr' in g:
            mism.append((cid, line, io, 'driver: ' + io[:300]))
            continue
        if c['kind'] == 'D':
            kinds.append('D/' + g.get('S', '?')[:8].split(':')[0] + ('/edge' if abs(abs(c['delta']) - 180 * 10**9) <= 2 * 10**9 else ''))
        elif c['kind'] == 'F':
            kinds.append('F/%s/%s' % (c['transport'], g.get('S', '?')))
        elif c['kind'] == 'A':
            kinds.append('A/%s/%s' % (c['transport'], 'answered' if g.get('api', '-') != '-' else 'silent'))
        elif c['kind'] == 'M':
            kinds.append('M/%s/%s/k=%d/%s' % (c['transport'], c['browser'] if c['transport'] == 'direct' else '-', c['nconn'], c['mode']))
        else:
            kinds.append('%s/%s/%s/%s' % (c['kind'], c['transport'], c['browser'] if c['transport'] == 'direct' else '-', c['dh']))
            if c['kind'] == 'H' and g.get('ok') == '1':
                distinct.add((c['transport'], c['browser'], c['enc'], c['sid'], c['unordered'], c['name'], c['offset'], hx(c['uid']), hx(c['method'])))
            if c['name'].lower() == 'random' and g.get('tr') == 'tls':
                n = sni_of(g['fp'])
                if not RANDOM_NAME.fullmatch(n):
                    mism.append((cid, line, io, 'server name %r generated for "random" is not label.tld' % n))
        msg = oracle(c, g)
        if msg:
            orc_fail += 1
            if orc_fail <= 2:
                sig = 'C06:%s:%s:%s' % (c['transport'], c['browser'], msg.split(':')[0].split(',')[0][:40])
                verdict.oracle_failure(sig, 'C06 oracle: ' + msg,
                                       dict(case=line, meta=dict(c, **{k: hx(c[k]) for k in ('uid', 'method') if k in c}), implementation=io[:4000],
                                            model=model.get(cid),
                                            how='python3 tools/check.py C06 --replay <this file>  (re-runs the handshake on the real code)'))
        mo = model.get(cid)
        if mo is None and c['kind'] == 'A':
            continue          # functional check only: no model line
        if mo is None:
            if not merrs:
                mism.append((cid, line, io, 'model printed nothing for this case'))
            continue
        diffs = compare(c, g, mo)
        if diffs:
            mism.append((cid, line, io, '; '.join(diffs) + '\nmodel: ' + mo[:600]))
    if missing and rc == 0:
        res['broken'].append(('Go driver produced no output for %d cases' % missing, ''))
    if mism and rc == 0:
        cid, line, io, why = min(mism, key=lambda m: len(m[1]))
        res['broken'].append(('model Auth.v/HelloGrammar.v vs client+server handshake code: %d of %d cases differ' % (len(mism), len(cases)),
                              'smallest differing case: %s\n%s\nimplementation: %s' % (line, why, io[:1500])))
        ctx.mismatch_cases = [(m[0], m[1]) for m in mism[:20]]
    if not ctx.quick() and rc == 0 and not merrs:
        res['broken'] += vm_sample(ctx, cases, impl, model)
    nh = sum(1 for c in cases if c[2]['kind'] == 'H')
    verdict.cov.update(
        evaluations=len(cases), distinct_nontrivial=len(distinct),
        rule='pairwise cover of {direct x 3 browser signatures, cdn} x 5 encryption-method names x sid {0,1,2^32-1,random} x flag x 6 server names '
             '(incl. random) x clock offsets {-179 s, 0, +179 s, random inside} x UIDs x method names (1..12 bytes), plus 11 in-domain handshakes at the '
             'edges of the window (server clock 1 ns / 0.5 s / 0.999999999 s into a second, client ahead by 180 s minus at most that fraction; -179 s), plus out-of-domain handshakes '
             '(offsets at and beyond +-180 s, 13-byte / NUL-edged names, UIDs of 8/20/48/60 bytes) and decryptClientInfo on crafted plaintexts (window '
             'edges to the nanosecond, int64 wraps, flag/reserved variants), sessions of k = 1..4 connections presenting the same (UID, session id) plus one '
             'connection with another id on one server, in sequence and overlapped, on every transport (each connection\'s client key must equal the key of the server session it joined), and forged first packets whose ephemeral value is a small-order X25519 '
             'input with the block sealed under the all-zero key, both transports (server side only: model and code must both reject at the key agreement). distinct_nontrivial = distinct in-domain configurations whose real handshake completed',
        samples=[c[1][:300] for c in (cases[ncorpus], cases[ncorpus + nh // 2], cases[-1])],
        traces_validated_against_impl=len(impl), mismatches=len(mism), oracle_failures=orc_fail,
        gallina_x25519_handshakes=sum(1 for c in cases if c[2].get('dh') == 'g'),
        input_distribution=vlib.summarize_dist(kinds), corpus_cases=ncorpus, go_seconds=round(dt, 1), exhaustive=False)
    return res


def replay(ctx, verdict):
    r = ctx.replay
    line = r.get('case')
    if not line:
        print(json.dumps(r, indent=1)); return 0
    meta = r['meta']
    for k in ('uid', 'method'):
        if isinstance(meta.get(k), str):
            meta[k] = bytes.fromhex(meta[k]) if meta[k] != '-' else b''
    cases = [[line.split()[0], line, meta]]
    rc, log, impl, merrs, model, dt = run_all(ctx, cases, 'replay')
    cid = cases[0][0]
    print('implementation:', (impl.get(cid) or log[-2000:])[:3000])
    print('model:         ', model.get(cid))
    msg = oracle(meta, kv(impl.get(cid) or ''))
    print('oracle:', msg)
    return 1 if msg else 0


MANIFEST = dict(
    technique='Coq proofs over all inputs about hand-written models of both ends of the handshake (plaintext layout, window, ClientHello field '
              'placement, ServerHello offsets, WebSocket variant), generic in X25519 and the AEAD; models tied to the code by differential execution '
              'of real handshakes (extracted OCaml model incl. Gallina X25519 + AES-GCM vs in-package Go driver)',
    level_text='C06_plaintext_roundtrip, C06_window, C06_agreement_tls/_ws (and their AES-GCM instances) are proved in Coq for every 16-byte UID, '
               'every method name of 1..12 bytes without NUL at either end, every method byte, session id, flag, clock pair inside the window, '
               'ephemeral key, nonce, session key, certificate filler and every well-formed ClientHello carrying the three fields; the reply offsets '
               'buf[6:38]++buf[84:116] are proved to hit nonce++encrypted key. Commutativity of X25519 is a hypothesis (dh_comm). On every run ~150 '
               'real handshakes (3 browser signatures, CDN, all cipher names, edge session ids, server names incl. random, clock offsets) are executed '
               'and compared with the model on: server-side ClientInfo, the sealed plaintext, the client payload, the server reply bytes, both session keys.',
    level_note='Trusted: Coq kernel; extraction; dh_comm (validated against Go on every handshake, RFC 7748 vectors in Coq); uTLS/net/http/gorilla as '
               'black boxes (real hellos are shown to satisfy wf_client_hello by correspondence only).',
    design_ref='DESIGN.md section 6, C06')


# generated obligation of the front door (Proofs/AtomFront.v): every connection's first packet, parsed hello and reply are
# values of that connection alone - no byte buffer at package level, no pooled object (or a view of it) used after its
# Put, no goroutine sharing a buffer with its spawner
TRUSTED = list(TRUSTED) + ['generated obligations Proofs/AtomFront.v about coq/Gen/Atomicity.v (tools/lockscan, go/ast: package-level variables with the kind of their type, sync.Pool.Put sites with the later mentions of the object or of a local view of its memory - slicings, dereferences, appends, local function literals that mention it, results handed out by a function whose Put is deferred -, variables shared by go statements); re-proved on every run, in a private re-generated copy under VERIF_EXTRA_OVERLAY']
MANIFEST = dict(MANIFEST, level_note=MANIFEST.get('level_note', '') + ' Generated obligation Proofs/AtomFront.v (re-proved about the source on every run): in the front-door code no byte buffer lives at package level, no pooled object or local view of it is used after its Put, no goroutine shares a buffer with its spawner - what lets the models treat a connection\'s first packet, parsed hello and reply as values of that connection alone.')


# ---- client side of session establishment: Model/Connector.v vs the real client.MakeSession (harness/server/connector_test.go)
def connector(ctx, verdict):
    import vlib
    cases = [('chrome', 1, 'o'), ('firefox', 1, 'o'), ('safari', 1, 'o'), ('chrome', 1, 'ho'), ('chrome', 1, 'do'), ('firefox', 1, 'dho'),
             ('chrome', 3, 'hhhooo'), ('safari', 2, 'ddoo'), ('chrome', 4, 'oooo'), ('firefox', 2, 'hhoo')]
    if not ctx.quick():
        cases += [('chrome', 1, 'hdho'), ('safari', 1, 'hhdo'), ('chrome', 8, 'dddddddd' + 'oooooooo'), ('chrome', 2, 'hhoo')]
    lines, mlines = [], []
    for i, (b, n, sc) in enumerate(cases):
        lines.append('k%d K %s %d %s' % (i, b, n, sc))
        per = [sc] if n == 1 else [sc[0] + 'o'] * n if len(sc) == 2 * n else ['o'] * n
        mlines.append('k%d K 1 %s %s' % (i, b[0], '/'.join(per)))
    inp, minp, out, mout = ['%s/connector.%s' % (ctx.work, x) for x in ('in', 'min', 'go.out', 'model.out')]
    open(inp, 'w').write('\n'.join(lines) + '\n'); open(minp, 'w').write('\n'.join(mlines) + '\n')
    rc, log, dt = vlib.go_test(ctx, 'server', 'TestVerifConnector', files=['connector_test.go', 'c06_rig_test.go', 'c10_test.go'],
                               env=dict(VERIF_IN=inp, VERIF_OUT=out), timeout=600, util=False)
    got = vlib.read_lines_by_id(out)
    broken = []
    if rc != 0 or len(got) < len(cases):
        broken.append(('Go driver TestVerifConnector failed rc=%d' % rc, log[-3000:]))
    mrc, merr = vlib.run_model('connector', minp, mout)
    mod = vlib.read_lines_by_id(mout)
    if mrc != 0:
        broken.append(('connector model failed rc=%d' % mrc, merr[-2000:]))

    def cls(h):
        if h == '-':
            return '-'
        n = int(h)
        return 'c' if n > 1500 else 'f' if n > 590 else 's'
    mism, fails = [], 0
    for i, (b, n, sc) in enumerate(cases):
        g = got.get('k%d' % i)
        if g is None:
            continue
        o = dict(x.split('=', 1) for x in g.split())
        per = mlines[i].split()[4].split('/')
        max_sleeps = max(s.count('d') + s.count('h') for s in per)
        why = None
        if o['est'] != '1':
            why = 'client.MakeSession did not return although every connection attempt eventually succeeds'
        elif o['echo'] != 'ok':
            why = 'the session MakeSession returned does not carry data to the server\'s session and back (key or connection set wrong)'
        elif int(o['nconn_server']) != n:
            why = 'the server\'s session was given %s connections, NumConn is %d' % (o['nconn_server'], n)
        elif int(o['elapsed_ms']) < 3000 * max_sleeps - 100:
            why = 'a retry was made without the pause: %s ms for %d consecutive failed attempts of one goroutine' % (o['elapsed_ms'], max_sleeps)
        if why:
            fails += 1
            verdict.oracle_failure('connector:' + why[:50], 'C06 oracle (client.MakeSession, browser %s, NumConn %d, Dial outcomes "%s"): %s - observed %s' % (b, n, sc, why, g),
                                   dict(kind='connector', case=lines[i], observed=g, how='go test -run TestVerifConnector with harness/server/connector_test.go (VERIF_IN = the case line)'))
        m = mod.get('k%d' % i)
        if m is not None:
            ms = m.split()
            sigs = [x.split('=')[1] for x in ms if x.startswith('sig=')]
            want_dials = sum(int(x.split('=')[1]) for x in ms if x.startswith('dials='))
            # classes per attempt: a failed dial shows no hello
            want = sorted(('-' if s[j] == 'd' else sg[j]) for s, sg in zip(per, sigs) for j in range(len(s)))
            have = sorted(cls(h) for h in o['hellos'].split(','))
            if (n == 1 and [('-' if per[0][j] == 'd' else sigs[0][j]) for j in range(len(per[0]))] != [cls(h) for h in o['hellos'].split(',')]) \
                    or want != have or want_dials != int(o['dials']) or ms[0] != 'est=' + o['est']:
                mism.append(dict(case=lines[i], model=m, impl=g))
    if mism:
        import json
        broken.append(('model != implementation on client.MakeSession (%s)' % mism[0]['case'], json.dumps(mism[:3], indent=1)))
    verdict.cov['connector_cases'] = dict(cases=len(cases), answered=len(got), oracle_failures=fails, go_seconds=round(dt, 1))
    return broken


EXTRACT_FILES = ['Extract/C06', 'Extract/Connector']
TRUSTED = list(TRUSTED) + ['client side of session establishment: hand-written model coq/Model/Connector.v of client.MakeSession (per goroutine: create transport, dial, handshake, 3 s pause and retry, chrome -> firefox fallback after a failed handshake in direct mode, store key, hand over; session built from the key stored last, given every connection); the network (outcome of every attempt) is an input; correspondence: the real client.MakeSession against the real dispatcher through a dialer with scripted outcomes per Dial call (harness/server/connector_test.go), signatures recognised by the size of the first flight']
MANIFEST = dict(MANIFEST, level_text=MANIFEST['level_text'] + ' Client side of establishment (Model/Connector.v, any script of failing / succeeding attempts per goroutine): C06_connector_one_connection_per_goroutine, C06_connector_signatures, C06_connector_configured_signature_until_a_handshake_fails, C06_connector_session, C06_connector_session_key_is_the_servers (the session is built from a key a successful handshake returned - with C06_same_session_same_key: the server\'s).')
_corr_before_connector = correspondence
_replay_before_connector = replay


def correspondence(ctx, verdict, pr):
    res = _corr_before_connector(ctx, verdict, pr)
    res['broken'] += connector(ctx, verdict)
    return res


def replay(ctx, verdict):
    if ctx.replay.get('kind') == 'connector':
        import vlib, os
        inp, out = '%s/connector.in' % ctx.work, '%s/connector.out' % ctx.work
        open(inp, 'w').write(ctx.replay['case'] + '\n')
        rc, log, dt = vlib.go_test(ctx, 'server', 'TestVerifConnector', files=['connector_test.go', 'c06_rig_test.go', 'c10_test.go'], env=dict(VERIF_IN=inp, VERIF_OUT=out), timeout=600, util=False)
        print(open(out).read() if os.path.exists(out) else log[-1500:])
        return 0
    return _replay_before_connector(ctx, verdict)
