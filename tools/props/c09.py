"""C09 - unauthenticated peers see only the redirect target, byte for byte."""
import base64, json, os
import vlib

PROP_FILES = ['Properties/C09']
EXTRA_OBLIGATION_FILES = ['Proofs/AtomFront', 'Proofs/AtomReplay']
TRUSTED = [
    'Coq 8.16.1 kernel incl. vm_compute; theorems C09_*: Closed under the global context (X25519, AES-GCM and the net/http+base64 black box are universally quantified parameters of the decision model)',
    'hand-written models coq/Model/FirstPacket.v (connReadLine, readFirstPacket, goWeb as a relay), coq/Model/Hello.v (parseClientHello / parseExtensions / parseKeyShare with Go slice capacity semantics and explicit Panic outcome; unmarshalClientHello; unmarshalHidden), coq/Model/Dispatch.v (AuthFirstPacket + dispatchConnection decision)',
    'correspondence: real dispatchConnection driven in-package (harness/server/c09_test.go, c09_rig_test.go) between a scripted segmenting peer net.Conn and a scripted common.Dialer target, vs the extracted OCaml model (ExtrOcamlBasic only), ocaml/c09_driver.ml; AES-GCM is computed by the Gallina model (Model/Crypto/GCM.v), X25519 results and the decoded `hidden` header are taken from the Go run (tables)',
    'the 15 s first-packet deadline is emulated by the scripted connection: a Read with a deadline set on a stalled stream times out at once (no wall-clock wait); quiescence is detected exactly (every party parked in Read with nothing deliverable), not by sleeping',
    'net/http (ReadRequest), encoding/base64, gorilla/websocket, uTLS (ClientHello generation), common.Copy over a real TCP stack (half-close, RST) are black boxes sampled by the run',
]
ASSUMPTIONS = [
    'ordering window of goWeb (prefix replay before the relay starts): the harness owns the redirect target connection and parks the FIRST Write call on it until a second Write call arrives (served first) or every other goroutine of that connection (the dispatching goroutine and everything it started, read off runtime.Stack) has finished or is parked in a scripted Read; no sleep takes part in the decision. On the unchanged code no second writer exists before the prefix is written, so the schedule is the natural one',
    'exactly-one-outcome oracle: per connection the redirect target is dialled at most once (also after a session has ended), and when it is dialled the peer receives nothing but the target\'s bytes; scenarios: one per early exit of dispatchConnection (first-packet error with and without redirect, AuthFirstPacket error, unknown encryption byte, admin and proxy finishHandshake with a failing Write on the peer connection (direct transport), admin session ended by a hang-up, unknown proxy method, unauthorised UID; a refused GetSession is exercised by C07), dial failure and first-write failure of goWeb',
    'forged first packets (never a server byte): each of the 14 small-order X25519 encodings and the 5 unmasked variants as ephemeral value, block sealed under the all-zero key, direct and WebSocket transport',
    'a net.Conn delivers the bytes the peer sent in order, in arbitrary non-empty pieces, then EOF or silence (read_full_seg_flat proves the model independent of the segmentation)',
    'half-close (peer sends FIN after its request) and targets that close before having read everything are compared in relaxed form: target input and peer output must be prefixes (observation O2, DESIGN section 7) - not alarmed',
    'users whose GetSession is refused (session cap) are C15 matter; rates <= 0 (F8) are C18 matter: not generated here',
]

PV = '11' * 32
PV2 = '2b' * 32
ADMIN = 'bb' * 16
BYPASS = 'aa' * 16
DBUSER = 'cc' * 16
NOCREDIT = 'dd' * 16
EXPIRED = 'ee' * 16
UNKNOWN = '99' * 16
NOW_S = 1700000000
NOW = NOW_S * 10**9 + 123456789
FPS = 3000


def base_state(name='S0', used=()):
    return dict(state=name, pv=PV, admin=ADMIN, bypass=[BYPASS], book=['shadowsocks', 'openvpn'],
                users=[dict(uid=DBUSER, up=10**9, down=10**9, exp=NOW_S + 10**6, cap=5, uprate=10**7, downrate=10**7),
                       dict(uid=NOCREDIT, up=0, down=10**9, exp=NOW_S + 10**6, cap=5, uprate=10**7, downrate=10**7),
                       dict(uid=EXPIRED, up=10**9, down=10**9, exp=NOW_S - 1, cap=5, uprate=10**7, downrate=10**7)],
                used=list(used), active=[])


def zhex(v):
    return ('-%x' % -v) if v < 0 else ('%x' % v)


def hx(b):
    return b.hex() if b else '-'


def state_tokens(sp):
    def join(l, sep=','):
        return sep.join(l) if l else '-'
    db = ['%s:%s:%s:%s:%s' % (u['uid'], zhex(u['up']), zhex(u['down']), zhex(u['exp']), zhex(u['cap'] & 0xffffffff))
          for u in sp.get('users', [])] if not sp.get('nodb') else []
    act = ['%s:%d:%s' % (a['uid'], 1 if a['bypass'] else 0, '.'.join('%x' % s for s in a['sids']) or '-') for a in sp.get('active', [])]
    return 'pv=%s admin=%s bypass=%s book=%s used=%s active=%s db=%s' % (
        sp['pv'], sp.get('admin') or '-', join(sp.get('bypass', [])), join([n.encode().hex() for n in sp.get('book', [])]),
        join(sp.get('used', [])), join(act, ';'), join(db, ';'))


# ------------------------------------------------------------------------------------------ packets
GEN_VARIANTS = [
    # name, overrides, may_session
    ('ok_bypass', dict(uid=BYPASS), True),
    ('ok_dbuser', dict(uid=DBUSER, sid=7), True),
    ('bad_uid', dict(uid=UNKNOWN), False),
    ('no_credit', dict(uid=NOCREDIT), False),
    ('expired', dict(uid=EXPIRED), False),
    ('bad_method', dict(uid=BYPASS, method='nosuchmethod'), False),
    ('bad_enc', dict(uid=BYPASS, enc=9), False),
    ('late', dict(uid=BYPASS, ts=NOW_S - 1000), False),
    ('wrong_key', dict(uid=BYPASS, pv=PV2), False),
    ('ok_admin', dict(uid=ADMIN, sid=0), True),
]
# blocks a forger seals under the all-zero key for each small-order ephemeral value (never uses the server's public key)
def forge_specs():
    return [dict(id='seal_%s' % pn, kind='seal', point=pn, u=u.hex(), key='00' * 32, nonce=u[:12].hex(), uid=BYPASS, sid=3,
                 method='shadowsocks', enc=1, unordered=False, ts=NOW_S) for pn, u in FORGE_POINTS]
KINDS = [('tls', 'chrome'), ('tls', 'firefox'), ('tls', 'safari'), ('ws', 'chrome')]


def gen_specs(seed0):
    specs = []
    for ki, (kind, br) in enumerate(KINDS):
        for vi, (vn, ov, may) in enumerate(GEN_VARIANTS):
            g = dict(id='%s_%s_%s' % (kind, br, vn), kind=kind, browser=br, uid=BYPASS, sid=3, method='shadowsocks', enc=1,
                     unordered=False, ts=NOW_S, pv=PV, seed=seed0 * 1000 + ki * 50 + vi)
            g.update(ov)
            specs.append((g, may))
    return specs


def run_go(ctx, mode, lines, tag, test='TestVerifC09', files=('c09_test.go', 'c09_rig_test.go'), timeout=900):
    inp = '%s/%s.in' % (ctx.work, tag)
    out = '%s/%s.go.out' % (ctx.work, tag)
    open(inp, 'w').write('\n'.join(lines) + '\n')
    if os.path.exists(out):
        os.remove(out)
    rc, log, dt = vlib.go_test(ctx, 'server', test, files=list(files), env=dict(VERIF_IN=inp, VERIF_OUT=out, VERIF_MODE=mode),
                               timeout=timeout)
    return rc, log, vlib.read_lines_by_id(out), dt


def packet_random(kind, pkt):
    """the 32-byte ephemeral value of a genuine first packet (to build replay states)"""
    if kind == 'tls':
        return pkt[11:43]
    for ln in pkt.split(b'\r\n'):
        if ln.lower().startswith(b'hidden:'):
            return base64.b64decode(ln.split(b':', 1)[1].strip())[:32]
    return b''


def mask255(r):
    return r[:31] + bytes([r[31] & 0x7f]) if len(r) == 32 else r


# ------------------------------------------------------------------------------------------ forged first packets
# Ephemeral values for which X25519 yields the all-zero string whatever the private key (RFC 7748 section 6.1 /
# the blocklist every X25519 library documents): the neutral element, the point of order 2, the points of order 4
# on the curve (u = 1) and on the twist (u = -1), the two u-coordinates of the points of order 8, and their
# non-canonical encodings (u + p below 2^255; bit 255 set, which X25519 masks).  A sender who picks one of them does
# not need the server's public key to know the "shared secret" an implementation would use if it lost the error.
P25519 = 2**255 - 19
ORDER8A = int.from_bytes(bytes.fromhex('e0eb7a7c3b41b8ae1656e3faf19fc46ada098deb9c32b1fd866205165f49b800'), 'little')
ORDER8B = int.from_bytes(bytes.fromhex('5f9c95bca3508c24b1d0b1559c83ef5b04445cc4581c8e86d8224eddd09f1157'), 'little')
_LOW = [('zero', 0), ('one', 1), ('order8a', ORDER8A), ('order8b', ORDER8B), ('p-1', P25519 - 1), ('p', P25519), ('p+1', P25519 + 1)]
LOW_ORDER_POINTS = [(n, v.to_bytes(32, 'little')) for n, v in _LOW] + \
                   [(n + '|bit255', (v + 2**255).to_bytes(32, 'little')) for n, v in _LOW]
# encodings that are small-order points only for an implementation that does NOT mask bit 255 (u + p, 2p-1, 2p, 2p+1
# as 256-bit numbers); X25519 proper computes an ordinary secret for them - the forger cannot know it
UNMASKED_VARIANTS = [(n + '+p', ((v + P25519) % 2**256).to_bytes(32, 'little'))
                     for n, v in (('order8a', ORDER8A), ('order8b', ORDER8B), ('p-1', P25519 - 1), ('p', P25519), ('p+1', P25519 + 1))]
FORGE_POINTS = LOW_ORDER_POINTS + UNMASKED_VARIANTS


def py_x25519(k, u):
    """RFC 7748 X25519 on 32-byte strings (plain Python; used to record which forged points really are of small order)"""
    k = bytearray(k); k[0] &= 248; k[31] &= 127; k[31] |= 64
    kn = int.from_bytes(k, 'little')
    x1 = (int.from_bytes(u, 'little') & (2**255 - 1)) % P25519
    x2, z2, x3, z3, swap = 1, 0, x1, 1, 0
    for t in range(254, -1, -1):
        kt = (kn >> t) & 1
        if swap ^ kt:
            x2, x3, z2, z3 = x3, x2, z3, z2
        swap = kt
        A = (x2 + z2) % P25519; AA = A * A % P25519; B = (x2 - z2) % P25519; BB = B * B % P25519
        E = (AA - BB) % P25519; C = (x3 + z3) % P25519; D = (x3 - z3) % P25519
        DA = D * A % P25519; CB = C * B % P25519
        x3 = (DA + CB) ** 2 % P25519; z3 = x1 * (DA - CB) ** 2 % P25519
        x2 = AA * BB % P25519; z2 = E * (AA + 121665 * E) % P25519
    if swap:
        x2, x3, z2, z3 = x3, x2, z3, z2
    return (x2 * pow(z2, P25519 - 2, P25519) % P25519).to_bytes(32, 'little')


def tls_sealed_layout(pkt):
    """genuine, well-formed ClientHello record -> (offset of random, offset of the 32-byte session id, offset of the
    32-byte x25519 key share)"""
    p = 43
    assert pkt[p] == 32
    sid = p + 1
    p += 1 + 32
    p += 2 + ((pkt[p] << 8) | pkt[p + 1])
    p += 1 + pkt[p]
    end = p + 2 + ((pkt[p] << 8) | pkt[p + 1])
    p += 2
    while p < end:
        typ = (pkt[p] << 8) | pkt[p + 1]
        ln = (pkt[p + 2] << 8) | pkt[p + 3]
        if typ == 0x33:
            q, qe = p + 6, p + 4 + ln
            while q < qe:
                grp = (pkt[q] << 8) | pkt[q + 1]
                kl = (pkt[q + 2] << 8) | pkt[q + 3]
                if grp == 0x1d and kl == 32:
                    return 11, sid, q + 4
                q += 4 + kl
        p += 4 + ln
    raise ValueError('no x25519 key share')



def keyshare_last_and_cut(pkt, k):
    """genuine ClientHello record -> the same hello with key_share moved to the end of the extensions and the last k
    bytes of the record cut off; record / handshake / extensions / key_share-extension lengths are adjusted (the outer
    structure stays well formed), the lengths INSIDE key_share still promise a 32-byte x25519 value that is not there"""
    p = 43
    p += 1 + pkt[p]
    p += 2 + ((pkt[p] << 8) | pkt[p + 1])
    p += 1 + pkt[p]
    ext_len_at = p
    end = p + 2 + ((pkt[p] << 8) | pkt[p + 1])
    p += 2
    exts = []
    while p + 4 <= end:
        typ = (pkt[p] << 8) | pkt[p + 1]
        ln = (pkt[p + 2] << 8) | pkt[p + 3]
        exts.append((typ, bytes(pkt[p + 4:p + 4 + ln])))
        p += 4 + ln
    ks = [e for e in exts if e[0] == 0x33]
    if not ks or len(ks[0][1]) <= k:
        return None
    exts = [e for e in exts if e[0] != 0x33] + [(0x33, ks[0][1][:len(ks[0][1]) - k])]
    body = b''.join(bytes([t >> 8, t & 255, len(d) >> 8, len(d) & 255]) + d for t, d in exts)
    hs = bytes(pkt[9:ext_len_at]) + bytes([len(body) >> 8, len(body) & 255]) + body
    hl = len(hs)
    rec = bytes(pkt[5:6]) + bytes([(hl >> 16) & 255, (hl >> 8) & 255, hl & 255]) + hs
    return bytes(pkt[0:3]) + bytes([len(rec) >> 8, len(rec) & 255]) + rec


def forge_packet(kind, template, u, block):
    """a first packet shaped like `template` (a genuine one) carrying ephemeral value u and the 64-byte block"""
    assert len(u) == 32 and len(block) == 64
    if kind == 'tls':
        r, sid, ks = tls_sealed_layout(template)
        m = bytearray(template)
        m[r:r + 32] = u
        m[sid:sid + 32] = block[:32]
        m[ks:ks + 32] = block[32:]
        return bytes(m)
    out = []
    for ln in template.split(b'\r\n'):
        if ln.lower().startswith(b'hidden:'):
            ln = ln.split(b':', 1)[0] + b': ' + base64.b64encode(u + block)
        out.append(ln)
    return b'\r\n'.join(out)


# ------------------------------------------------------------------------------------------ property-text helpers
def py_complete(s):
    """Property text: has the peer sent 'a complete first record or request, or something unrecognisable'
    (incl. oversized)?  Written from the statement, independent of the Coq model."""
    if len(s) == 0:
        return False
    if s[0] == 0x16:
        if len(s) < 5:
            return False
        L = (s[3] << 8) | s[4]
        if L + 5 > FPS:
            return True          # cannot fit any first packet: unrecognisable as Cloak
        return len(s) >= 5 + L
    if s[0] == 0x47:
        # request head = lines terminated by LF, finished by an empty CRLF line
        pos = 1
        while pos < min(len(s), FPS):
            nl = s.find(b'\n', pos, FPS)
            if nl < 0:
                break
            if s[pos:nl + 1] == b'\r\n':
                return True
            pos = nl + 1
        return len(s) >= FPS     # over-long head
    return True


def segmentations(rng, s, quick):
    """list of (name, chunks)"""
    n = len(s)
    out = [('whole', [s])]
    if n > 1:
        out.append(('first-byte', [s[:1], s[1:]]))
    if n > 6:
        out.append(('header5', [s[:5], s[5:]]))
        k = min(n, 12)
        out.append(('bytewise-head', [s[i:i + 1] for i in range(k)] + ([s[k:]] if n > k else [])))
        cuts = sorted(set(rng.randrange(1, n) for _ in range(rng.choice([2, 3, 6]))))
        ch = [s[a:b] for a, b in zip([0] + cuts, cuts + [n])]
        out.append(('random', ch))
    if 1 < n <= 700 or (n > 1 and not quick and rng.random() < 0.2):
        out.append(('bytewise', [s[i:i + 1] for i in range(n)]))
    return out


REPLY_SMALL = b'HTTP/1.1 400 Bad Request\r\nContent-Length: 0\r\n\r\n'


def target_scripts(rng, slen):
    big = bytes((i * 7 + 3) % 251 for i in range(33000))
    return [
        ('after-all-stay', dict(dial='ok', reply=REPLY_SMALL, after=slen, tclose=False)),
        ('after-all-close', dict(dial='ok', reply=REPLY_SMALL, after=slen, tclose=True)),
        ('greeting-stay', dict(dial='ok', reply=b'220 hi\r\n', after=0, tclose=False)),
        ('silent', dict(dial='ok', reply=b'', after=10**7, tclose=False)),
        ('big-reply', dict(dial='ok', reply=big, after=slen, tclose=False)),
        ('early-close', dict(dial='ok', reply=b'bye', after=1, tclose=True)),
        ('dial-fail', dict(dial='fail', reply=b'', after=0, tclose=False)),
        ('write-fail', dict(dial='wfail', reply=b'x', after=0, tclose=False)),
    ]


def build_cases(ctx, packets):
    """packets: name -> (kind, bytes, may_session).  Returns (states, cases) where each case is a dict with
    the Go JSON fields plus 'meta'."""
    rng = ctx.rng
    quick = ctx.quick()
    states = {'S0': base_state('S0')}
    streams = []   # (category, stream bytes, state name, may_session)

    def add(cat, s, st='S0', may=False, pwfail=0):
        streams.append((cat, bytes(s), st, may, pwfail))

    seals = {n: p for n, (k, p, _) in packets.items() if k == 'seal'}
    packets = {n: v for n, v in packets.items() if v[0] != 'seal'}

    # A. every first-byte value
    for b in range(256):
        tail = bytes(rng.randrange(256) for _ in range(rng.choice([0, 1, 20])))
        if b == 0x16:
            tail = bytes([3, 1, 0, 2, 9, 9]) + tail
        if b == 0x47:
            tail = b'ET / HTTP/1.1\r\n\r\n' + tail
        add('first-byte', bytes([b]) + tail)
    # B. TLS records of every declared-length class
    for L in (0, 1, 2, 100, 2994, 2995, 2996, 2997, 16384, 65535):
        for typ in (b'\x16\x03\x01', b'\x16\x03\x03', b'\x16\xff\x00'):
            hdr = typ + bytes([L >> 8, L & 255])
            body = bytes(rng.randrange(256) for _ in range(min(L, 3200)))
            add('tls-record/complete-or-oversize', hdr + body)
            add('tls-record/with-trailing', hdr + body + b'\x17\x03\x03\x00\x01Z' * 3)
            if L > 0:
                add('tls-record/truncated', hdr + body[:min(L, 3200) - 1] if L + 5 <= FPS else hdr + body[:7])
        for k in range(1, 5):
            add('tls-record/short-header', b'\x16\x03\x01\x00\x05'[:k])
    add('empty', b'')
    # C. genuine hellos (rejected variants are relayed whole; accepted ones are sessions)
    for name, (kind, pkt, may) in sorted(packets.items()):
        add('genuine/' + name.split('_', 2)[2], pkt, may=may)
        if kind == 'ws' and may:
            continue     # bytes after the request head make gorilla refuse the upgrade of an AUTHENTICATED client: not C09
        add('genuine+trailing/' + name.split('_', 2)[2], pkt + b'\x14\x03\x03\x00\x01\x01' + bytes(rng.randrange(256) for _ in range(40)), may=may)
    # C2. forged hellos: every small-order ephemeral value (and the encodings that are small-order only without masking),
    #     block sealed under the all-zero key - the sender never used the server's public key: ordinary web traffic
    for tname in sorted(n for n in packets if n.endswith('ok_bypass') and (n.startswith('tls_firefox') or n.startswith('ws_'))):
        kind, tpl, _ = packets[tname]
        for sname, block in sorted(seals.items()):
            pn = sname[len('seal_'):]
            u = dict(FORGE_POINTS)[pn]
            add('forged/%s/%s' % (kind, pn), forge_packet(kind, tpl, u, block), may=False)
    # C3. the server's own reply cannot be written (peer reset the connection after its hello): direct transport
    #     (the WebSocket responder goes through net/http's hijack: an authenticated client whose upgrade fails is not C09)
    for name, (kind, pkt, may) in sorted(packets.items()):
        if kind == 'tls' and may:
            add('session-write-fails/' + name.split('_', 2)[2], pkt, may=True, pwfail=1)
        if kind == 'ws' and may:
            # WebSocket: write 1 is the 101 response of net/http + gorilla (black box), write 2 the 60-byte reply
            add('session-write-fails/ws-' + name.split('_', 2)[2], pkt, may=True, pwfail=2)
    # D. truncated / mutated / replayed Cloak hellos
    okpk = [(n, p) for n, p in sorted(packets.items()) if n.endswith('ok_bypass') or n.endswith('ok_dbuser')]
    for name, (kind, pkt, may) in okpk:
        for _ in range(6 if quick else 40):
            cut = rng.randrange(1, len(pkt))
            add('cloak/truncated', pkt[:cut], may=False)
        for _ in range(25 if quick else 300):
            m = bytearray(pkt)
            for _ in range(rng.choice([1, 1, 2, 5])):
                i = rng.randrange(len(m))
                m[i] = rng.randrange(256) if rng.random() < 0.5 else m[i] ^ (1 << rng.randrange(8))
            add('cloak/mutated', m, may=True)     # a mutation outside the sealed payload may still be a valid handshake
        # key_share as the LAST extension, promising more key bytes than the hello holds
        if kind == 'tls':
            for k in (1, 2, 16, 22, 31, 32, 33, 36):
                m = keyshare_last_and_cut(pkt, k)
                if m is not None:
                    # still the genuine hello if the x25519 value itself survived the cut (other groups follow it in
                    # chrome's key_share), or if the bytes cut off were zeros: the parser reads the promised key bytes
                    # from the zeroed first-packet buffer behind the hello (recorded observation)
                    p0 = keyshare_last_and_cut(pkt, 0)
                    zeros = p0 is not None and not any(p0[len(p0) - k:])
                    intact = False
                    if p0 is not None:
                        r_, sid_, ks_ = tls_sealed_layout(p0)
                        intact = ks_ + 32 <= len(m) and m[ks_:ks_ + 32] == p0[ks_:ks_ + 32]
                    add('cloak/keyshare-cut', m, may=bool(may and (zeros or intact)))
        # length fields specifically
        if kind == 'tls':
            for off in (3, 4, 6, 7, 8, 43, 76, 77):
                for d in (1, 255):
                    m = bytearray(pkt)
                    m[off] = (m[off] + d) & 255
                    add('cloak/length-field', m, may=True)
        r = mask255(packet_random(kind, pkt))
        sn = 'R_' + name
        states[sn] = base_state(sn, used=[r.hex()])
        add('cloak/replayed', pkt, st=sn, may=False)
        fl = bytearray(pkt)
        if kind == 'tls':
            fl[42] ^= 0x80       # bit 255 of the ephemeral value (F2): still the same cache entry
            add('cloak/replayed-bit255', fl, st=sn, may=False)
    # E. HTTP
    G = b'GET /chat HTTP/1.1\r\nHost: example.com\r\nUpgrade: websocket\r\nConnection: Upgrade\r\n'
    add('http/plain', G + b'\r\n')
    add('http/with-body', G + b'Content-Length: 5\r\n\r\nhello')
    add('http/bogus-hidden-badb64', G + b'hidden: !!!notbase64!!!\r\n\r\n')
    add('http/bogus-hidden-short', G + b'hidden: ' + base64.b64encode(b'x' * 40) + b'\r\n\r\n')
    add('http/bogus-hidden-96', G + b'hidden: ' + base64.b64encode(bytes(rng.randrange(256) for _ in range(96))) + b'\r\n\r\n')
    add('http/bogus-hidden-97', G + b'hidden: ' + base64.b64encode(bytes(rng.randrange(256) for _ in range(97))) + b'\r\n\r\n')
    add('http/bogus-hidden-lowpoint', G + b'hidden: ' + base64.b64encode(bytes(96)) + b'\r\n\r\n')
    add('http/garbage', b'GARBAGE\r\n\r\nmore')
    add('http/crlf-first', b'G\r\n' + b'rest of it')
    add('http/lf-only', b'GET / HTTP/1.1\nHost: x\n\n' + b'tail')
    add('http/lf-only-long', b'GET / HTTP/1.1\nHost: x\n\n' + b'y' * 3100)
    add('http/truncated-head', G)
    add('http/truncated-line', G + b'X-Partial: abc')
    for total in range(2990, 3011):
        # one request line making the stream `total` bytes long up to and including its LF, then the blank line
        line = b'GET /' + b'a' * (total - 7) + b'\r\n'
        assert len(line) == total
        add('http/long-line', line + b'\r\n' + b'after')
        add('http/long-line-unterminated', line[:-2])
    for total in (2996, 2997, 2998, 2999, 3000, 3001):
        head = G + b'X: ' + b'b' * (total - len(G) - 3 - 2 - 2) + b'\r\n' + b'\r\n'
        assert len(head) == total
        add('http/head-at-buffer-edge', head + b'BODY')
    # E2. the ordering window of goWeb: the peer has sent MORE than the prefix readFirstPacket consumed (1 / 5 / 3000 bytes)
    #     before the relay starts; the harness parks the first Write on the target connection (c09_rig_test.go) so that a
    #     relay started too early overtakes the replayed prefix.  The target must still see the peer's stream in order.
    tail = bytes((i * 11 + 5) % 253 for i in range(1500))
    add('relay-order/unrecognised-1', b'\x05' + tail)
    add('relay-order/unrecognised-1', b'SSH-2.0-OpenSSH_9.6\r\n' + tail[:300])
    add('relay-order/tls-oversize-5', b'\x16\x03\x03\x40\x00' + tail)
    add('relay-order/tls-oversize-5', b'\x16\x03\x01\xff\xff' + tail[:64])
    add('relay-order/http-overlong-3000', b'GET /' + b'a' * 3200 + b' HTTP/1.1\r\nHost: x\r\n\r\n' + tail[:200])
    add('relay-order/http-overlong-3000', b'GET / HTTP/1.1\r\nX-Pad: ' + b'p' * 2990 + tail[:100])
    # F. random streams
    for _ in range(60 if quick else 1500):
        n = rng.choice([1, 2, 5, 6, 50, 600, 2999, 3000, 3001, 4000])
        s = bytearray(rng.randrange(256) for _ in range(n))
        if rng.random() < 0.5:
            s[0] = rng.choice([0x16, 0x47])
        add('random', s)

    scripts_all = None
    cases = []
    cid = 0
    for cat, s, st, may, pwfail in streams:
        segs = segmentations(rng, s, quick)
        scripts = target_scripts(rng, len(s))
        heavy = cat.startswith(('genuine', 'http', 'tls-record/complete', 'cloak/replayed', 'relay-order')) or (cat.startswith('forged') and '/zero' in cat)
        combos = []
        if heavy or not quick:
            # all segmentations with rotating scripts/endings, plus the two failure scripts (plus, thorough: all scripts)
            for i, (sn, ch) in enumerate(segs):
                combos.append((sn, ch, scripts[(cid + i) % 6], 'stall' if (cid + i) % 4 else 'eof'))
            sn, ch = segs[cid % len(segs)]
            for sc in (scripts if not quick else scripts[6:]):
                combos.append((sn, ch, sc, 'stall'))
        else:
            for i in range(2):
                sn, ch = segs[(cid + i * (1 + len(segs) // 2)) % len(segs)]
                combos.append((sn, ch, scripts[(cid + i) % 6], 'stall' if (cid + i) % 4 else 'eof'))
            if cid % 7 == 0:
                sn, ch = segs[0]
                combos.append((sn, ch, scripts[6 + (cid // 7) % 2], 'stall'))
        for sn, ch, (scn, sc), end in combos:
            c = dict(id='c%d' % cid, st=st, now=NOW, end=end, dial=sc['dial'], reply=hx(sc['reply']), after=sc['after'],
                     tclose=sc['tclose'], chunks=[hx(x) for x in ch if x])
            if pwfail:
                c['pwfail'] = pwfail
            c['meta'] = dict(cat=cat, seg=sn, script=scn, may_session=may, stream=s.hex())
            cases.append(c)
            cid += 1
    return states, cases


# ------------------------------------------------------------------------------------------ observations
def parse_obs(line):
    """Go line -> (obs dict, tables dict)"""
    if line is None:
        return None, None
    left, _, right = line.partition(' | ')
    o = dict(t.split('=', 1) for t in left.split() if '=' in t)
    tb = dict(t.split('=', 1) for t in right.split() if '=' in t)
    return o, tb


def unhx(s):
    return b'' if s in ('-', '', None) else bytes.fromhex(s)


def impl_class(o):
    if 'PANIC' in o:
        return 'panic'
    if int(o['dials']) > 0:
        return 'web'
    if o['peer'] != '-':
        return 'session'
    if o['pc'] == '1':
        return 'close'
    return 'drop'


def relaxed(c):
    """scenarios in which the two copy directions race (observation O2 and early-closing targets)"""
    return c['end'] == 'eof' or (c['tclose'] and c['after'] < len(unhx(c['meta']['stream'])))


def sched_note(o):
    t = o.get('tsched', '')
    if 'second-write-served-first' in t:
        return ('; schedule: the first Write on the target connection (the replayed prefix) was parked by the harness, a second writer '
                '(the relay) arrived and was served first [%s]' % t)
    return ''


def oracle(c, o):
    """The property text evaluated on what the implementation did.  Returns (signature, message) or None."""
    s = unhx(c['meta']['stream'])
    reply = unhx(c['reply'])
    if 'PANIC' in o:
        return 'panic', 'server panicked: ' + o['PANIC'][:300]
    cls = impl_class(o)
    tgt, peer = unhx(o['tgt']), unhx(o['peer'])
    ftgt, fpeer = unhx(o['ftgt']), unhx(o['fpeer'])
    # per connection exactly one of {relayed to the redirect target verbatim, served as a Cloak session} (or closed),
    # and the bytes the peer gets are those of that one outcome
    dials = max(int(o['dials']), int(o.get('fdials', 0)))
    if dials > 1:
        return 'relayed-twice', 'the connection was handed to the redirect target %d times' % dials
    if dials > 0 and not reply.startswith(fpeer):
        k = next((i for i in range(min(len(reply), len(fpeer))) if reply[i] != fpeer[i]), min(len(reply), len(fpeer)))
        return 'relayed-and-answered', ('the connection was relayed to the redirect target AND the peer received %d bytes the target never sent '
                                        '(first at offset %d: %s...): the server answered a relayed connection itself' % (len(fpeer) - k, k, fpeer[k:k + 24].hex()))
    if cls == 'session' and not c['meta']['may_session']:
        return 'server-byte', 'the server wrote %d bytes of its own to a peer that did not present a valid fresh handshake of an authorised user' % len(peer)
    if c.get('pwfail') and o.get('pwf') == '1':
        # the server's reply could not be written: the connection must end up closed, nothing else may happen
        if o['uns'] == '1' or o['pc'] != '1' or o['fin'][0] != '1':
            return 'wedged', 'the reply to an authenticated peer could not be written and the connection was left open (the peer waits for ever)'
        return None
    if cls == 'session':
        return None
    if c['meta']['may_session'] and cls == 'close' and o['peer'] == '-':
        return None     # sealed payload of an authorised user (e.g. a WebSocket upgrade that then fails): not this property
    if o['uns'] == '1':
        if c['dial'] == 'fail' and o['pc'] == '0':
            return 'not-closed-on-dial-failure', 'redirect dial failed and the peer connection was neither relayed nor closed'
        if c['dial'] == 'wfail' and (o['pc'] == '0' or o['wc'] == '0'):
            return 'not-closed-on-write-failure', 'first write to the redirect target failed and the connections were left open and unserved'
        return 'wedged', 'connection neither served nor closed (no reader on an open connection): ' + ' '.join('%s=%s' % kv for kv in o.items() if kv[0] in ('ret', 'dials', 'pc', 'wc'))
    # never a server-originated byte: everything the peer got must come from the target's reply
    if not reply.startswith(fpeer):
        return 'peer-mismatch', 'peer received bytes the target never sent: %s...' % fpeer[:40].hex()
    if not s.startswith(ftgt):
        k = next((i for i in range(min(len(ftgt), len(s))) if ftgt[i] != s[i]), min(len(ftgt), len(s)))
        return 'target-mismatch', 'target received %d bytes that are not a prefix of the peer stream (first difference at %d: target got %s.., the peer sent %s..)%s' % (
            len(ftgt), k, ftgt[k:k + 8].hex(), s[k:k + 8].hex(), sched_note(o))
    complete = py_complete(s)
    if c['dial'] == 'fail' and cls == 'web':
        if complete and o['pc'] != '1':
            return 'not-closed-on-dial-failure', 'redirect dial failed and the peer connection was not closed'
        return None
    if c['dial'] == 'wfail' and cls == 'web':
        if complete and (o['pc'] != '1' or o['wc'] != '1'):
            return 'not-closed-on-write-failure', 'first write to the target failed and a connection was left open'
        return None
    if complete:
        if cls != 'web':
            return 'no-redirect', 'peer sent a complete first record / request / unrecognisable bytes but was not relayed to the redirect target (%s)' % cls
        if not relaxed(c):
            if tgt != s:
                return 'target-mismatch', 'target received %d of the %d bytes the peer sent (first write %s bytes)%s' % (len(tgt), len(s), o['first'], sched_note(o))
            want = reply if len(s) >= c['after'] else b''
            if peer != want:
                return 'peer-mismatch', 'peer received %d bytes, the target replied %d' % (len(peer), len(want))
    else:
        # stream ended early: a prefix may have been relayed, or the connection is just closed
        if cls == 'close' and o['pc'] != '1':
            return 'wedged', 'incomplete first packet and the connection was left open'
    if o['fin'][0] != '1' or (o['fin'][1] not in '1-'):
        return 'leak', 'after the peer hung up a connection was still open: fin=%s' % o['fin']
    return None


def model_line(c, sp, tb):
    s = c['meta']['stream']
    dh = '-'
    hid = '-'
    if tb and 'rand' in tb:
        dh = '%s:%s' % (tb['rand'], tb['dh'])
    if tb and 'hid' in tb:
        n = int(tb['n'])
        hid = '%s:%s' % (s[:2 * n] or '-', tb['hid'])
    return '%s now=%s end=%s dial=%s reply=%s after=%d tclose=%d pwfail=%d s=%s %s dh=%s hid=%s' % (
        c['id'], zhex(c['now']), c['end'], c['dial'], c['reply'], min(c['after'], len(s) // 2 + 1), 1 if c['tclose'] else 0,
        c.get('pwfail', 0), s or '-', state_tokens(sp), dh, hid)


def auth_class_of_model(dec):
    if dec.startswith('redirect/parse:hello/'):
        return 'parse:hello'
    if dec.startswith('redirect/parse:'):
        return dec[len('redirect/'):]
    if dec in ('redirect/replay', 'redirect/decrypt', 'redirect/window'):
        return dec[len('redirect/'):]
    if dec.startswith('rfp/'):
        return None
    return 'ok'


def compare(c, o, tb, mline):
    """model vs implementation on the projected observables; returns None or a description"""
    if mline is None:
        return 'model produced no line'
    m = dict(t.split('=', 1) for t in mline.split() if '=' in t)
    if ' MISS ' in ' ' + mline + ' ' or 'FAIL' in mline.split()[:1]:
        return 'model: ' + mline
    if 'out' not in m:
        return 'model: ' + mline
    for k in ('n', 'tr', 'redir', 'rerr'):
        if m[k] != tb.get(k):
            return 'readFirstPacket %s: model %s, implementation %s' % (k, m[k], tb.get(k))
    want_auth = auth_class_of_model(m['dec'])
    if want_auth is not None and tb.get('auth') != want_auth:
        return 'AuthFirstPacket: model %s (%s), implementation %s' % (want_auth, m['dec'], tb.get('auth'))
    if m['dec'].startswith('proxy/'):
        mu, msid, mm, menc, mun = m['dec'][len('proxy/'):].split(':')
        iu, isid, im, ienc, iun = (tb.get('ci') or '::::').split(':')
        if (mu, int(msid, 16), mm, menc, mun) != (iu, int(isid or '-1'), im, ienc, iun):
            return 'ClientInfo: model %s, implementation %s' % (m['dec'], tb.get('ci'))
    cls = impl_class(o)
    if max(int(o['dials']), int(o.get('fdials', 0))) != (1 if m['out'] == 'web' else 0):
        return 'redirect dials: model %d (%s), implementation %s (after the hang-up %s)' % (1 if m['out'] == 'web' else 0, m['out'], o['dials'], o.get('fdials'))
    if m['out'] == 'session-wfail':
        # finish_tls with a failing Write: nothing reaches the peer, the responder closes the connection, the function returns
        want = 'close' if m['tr'] == 'tls' else 'session'      # WebSocket: the 101 response has reached the peer
        if (cls, o['pc'], o['ret'], o.get('pwf')) != (want, '1', '1', '1'):
            return 'failed reply write: model %s/closed/returned, implementation %s pc=%s ret=%s pwf=%s' % (want, cls, o['pc'], o['ret'], o.get('pwf'))
        return None
    if m['out'] == 'session' and m['tr'] == 'ws' and cls == 'close' and c['meta']['cat'].startswith('cloak/'):
        return None      # authenticated WebSocket request whose (mutated) upgrade headers gorilla refuses: not C09
    if cls != m['out']:
        return 'outcome: model %s (%s), implementation %s' % (m['out'], m['dec'], cls)
    if cls == 'web':
        if c['dial'] == 'ok' and o['first'] != m.get('first'):
            return 'replayed prefix: model %s bytes, implementation %s' % (m.get('first'), o['first'])
        if relaxed(c) and c['dial'] == 'ok':
            mt, it = unhx(m['tgt']), unhx(o['ftgt'])
            if not mt.startswith(it):
                return 'relaxed relay: target bytes are not a prefix of the model\'s'
            if not unhx(c['reply']).startswith(unhx(o['fpeer'])):
                return 'relaxed relay: peer bytes are not a prefix of the reply'
            if c['end'] == 'eof' and (o['pc'], o['wc']) != (m['pc'], m['wc']):
                return 'close state: model pc=%s wc=%s, implementation pc=%s wc=%s' % (m['pc'], m['wc'], o['pc'], o['wc'])
        else:
            for k in ('tgt', 'peer', 'pc', 'wc'):
                if o[k] != m[k]:
                    return '%s: model %s, implementation %s' % (k, m[k][:80], o[k][:80])
    elif cls in ('close', 'drop'):
        if o['pc'] != m['pc']:
            return 'pc: model %s, implementation %s' % (m['pc'], o['pc'])
    return None


def run_cases(ctx, states, cases, tag):
    lines = [json.dumps(sp) for sp in states.values()] + [json.dumps({k: v for k, v in c.items() if k != 'meta'}) for c in cases]
    rc, log, impl, dt = run_go(ctx, 'run', lines, tag)
    mlines = []
    parsed = {}
    for c in cases:
        o, tb = parse_obs(impl.get(c['id']))
        parsed[c['id']] = (o, tb)
        if o is not None:
            mlines.append(model_line(c, states[c['st']], tb))
    minp = '%s/%s.model.in' % (ctx.work, tag)
    mout = '%s/%s.model.out' % (ctx.work, tag)
    open(minp, 'w').write('\n'.join(mlines) + '\n')
    mrc, merr = vlib.run_model('c09', minp, mout)
    model = {}
    if os.path.exists(mout):
        for ln in open(mout):
            ln = ln.rstrip('\n')
            if ln:
                model[ln.split(' ', 1)[0]] = ln
    return rc, log, parsed, mrc, merr, model, dt


def gen_packets(ctx):
    specs = gen_specs(ctx.seed) + [(g, False) for g in forge_specs()]
    rc, log, out, dt = run_go(ctx, 'gen', [json.dumps(g) for g, _ in specs], 'gen')
    packets = {}
    for g, may in specs:
        if g['id'] in out:
            packets[g['id']] = (g['kind'], bytes.fromhex(out[g['id']]), may)
    return rc, log, packets, len(specs)


# Verdicts that rest on "nothing moved any more" (quiescence, a process that died, an observation cut short) rather than on
# the bytes observed.  The rig decides them from goroutine states, not from the clock, but as a safety net they are
# reported only if the case, run ALONE in a fresh driver process, gives the same verdict three times out of three;
# otherwise the evidence notes say "not reproduced in isolation (load)".
LOAD_SENSITIVE = {'wedged', 'leak', 'no-redirect', 'not-closed-on-dial-failure', 'not-closed-on-write-failure', 'server-crash'}
ISOLATION_TRIES = 3


def load_sensitive(sig, c, o):
    if sig in LOAD_SENSITIVE or o.get('hard') == '1' or o.get('uns') == '1':
        return True
    s, reply = unhx(c['meta']['stream']), unhx(c['reply'])
    if sig == 'target-mismatch' and s.startswith(unhx(o.get('tgt'))) and s.startswith(unhx(o.get('ftgt'))):
        return True      # fewer bytes than expected, all of them right: possibly an observation taken too early
    if sig == 'peer-mismatch' and reply.startswith(unhx(o.get('peer'))) and reply.startswith(unhx(o.get('fpeer'))):
        return True
    return False


def reproduces_alone(ctx, states, c, what, judge, tag):
    """judge(o, tb, model_line) -> the verdict for one observation.  True iff ISOLATION_TRIES fresh single-case runs
    all give `what`."""
    for i in range(ISOLATION_TRIES):
        rc1, log1, parsed1, mrc1, merr1, model1, _ = run_cases(ctx, {c['st']: states[c['st']]}, [c], '%s%d' % (tag, i))
        o1, tb1 = parsed1.get(c['id'], (None, None))
        if o1 is None:
            got = 'server-crash' if rc1 != 0 and ('panic:' in log1 or 'fatal error' in log1) else None
        else:
            got = judge(o1, tb1, model1.get(c['id']))
        if got != what:
            return False
    return True


def correspondence(ctx, verdict, pr):
    res = dict(broken=[])
    rc, log, packets, nspecs = gen_packets(ctx)
    if rc != 0 or len(packets) != nspecs:
        res['broken'].append(('Go driver TestVerifC09 (gen) failed to build or run', log[-3000:]))
        verdict.cov.update(evaluations=0, distinct_nontrivial=0, rule='-', samples=[], traces_validated_against_impl=0,
                           input_distribution={}, exhaustive=False)
        return res
    states, cases = build_cases(ctx, packets)
    # corpus first
    cdir = vlib.V + '/corpus/C09'
    ncorpus = 0
    if os.path.isdir(cdir):
        pre = []
        for fn in sorted(os.listdir(cdir)):
            r = json.load(open(os.path.join(cdir, fn)))
            c = r['case']
            c['id'] = 'k%d' % ncorpus
            states.setdefault(c['st'], r['state'])
            pre.append(c)
            ncorpus += 1
        cases = pre + cases
    rc, log, parsed, mrc, merr, model, dt = run_cases(ctx, states, cases, 'cases')
    if rc != 0:
        attributed = crash_attribution(ctx, verdict, states, cases, parsed)
        rest = [c for c in cases if parsed.get(c['id'], (None, None))[0] is None]
        if not attributed and rest and len(rest) < len(cases):
            # the process ended early but no case kills it when run alone: run what is missing in a fresh process
            rc2, log2, parsed2, mrc2, merr2, model2, dt2 = run_cases(ctx, states, rest, 'rest')
            parsed.update({k: v for k, v in parsed2.items() if v[0] is not None})
            model.update(model2)
            if rc2 == 0:
                ctx.notes.append('driver process ended early after %d of %d cases, not reproduced in isolation (load): the remaining cases were run in a fresh process' % (len(cases) - len(rest), len(cases)))
                rc, mrc = 0, max(mrc, mrc2)
            else:
                log = log2
        if rc != 0:
            res['broken'].append(('Go driver TestVerifC09 failed to build or run', log[-3000:]))
    if mrc != 0:
        res['broken'].append(('extracted model c09 failed', str(merr)[-2000:]))
    mism = []
    fails = []
    cats = []
    branches = []
    distinct = set()
    nrelaxed = 0
    for c in cases:
        o, tb = parsed.get(c['id'], (None, None))
        if o is None:
            continue
        cats.append(c['meta']['cat'].split('/')[0] + '|' + c['meta']['script'] + '|' + c['end'])
        distinct.add((c['meta']['stream'], tuple(c['chunks']), c['end'], c['dial'], c['after'], c['tclose'], c['st']))
        if relaxed(c):
            nrelaxed += 1
        msg = oracle(c, o)
        if msg:
            fails.append((len(c['meta']['stream']), c, o, msg))
        ml = model.get(c['id'])
        if ml:
            m = dict(t.split('=', 1) for t in ml.split() if '=' in t)
            branches.append('%s/%s' % (m.get('out', '?'), m.get('dec', '?').split(':')[0] if not m.get('dec', '').startswith('proxy') else 'proxy'))
        if mrc == 0 and rc == 0:
            d = compare(c, o, tb, ml)
            if d:
                mism.append((len(c['meta']['stream']), c, o, ml, d))
    # report oracle failures: smallest per signature
    seen, tried, nload = {}, {}, 0
    for n, c, o, (sig, msg) in sorted(fails, key=lambda f: (f[0], len(f[1]['chunks']))):
        key = sig
        if sig == 'target-mismatch':       # one per consumed-prefix class (1 / 5 / buffer size / whole packet)
            n_consumed = (parsed.get(c['id'], (None, {}))[1] or {}).get('n')
            key = (sig, n_consumed if n_consumed in ('1', '5', str(FPS)) else 'packet')
        if key in seen or len(seen) >= 6:
            continue
        if load_sensitive(sig, c, o):
            tried[key] = tried.get(key, 0) + 1
            if tried[key] > 4:
                continue
            if not reproduces_alone(ctx, states, c, sig, lambda o1, tb1, ml1: (oracle(c, o1) or (None,))[0], 'iso'):
                nload += 1
                ctx.notes.append('oracle verdict [%s] on case %s (%s, %d-byte stream, segmentation %s, script %s) not reproduced in isolation (load): %d runs alone did not all give it' % (
                    sig, c['id'], c['meta']['cat'], n // 2, c['meta']['seg'], c['meta']['script'], ISOLATION_TRIES))
                continue
        seen[key] = 1
        verdict.oracle_failure(sig, 'C09 oracle [%s]: %s (case %s: %s, %d-byte stream, segmentation %s, target script %s, end=%s)' % (
            sig, msg, c['id'], c['meta']['cat'], n // 2, c['meta']['seg'], c['meta']['script'], c['end']),
            dict(case=c, state=states[c['st']], implementation=o, model=model.get(c['id']),
                 how='python3 tools/check.py C09 --replay <this file>'))
    if mism:
        # a difference may be an observation taken on a starved machine: the differing cases are run again as a small
        # batch in a fresh process, and the smallest of those that still differ alone, three times
        n0 = len(mism)
        sub = [m[1] for m in mism]
        rcb, logb, parsedb, mrcb, merrb, modelb, _ = run_cases(ctx, states, sub, 'mism')
        still = []
        for c in sub:
            ob, tbb = parsedb.get(c['id'], (None, None))
            d = compare(c, ob, tbb, modelb.get(c['id'])) if ob is not None else 'no output'
            if d:
                still.append((len(c['meta']['stream']), c, ob if ob is not None else {}, modelb.get(c['id']) or '', d))
        confirmed = []
        for m in sorted(still, key=lambda m: (m[0], len(m[1]['chunks'])))[:5]:
            cc = m[1]
            if reproduces_alone(ctx, states, cc, True, lambda o1, tb1, ml1: bool(compare(cc, o1, tb1, ml1)), 'isom'):
                confirmed.append(m)
                break
        if not confirmed:
            ctx.notes.append('%d model/implementation differences of the main run not reproduced in isolation (load): %d still differed in a fresh batch, none three times out of three alone' % (n0, len(still)))
            nload += n0
            mism = []
        else:
            mism = confirmed + [m for m in still if m is not confirmed[0]]
    if mism:
        n, c, o, ml, d = min(mism, key=lambda m: (m[0], len(m[1]['chunks'])))
        res['broken'].append(('model FirstPacket.v/Dispatch.v vs dispatchConnection: %d of %d cases differ' % (len(mism), len(cases)),
                              'smallest differing case %s (%s): %s\nstream: %s\nchunks: %d end=%s dial=%s\nimplementation: %s\nmodel: %s' % (
                                  c['id'], c['meta']['cat'], d, c['meta']['stream'][:400], len(c['chunks']), c['end'], c['dial'],
                                  ' '.join('%s=%s' % (k, v[:120]) for k, v in o.items()), ml[:600])))
        res['mismatch_case'] = (c, states[c['st']])
    verdict.cov.update(
        evaluations=len(cases), distinct_nontrivial=len(distinct),
        rule='one evaluation = one peer stream x segmentation x ending x target script through the real dispatchConnection and the extracted model; distinct = distinct (stream, chunks, ending, script, state); all are non-trivial (each drives readFirstPacket and, where a packet is complete, AuthFirstPacket). Streams: every first byte, TLS records with declared length in {0,1,2,100,2994..2997,16384,65535} complete/truncated/with trailing bytes, genuine client hellos (chrome/firefox/safari/WebSocket GET) in 9 authorisation variants, truncated/mutated/length-field-mutated/replayed hellos, HTTP heads incl. bogus hidden headers and 2990..3010-byte lines, random streams',
        samples=[dict(id=c['id'], cat=c['meta']['cat'], seg=c['meta']['seg'], script=c['meta']['script'], end=c['end'],
                      stream=c['meta']['stream'][:120]) for c in (cases[ncorpus], cases[len(cases) // 2], cases[-1])],
        traces_validated_against_impl=sum(1 for v in parsed.values() if v[0] is not None),
        mismatches=len(mism), oracle_failures=len(fails), not_reproduced_in_isolation=nload, relaxed_half_close_or_early_close=nrelaxed,
        input_distribution=dict(category_script_ending=vlib.summarize_dist(cats), model_branch=vlib.summarize_dist(branches)),
        corpus_cases=ncorpus, go_seconds=round(dt, 1), exhaustive=False)
    ctx.notes.append('O2 (half-close / early-closing target): %d scenarios compared in relaxed (prefix) form, not alarmed' % nrelaxed)
    return res


def crash_attribution(ctx, verdict, states, cases, parsed):
    """The driver writes and flushes one line per case: when the process dies (a panic in a goroutine of the server
    outside every recover), the first case without a line is the input that killed it; confirmed by running it alone."""
    missing = [c for c in cases if parsed.get(c['id'], (None, None))[0] is None]
    if not missing or len(missing) == len(cases):
        return False
    # a stray goroutine may die a moment after its case has reported: try the first case without a line, then the
    # three before it, each alone (the driver lingers 30 ms at the end of a run so that such a goroutine gets to run)
    k = cases.index(missing[0])
    c = None
    for cand in [cases[k]] + cases[max(0, k - 3):k][::-1]:
        died = 0
        for i in range(ISOLATION_TRIES):
            rc1, log1, parsed1, _, _, _, _ = run_cases(ctx, {cand['st']: states[cand['st']]}, [cand], 'crash')
            if not (rc1 != 0 and ('panic:' in log1 or 'fatal error' in log1)):
                break
            died += 1
        if died == ISOLATION_TRIES:
            c = cand
            break
    if c is None:
        ctx.notes.append('driver process died near case %s, not reproduced in isolation (load): none of the candidates kills it %d times out of %d alone' % (cases[k]['id'], ISOLATION_TRIES, ISOLATION_TRIES))
        return False
    tail = [ln for ln in log1.splitlines() if ln.startswith(('panic:', 'goroutine ', '\t/repo', 'github.com/cbeuw/Cloak')) or '[signal' in ln][:14]
    verdict.oracle_failure('server-crash', 'C09 oracle [server-crash]: the server process died while handling this connection (panic outside every recover): %s '
                           '(case %s: %s, %d-byte stream, target script %s, end=%s, pwfail=%s)' % (
                               ' | '.join(tail[:3]), c['id'], c['meta']['cat'], len(c['meta']['stream']) // 2, c['meta']['script'], c['end'], c.get('pwfail', 0)),
                           dict(case=c, state=states[c['st']], implementation='process died', go_log=tail,
                                how='python3 tools/check.py C09 --replay <this file>'))
    return True


def replay(ctx, verdict):
    r = ctx.replay
    c = r.get('case')
    if not c:
        print(json.dumps(r, indent=1)[:4000])
        return 0
    states = {c['st']: r['state']}
    rc, log, parsed, mrc, merr, model, dt = run_cases(ctx, states, [c], 'replay')
    o, tb = parsed.get(c['id'], (None, None))
    print('stream        :', c['meta']['stream'][:200], '(%d bytes)' % (len(c['meta']['stream']) // 2))
    print('implementation:', o)
    print('model         :', model.get(c['id']))
    if o is None:
        print(log[-2000:])
        return 1 if r.get('signature') == 'server-crash' and rc != 0 else 2
    msg = oracle(c, o)
    print('oracle        :', msg)
    return 1 if msg else 0


MANIFEST = dict(
    technique='Coq proofs over all byte streams about hand-written models of readFirstPacket / the ClientHello parsers / the dispatch decision; models tied to the code by differential execution of the real dispatchConnection (scripted segmenting peer, scripted redirect target) against the extracted OCaml model, plus a model-independent oracle written from the property text',
    level_text='C09_consumed_exact, C09_target_gets_everything, C09_segmentation, C09_parsers_total, C09_no_server_byte, C09_one_outcome (relayed or answered, never both; relayed exactly on a Redirect decision or a redirecting first-packet error), C09_unknown_method_is_web are proved in Coq for every peer byte stream, every ending and every buffer size >= 5 (the generated constant 3000 is an instance), every X25519/AES-GCM/http black box. The models are hand-written; on every run ~2000 (quick) scenarios - every first byte, every record-length class, genuine browser hellos in 9 authorisation variants, truncated/mutated/replayed hellos, HTTP heads with bogus hidden headers and 2990..3010-byte lines, under up to 6 segmentations and 8 target scripts incl. dial and write failure - are executed on the real dispatchConnection and on the extracted model and compared byte for byte (target input, peer output, who closed).',
    level_note='Trusted: Coq kernel, extraction, the scripted in-memory connections (deadline emulation), Go tables for X25519 and for net/http+base64. Half-close scenarios are compared in relaxed form (observation O2).',
    design_ref='DESIGN.md section 6, C09')


# generated obligation of the front door (Proofs/AtomFront.v): every connection's first packet, parsed hello and reply are
# values of that connection alone - no byte buffer at package level, no pooled object (or a view of it) used after its
# Put, no goroutine sharing a buffer with its spawner
TRUSTED = list(TRUSTED) + ['generated obligations Proofs/AtomFront.v about coq/Gen/Atomicity.v (tools/lockscan, go/ast: package-level variables with the kind of their type, sync.Pool.Put sites with the later mentions of the object or of a local view of its memory - slicings, dereferences, appends, local function literals that mention it, results handed out by a function whose Put is deferred -, variables shared by go statements); re-proved on every run, in a private re-generated copy under VERIF_EXTRA_OVERLAY']
MANIFEST = dict(MANIFEST, level_note=MANIFEST.get('level_note', '') + ' Generated obligation Proofs/AtomFront.v (re-proved about the source on every run): in the front-door code no byte buffer lives at package level, no pooled object or local view of it is used after its Put, no goroutine shares a buffer with its spawner - what lets the models treat a connection\'s first packet, parsed hello and reply as values of that connection alone.')
