"""C03 - session-pair lock-step check (see muxlib.py and coq/Model/Mux.v)."""
import muxlib, vlib

PROP_FILES = ['Properties/C03']
EXTRA_OBLIGATION_FILES = ['Proofs/AtomMux']
EXTRACT_FILES = ['Extract/Mux']
PROFILES = ['close', 'close', 'close', 'mixed', 'sendfail']
N_QUICK, N_THOROUGH = 300, 4000
RULE = 'seeded lock-step scenarios with stream closes by either side (closing notice overtaking or trailing data on other connections, zero bytes before close, both sides closing, reads blocked across the close), 1..8 connections, singleplex; distinct = distinct concrete label sequences'
ORACLE = muxlib.oracle_c03
TRUSTED = ['atomic steps of the hand-written model as GENERATED obligations (Proofs/AtomMux.v, re-proved on every run about coq/Gen/Atomicity.v; in a private re-generated copy under VERIF_EXTRA_OVERLAY): tools/lockscan (go/ast, syntactic types) is trusted to list, per function of internal/{server,multiplex,common,client}, every field access / call / sync/atomic operation with the critical sections (Lock..Unlock / RLock..RUnlock / deferred unlock, mutex identity by name) it lies in, every sync.Pool.Put with the later mentions of the object, and every variable a go statement shares with its spawner (anything it cannot resolve is in atomicity_errors, which must be empty); it does not follow calls (a region is what one function writes between Lock and Unlock), does no alias analysis, treats callbacks as running with no lock held, and counts call sites, not executions (a loop around one call site is invisible); send-lock discipline (AtomMux: no mutex possibly held across the blocking conn.Write is acquired on the path from switchboard.deplex): the scanner supplies the in-package call graph over functions and their bool specialisations (interface receivers resolved to every in-package implementer; deferred calls, callbacks and function values count as calls, go statements do not; cross-package calls are not edges) and, per call, the locks possibly held - reachability to the conn.Write call and from deplex is computed inside Coq', 'Coq 8.16.1 kernel incl. vm_compute (no native_compute)', 'hand-written model coq/Model/Mux.v of Session/Stream/switchboard at the granularity "one harness label runs to quiescence"; re-sequencer = coq/Model/Reorder.v', 'frames are abstract (decoded) in this model: codec and record framing are the subject of C04/C05', 'correspondence: lock-step driver harness/multiplex/mux_test.go on two real Sessions over harness-owned in-memory connections under testing/synctest (virtual clock, quiescence barrier) vs extracted OCaml model (ExtrOcamlBasic only); connection picks of pickRandConn are read off the wire tap and fed to the model', 'goroutine interleavings INSIDE a label (e.g. preemption inside a critical section) are not enumerated: covered by the fine-grained sender LTS (C13), the race detector runs and the schedule-point hooks']
ASSUMPTIONS = ['connections are FIFO, deliver whole messages (C05) and a reset/EOF is seen by both ends', 'sequence numbers stay below 2^64-1, fewer than 2^32 streams per session']


def scenarios(ctx):
    rng = ctx.rng
    n = N_QUICK if ctx.quick() else N_THOROUGH
    scns = []
    for i in range(n):
        scns.append(muxlib.gen_scenario(rng, 's%d' % i, rng.choice(PROFILES)))
    return scns


def correspondence(ctx, verdict, pr):
    verdict.cov['rule'] = RULE
    return muxlib.check(ctx, verdict, 'C03', scenarios(ctx), ORACLE)


def replay(ctx, verdict):
    return muxlib.replay_scenario(ctx, verdict, 'C03', ORACLE)


MANIFEST = {'technique': 'Coq theorems over all label sequences of the session-pair model (closing frame numbered last, reader gets a prefix, closed-stream read/write semantics; exactness of close over all healthy label sequences) + lock-step differential execution with closes overtaking/trailing data across connections and with failing sends', 'level_text': "Proved in Coq for every label sequence: C03_close_numbered_after_data (the closing notice takes the sequence number after every data frame and carries no data, so the re-sequencer - C02_close_in_order - applies it only after all data), C03_reader_gets_prefix, C03_writes_fail_after_close, C03_closed_stream_serves_buffered_then_error (a closed stream never blocks a reader: buffered bytes, then the broken-stream error). Proved for every healthy label sequence (no connection failure, no session close; closing notice overtaking or trailing data on any connections): C03_close_is_delivered (once the writer has closed and no frame of the direction is in flight, the reader's end IS closed and holds exactly the bytes written) and C03_close_is_exact - if the reader's end is closed and the reader did not close it itself, the writer did close the stream and read ++ pipe = EXACTLY the bytes written (never an early end, never a lost tail). Decided on every run by the lock-step correspondence + oracle over seeded scenarios: closes by either/both sides, zero bytes before close, reads blocked across the close, the closing notice failing to be sent on a broken connection (blocked reads must return).", 'level_note': 'Granularity: one harness label runs to quiescence; goroutine interleavings inside a label are covered by schedule-point replays, the race detector and (C13) the concurrent stress driver, not by the theorems. Hypotheses of the theorems: stream ids returned by OpenStream are fresh at the opener (fresh_run; in Cloak only the client opens streams), fewer than 2^64-2 frames per stream direction. Frames are abstract (decoded) in this model: codec = C04, record framing = C05. Trusted: Coq kernel, extraction (ExtrOcamlBasic), testing/synctest barrier, in-memory FIFO connections.', 'design_ref': 'DESIGN.md section 6, C03'}


# ---- relay level: Model/RelayPair.v (the two relay goroutines server.serveSession starts per stream) + Model/Copy.v
import relaylib

EXTRACT_FILES = EXTRACT_FILES + ['Extract/Relay']
TRUSTED = TRUSTED + ['relay level: hand-written model coq/Model/RelayPair.v of the two common.Copy goroutines per stream (one program counter each, Copy\'s deferred src.Close(); dst.Close() as two steps, Stream.ReadFrom\'s closed test after its read); the environment (what the stream and the proxy connection deliver, and when they end) is an input; correspondence: the real server.serveSession between a real Session pair and a proxy connection owned by the harness, with the dial held back until the client\'s writes and close have reached the server and with a proxy connection that lets a pending Close overtake a Write (harness/server/relay_serve_test.go); common.Copy itself call by call: Model/Copy.v vs harness/common/relay_copy_test.go']
MANIFEST = dict(MANIFEST,
                level_text=MANIFEST['level_text'] + ' Relay level (Model/RelayPair.v, every schedule of the two relay goroutines of a stream): C03_relay_delivers_all_before_closing (the peer wrote B and closed, the local peer is silent: the relay closes the local connection only after ALL of B has been written to it; never stuck), C03_relay_can_finish, C03_relay_pair_safe (prefixes in every environment), C03_relay_early_check_refuted (a closed-flag test in front of ReadFrom\'s read loses the tail).',
                level_note=MANIFEST.get('level_note', '') + ' The relay-pair model is compared with the real server.serveSession (gated dial, Close-overtakes-Write proxy connection) and with the real common.Copy on scripted connections.')
_corr_before_relay = correspondence
_replay_before_relay = replay


def correspondence(ctx, verdict, pr):
    res = _corr_before_relay(ctx, verdict, pr)
    res['broken'] += relaylib.run_serve(ctx, verdict, 'C03') + relaylib.run_copy(ctx, verdict, 'C03')
    return res


def replay(ctx, verdict):
    if str(ctx.replay.get('kind', '')).startswith('relay'):
        return relaylib.replay(ctx, verdict, 'C03')
    return _replay_before_relay(ctx, verdict)
