#!/usr/bin/env python3
"""Write seeded/README.md from the meta.json files: what each seeded change is, what it needs to
manifest, which check reported it at the first evaluation and which reports it now."""
import json, glob, os
V = '/verif'
rows = []
for d in sorted(glob.glob(V + '/seeded/C??_m?') + glob.glob(V + '/seeded/C??_r2m?') + glob.glob(V + '/seeded/C??_r3m?') + glob.glob(V + '/seeded/C??_r4m?')):
    m = json.load(open(d + '/meta.json'))
    first = ', '.join(m.get('first_evaluation', {}).get('caught_by') or []) or '-'
    fin = m.get('final_evaluation', {})
    now = ', '.join(fin.get('caught_by') or []) or ('-' if fin else '(not re-run)')
    how = fin.get('how', '')
    rows.append((os.path.basename(d), m.get('property', ''), m.get('summary', '').replace('|', '/').replace('\n', ' ')[:260],
                 m.get('needs_to_manifest', '').replace('|', '/').replace('\n', ' ')[:200], first, now, how.replace('|', '/')[:260]))
out = ['# Independently seeded changes', '',
       'Each directory holds `patch.diff` (against /repo), the author\'s demonstration test and `meta.json`',
       '(the author\'s description, how the change was confirmed here, which checks reported it). The authors',
       'saw only the text of one property and a scratch worktree of /repo (round 2, `_r2m`, additionally a list of the',
       'round-1 ideas to avoid; rounds 3 and 4, `_r3m` / `_r4m`, a list of all earlier ones). `fixed_*` directories are reverts',
       'of the defects repaired in /repo; `overlap_extra`, `wire_x_*`, `wire_h_*` are further changes invented',
       'while strengthening the checks (x = breaks the property, h = harmless; results in their meta.json).',
       '', 'To re-run one: `python3 tools/evalseed.py <Cxx> seeded/<id>` (applies the patch to /repo with',
       '`git apply`, runs the check, undoes it with `git checkout -- .`).', '',
       '| id | change | needs | reported at first evaluation by | reported now by | how (headline of the report) |',
       '|---|---|---|---|---|---|']
for r in rows:
    out.append('| %s | %s | %s | %s | %s | %s |' % (r[0], r[2], r[3], r[4], r[5], r[6]))
n1 = sum(1 for r in rows if r[4] != '-')
n2 = sum(1 for r in rows if r[5] not in ('-', '(not re-run)'))
out += ['', '%d of %d reported at the first evaluation, %d of %d now.' % (n1, len(rows), n2, len(rows)), '']
open(V + '/seeded/README.md', 'w').write('\n'.join(out))
print('\n'.join(out[-3:]))
