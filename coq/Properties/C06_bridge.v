(* C06, second part: the agreement stated on the model of the server's OWN first-packet parser
   (Model/Hello.v, worker "front": parseClientHello / parseExtensions / parseKeyShare / unmarshalClientHello
   with Go slice capacities and recover()), connected to the independent grammar by Proofs/AuthBridge.v.
   Kept apart from Properties/C06.v so that a change of Model/Hello.v cannot take the other theorems down. *)
From Coq Require Import NArith ZArith List.
From Cloak Require Import Model.Hello Model.HelloGrammar Model.Auth Proofs.Auth Proofs.AuthBridge.
Import ListNotations.
Local Open Scope N_scope.

(* On every well-formed ClientHello (bytes below 256) the server's parser succeeds and extracts exactly
   the fields the grammar locates; the only failure left is X25519's. *)
Theorem C06_server_parser_bridge : forall (dh : list N -> list N -> option (list N)) name l,
  wf_client_hello name l = true -> wf_bytes l ->
  forall pv, exists r s k,
    locate_fields l = Some (r, s, k) /\
    tls_first_packet dh l pv =
    match dh pv r with
    | None => Err EDH
    | Some ss => Ok (mkFrag (copy_into 32 ss) r (s ++ k))
    end.
Proof. exact front_parser_agrees. Qed.
Print Assumptions C06_server_parser_bridge.

(* server_process_tls of Model/Auth.v IS processFirstPacket + decryptClientInfo on well-formed hellos. *)
Theorem C06_server_process_is_parser : forall (dh : list N -> list N -> option (list N)) open name l pv now,
  wf_client_hello name l = true -> wf_bytes l ->
  server_process_tls dh open l pv now =
  match tls_first_packet dh l pv with
  | Ok fr => decrypt_client_info open (f_shared fr) (f_rand fr) (f_ct fr) (firstn 32 (f_ct fr)) now
  | Err EDH => Reject RejDH
  | _ => Reject RejHello
  end.
Proof. exact server_process_tls_is_front. Qed.
Print Assumptions C06_server_process_is_parser.

(* Agreement on the server's parser: the fragments it computes from the client's hello are exactly
   (shared secret, ephemeral public key, sealed block), and they decrypt to the client's configuration. *)
Theorem C06_agreement_tls_front :
  forall (dh : list N -> list N -> option (list N)) (pub : list N -> list N)
         (seal : list N -> list N -> list N -> list N -> list N)
         (open : list N -> list N -> list N -> list N -> option (list N)),
  (forall a b, dh a (pub b) = dh b (pub a)) ->                          (* dh_comm *)
  (forall a, length (pub a) = 32%nat) ->
  (forall k n p a, open k n (seal k n p a) a = Some p) ->
  (forall k n p a, length (seal k n p a) = (length p + 16)%nat) ->
  forall name i ts s_now ephPv staticPv secret hello,
  info_in_domain i -> ts < 2 ^ 64 -> in_window ts s_now = true ->
  dh ephPv (pub staticPv) = Some secret ->
  let shared := fit 32 secret in
  let ct := seal shared (firstn 12 (pub ephPv)) (pack i ts) [] in
  wf_client_hello name hello = true -> wf_bytes hello ->
  locate_fields hello = Some (pub ephPv, sub 0 32 ct, sub 32 64 ct) ->
  tls_first_packet dh hello staticPv = Ok (mkFrag shared (pub ephPv) ct) /\
  decrypt_client_info open shared (pub ephPv) ct (sub 0 32 ct) s_now = Accept i shared (sub 0 32 ct).
Proof. exact agreement_tls_front. Qed.
Print Assumptions C06_agreement_tls_front.
