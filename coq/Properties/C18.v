(* C18 - User database and admin API act as a keyed store and never crash the server.
   Only the property theorems, each closed by [exact <lemma>].  Model: Model/UserDB.v
   (localmanager.go, api_router.go, userpanel.go GetUser, qos.go MakeValve). *)
From Coq Require Import ZArith NArith List Bool.
From Cloak Require Import Model.UserDB Proofs.UserDB.
Import ListNotations.
Local Open Scope Z_scope.

(* i64ToB / int64(u64(..)) and i32ToB / int32(u32(..)) are inverse on the whole int64 / int32
   range (sign and extremes included). *)
Theorem C18_codec :
  (forall v, - 2 ^ 63 <= v < 2 ^ 63 -> int64_of_be (be_of_int64 v) = v) /\
  (forall v, - 2 ^ 31 <= v < 2 ^ 31 -> int32_of_be (be_of_int32 v) = v).
Proof. exact (conj codec64 codec32). Qed.
Print Assumptions C18_codec.

(* For EVERY history (requests of all five kinds over arbitrary UIDs - accepted and rejected -,
   close/reopen, usage uploads, authentication queries), started in any well-formed store, the
   real handlers (decoders as they are now) answer exactly what the abstract finite map
   UID -> six integers answers, and the final store decodes to the final abstract map. *)
Theorem C18_refines_map :
  forall (now : Z) (ops : list op) (s : store),
  store_wf s -> Forall op_ok ops ->
  exists s', run true now s ops = Ok (s', snd (a_run now (abs_store s) ops))
          /\ abs_store s' = fst (a_run now (abs_store s) ops).
Proof. exact refines_map. Qed.
Print Assumptions C18_refines_map.

(* The hypotheses are met: the empty database, and a history with values in the JSON ranges. *)
Example C18_refines_map_hyps :
  store_wf [] /\ Forall op_ok (wit_good ++ wit_neg_rate ++ [OReq RqList; OReopen; OUpload [mkUpd wit_uid16 7 8]]).
Proof. exact example_refines_hyps. Qed.

(* What the abstract side is: lookup after update/delete, an accepted update merges exactly the
   mentioned fields (a new record starts all-zero), a request that is not accepted (status
   outside 2xx) changes nothing, an accepted delete removes the user, the listing has distinct
   keys and contains exactly the map. *)
Theorem C18_spec_is_map :
  (forall (u u' : uid) (v : vals) (m : astore),
      lookup u (put u' v m) = if uid_eqb u u' then Some v else lookup u m) /\
  (forall (u u' : uid) (m : astore),
      lookup u (remove u' m) = if uid_eqb u u' then None else lookup u m) /\
  (forall m u w, u <> [] ->
      a_post m (PUid u) (BJson u w) =
      (put u (merge w (match lookup u m with Some v => v | None => vals_zero end)) m, RsStatus 201)) /\
  (forall w v, merge w v = mkV (ov (w_cap w) (v_cap v)) (ov (w_uprate w) (v_uprate v))
      (ov (w_downrate w) (v_downrate v)) (ov (w_upcredit w) (v_upcredit v))
      (ov (w_downcredit w) (v_downcredit v)) (ov (w_expiry w) (v_expiry v))) /\
  (forall m p b, accepted (snd (a_post m p b)) = false -> fst (a_post m p b) = m) /\
  (forall m p, accepted (snd (a_delete m p)) = false -> fst (a_delete m p) = m) /\
  (forall m u, accepted (snd (a_delete m (PUid u))) = true -> lookup u (fst (a_delete m (PUid u))) = None) /\
  (forall now ops, let m := fst (a_run now [] ops) in
      NoDup (keys m) /\ forall u v, In (u, v) m <-> lookup u m = Some v).
Proof. exact spec_is_map. Qed.
Print Assumptions C18_spec_is_map.

(* Close + reopen at arbitrary points of any history changes no other observation and not the
   final store.  TRUSTED: [reopen] is the identity in the model - bbolt's durability is not
   modelled; the correspondence check closes and reopens the real file. *)
Theorem C18_persist :
  (forall (s : store), reopen s = s) /\
  forall fx now ops s,
  run fx now s (drop_reopen ops) =
  match run fx now s ops with
  | Ok q => Ok (fst q, drop_obreopen (snd q))
  | Panic => Panic
  end.
Proof. exact (conj (fun s => eq_refl) persist). Qed.
Print Assumptions C18_persist.

(* No store at all - hence no record the API can create - makes AuthenticateUser,
   AuthoriseNewSession, GetUserInfo, ListAllUsers or UploadStatus panic, no history panics,
   and the owner of any record can connect (GetUser -> MakeValve -> GetSession) and have usage
   uploaded without a panic: the code as it is now (decoders since cd5140b, GetUser since 638655d). *)
Theorem C18_no_panic :
  forall now s,
  ((forall u, authenticate true now s u <> Panic) /\
   (forall u n, authorise true now s u n <> Panic) /\
   (forall p, get_user true s p <> Panic) /\
   list_all true s <> Panic /\
   (forall l, upload true now s l <> Panic)) /\
  (forall ops, exists q, run true now s ops = Ok q) /\
  ((forall u, exists c, connect true true now s u = Ok c) /\
   (forall u rx tx, exists q, connect_use true true now s u rx tx = Ok q)).
Proof. exact (fun now s => conj (no_panic_fixed now s) (conj (fun ops => run_total now ops s) (no_panic_connect now s))). Qed.
Print Assumptions C18_no_panic.

(* The same in the words of the property: after any history, the owner of any record connects
   without a panic. *)
Theorem C18_no_panic_on_connect :
  forall now ops u s os, Forall op_ok ops -> run true now [] ops = Ok (s, os) ->
    connect true true now s u <> Panic.
Proof. exact no_panic_on_connect_now. Qed.
Print Assumptions C18_no_panic_on_connect.

(* What the guard costs: a record is refused with ErrBadRate exactly when it would have been
   authenticated with a rate that is not positive; every other outcome is as before the fix. *)
Theorem C18_badrate_exact :
  (forall now s u,
     connect true true now s u = Ok (CnAuthErr ErrBadRate) <->
     exists up down, authenticate true now s u = Ok (AuthOk up down) /\ (up <= 0 \/ down <= 0)) /\
  (forall now s u c, connect false true now s u = Ok c -> connect true true now s u = Ok c).
Proof. exact (conj connect_badrate_iff connect_guard_agree). Qed.
Print Assumptions C18_badrate_exact.

(* F7 (repaired in /repo by cd5140b): with the decoder in its earlier shape a record created
   with only UpCredit panics every reader, and a history that lists afterwards panics. *)
Theorem C18_refuted_prefix_nil :
  exists s os, run false 0 [] wit_partial = Ok (s, os)
    /\ authenticate false 0 s [1%N] = Panic
    /\ authorise false 0 s (pad16 [1%N]) 0 = Ok (Some ErrUserNotFound)
    /\ get_user false s (PUid [1%N]) = Panic
    /\ list_all false s = Panic
    /\ upload false 0 s [mkUpd [1%N] 0 0] = Panic
    /\ run false 0 [] (wit_partial ++ [OReq RqList]) = Panic.
Proof. exact refuted_prefix_nil. Qed.
Print Assumptions C18_refuted_prefix_nil.
Theorem C18_refuted_prefix_nil_authorise :
  exists s os, run false 0 [] [OReq (RqPost (PUid wit_uid16) (BJson wit_uid16 (mkW None None None (Some 5) None None)))] = Ok (s, os)
    /\ authorise false 0 s wit_uid16 0 = Panic.
Proof. exact refuted_prefix_nil_authorise. Qed.
Print Assumptions C18_refuted_prefix_nil_authorise.

(* F8 (repaired in /repo by 638655d): with GetUser in its earlier shape (no guard) the same
   statement is FALSE - a user created with credits and expiry only has rates 0, passes
   AuthenticateUser and reaches ratelimit.NewBucketWithRate(0, 0), which panics. *)
Theorem C18_refuted_prefix_makevalve :
  ~ (forall now ops u s os, Forall op_ok ops -> run true now [] ops = Ok (s, os) ->
       connect false true now s u <> Panic).
Proof. exact makevalve_refuted. Qed.
Print Assumptions C18_refuted_prefix_makevalve.
Theorem C18_refuted_prefix_makevalve_negative :
  exists s os, run true 50 [] wit_neg_rate = Ok (s, os) /\ authenticate true 50 s wit_uid16 = Ok (AuthOk 10 (-1))
    /\ connect false true 50 s wit_uid16 = Panic /\ connect true true 50 s wit_uid16 = Ok (CnAuthErr ErrBadRate).
Proof. exact makevalve_refuted_negative. Qed.
Print Assumptions C18_refuted_prefix_makevalve_negative.

(* What did hold before the fix, exactly: the unguarded connect path panics if and only if the
   record passes AuthenticateUser with a rate that is not positive. *)
Theorem C18_prefix_makevalve_exact :
  forall now s u,
  connect false true now s u = Panic <->
  exists up down, authenticate true now s u = Ok (AuthOk up down) /\ (up <= 0 \/ down <= 0).
Proof. exact connect_panic_iff. Qed.
Print Assumptions C18_prefix_makevalve_exact.
Theorem C18_partial_no_panic_positive_rates :
  forall now s u,
  (forall up down, authenticate true now s u = Ok (AuthOk up down) -> 0 < up /\ 0 < down) ->
  connect false true now s u <> Panic.
Proof. exact partial_no_panic_positive_rates. Qed.
Print Assumptions C18_partial_no_panic_positive_rates.
Example C18_partial_hyps :
  exists s os, run true 50 [] wit_good = Ok (s, os)
    /\ (forall up down, authenticate true 50 s wit_uid16 = Ok (AuthOk up down) -> 0 < up /\ 0 < down)
    /\ connect false true 50 s wit_uid16 = Ok (CnOk 100 1000).
Proof. exact example_positive_rates. Qed.

(* Observation O5 (not a violation): SessionsCap -1 is shown as -1 and enforced as 2^32-1. *)
Example C18_O5_negative_cap :
  let ops := [OReq (RqPost (PUid wit_uid16) (BJson wit_uid16 (mkW (Some (-1)) (Some 1) (Some 1) (Some 1) (Some 1) (Some 100))))] in
  exists s os, run true 50 [] ops = Ok (s, os)
    /\ get_user true s (PUid wit_uid16) = Ok (RsUser wit_uid16 (mkV (-1) 1 1 1 1 100))
    /\ authorise true 50 s wit_uid16 4000000000 = Ok None.
Proof. exact example_O5_negative_cap. Qed.
