(* C06 - Client and server agree on identity, options and session key after the handshake.
   Only the property theorems, each closed by [exact <lemma>].  Models: Model/Auth.v,
   Model/HelloGrammar.v; X25519 (dh, pub) and the AEAD (seal, open) are universally quantified
   and constrained by the stated hypotheses only - dh_comm is NOT proved for X25519. *)
From Coq Require Import NArith ZArith List.
From Cloak Require Import Gen.Consts Model.HelloGrammar Model.Auth Model.Crypto.GCM Proofs.Auth.
From Cloak Require Import Model.SessionKey Proofs.SessionKey.
Import ListNotations.
Local Open Scope N_scope.

(* The 48-byte plaintext round-trips for every 16-byte UID, every method name of at most 12 bytes
   with no NUL at either end (hence non-empty), every method byte, every session id below 2^32, both
   flag values and every timestamp the server's clock accepts. *)
Theorem C06_plaintext_roundtrip : forall i ts now,
  length (i_uid i) = 16%nat /\ (length (i_method i) <= 12)%nat /\
  (nth 0 (i_method i) 0 <> 0 /\ last (i_method i) 0 <> 0) /\ i_sid i < 2 ^ 32 ->
  ts < 2 ^ 64 -> in_window ts now = true ->
  unpack (pack i ts) now = UOk i.
Proof. exact plaintext_roundtrip. Qed.
Print Assumptions C06_plaintext_roundtrip.

(* The guards are exact: a NUL at either end of the name is eaten by bytes.Trim, a 13th byte is
   dropped by copy, an over-long UID spills into the method field. *)
Theorem C06_method_trailing_nul :
  unpack (pack (mkInfo ex_uid [97; 0] 1 5 false) 1700000000) 1700000000000000000%Z
  = UOk (mkInfo ex_uid [97] 1 5 false).
Proof. exact method_trailing_nul_lost. Qed.
Theorem C06_method_13_truncated :
  unpack (pack (mkInfo ex_uid [116;104;105;114;116;101;101;110;95;98;121;116;101] 1 5 false) 1700000000) 1700000000000000000%Z
  = UOk (mkInfo ex_uid [116;104;105;114;116;101;101;110;95;98;121;116] 1 5 false).
Proof. exact method_13_truncated. Qed.
Theorem C06_uid_18_spills :
  unpack (pack (mkInfo (ex_uid ++ [16; 17]) [97] 1 5 false) 1700000000) 1700000000000000000%Z
  = UOk (mkInfo ex_uid [97; 17] 1 5 false).
Proof. exact uid_18_spills. Qed.

(* The server accepts iff |ts * 10^9 - now| < 180 * 10^9 (nanoseconds, both comparisons strict), for
   timestamps below 2^62; outside the window the session id is never read. *)
Theorem C06_window : forall i (ts : N) (now : Z), info_in_domain i -> ts < 2 ^ 62 ->
  (exists i', unpack (pack i ts) now = UOk i') <-> (Z.abs (Z.of_N ts * 1000000000 - now) < 180 * 1000000000)%Z.
Proof. exact window_unpack. Qed.
Print Assumptions C06_window.
Theorem C06_sid_only_inside_window : forall pt now i0, unpack pt now = UWindow i0 -> i_sid i0 = 0.
Proof. exact sid_only_inside_window. Qed.

(* The client sends whole seconds.  A clock offset in [-179 s, +180 s) is always inside the window;
   an offset in (-180 s, -179 s) need not be. *)
Theorem C06_offset_suffices : forall c_now s_now, (0 <= c_now)%Z -> (c_now / 1000000000 < 2 ^ 62)%Z ->
  (- (179 * 1000000000) <= c_now - s_now < 180 * 1000000000)%Z ->
  in_window (client_ts c_now) s_now = true.
Proof. exact offset_suffices. Qed.
Theorem C06_truncation_edge :
  let c_now := 1700000000900000000%Z in let s_now := (c_now + 179500000000)%Z in
  (Z.abs (c_now - s_now) < 180 * 1000000000)%Z /\ in_window (client_ts c_now) s_now = false.
Proof. exact truncation_edge. Qed.

(* The client's fixed offsets into the first record hit the ServerHello random and key share for a
   32-byte session id, and these reassemble exactly nonce ++ encrypted session key. *)
Theorem C06_reply_offsets : forall sid nonce encKey filler pad,
  length sid = 32%nat -> length nonce = 12%nat -> length encKey = 48%nat ->
  let buf := compose_server_hello sid nonce encKey filler ++ pad in
  let encrypted := sub 6 38 buf ++ sub 84 116 buf in
  sub 0 12 encrypted = nonce /\ sub 12 60 encrypted = encKey.
Proof. exact reply_offsets. Qed.
Print Assumptions C06_reply_offsets.

(* Agreement, direct transport: for every Diffie-Hellman function that commutes, every AEAD that
   round-trips, every well-formed skeleton, every in-domain configuration, every pair of clocks inside
   the window, every ephemeral and static key for which the client's X25519 succeeds, every session key,
   nonce, filler and certificate the server may draw: the server recovers exactly the client's
   (UID, method, encryption method, session id, flag) and the client recovers exactly the session key. *)
Theorem C06_agreement_tls :
  forall (dh : list N -> list N -> option (list N)) (pub : list N -> list N)
         (seal : list N -> list N -> list N -> list N -> list N)
         (open : list N -> list N -> list N -> list N -> option (list N)),
  (forall a b, dh a (pub b) = dh b (pub a)) ->                          (* dh_comm *)
  (forall a, length (pub a) = 32%nat) ->
  (forall k n p a, open k n (seal k n p a) a = Some p) ->
  (forall k n p a, length (seal k n p a) = (length p + 16)%nat) ->
  forall sk i c_now s_now ephPv staticPv secret key nonce filler cert,
  wf_skeleton sk = true ->
  info_in_domain i -> in_window (client_ts c_now) s_now = true ->
  dh ephPv (pub staticPv) = Some secret ->
  length key = 32%nat -> length nonce = 12%nat -> (length cert <= 1024)%nat ->
  exists hello shared sid,
    client_first_packet_tls dh pub seal sk i (client_ts c_now) ephPv (pub staticPv) = Some (hello, shared) /\
    server_process_tls dh open hello staticPv s_now = Accept i shared sid /\
    client_finish_tls open shared (server_reply_tls seal shared sid key nonce filler cert) = Some key.
Proof. exact agreement_tls. Qed.
Print Assumptions C06_agreement_tls.

(* The same for ANY ClientHello in which the grammar locates the three fields (uTLS is a black box:
   whatever it builds, if the fields are found the handshake agrees). *)
Theorem C06_agreement_tls_located :
  forall (dh : list N -> list N -> option (list N)) (pub : list N -> list N)
         (seal : list N -> list N -> list N -> list N -> list N)
         (open : list N -> list N -> list N -> list N -> option (list N)),
  (forall a b, dh a (pub b) = dh b (pub a)) ->
  (forall a, length (pub a) = 32%nat) ->
  (forall k n p a, open k n (seal k n p a) a = Some p) ->
  (forall k n p a, length (seal k n p a) = (length p + 16)%nat) ->
  forall i ts s_now ephPv staticPv secret hello key nonce filler cert,
  info_in_domain i -> ts < 2 ^ 64 -> in_window ts s_now = true ->
  dh ephPv (pub staticPv) = Some secret ->
  length key = 32%nat -> length nonce = 12%nat -> (length cert <= 1024)%nat ->
  let shared := fit 32 secret in
  let ct := seal shared (firstn 12 (pub ephPv)) (pack i ts) [] in
  locate_fields hello = Some (pub ephPv, sub 0 32 ct, sub 32 64 ct) ->
  server_process_tls dh open hello staticPv s_now = Accept i shared (sub 0 32 ct) /\
  client_finish_tls open shared (server_reply_tls seal shared (sub 0 32 ct) key nonce filler cert) = Some key.
Proof. exact agreement_tls_located. Qed.
Print Assumptions C06_agreement_tls_located.

(* Agreement, CDN transport (from the `hidden` header to the 60-byte message). *)
Theorem C06_agreement_ws :
  forall (dh : list N -> list N -> option (list N)) (pub : list N -> list N)
         (seal : list N -> list N -> list N -> list N -> list N)
         (open : list N -> list N -> list N -> list N -> option (list N)),
  (forall a b, dh a (pub b) = dh b (pub a)) ->                          (* dh_comm *)
  (forall a, length (pub a) = 32%nat) ->
  (forall k n p a, open k n (seal k n p a) a = Some p) ->
  (forall k n p a, length (seal k n p a) = (length p + 16)%nat) ->
  (forall a, wf_bytes (pub a)) -> (forall k n p a, wf_bytes (seal k n p a)) ->   (* base64 carries bytes *)
  forall i c_now s_now ephPv staticPv secret key nonce,
  info_in_domain i -> in_window (client_ts c_now) s_now = true ->
  dh ephPv (pub staticPv) = Some secret ->
  length key = 32%nat -> length nonce = 12%nat ->
  exists hidden shared,
    client_first_packet_ws dh pub seal i (client_ts c_now) ephPv (pub staticPv) = Some (hidden, shared) /\
    server_process_ws dh open hidden staticPv s_now = Accept i shared [] /\
    client_finish_ws open shared (server_reply_ws seal shared key nonce) = Some key.
Proof. exact agreement_ws. Qed.
Print Assumptions C06_agreement_ws.

(* With the Gallina AES-GCM the AEAD hypotheses are theorems; dh_comm remains. *)
Theorem C06_agreement_tls_gcm : forall dh pub,
  (forall a b, dh a (pub b) = dh b (pub a)) -> (forall a, length (pub a) = 32%nat) ->
  forall sk i c_now s_now ephPv staticPv secret key nonce filler cert,
  wf_skeleton sk = true ->
  info_in_domain i -> in_window (client_ts c_now) s_now = true ->
  dh ephPv (pub staticPv) = Some secret ->
  length key = 32%nat -> length nonce = 12%nat -> (length cert <= 1024)%nat ->
  exists hello shared sid,
    client_first_packet_tls dh pub gcm_seal sk i (client_ts c_now) ephPv (pub staticPv) = Some (hello, shared) /\
    server_process_tls dh gcm_open hello staticPv s_now = Accept i shared sid /\
    client_finish_tls gcm_open shared (server_reply_tls gcm_seal shared sid key nonce filler cert) = Some key.
Proof. exact agreement_tls_gcm. Qed.
Print Assumptions C06_agreement_tls_gcm.

(* The hypotheses are satisfiable, the skeleton and domain premises are met by concrete values. *)
Theorem C06_hypotheses_inhabited :
  (forall a b, toy_dh a (toy_pub b) = toy_dh b (toy_pub a)) /\
  (forall a, length (toy_pub a) = 32%nat) /\
  (forall k n p a, toy_open k n (toy_seal k n p a) a = Some p) /\
  (forall k n p a, length (toy_seal k n p a) = (length p + 16)%nat).
Proof. exact agreement_hypotheses_inhabited. Qed.
Theorem C06_premises_inhabited :
  (wf_skeleton ex_skeleton = true /\
   wf_client_hello ex_name (mk_client_hello ex_skeleton (repeat 1 32) (repeat 2 32) (repeat 3 32)) = true) /\
  info_in_domain (mkInfo ex_uid [115;115] 1 (2 ^ 32 - 1) true).
Proof. exact (conj ex_skeleton_wf ex_info_in_domain). Qed.

(* Generated obligations: the two UNORDERED_FLAG constants (client / server package) agree on bit 0,
   the tolerance is 180 s. *)
Theorem C06_flag_constants :
  negb (N.land (N.lor 0 client_flag) server_flag =? 0) = true /\ negb (N.land 0 server_flag =? 0) = false.
Proof. exact flag_constants_agree. Qed.
Theorem C06_tolerance : tolerance = (180 * 1000000000)%Z.
Proof. exact tolerance_is_180s. Qed.

(* ------------------------------------------------------------------------------------------------------
   Every connection of a session, not only the first.  A client with NumConn >= 2 (or reconnecting) presents the same
   (UID, session id) several times; each connection draws its own ephemeral key, nonce, ... and the server draws a
   fresh session key for each BEFORE looking the session up.  Model/SessionKey.v: the reply carries the key of the
   session the connection joined (serve_keys / table_after follow dispatcher.go + ActiveUser.GetSession). *)
Theorem C06_same_session_same_key : forall conns t i j sid f1 f2, (i <= j)%nat ->
  nth_error conns i = Some (sid, f1) -> nth_error conns j = Some (sid, f2) ->
  nth_error (serve_keys t conns) i = nth_error (serve_keys t conns) j /\
  exists k, nth_error (serve_keys t conns) j = Some k /\ tbl_get sid (table_after t conns) = Some k.
Proof. exact same_session_same_key. Qed.
Print Assumptions C06_same_session_same_key.

Theorem C06_new_session_fresh_key : forall t sid fresh rest, tbl_get sid t = None ->
  nth_error (serve_keys t ((sid, fresh) :: rest)) 0 = Some fresh.
Proof. exact new_session_fresh_key. Qed.
Print Assumptions C06_new_session_fresh_key.

(* Agreement for every connection of every session of a user (direct transport): the j-th connection's client obtains
   exactly the key the server's session table holds for its session id, first connection or not. *)
Theorem C06_agreement_every_connection_tls :
  forall (dh : list N -> list N -> option (list N)) (pub : list N -> list N)
         (seal : list N -> list N -> list N -> list N -> list N)
         (open : list N -> list N -> list N -> list N -> option (list N)),
  (forall a b, dh a (pub b) = dh b (pub a)) ->
  (forall a, length (pub a) = 32%nat) ->
  (forall k n p a, open k n (seal k n p a) a = Some p) ->
  (forall k n p a, length (seal k n p a) = (length p + 16)%nat) ->
  forall staticPv (conns : list conn),
  Forall (conn_ok dh pub staticPv) conns ->
  let keys := serve_keys [] (map (fun c => (i_sid (c_info c), c_fresh c)) conns) in
  let table := table_after [] (map (fun c => (i_sid (c_info c), c_fresh c)) conns) in
  forall j c, nth_error conns j = Some c ->
  exists key hello shared sid,
    nth_error keys j = Some key /\ tbl_get (i_sid (c_info c)) table = Some key /\
    client_first_packet_tls dh pub seal (c_sk c) (c_info c) (client_ts (c_cnow c)) (c_ephPv c) (pub staticPv) = Some (hello, shared) /\
    server_process_tls dh open hello staticPv (c_snow c) = Accept (c_info c) shared sid /\
    client_finish_tls open shared (server_reply_tls seal shared sid key (c_nonce c) (c_filler c) (c_cert c)) = Some key.
Proof. exact agreement_every_connection_tls. Qed.
Print Assumptions C06_agreement_every_connection_tls.

Theorem C06_connections_of_a_session_share_the_key : forall (conns : list conn) i j ci cj, (i <= j)%nat ->
  nth_error conns i = Some ci -> nth_error conns j = Some cj -> i_sid (c_info ci) = i_sid (c_info cj) ->
  let keys := serve_keys [] (map (fun c => (i_sid (c_info c), c_fresh c)) conns) in
  nth_error keys i = nth_error keys j.
Proof. exact connections_of_a_session_share_the_key. Qed.
Print Assumptions C06_connections_of_a_session_share_the_key.

(* ---------------------------------------------------------------------------------------------
   The client side of session establishment: client.MakeSession (internal/client/connector.go),
   Model/Connector.v.  The network is an input: per goroutine a script of attempt outcomes. *)
From Cloak Require Import Model.Connector Proofs.Connector.
Local Open Scope nat_scope.

(* A goroutine whose attempts fail any number of times, in any way, and then succeed with key k ends with
   exactly that key and hands over exactly ONE connection; it paused 3 s once per failure, dialled once per
   attempt, and closed the transport of every failed handshake and of nothing else. *)
Theorem C06_connector_one_connection_per_goroutine : forall pre direct b k rest,
  forallb is_fail pre = true ->
  let '(evs, r) := conn_loop direct b (pre ++ AOk k :: rest) in
  r = Some k /\ count_ev is_deliver evs = 1 /\ count_ev is_sleep evs = length pre /\
  count_ev is_dial evs = S (length pre) /\ count_ev is_close evs = length (filter is_hsfail pre).
Proof. exact conn_loop_spec. Qed.
Print Assumptions C06_connector_one_connection_per_goroutine.

(* The browser signature a goroutine presents is the configured one or its fallback, nothing else; the
   fallback (chrome -> firefox, direct transport only) is taken only after a failed handshake: while only
   dials have failed, every attempt carries the configured signature. *)
Theorem C06_connector_signatures : forall s direct b b',
  In b' (creates (fst (conn_loop direct b s))) -> b' = b \/ b' = fallback direct b.
Proof. intros s direct b b'. exact (conn_loop_signatures s direct b b'). Qed.
Print Assumptions C06_connector_signatures.

Theorem C06_connector_configured_signature_until_a_handshake_fails : forall pre direct b s,
  forallb is_dialfail pre = true ->
  firstn (length pre) (creates (fst (conn_loop direct b (pre ++ s)))) = repeat b (length pre).
Proof. exact conn_loop_before_first_hsfail. Qed.
Print Assumptions C06_connector_configured_signature_until_a_handshake_fails.

(* MakeSession returns only when every goroutine has its connection; the session is given exactly one
   connection per goroutine; and its key is one a successful handshake returned - whichever goroutine
   finished last - so when the server gives every connection of the session the same key
   (C06_same_session_same_key), the client's session is built from that key. *)
Theorem C06_connector_session : forall direct b scripts order key n,
  make_session direct b scripts order = Some (key, n) ->
  n = length scripts /\
  (forall s, In s scripts -> exists k, snd (conn_loop direct b s) = Some k) /\
  (last order 0 < length scripts -> exists s, In s scripts /\ snd (conn_loop direct b s) = Some key).
Proof. exact make_session_spec. Qed.
Print Assumptions C06_connector_session.

Theorem C06_connector_session_key_is_the_servers : forall direct b scripts order key n K,
  make_session direct b scripts order = Some (key, n) -> last order 0 < length scripts ->
  (forall s k, In s scripts -> snd (conn_loop direct b s) = Some k -> k = K) -> key = K.
Proof. exact make_session_same_key. Qed.
Print Assumptions C06_connector_session_key_is_the_servers.
