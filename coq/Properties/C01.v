(* C01 - Tunnelled TCP streams deliver exactly the bytes written, in order, per stream.
   Statements over EVERY label sequence of the session-pair model coq/Model/Mux.v: any number of
   connections and streams, any write sizes, any cross-connection arrival order, in both
   directions (s ranges over both sides) - and, for the prefix statement, also any faults, closes
   and timers. *)
From Coq Require Import NArith ZArith List Bool.
From Cloak Require Import Model.Reorder Model.Mux Proofs.MuxBase Proofs.MuxSafety Proofs.MuxView
  Proofs.MuxEffect Proofs.MuxPay Proofs.MuxData Proofs.MuxCalm Proofs.MuxCount Proofs.MuxUp Proofs.MuxCov Proofs.MuxComplete.
Import ListNotations.
Local Open Scope N_scope.

(* What the reader of stream sid on the other side has been given is a prefix of what the writes of
   side s on that same stream accepted: same bytes, same order, nothing duplicated, corrupted or
   taken from another stream - whatever the arrival order across connections. *)
Theorem C01_reads_prefix_of_written :
  forall k sp u ta tb s sid ls,
  fresh_run (init k sp u ta tb) ls ->
  nE (run_frames s sid (outputs k sp u ta tb ls)) + 2 < two64 ->
  exists tail, run_written s sid ls (outputs k sp u ta tb ls) = run_reads s sid ls (outputs k sp u ta tb ls) ++ tail.
Proof. exact reads_prefix_of_written. Qed.
Print Assumptions C01_reads_prefix_of_written.

(* the invariant behind it, in every reachable state: frames numbered in emission order; every
   frame in flight is one of them, at most once; the receiver's re-sequencer holds exactly the
   arrived ones; what was read plus what waits in the pipe is the concatenation of the first k *)
Theorem C01_data_invariant :
  forall k sp u ta tb s sid ls,
  fresh_run (init k sp u ta tb) ls ->
  nE (run_frames s sid (outputs k sp u ta tb ls)) + 2 < two64 ->
  PD s sid (reach k sp u ta tb ls) (run_frames s sid (outputs k sp u ta tb ls))
     (run_reads s sid ls (outputs k sp u ta tb ls)) [].
Proof. exact reach_PD. Qed.
Print Assumptions C01_data_invariant.

(* "While every underlying connection stays healthy and neither side closes it, a session with open
   streams keeps working": over k >= 1 connections, in multiplexed mode, after ANY sequence of opens,
   writes, reads, accepts, stream closes, frame deliveries (any cross-connection order, any
   connection picks) and inactivity-timer ticks taken while both sides have an open stream,
   neither session is closed, neither switchboard is broken, and no connection is closed or failed. *)
Theorem C01_session_with_open_streams_stays_up :
  forall k unit toA toB ls,
  (1 <= k)%nat -> 1 <= unit ->
  fresh_opens (init k false unit toA toB) ls -> busy_run k (init k false unit toA toB) ls ->
  all_up (reach k false unit toA toB ls).
Proof. exact session_with_open_streams_stays_up. Qed.
Print Assumptions C01_session_with_open_streams_stays_up.

(* ... and on such a session every Write on a stream that is open at the writer is accepted whole *)
Theorem C01_write_accepted_whole :
  forall k unit toA toB ls y outs x sid data ch st y' evs,
  (1 <= k)%nat -> 1 <= unit -> calm_run k ls -> run (init k false unit toA toB) ls = (y, outs) ->
  valid_picks k ch -> lookup sid (se_objs (sess y x)) = Some st -> st_closed st = false ->
  step y (LWrite x sid data) ch = (y', evs) ->
  exists e0 e1, evs = e0 ++ ERet R_OK (N.of_nat (List.length data)) [] :: e1.
Proof. exact healthy_write_accepted. Qed.
Print Assumptions C01_write_accepted_whole.

(* Nothing is lost: on a healthy session (k >= 1 connections, multiplexed; any opens, writes, reads,
   accepts, closes of OTHER streams, deliveries in any cross-connection order, timer ticks while
   streams are open), for each direction (s, sid) of a stream in which no closing frame has been
   emitted and whose reader has not closed its end: once no frame of that direction is in flight,
   the bytes read so far followed by the bytes waiting in the reader's pipe are EXACTLY the bytes
   the writes accepted - every byte, once, in order. *)
Theorem C01_nothing_lost :
  forall s sid k unit toA toB ls,
  (1 <= k)%nat -> 1 <= unit ->
  fresh_run (init k false unit toA toB) ls -> busy_run k (init k false unit toA toB) ls ->
  let os := outputs k false unit toA toB ls in
  let y := reach k false unit toA toB ls in
  nE (run_frames s sid os) + 2 < two64 -> all_data (run_frames s sid os) ->
  inflight s sid y = [] -> ron (rview s sid y) ->
  run_written s sid ls os =
  run_reads s sid ls os ++ match rview s sid y with Some (rb, _) => pipe rb | None => [] end.
Proof. exact nothing_lost. Qed.
Print Assumptions C01_nothing_lost.

(* ---------------------------------------------------------------------------------------------
   The relay level: common.Copy (internal/common/copy.go) and the uplink of client.RouteTCP
   (internal/client/piper.go), Model/Copy.v.  The behaviour of the two connections is an input: ANY
   script of Read results (bytes + error) and Write results (count + error). *)
From Cloak Require Import Model.Copy Proofs.Copy Proofs.RelayChain.
Local Open Scope Z_scope.

(* What Copy's loop hands to dst.Write is, byte for byte and in order, what the Read calls it consumed
   returned (`pre` = the consumed prefix of the script): nothing dropped, duplicated or invented,
   whatever the reads return (empty reads, bytes together with an error) and however the writes fail. *)
Theorem C01_copy_forwards_exactly : forall rs ws dn,
  co_fuel (copy KPlain rs ws dn) = false ->
  exists pre, rs = pre ++ co_reads_left (copy KPlain rs ws dn) /\
              concat (writes_of (co_evs (copy KPlain rs ws dn))) = concat (map fst pre).
Proof. exact copy_forwards_reads. Qed.
Print Assumptions C01_copy_forwards_exactly.

(* A source that ends with EOF after any successful reads, into a sink that takes what it is given:
   EVERYTHING is forwarded (also the bytes that came together with the EOF), the error is nil and the
   count returned is the number of bytes forwarded. *)
Theorem C01_copy_complete : forall pre d left ws dn,
  forallb rnil pre = true -> (length pre + 1 <= length ws)%nat -> forallb honest ws = true ->
  co_fuel (copy KPlain (pre ++ (d, REOF) :: left) ws dn) = false /\
  co_err (copy KPlain (pre ++ (d, REOF) :: left) ws dn) = CNil /\
  concat (writes_of (co_evs (copy KPlain (pre ++ (d, REOF) :: left) ws dn))) = concat (map fst pre) ++ d /\
  co_written (copy KPlain (pre ++ (d, REOF) :: left) ws dn) = zlen (concat (map fst pre) ++ d).
Proof. exact copy_complete. Qed.
Print Assumptions C01_copy_complete.

(* On every path - delegated to WriteTo / ReadFrom or not, success or failure - both connections are
   closed, source first, as the last two calls, and never before. *)
Theorem C01_copy_closes_both : forall k rs ws dn,
  exists evs, co_evs (copy k rs ws dn) = evs ++ [ECloseSrc; ECloseDst] /\ no_close evs = true.
Proof. exact copy_closes_both. Qed.
Print Assumptions C01_copy_closes_both.

(* A nil error is returned only after an EOF from the source. *)
Theorem C01_copy_nil_only_after_eof : forall rs ws written acc,
  co_fuel (copy_loop rs ws written acc) = false -> co_err (copy_loop rs ws written acc) = CNil ->
  exists pre d, rs = pre ++ (d, REOF) :: co_reads_left (copy_loop rs ws written acc) /\ forallb rnil pre = true.
Proof. exact copy_loop_nil_only_eof. Qed.
Print Assumptions C01_copy_nil_only_after_eof.

(* The uplink of RouteTCP (first packet by ReadAtLeast + Stream.Write, then Stream.ReadFrom): the
   concatenation of its Stream writes is a prefix of what the local connection's reads returned, and
   the local connection is closed on every path. *)
Theorem C01_relay_uplink_prefix : forall rs,
  (exists tail, concat (map fst rs) = concat (swrites (route_tcp_up rs)) ++ tail) /\ In SCloseLocal (route_tcp_up rs).
Proof. exact relay_uplink_prefix. Qed.
Print Assumptions C01_relay_uplink_prefix.

(* End to end, composed with the session-pair theorem: if the writes of side s on stream sid are those
   of a RouteTCP uplink fed by the read script rs of its local connection, and the far end pumps what
   its Stream.Read calls return (rs2) into its own connection with Copy, then - over EVERY label
   sequence of the session pair, any number of connections, any arrival order, faults included, and
   every behaviour of the three connections - what the far connection is handed is a prefix of what the
   local peer sent. *)
Theorem C01_relay_end_to_end :
  forall k sp u ta tb s sid ls (rs rs2 : list rd) (ws : list wout) (dn : Z),
  fresh_run (init k sp u ta tb) ls ->
  (nE (run_frames s sid (outputs k sp u ta tb ls)) + 2 < two64)%N ->
  run_written s sid ls (outputs k sp u ta tb ls) = concat (swrites (route_tcp_up rs)) ->
  concat (map fst rs2) = run_reads s sid ls (outputs k sp u ta tb ls) ->
  co_fuel (copy KPlain rs2 ws dn) = false ->
  exists tail, concat (map fst rs) = concat (writes_of (co_evs (copy KPlain rs2 ws dn))) ++ tail.
Proof. exact relay_end_to_end. Qed.
Print Assumptions C01_relay_end_to_end.
