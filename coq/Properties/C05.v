(* C05 - Record framing survives any TCP segmentation and concurrent writers.
   This file contains only the property theorems, each closed by [exact <lemma>].
   Vocabulary (Model/Record.v, Proofs/Record.v):
     rec_write m       what TLSConn.Write hands to its single underlying Conn.Write (None: refused);
     wire_of ms        the byte stream after the messages ms went through TLSConn.Write in this order;
     chunks            the inbound stream as a list of TCP segments (each underlying Read returns a
                       prefix of the head segment; after the last one: io.EOF);
     tls_read b cs     one TLSConn.Read with a b-byte buffer; tls_reads the caller's read-until-error loop;
     fits b ms         every message of ms is at most b bytes long;
     run_sched qs s    the order in which the Write calls of several writers (queues qs) reach the
                       connection under schedule s; sel i s l = the messages of writer i within l. *)
From Coq Require Import NArith ZArith List.
From Cloak Require Import Gen.Consts Model.Record Proofs.Record Model.WsWriters Proofs.WsWriters.
Import ListNotations.
Local Open Scope N_scope.

(* every message passed to one Write is received by exactly one Read, whole, unaltered, in the
   order sent, for ALL segmentations cs of the byte stream; then end-of-stream.  Messages may be
   empty. *)
Theorem C05_one_write_one_read : forall ms cs buflen fuel,
  fits write_limit ms -> fits buflen ms -> hdr_len <= buflen -> (length ms < fuel)%nat ->
  concat cs = wire_of ms ->
  tls_reads fuel buflen cs = map TrData ms ++ [TrEOF].
Proof. exact one_write_one_read. Qed.
Print Assumptions C05_one_write_one_read.

(* the writer side of the statement: a message within the limit becomes header ++ message in ONE
   underlying write; a longer one is refused and leaves nothing on the wire *)
Theorem C05_write_shape : forall m,
  (nlen m <= write_limit -> rec_write m = Some (header app_data tls13 (nlen m) ++ m))
  /\ (write_limit < nlen m -> rec_write m = None /\ forall ms, wire_of (m :: ms) = wire_of ms).
Proof. intros m. split; [exact (rec_write_frame m)|].
  intros H. split; [exact (rec_write_refuses m H)|]. intros ms. exact (wire_of_refused m ms H). Qed.
Print Assumptions C05_write_shape.

(* any two segmentations of the same byte stream give the same read results (for arbitrary byte
   streams, well-formed or not, any buffer size) *)
Theorem C05_segmentation_irrelevant : forall fuel buflen cs cs', concat cs = concat cs' ->
  tls_reads fuel buflen cs = tls_reads fuel buflen cs'.
Proof. exact segmentation_irrelevant. Qed.
Print Assumptions C05_segmentation_irrelevant.

Theorem C05_segmentation_irrelevant_one : forall buflen cs cs', concat cs = concat cs' ->
  fst (tls_read buflen cs) = fst (tls_read buflen cs')
  /\ concat (snd (tls_read buflen cs)) = concat (snd (tls_read buflen cs')).
Proof. exact segmentation_irrelevant_one. Qed.
Print Assumptions C05_segmentation_irrelevant_one.

(* a record larger than the reader's buffer is reported as an error; no payload byte is handed
   over as data (the body stays in the stream, the caller's loop stops at the error) *)
Theorem C05_oversize_is_error : forall buflen m rest cs,
  hdr_len <= buflen -> buflen < nlen m -> nlen m <= write_limit ->
  concat cs = header app_data tls13 (nlen m) ++ m ++ rest ->
  fst (tls_read buflen cs) = TrShortBuffer /\ concat (snd (tls_read buflen cs)) = m ++ rest
  /\ forall fuel, tls_reads (S fuel) buflen cs = [TrShortBuffer].
Proof. intros buflen m rest cs Hb Hm Hl Hc. apply (oversize_is_error buflen m rest cs Hb Hm Hl).
  unfold frame. rewrite <- app_assoc. exact Hc. Qed.
Print Assumptions C05_oversize_is_error.

Theorem C05_tiny_buffer : forall buflen cs, buflen < hdr_len -> tls_read buflen cs = (TrShortBuffer, cs).
Proof. exact tiny_buffer. Qed.
Print Assumptions C05_tiny_buffer.

(* several writers, each Write one atomic append: for every schedule of the Write calls and every
   segmentation, the reader obtains whole messages forming an interleaving of the writers' message
   sequences that preserves each writer's order *)
Theorem C05_no_interleave : forall (qs : list (list (list N))) sched l qf cs buflen fuel,
  run_sched qs sched = Some (l, qf) ->
  Forall (fits write_limit) qs -> Forall (fits buflen) qs -> hdr_len <= buflen -> (length l < fuel)%nat ->
  concat cs = wire_of l ->
  tls_reads fuel buflen cs = map TrData l ++ [TrEOF]
  /\ forall i, nth i qs [] = sel i sched l ++ nth i qf [].
Proof. exact no_interleave. Qed.
Print Assumptions C05_no_interleave.

(* WebSocket adapter: the Read loop returns the whole binary message, or an error when it does not
   fit or the message reader fails - never a truncated success *)
Theorem C05_ws_whole_or_error : forall buflen ps,
  (forall x, ws_read buflen true ps = WsOk x -> x = ws_message ps /\ nlen x <= buflen /\ all_data ps)
  /\ (all_data ps -> nlen (ws_message ps) <= buflen -> ws_read buflen true ps = WsOk (ws_message ps))
  /\ (buflen < nlen (ws_message ps) -> forall x, ws_read buflen true ps <> WsOk x).
Proof. exact ws_whole_or_error. Qed.
Print Assumptions C05_ws_whole_or_error.

(* obligations about the constants measured in the source on every run *)
Theorem C05_consts :
  write_limit = 16640 /\ write_limit < 65536 /\ hdr_len = 5 /\ app_data = 23 /\ tls13 = 771
  /\ Z.to_N mux_defaultMaxOnWireSize <= write_limit.
Proof. exact (conj write_limit_val (conj write_limit_fits_u16 (conj hdr_len_val
         (conj (proj1 app_data_val) (conj (proj2 app_data_val) frame_fits_record))))). Qed.
Print Assumptions C05_consts.

(* non-vacuity: three messages (one empty) cut into nine segments / into single bytes; end of
   stream inside a body, inside a header, at a record boundary; short buffers *)
Theorem C05_example :
  let ms := [[1;2;3]; []; [4]] in
  let w := wire_of ms in
  fits write_limit ms /\ fits 5 ms
  /\ tls_reads 9 5 (cut_at 0 [1;2;6;7;8;9;13;14;18] w) = [TrData [1;2;3]; TrData []; TrData [4]; TrEOF]
  /\ tls_reads 9 5 (map (fun b => [b]) w) = [TrData [1;2;3]; TrData []; TrData [4]; TrEOF]
  /\ tls_reads 9 5 (cut_at 0 [6] (firstn 7 w)) = [TrUnexpectedEOF 2]
  /\ tls_reads 9 5 [firstn 3 w] = [TrUnexpectedEOF 0]
  /\ tls_reads 9 5 [firstn 13 w] = [TrData [1;2;3]; TrData []; TrEOF]
  /\ tls_reads 9 2 [w] = [TrShortBuffer]
  /\ tls_reads 9 5 [[23;3;3;0;6;1;2;3;4;5;6]] = [TrShortBuffer].
Proof. exact ex_reads. Qed.
Print Assumptions C05_example.

(* WebSocket adapter, WRITE side (Model/WsWriters.v): WebSocketConn.Write = writeM.Lock; WriteMessage;
   writeM.Unlock, where one message is one or more frames (one underlying Write each, FIN on the last).
   wrun n (w_init qs) tr = the writers' threads (queues qs of messages to write) after the
   interleaving tr of their steps (take the mutex / hand one frame to the connection / release);
   lock_order tr = who took the mutex, in order; reasm = the peer's message reader.
   For EVERY interleaving: the messages that took the mutex, in that order, are an order-preserving
   merge of the writers' queues; with no write in progress the peer has received exactly these
   messages, whole, each once, in that order; at any moment it has received a prefix of them lacking
   at most the one being written. *)
Theorem C05_ws_no_interleave : forall n qs tr st, wrun n (w_init qs) tr = Some st ->
  exists l, run_sched qs (lock_order tr) = Some (l, w_queues st)
    /\ (forall i, nth i qs [] = sel i (lock_order tr) l ++ nth i (w_queues st) [])
    /\ (w_lock st = None -> reasm [] (w_wire st) = (l, []))
    /\ exists k, fst (reasm [] (w_wire st)) = firstn k l /\ (length l <= S k)%nat.
Proof. exact ws_no_interleave. Qed.
Print Assumptions C05_ws_no_interleave.

(* ... and each of them is returned by one WebSocketConn.Read whose buffer it fits *)
Theorem C05_ws_reads_whole : forall buflen (l : list (list N)) (pss : list (list piece)),
  Forall2 (fun ps m => all_data ps /\ ws_message ps = m) pss l -> fits buflen l ->
  map (ws_read buflen true) pss = map WsOk l.
Proof. exact ws_reads_whole. Qed.
Print Assumptions C05_ws_reads_whole.

(* the holder of the write mutex can always take its next step (no writer waits for ever) *)
Theorem C05_ws_holder_moves : forall n st j, w_lock st = Some j ->
  (exists st', wstep n st (j, WEmit) = Some st') \/ (exists st', wstep n st (j, WUnlock) = Some st').
Proof. exact ws_holder_moves. Qed.
Print Assumptions C05_ws_holder_moves.

(* what the mutex is for: the same writers without it (ustep: a writer enters WriteMessage at once)
   have a run after which the peer has read two messages neither of which was written *)
Theorem C05_ws_unlocked_refuted :
  exists tr st, urun 1 (u_init [[[1;2;3;4]]; [[9]]]) tr = Some st
    /\ fst (reasm [] (u_wire st)) = [[1;2;9]; [3;4]]
    /\ ~ In [1;2;9] [[1;2;3;4]; [9]].
Proof. exact ws_unlocked_interleaves. Qed.
Print Assumptions C05_ws_unlocked_refuted.

(* non-vacuity: a run of the locked system with both writers and a fragmented message *)
Theorem C05_ws_example :
  exists st, wrun 1 (w_init [[[1;2;3;4]; [5]]; [[9]]])
                 [(0, WLock); (0, WEmit); (0, WEmit); (0, WUnlock); (1, WLock); (1, WEmit); (1, WUnlock);
                  (0, WLock); (0, WEmit); (0, WUnlock)]%nat = Some st
    /\ reasm [] (w_wire st) = ([[1;2;3;4]; [9]; [5]], []) /\ w_lock st = None /\ length (w_wire st) = 4%nat.
Proof. exact ws_example. Qed.
Print Assumptions C05_ws_example.
