(* C11 - Forged, foreign or modified frames are rejected; garbage never breaks a session.
   Only the property theorems, each closed by [exact <lemma>].

   The property as stated (every modification of an honest message is dropped) is FALSE of the
   code: the AEAD nonce is header[:12], so header bytes 12 (closing) and 13 (extra length) are
   not authenticated (finding F3).  Hence: C11_full is a Definition, C11_refuted refutes it
   with the real ciphers, C11_partial states exactly what does hold. *)
From Coq Require Import NArith ZArith List.
From Cloak Require Import Gen.Consts Model.Crypto.CBytes Model.Codec Proofs.Codec Proofs.CodecAuth.
Import ListNotations.
Local Open Scope Z_scope.

(* Arbitrary received bytes never crash deobfuscate, under any method (plain included): every
   slice expression is in range for EVERY byte string. *)
Theorem C11_no_panic : forall (m : method) (key msg : list N), decode m key msg <> Panic.
Proof. exact decode_no_panic. Qed.
Print Assumptions C11_no_panic.

(* The property as stated: every single-bit modification of an honest message under an AEAD
   method is rejected. *)
Definition C11_full : Prop :=
  forall (m : method) (key : list N) (f : frame) (padLen : N) (rnd msg : list N) (i : nat) (b : N),
    m <> Plain ->
    (f_sid f < 2 ^ 32)%N -> (f_seq f < 2 ^ 64)%N -> (f_closing f < 256)%N ->
    Z.of_N padLen <= mux_maxExtraLen - method_tag_len m ->
    encode m key f padLen rnd = Some msg ->
    (i < length msg)%nat -> (b < 8)%N ->
    forall f', decode m key (flip_bit msg i b) <> Ok f'.

Theorem C11_refuted : ~ C11_full.
Proof. exact full_refuted. Qed.
Print Assumptions C11_refuted.

(* The witnesses (real ciphers, evaluated by vm_compute): for each AEAD method, flipping bit 0
   of byte 12 of an honest message of stream 0xdeadbeef, seq 4, closing 1 is accepted with the
   same stream, sequence number and payload but closing = 0 ... *)
Theorem C11_witness_closing : forall m, m <> Plain ->
  decode m ex_key (flip_bit (honest m) 12 0) =
  Ok (mkFrame (f_sid ex_frame) (f_seq ex_frame) 0 (f_payload ex_frame)).
Proof. exact closing_flip_accepted. Qed.
Print Assumptions C11_witness_closing.

(* ... and flips in byte 13 change the payload length (longer: padding and tag bytes are
   handed to the application; shorter: the payload is truncated) *)
Theorem C11_witness_extralen :
  decode ChaCha20Poly1305 ex_key (flip_bit (honest ChaCha20Poly1305) 13 0) =
    Ok (mkFrame (f_sid ex_frame) (f_seq ex_frame) 1 (f_payload ex_frame ++ [200%N])) /\
  decode ChaCha20Poly1305 ex_key (flip_bit (honest ChaCha20Poly1305) 13 2) =
    Ok (mkFrame (f_sid ex_frame) (f_seq ex_frame) 1 [104%N]) /\
  (exists p, decode AES128GCM ex_key (flip_bit (honest AES128GCM) 13 4) =
    Ok (mkFrame (f_sid ex_frame) (f_seq ex_frame) 1 p) /\ length p = 21%nat /\
    firstn 8 p = f_payload ex_frame ++ [200; 201; 202]%N).
Proof. exact extralen_flip_accepted. Qed.
Print Assumptions C11_witness_extralen.

(* What does hold.  For an AEAD with a 12-byte nonce that is ideal in the sense that (1)
   whatever opens under a nonce is literally a Seal output under that nonce and (2) Seal
   outputs determine nonce and plaintext (hypotheses, not axioms; they are satisfiable, see
   C11_partial_not_vacuous): if an honest message has only its header bytes altered and is
   still accepted, then stream id and sequence number are the honest ones, the first 12 bytes
   are unaltered, and the payload is a prefix of payload ++ padding ++ tag - i.e. exactly
   header bytes 12 and 13 escape authentication. *)
Theorem C11_partial :
  forall (a : aead),
  aead_ok a -> a_nonce_size a = 12%nat ->
  (forall n c p, length n = 12%nat -> a_open a n c = Some p -> c = a_seal a n p) ->
  (forall n n' p p', length n = 12%nat -> length n' = 12%nat ->
     a_seal a n p = a_seal a n' p' -> n = n' /\ p = p') ->
  forall (key : list N) (f : frame) (padLen : N) (rnd msg msg' : list N) (f' : frame),
  (f_sid f < 2 ^ 32)%N -> (f_seq f < 2 ^ 64)%N ->
  encode_with (Some a) key f padLen rnd = Some msg ->
  length msg' = length msg -> skipn 14 msg' = skipn 14 msg ->
  decode_with (Some a) key msg' = Ok f' ->
  f_sid f' = f_sid f /\ f_seq f' = f_seq f /\ firstn 12 msg' = firstn 12 msg /\
  exists k, f_payload f' =
    firstn k (f_payload f ++ firstn (N.to_nat padLen) rnd ++
              skipn (length (f_payload f) + N.to_nat padLen) (skipn 14 msg)).
Proof. exact header_tamper. Qed.
Print Assumptions C11_partial.

(* More generally, under hypothesis (1): whatever is accepted carries a body that was sealed
   under the nonce spelling the decoded stream id and sequence number (forged, foreign-key or
   body-modified messages are rejected to the extent the AEAD is unforgeable). *)
Theorem C11_accepted_is_sealed :
  forall (a : aead),
  a_nonce_size a = 12%nat ->
  (forall n c p, length n = 12%nat -> a_open a n c = Some p -> c = a_seal a n p) ->
  forall (key msg : list N) (f' : frame),
  decode_with (Some a) key msg = Ok f' ->
  exists n pt, length n = 12%nat /\ skipn 14 msg = a_seal a n pt /\
    f_sid f' = be_num (firstn 4 n) /\ f_seq f' = be_num (skipn 4 n).
Proof. exact accepted_is_sealed. Qed.
Print Assumptions C11_accepted_is_sealed.

Theorem C11_partial_not_vacuous :
  aead_ok toy_aead /\ a_nonce_size toy_aead = 12%nat /\
  (forall n c p, length n = 12%nat -> a_open toy_aead n c = Some p -> c = a_seal toy_aead n p) /\
  (forall n n' p p', length n = 12%nat -> length n' = 12%nat ->
     a_seal toy_aead n p = a_seal toy_aead n' p' -> n = n' /\ p = p').
Proof. exact ideal_section_inhabited. Qed.
Print Assumptions C11_partial_not_vacuous.

(* A rejected message has no effect: for every method, every session state, every handler of
   accepted frames and every sequence of received byte strings, the receive loop ends in the
   same state as if the rejected strings had never arrived (so later valid frames are processed
   as usual), and it never crashes in the decoder. *)
Theorem C11_drop_no_effect :
  forall (S O : Type) (handle : S -> frame -> S * O) (m : method) (key : list N)
         (datas : list (list N)) (st : S),
  recv_all handle (payload_cipher m key) key st datas =
    recv_all handle (payload_cipher m key) key st (filter (accepted (payload_cipher m key) key) datas) /\
  recv_all handle (payload_cipher m key) key st datas <> None.
Proof. exact drop_no_effect_methods. Qed.
Print Assumptions C11_drop_no_effect.
