(* C07 - Only holders of valid, timely credentials are ever treated as Cloak clients.
   Only the property theorems, each closed by [exact <lemma>].

   The decision model (Model/Dispatch.v) is parameterised by X25519 (dh) and AES-GCM (gcm_open); the theorems
   hold for EVERY pair of functions such that opening strips the 16-byte tag (the Gallina AES-GCM does:
   Proofs/Crypto.v gcm_open_length).  Vocabulary (Proofs/Dispatch.v):
     valid_cloak dh gcm_open p st now ci  :=  the first packet parses (parser of Model/Hello.v) into an ephemeral
        value r and a 64-byte block c; r (bit 255 cleared) is not in the replay cache; c opens under the key
        X25519(static private key, r) with nonce r[0:12] to a 48-byte plaintext whose timestamp is strictly
        inside the window around the server clock; ci = the fields of that plaintext.
     admin_ok st ci   :=  AdminUID <> [] /\ uid = AdminUID /\ session id = 0
     user_active / In _ (st_bypass st) / db_authorises : the three ways a UID is authorised. *)
From Coq Require Import NArith ZArith List Bool.
From Cloak Require Import Gen.Consts Model.Hello Model.FirstPacket Model.Dispatch Proofs.Dispatch.
Import ListNotations.
Local Open Scope N_scope.

(* soundness and completeness, proxy sessions: accepted exactly when the credential is valid and fresh, the
   encryption method is one MakeObfuscator knows, the admin gate does not apply, the method is in the
   ProxyBook, the UID is authorised (already active, or in BypassUID, or the database authorises it) and
   GetSession grants the session id *)
Theorem C07_sound_complete_proxy : forall (dh : list N -> list N -> option (list N)) (gcm_open : list N -> list N -> list N -> list N -> option (list N)),
  (forall k n ct aad pt, gcm_open k n ct aad = Some pt -> (length pt + 16 = length ct)%nat) ->
  forall p st now uid sid m enc un,
  decide dh gcm_open p st now = ProxySession uid sid m enc un <->
  exists ci, valid_cloak dh gcm_open p st now ci /\ known_enc (ci_enc ci) = true /\ ~ admin_ok st ci /\
    In (ci_method ci) (st_proxyBook st) /\
    (exists a, get_user st (ci_uid ci) now = Some a /\ get_session st a (ci_sid ci) now = true) /\
    uid = ci_uid ci /\ sid = ci_sid ci /\ m = ci_method ci /\ enc = ci_enc ci /\ un = ci_unordered ci.
Proof. exact decide_proxy_iff. Qed.

(* who get_user admits: already active, bypass list, or the database (exists, both credits > 0, not expired) *)
Theorem C07_authorised_uid : forall st uid now,
  (exists a, get_user st uid now = Some a) <->
  (user_active st uid \/ In uid (st_bypass st) \/ db_authorises st uid now).
Proof. exact get_user_some_iff. Qed.

(* the admin gate: the API is reached exactly with a valid credential carrying the configured, non-empty
   admin UID and session id 0 *)
Theorem C07_admin_gate : forall (dh : list N -> list N -> option (list N)) (gcm_open : list N -> list N -> list N -> list N -> option (list N)),
  (forall k n ct aad pt, gcm_open k n ct aad = Some pt -> (length pt + 16 = length ct)%nat) ->
  forall p st now,
  decide dh gcm_open p st now = AdminSession <->
  exists ci, valid_cloak dh gcm_open p st now ci /\ known_enc (ci_enc ci) = true /\ admin_ok st ci.
Proof. exact decide_admin_iff. Qed.

(* the credential itself: AuthFirstPacket succeeds exactly on valid_cloak *)
Theorem C07_auth_first_packet : forall (dh : list N -> list N -> option (list N)) (gcm_open : list N -> list N -> list N -> list N -> option (list N)),
  (forall k n ct aad pt, gcm_open k n ct aad = Some pt -> (length pt + 16 = length ct)%nat) ->
  forall p st now ci,
  auth_first_packet dh gcm_open p st now = DOk ci <-> valid_cloak dh gcm_open p st now ci.
Proof. exact auth_ok_iff. Qed.

(* every other first packet is web traffic (redirect), or - an authorised user refused a further session -
   dropped; never a crash; and the server originates no byte *)
Theorem C07_else_web : forall (dh : list N -> list N -> option (list N)) (gcm_open : list N -> list N -> list N -> list N -> option (list N)),
  (forall k n ct aad pt, gcm_open k n ct aad = Some pt -> (length pt + 16 = length ct)%nat) ->
  forall p st now,
  ~ is_session (decide dh gcm_open p st now) ->
  (exists r, decide dh gcm_open p st now = Redirect r) \/ decide dh gcm_open p st now = DropConn.
Proof. exact decide_else. Qed.

Theorem C07_else_no_server_byte : forall (dh : list N -> list N -> option (list N)) (gcm_open : list N -> list N -> list N -> list N -> option (list N)),
  (forall k n ct aad pt, gcm_open k n ct aad = Some pt -> (length pt + 16 = length ct)%nat) ->
  forall (http_hidden : list N -> option (list N)) s e st now,
  ~ is_session (decide dh gcm_open (packet_of http_hidden (rfp s e)) st now) ->
  server_writes (dispatch_conn dh gcm_open http_hidden s e st now) = false.
Proof. exact else_no_server_byte. Qed.
Print Assumptions C07_sound_complete_proxy.
Print Assumptions C07_authorised_uid.
Print Assumptions C07_admin_gate.
Print Assumptions C07_auth_first_packet.
Print Assumptions C07_else_web.
Print Assumptions C07_else_no_server_byte.

(* the window: strict on both sides, in nanoseconds of the server clock against whole seconds of the client's *)
Theorem C07_window : forall ts now, (Z.of_N ts < 2 ^ 62)%Z ->
  in_window ts now = true <->
  (now - tolerance < Z.of_N ts * ns_per_s /\ Z.of_N ts * ns_per_s < now + tolerance)%Z.
Proof. exact in_window_iff. Qed.
Print Assumptions C07_window.

Theorem C07_window_seconds : forall ts now, (Z.of_N ts < 2 ^ 62)%Z ->
  let sec := (now / ns_per_s)%Z in
  let nsec := (now mod ns_per_s)%Z in
  in_window ts now = true <->
  (sec - 180 < Z.of_N ts /\ (Z.of_N ts < sec + 180 \/ (Z.of_N ts = sec + 180 /\ 0 < nsec)))%Z.
Proof. exact in_window_seconds. Qed.
Print Assumptions C07_window_seconds.

(* edges: with the server clock on a whole second, +-180 s are rejected and +-179 s accepted; with a fractional
   server clock the client second sec+180 is (strictly) inside, sec-180 and sec+181 are not *)
Theorem C07_window_edges : forall sec, (180 <= sec)%Z -> (sec + 181 < 2 ^ 62)%Z ->
  let now := (sec * ns_per_s)%Z in
  in_window (Z.to_N (sec + 180)) now = false /\ in_window (Z.to_N (sec - 180)) now = false /\
  in_window (Z.to_N (sec + 179)) now = true /\ in_window (Z.to_N (sec - 179)) now = true /\
  (forall ns, (0 < ns < ns_per_s)%Z ->
     in_window (Z.to_N (sec + 180)) (now + ns) = true /\ in_window (Z.to_N (sec - 179)) (now + ns) = true /\
     in_window (Z.to_N (sec - 180)) (now + ns) = false /\ in_window (Z.to_N (sec + 181)) (now + ns) = false).
Proof. exact window_edges. Qed.
Print Assumptions C07_window_edges.

(* generated obligation: the tolerance the theorems speak about is the 180 s of the source *)
Theorem C07_tolerance_is_180s : tolerance = (180 * ns_per_s)%Z.
Proof. exact tolerance_180s. Qed.
Print Assumptions C07_tolerance_is_180s.
