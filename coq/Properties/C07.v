(* C07 - Only holders of valid, timely credentials are ever treated as Cloak clients.
   Only the property theorems, each closed by [exact <lemma>].

   The decision model (Model/Dispatch.v) is parameterised by X25519 (dh) and AES-GCM (gcm_open); the theorems
   hold for EVERY pair of functions such that opening strips the 16-byte tag (the Gallina AES-GCM does:
   Proofs/Crypto.v gcm_open_length).  Vocabulary (Proofs/Dispatch.v):
     valid_cloak dh gcm_open p st now ci  :=  the first packet parses (parser of Model/Hello.v) into an ephemeral
        value r and a 64-byte block c; r (bit 255 cleared) is not in the replay cache; c opens under the key
        X25519(static private key, r) with nonce r[0:12] to a 48-byte plaintext whose timestamp is strictly
        inside the window around the server clock; ci = the fields of that plaintext.
     admin_ok st ci   :=  AdminUID <> [] /\ uid = AdminUID /\ session id = 0
     user_active / In _ (st_bypass st) / db_authorises : the three ways a UID is authorised. *)
From Coq Require Import NArith ZArith List Bool.
From Cloak Require Import Gen.Consts Model.Hello Model.FirstPacket Model.Dispatch Proofs.Dispatch.
From Cloak Require Import Model.Crypto.X25519 Model.DispatchInst Model.LowOrder Proofs.LowOrder.
From Cloak Require Import Model.ServerInit Proofs.ServerInit.
Import ListNotations.
Local Open Scope N_scope.

(* soundness and completeness, proxy sessions: accepted exactly when the credential is valid and fresh, the
   encryption method is one MakeObfuscator knows, the admin gate does not apply, the method is in the
   ProxyBook, the UID is authorised (already active, or in BypassUID, or the database authorises it) and
   GetSession grants the session id *)
Theorem C07_sound_complete_proxy : forall (dh : list N -> list N -> option (list N)) (gcm_open : list N -> list N -> list N -> list N -> option (list N)),
  (forall k n ct aad pt, gcm_open k n ct aad = Some pt -> (length pt + 16 = length ct)%nat) ->
  forall p st now uid sid m enc un,
  decide dh gcm_open p st now = ProxySession uid sid m enc un <->
  exists ci, valid_cloak dh gcm_open p st now ci /\ known_enc (ci_enc ci) = true /\ ~ admin_ok st ci /\
    In (ci_method ci) (st_proxyBook st) /\
    (exists a, get_user st (ci_uid ci) now = Some a /\ get_session st a (ci_sid ci) now = true) /\
    uid = ci_uid ci /\ sid = ci_sid ci /\ m = ci_method ci /\ enc = ci_enc ci /\ un = ci_unordered ci.
Proof. exact decide_proxy_iff. Qed.

(* who get_user admits: already active, bypass list, or the database (exists, both credits > 0, not expired) *)
Theorem C07_authorised_uid : forall st uid now,
  (exists a, get_user st uid now = Some a) <->
  (user_active st uid \/ In uid (st_bypass st) \/ db_authorises st uid now).
Proof. exact get_user_some_iff. Qed.

(* the admin gate: the API is reached exactly with a valid credential carrying the configured, non-empty
   admin UID and session id 0 *)
Theorem C07_admin_gate : forall (dh : list N -> list N -> option (list N)) (gcm_open : list N -> list N -> list N -> list N -> option (list N)),
  (forall k n ct aad pt, gcm_open k n ct aad = Some pt -> (length pt + 16 = length ct)%nat) ->
  forall p st now,
  decide dh gcm_open p st now = AdminSession <->
  exists ci, valid_cloak dh gcm_open p st now ci /\ known_enc (ci_enc ci) = true /\ admin_ok st ci.
Proof. exact decide_admin_iff. Qed.

(* the credential itself: AuthFirstPacket succeeds exactly on valid_cloak *)
Theorem C07_auth_first_packet : forall (dh : list N -> list N -> option (list N)) (gcm_open : list N -> list N -> list N -> list N -> option (list N)),
  (forall k n ct aad pt, gcm_open k n ct aad = Some pt -> (length pt + 16 = length ct)%nat) ->
  forall p st now ci,
  auth_first_packet dh gcm_open p st now = DOk ci <-> valid_cloak dh gcm_open p st now ci.
Proof. exact auth_ok_iff. Qed.

(* every other first packet is web traffic (redirect), or - an authorised user refused a further session -
   dropped; never a crash; and the server originates no byte *)
Theorem C07_else_web : forall (dh : list N -> list N -> option (list N)) (gcm_open : list N -> list N -> list N -> list N -> option (list N)),
  (forall k n ct aad pt, gcm_open k n ct aad = Some pt -> (length pt + 16 = length ct)%nat) ->
  forall p st now,
  ~ is_session (decide dh gcm_open p st now) ->
  (exists r, decide dh gcm_open p st now = Redirect r) \/ decide dh gcm_open p st now = DropConn.
Proof. exact decide_else. Qed.

Theorem C07_else_no_server_byte : forall (dh : list N -> list N -> option (list N)) (gcm_open : list N -> list N -> list N -> list N -> option (list N)),
  (forall k n ct aad pt, gcm_open k n ct aad = Some pt -> (length pt + 16 = length ct)%nat) ->
  forall (http_hidden : list N -> option (list N)) s e st now,
  ~ is_session (decide dh gcm_open (packet_of http_hidden (rfp s e)) st now) ->
  server_writes (dispatch_conn dh gcm_open http_hidden s e st now) = false.
Proof. exact else_no_server_byte. Qed.
Print Assumptions C07_sound_complete_proxy.
Print Assumptions C07_authorised_uid.
Print Assumptions C07_admin_gate.
Print Assumptions C07_auth_first_packet.
Print Assumptions C07_else_web.
Print Assumptions C07_else_no_server_byte.

(* the window: strict on both sides, in nanoseconds of the server clock against whole seconds of the client's *)
Theorem C07_window : forall ts now, (Z.of_N ts < 2 ^ 62)%Z ->
  in_window ts now = true <->
  (now - tolerance < Z.of_N ts * ns_per_s /\ Z.of_N ts * ns_per_s < now + tolerance)%Z.
Proof. exact in_window_iff. Qed.
Print Assumptions C07_window.

Theorem C07_window_seconds : forall ts now, (Z.of_N ts < 2 ^ 62)%Z ->
  let sec := (now / ns_per_s)%Z in
  let nsec := (now mod ns_per_s)%Z in
  in_window ts now = true <->
  (sec - 180 < Z.of_N ts /\ (Z.of_N ts < sec + 180 \/ (Z.of_N ts = sec + 180 /\ 0 < nsec)))%Z.
Proof. exact in_window_seconds. Qed.
Print Assumptions C07_window_seconds.

(* edges: with the server clock on a whole second, +-180 s are rejected and +-179 s accepted; with a fractional
   server clock the client second sec+180 is (strictly) inside, sec-180 and sec+181 are not *)
Theorem C07_window_edges : forall sec, (180 <= sec)%Z -> (sec + 181 < 2 ^ 62)%Z ->
  let now := (sec * ns_per_s)%Z in
  in_window (Z.to_N (sec + 180)) now = false /\ in_window (Z.to_N (sec - 180)) now = false /\
  in_window (Z.to_N (sec + 179)) now = true /\ in_window (Z.to_N (sec - 179)) now = true /\
  (forall ns, (0 < ns < ns_per_s)%Z ->
     in_window (Z.to_N (sec + 180)) (now + ns) = true /\ in_window (Z.to_N (sec - 179)) (now + ns) = true /\
     in_window (Z.to_N (sec - 180)) (now + ns) = false /\ in_window (Z.to_N (sec + 181)) (now + ns) = false).
Proof. exact window_edges. Qed.
Print Assumptions C07_window_edges.

(* generated obligation: the tolerance the theorems speak about is the 180 s of the source *)
Theorem C07_tolerance_is_180s : tolerance = (180 * ns_per_s)%Z.
Proof. exact tolerance_180s. Qed.
Print Assumptions C07_tolerance_is_180s.

(* ------------------------------------------------------------------------------------------------------
   The key agreement.  [dh] is X25519 as the server calls it (internal/ecdh.GenerateSharedSecret =
   curve25519.X25519 = crypto/ecdh): it FAILS ([None]) when the result would be the all-zero string, which
   happens exactly for the small-order inputs (Model/LowOrder.v: 14 strings).  A sender who picks such a value
   knows the "secret" (zero) without knowing the server's public key; the theorems below say that no such
   packet is ever accepted, that the AEAD key of an accepted packet is never the zero string, and that the block
   of an accepted packet IS the AES-GCM sealing under X25519(server private key, ephemeral value of the packet).
   That nobody can compute that key without the server's private key or the ephemeral private key together with
   the server's PUBLIC key (the credential every client holds) is the computational assumption about X25519 and
   AES-GCM; it is not a theorem of any model and is named in the trusted base. *)
Section C07_key_agreement.
  Variable dh : list N -> list N -> option (list N).
  Variable gcm_open : list N -> list N -> list N -> list N -> option (list N).
  Hypothesis gcm_open_len : forall k n ct aad pt, gcm_open k n ct aad = Some pt -> (length pt + 16 = length ct)%nat.
  (* crypto/ecdh: "bad X25519 remote ECDH input: low order point" *)
  Hypothesis dh_rejects_low_order : forall pv u, low_order u = true -> dh pv u = None.

  (* no first packet whose ephemeral value is a small-order point is accepted by AuthFirstPacket or becomes a
     session - whatever its 64-byte block, the server state and the clock *)
  Theorem C07_accepted_not_low_order : forall p st now ci,
    auth_first_packet dh gcm_open p st now = DOk ci ->
    exists fr, first_packet dh p (st_staticPv st) = Ok fr /\ low_order (f_rand fr) = false.
  Proof. exact (accepted_not_low_order dh gcm_open gcm_open_len dh_rejects_low_order). Qed.

  Theorem C07_session_not_low_order : forall p st now,
    is_session (decide dh gcm_open p st now) ->
    exists fr, first_packet dh p (st_staticPv st) = Ok fr /\ low_order (f_rand fr) = false.
  Proof. exact (session_not_low_order dh gcm_open gcm_open_len dh_rejects_low_order). Qed.

  (* positively: a ClientHello (direct) / hidden header (CDN) carrying such a value is a parse error at the key
     agreement, i.e. ordinary web traffic *)
  Theorem C07_low_order_tls_is_web : forall data ch st now,
    parseClientHello data = Ok ch -> low_order (copy_into 32 (ch_random ch)) = true ->
    auth_first_packet dh gcm_open (PTLS data) st now = DFail (RParse EDH) /\
    decide dh gcm_open (PTLS data) st now = Redirect (RParse EDH).
  Proof. exact (low_order_tls_is_web dh gcm_open gcm_open_len dh_rejects_low_order). Qed.

  Theorem C07_low_order_ws_is_web : forall h st now,
    (96 <= length h)%nat -> low_order (copy_into 32 (firstn 32 h)) = true ->
    auth_first_packet dh gcm_open (PWS (Some h)) st now = DFail (RParse EDH) /\
    decide dh gcm_open (PWS (Some h)) st now = Redirect (RParse EDH).
  Proof. exact (low_order_ws_is_web dh gcm_open gcm_open_len dh_rejects_low_order). Qed.
End C07_key_agreement.
Print Assumptions C07_accepted_not_low_order.
Print Assumptions C07_session_not_low_order.
Print Assumptions C07_low_order_tls_is_web.
Print Assumptions C07_low_order_ws_is_web.

(* The hypothesis is a THEOREM of the Gallina X25519 the correspondence runs (Montgomery ladder of RFC 7748 with
   clamping and bit-255 masking, all-zero output = error): for EVERY private key and every one of the small-order
   inputs the ladder yields 0.  Proved over all scalars by an invariant on the projective pair ([m]P, [m+1]P). *)
Theorem C07_x25519_rejects_low_order : forall pv u, low_order u = true -> dh_real pv u = None.
Proof. exact dh_real_rejects_low_order. Qed.
Print Assumptions C07_x25519_rejects_low_order.

(* the small-order inputs are exactly the 14 listed values (7 below 2^255, and each with bit 255 set) *)
Theorem C07_low_order_list :
  forallb low_order low_order_points = true /\
  forall v, (0 <= v < 2 ^ 256)%Z -> low_order_x (freduce (mask_u v)) = true -> In v low_order_values.
Proof. exact (conj low_order_points_low low_order_values_complete). Qed.
Print Assumptions C07_low_order_list.

(* hence, for the instantiated model (Gallina X25519 + Gallina AES-GCM), without any hypothesis: an accepted
   packet never carries a small-order ephemeral value; its AEAD key is the X25519 output, 32 bytes, never
   all-zero; and its 64-byte block is exactly gcm_seal under that key, nonce = first 12 bytes of the ephemeral
   value, of a 48-byte plaintext whose timestamp is inside the window *)
Theorem C07_accepted_not_low_order_x25519 : forall p st now ci,
  auth_first_packet dh_real Model.Crypto.GCM.gcm_open p st now = DOk ci ->
  exists fr, first_packet dh_real p (st_staticPv st) = Ok fr /\ low_order (f_rand fr) = false.
Proof. exact real_accepted_not_low_order. Qed.
Print Assumptions C07_accepted_not_low_order_x25519.

Theorem C07_accepted_key_nonzero_x25519 : forall p st now ci,
  auth_first_packet dh_real Model.Crypto.GCM.gcm_open p st now = DOk ci ->
  exists fr pt, first_packet dh_real p (st_staticPv st) = Ok fr /\
    dh_real (st_staticPv st) (f_rand fr) = Some (f_shared fr) /\ f_shared fr <> repeat 0 32 /\
    Model.Crypto.GCM.gcm_open (f_shared fr) (firstn 12 (f_rand fr)) (f_ct fr) [] = Some pt /\ ci = info_of pt.
Proof. exact real_accepted_key_nonzero. Qed.
Print Assumptions C07_accepted_key_nonzero_x25519.

Theorem C07_accepted_is_sealed_x25519_gcm : forall p st now ci,
  auth_first_packet dh_real Model.Crypto.GCM.gcm_open p st now = DOk ci ->
  exists fr sh pt, first_packet dh_real p (st_staticPv st) = Ok fr /\
    dh_real (st_staticPv st) (f_rand fr) = Some sh /\
    f_ct fr = Model.Crypto.GCM.gcm_seal (copy_into 32 sh) (firstn 12 (f_rand fr)) pt [] /\
    length pt = 48%nat /\ in_window (pt_ts pt) now = true /\ ci = info_of pt.
Proof. exact real_accepted_is_sealed. Qed.
Print Assumptions C07_accepted_is_sealed_x25519_gcm.

(* the general forms of the last two, for every X25519 / AES-GCM with the stated properties *)
Theorem C07_accepted_key_nonzero : forall (dh : list N -> list N -> option (list N))
  (gcm_open : list N -> list N -> list N -> list N -> option (list N)),
  (forall k n ct aad pt, gcm_open k n ct aad = Some pt -> (length pt + 16 = length ct)%nat) ->
  (forall pv u s, dh pv u = Some s -> length s = 32%nat /\ s <> repeat 0 32) ->
  forall p st now ci,
  auth_first_packet dh gcm_open p st now = DOk ci ->
  exists fr pt, first_packet dh p (st_staticPv st) = Ok fr /\
    dh (st_staticPv st) (f_rand fr) = Some (f_shared fr) /\ f_shared fr <> repeat 0 32 /\
    gcm_open (f_shared fr) (firstn 12 (f_rand fr)) (f_ct fr) [] = Some pt /\ ci = info_of pt.
Proof. exact accepted_key_nonzero. Qed.
Print Assumptions C07_accepted_key_nonzero.

Theorem C07_accepted_is_sealed : forall (dh : list N -> list N -> option (list N))
  (gcm_open : list N -> list N -> list N -> list N -> option (list N)),
  (forall k n ct aad pt, gcm_open k n ct aad = Some pt -> (length pt + 16 = length ct)%nat) ->
  forall gcm_seal : list N -> list N -> list N -> list N -> list N,
  (forall k n c p, gcm_open k n c [] = Some p -> c = gcm_seal k n p []) ->
  forall p st now ci,
  auth_first_packet dh gcm_open p st now = DOk ci ->
  exists fr sh pt, first_packet dh p (st_staticPv st) = Ok fr /\
    dh (st_staticPv st) (f_rand fr) = Some sh /\
    f_ct fr = gcm_seal (copy_into 32 sh) (firstn 12 (f_rand fr)) pt [] /\
    length pt = 48%nat /\ in_window (pt_ts pt) now = true /\ ci = info_of pt.
Proof. exact accepted_is_sealed_to_server. Qed.
Print Assumptions C07_accepted_is_sealed.

(* ------------------------------------------------------------------------------------------------------
   The configuration layer.  The theorems above quantify over an arbitrary server State; the State a server really
   runs with is the one InitState (internal/server/state.go) builds from its RawConfig.  Model/ServerInit.v models
   that function (the resolvers and the database file are parameters); wf_uids rc = every configured UID has exactly
   16 bytes.  WHO IS SERVED WITHOUT CONSULTING THE USER DATABASE: exactly the configured BypassUID entries plus the
   configured AdminUID - and nobody when none is configured. *)
Theorem C07_config_bypass_exact : forall resolve_ip resolve_addr db_open rc io, wf_uids rc ->
  init_state resolve_ip resolve_addr db_open rc = IOk io ->
  forall uid, In uid (st_bypass (io_state io)) <->
              In uid (rc_bypass rc) \/ (rc_admin rc <> [] /\ uid = rc_admin rc).
Proof. exact init_bypass_exact. Qed.
Print Assumptions C07_config_bypass_exact.

Theorem C07_config_nothing_configured : forall resolve_ip resolve_addr db_open rc io,
  init_state resolve_ip resolve_addr db_open rc = IOk io ->
  rc_bypass rc = [] -> rc_admin rc = [] -> st_bypass (io_state io) = [] /\ st_db (io_state io) = [].
Proof. exact init_nothing_configured. Qed.
Print Assumptions C07_config_nothing_configured.

(* GetUser / GetBypassUser on that State (nobody is active yet): configured, or authorised by the database; with the
   Voidmanager (no AdminUID or no DatabasePath) the configured UIDs are all there is *)
Theorem C07_config_get_user : forall resolve_ip resolve_addr db_open rc io, wf_uids rc ->
  init_state resolve_ip resolve_addr db_open rc = IOk io ->
  forall uid now, (exists a, get_user (io_state io) uid now = Some a) <->
    (In uid (rc_bypass rc) \/ (rc_admin rc <> [] /\ uid = rc_admin rc) \/ db_authorises (io_state io) uid now).
Proof. exact init_get_user. Qed.
Theorem C07_config_void_get_user : forall resolve_ip resolve_addr db_open rc io, wf_uids rc ->
  init_state resolve_ip resolve_addr db_open rc = IOk io -> io_local_manager io = false ->
  forall uid now, (exists a, get_user (io_state io) uid now = Some a) <->
    (In uid (rc_bypass rc) \/ (rc_admin rc <> [] /\ uid = rc_admin rc)).
Proof. exact init_void_get_user. Qed.
Print Assumptions C07_config_get_user.
Print Assumptions C07_config_void_get_user.

(* the admin gate and the served methods in terms of the configuration *)
Theorem C07_config_admin : forall resolve_ip resolve_addr db_open rc io,
  init_state resolve_ip resolve_addr db_open rc = IOk io -> forall ci,
  admin_ok (io_state io) ci <-> rc_admin rc <> [] /\ ci_uid ci = rc_admin rc /\ ci_sid ci = 0.
Proof. exact init_admin_ok. Qed.
Theorem C07_config_book : forall resolve_ip resolve_addr db_open rc io,
  init_state resolve_ip resolve_addr db_open rc = IOk io -> forall m,
  In m (st_proxyBook (io_state io)) <->
  exists name network address, In (name, [network; address]) (rc_book rc) /\ m = lower name /\
    (lower network = tcp \/ lower network = udp).
Proof. exact init_book. Qed.
Print Assumptions C07_config_admin.
Print Assumptions C07_config_book.

(* composed with the decision: sessions on the State InitState built *)
Theorem C07_config_proxy_sound : forall resolve_ip resolve_addr db_open
  (dh : list N -> list N -> option (list N)) (gcm_open : list N -> list N -> list N -> list N -> option (list N)),
  (forall k n ct aad pt, gcm_open k n ct aad = Some pt -> (length pt + 16 = length ct)%nat) ->
  forall rc io, wf_uids rc -> init_state resolve_ip resolve_addr db_open rc = IOk io ->
  forall p now uid sid m enc un,
  decide dh gcm_open p (io_state io) now = ProxySession uid sid m enc un ->
  exists ci, valid_cloak dh gcm_open p (io_state io) now ci /\ uid = ci_uid ci /\
    (In uid (rc_bypass rc) \/ (rc_admin rc <> [] /\ uid = rc_admin rc) \/ db_authorises (io_state io) uid now) /\
    (exists name network address, In (name, [network; address]) (rc_book rc) /\ m = lower name /\
       (lower network = tcp \/ lower network = udp)).
Proof. exact config_proxy_sound. Qed.
Print Assumptions C07_config_proxy_sound.

Theorem C07_config_bypass_served : forall resolve_ip resolve_addr db_open
  (dh : list N -> list N -> option (list N)) (gcm_open : list N -> list N -> list N -> list N -> option (list N)),
  (forall k n ct aad pt, gcm_open k n ct aad = Some pt -> (length pt + 16 = length ct)%nat) ->
  forall rc io, wf_uids rc -> init_state resolve_ip resolve_addr db_open rc = IOk io ->
  forall p now ci,
  valid_cloak dh gcm_open p (io_state io) now ci -> known_enc (ci_enc ci) = true ->
  ~ (rc_admin rc <> [] /\ ci_uid ci = rc_admin rc /\ ci_sid ci = 0) ->
  In (ci_method ci) (st_proxyBook (io_state io)) ->
  (In (ci_uid ci) (rc_bypass rc) \/ (rc_admin rc <> [] /\ ci_uid ci = rc_admin rc)) ->
  decide dh gcm_open p (io_state io) now =
    ProxySession (ci_uid ci) (ci_sid ci) (ci_method ci) (ci_enc ci) (ci_unordered ci).
Proof. exact config_bypass_served. Qed.
Print Assumptions C07_config_bypass_served.

(* and nobody else: without a database behind the server, a valid credential whose UID is neither a configured bypass
   entry nor the configured admin is web traffic - e.g. the all-zero UID on a server without an AdminUID *)
Theorem C07_config_unconfigured_is_web : forall resolve_ip resolve_addr db_open
  (dh : list N -> list N -> option (list N)) (gcm_open : list N -> list N -> list N -> list N -> option (list N)),
  (forall k n ct aad pt, gcm_open k n ct aad = Some pt -> (length pt + 16 = length ct)%nat) ->
  forall rc io, wf_uids rc -> init_state resolve_ip resolve_addr db_open rc = IOk io -> io_local_manager io = false ->
  forall p now ci,
  auth_first_packet dh gcm_open p (io_state io) now = DOk ci ->
  ~ In (ci_uid ci) (rc_bypass rc) -> ~ (rc_admin rc <> [] /\ ci_uid ci = rc_admin rc) ->
  exists why, decide dh gcm_open p (io_state io) now = Redirect why.
Proof. exact config_unconfigured_is_web. Qed.
Print Assumptions C07_config_unconfigured_is_web.

(* the premise wf_uids is needed: InitState copies every entry into ONE shared 16-byte array, so an entry shorter than
   16 bytes inherits the tail of the entry before it (zeros for the first), a longer one is cut *)
Theorem C07_config_short_entry_inherits :
  bypass_keys [repeat 0xaa 16; [1; 2; 3]] [] = [[1; 2; 3] ++ repeat 0xaa 13; repeat 0xaa 16] /\
  bypass_keys [[1; 2; 3]] [] = [[1; 2; 3] ++ repeat 0 13] /\
  bypass_keys [repeat 0xaa 16] [7; 7] = [[7; 7] ++ repeat 0xaa 14; repeat 0xaa 16] /\
  bypass_keys [repeat 0xaa 16 ++ [1; 2]] [] = [repeat 0xaa 16].
Proof. exact short_entry_inherits. Qed.
Print Assumptions C07_config_short_entry_inherits.
