(* C08 - a captured handshake can never be replayed successfully.
   Only the property theorems, each closed by [exact <lemma>] (proofs: Proofs/Replay.v).
   Model: Model/Replay.v (registerRandom, UsedRandomCleaner, AuthFirstPacket's order of
   test-and-set and decryption, decryptClientInfo's window; all times in ns). *)
From Coq Require Import ZArith NArith List.
From Cloak Require Import Model.Replay Proofs.Replay.
Import ListNotations.
Local Open Scope Z_scope.

(* Every history with a clock that does not run backwards: once a presentation of p was accepted,
   every later presentation of any packet with the same cache key, made while p's timestamp is
   still inside the acceptance window, is answered ErrReplay - whatever clean-ups, other packets
   and refreshing replays happened in between.  (t1 = clock read of registerRandom, t1' = clock
   read handed to decryptClientInfo; they must fall into the same second - they are the same
   instant under the virtual clock; C08_two_reads_gap shows the premise cannot be dropped.) *)
Theorem C08_cache_sound :
  forall keyfn lb0 h1 h2 h3 p t1 t1' q t2 t2' ts,
  let h := h1 ++ Present p t1 t1' :: h2 ++ Present q t2 t2' :: h3 in
  ordered lb0 h = true ->
  t1 / ns_per_s = t1' / ns_per_s ->
  nth_error (outcomes rule_fixed keyfn h) (length h1) = Some (Some OAccept) ->
  p_auth p = Some ts ->
  keyfn (p_random q) = keyfn (p_random p) -> p_parses q = true ->
  in_window ts t2' = true ->
  nth_error (outcomes rule_fixed keyfn h) (length h1 + 1 + length h2) = Some (Some OReplay).
Proof. exact cache_sound. Qed.
Print Assumptions C08_cache_sound.

(* ... hence of all presentations of one packet (same cache key, same sealed content) at most one
   is accepted, in the window or out of it *)
Theorem C08_cache_at_most_one :
  forall keyfn lb0 h1 h2 h3 p t1 t1' q t2 t2',
  let h := h1 ++ Present p t1 t1' :: h2 ++ Present q t2 t2' :: h3 in
  ordered lb0 h = true ->
  t1 / ns_per_s = t1' / ns_per_s ->
  keyfn (p_random q) = keyfn (p_random p) -> p_auth q = p_auth p ->
  nth_error (outcomes rule_fixed keyfn h) (length h1) = Some (Some OAccept) ->
  nth_error (outcomes rule_fixed keyfn h) (length h1 + 1 + length h2) <> Some (Some OAccept).
Proof. exact cache_at_most_one. Qed.
Print Assumptions C08_cache_at_most_one.

(* the hypotheses are met by a non-trivial history (and the conclusion is visible in it) *)
Example C08_cache_sound_inhabited :
  ordered 0 history_one = true /\
  outcomes rule_fixed mask255 history_one = [Some OAccept; None; Some OReplay].
Proof. split; [exact (proj1 rule_one_unsound) | exact rule_fixed_on_history_one]. Qed.

(* 2 x tolerance is the weakest sound retention: with 1 x tolerance a packet whose timestamp was
   179 s ahead is forgotten 181 s after its sighting and replayed 1 s later *)
Theorem C08_cleaner_rule_necessary :
  ordered 0 history_one = true /\
  outcomes rule_one mask255 history_one = [Some OAccept; None; Some OAccept].
Proof. exact rule_one_unsound. Qed.
Print Assumptions C08_cleaner_rule_necessary.

(* F1 (fixed in /repo by 9d82965): with the ORIGINAL cleaner condition t < now + 180 s every
   history  Present p t ; Clean (t + 1 s) ; Present p (t + 2 s)  accepts twice ... *)
Theorem C08_refuted_prefix_cleaner : forall t, 0 <= t ->
  ordered 0 (history_F1 t) = true /\
  outcomes rule_prefix mask255 (history_F1 t) = [Some OAccept; None; Some OAccept].
Proof. exact prefix_cleaner_unsound. Qed.
Print Assumptions C08_refuted_prefix_cleaner.
(* ... and the repaired condition answers the second presentation with ErrReplay *)
Theorem C08_fixed_cleaner_on_F1 : forall t, 0 <= t ->
  outcomes rule_fixed mask255 (history_F1 t) = [Some OAccept; None; Some OReplay].
Proof. exact fixed_cleaner_on_F1. Qed.

(* F2 (fixed by 0575f11): the cache key masks bit 255 of the little-endian public value, which
   X25519 ignores: the one-bit-altered copy has the same cache key ... *)
Theorem C08_bit255 : forall r, mask255 (flip255 r) = mask255 r.
Proof. exact mask_flip. Qed.
Print Assumptions C08_bit255.
(* ... whereas under the raw 32 bytes (pre-fix) it is a different key and is accepted again *)
Theorem C08_refuted_rawkey :
  (forall r, length r = 32%nat -> rawkey (flip255 r) <> rawkey r) /\
  outcomes rule_fixed rawkey history_F2 = [Some OAccept; Some OAccept] /\
  outcomes rule_fixed mask255 history_F2 = [Some OAccept; Some OReplay].
Proof. exact (conj flip_changes rawkey_unsound). Qed.
Print Assumptions C08_refuted_rawkey.

(* N simultaneous presentations of one packet, registerRandom being one atomic step (it runs under
   usedRandomM): under EVERY schedule at most one thread is ever told "new", and when all N have
   finished exactly one was, the other N-1 got ErrReplay *)
Theorem C08_concurrent :
  forall keyfn p n c sched,
  lookup (keyfn (p_random p)) c = None ->
  let (c', ts') := run_sched true keyfn p c (repeat TStart n) sched in
  (misses ts' <= 1)%nat /\
  ((forall i, (i < n)%nat -> (2 <= count_occ Nat.eq_dec (map fst sched) i)%nat) -> (1 <= n)%nat ->
     Forall is_done ts' /\ misses ts' = 1%nat /\
     length (filter (fun st => match st with TDone OReplay => true | _ => false end) ts') = (n - 1)%nat).
Proof. exact concurrent_exactly_one. Qed.
Print Assumptions C08_concurrent.
(* what the lock is for: lookup and store as two steps let two threads both be accepted *)
Theorem C08_refuted_unlocked :
  let p := pk 1000 in let t := 1000 * ns_per_s in
  snd (run_sched false mask255 p [] [TStart; TStart] [(0, t); (1, t); (0, t); (1, t); (0, t); (1, t)]%nat)
  = [TDone OAccept; TDone OAccept].
Proof. exact unlocked_two_misses. Qed.

(* the same-second premise of C08_cache_sound is necessary: two clock reads straddling a second *)
Theorem C08_two_reads_gap :
  ordered 0 history_two_reads = true /\
  outcomes rule_fixed mask255 history_two_reads = [Some OAccept; None; Some OAccept].
Proof. exact two_reads_gap. Qed.

(* The histories the harness drives on the real State (server started at [start], test sleeping
   and presenting, cleaner every 12 h) are ordered histories with coinciding clock reads, so the
   theorems above speak about exactly what the correspondence check executes. *)
Theorem C08_server_histories_covered : forall start ops,
  sleeps_nonneg ops = true ->
  ordered start (server_history start ops) = true /\
  (forall p t1 t2, In (Present p t1 t2) (server_history start ops) -> t1 = t2) /\
  concat (map fst (run_chunks rule_fixed mask255 [] (chunks start (start + clean_period) ops)))
    = outcomes rule_fixed mask255 (server_history start ops).
Proof.
  exact (fun start ops H => conj (server_history_ordered start ops H)
           (conj (fun p t1 t2 => server_history_same_read ops _ _ p t1 t2) (serve_outcomes _ _ start ops))).
Qed.
Print Assumptions C08_server_histories_covered.

(* The property's own wording speaks of "the same sealed identity block".  That step is
   cryptographic; it is an explicit hypothesis here (named in the trusted base). *)
Section Sealed.
  Variable opens : list N -> list N -> option Z.
  Hypothesis sealed_block_binds : forall r1 r2 b ts1 ts2,
    opens r1 b = Some ts1 -> opens r2 b = Some ts2 -> mask255 r1 = mask255 r2 /\ ts1 = ts2.

  (* of all presentations of first packets carrying the same sealed block - the packet itself or
     any altered copy - at most one is ever accepted *)
  Theorem C08_at_most_once :
    forall lb0 h1 h2 h3 w t1 t1' w' t2 t2',
    let h := map (abs_event opens) (h1 ++ WPresent w t1 t1' :: h2 ++ WPresent w' t2 t2' :: h3) in
    ordered lb0 h = true ->
    t1 / ns_per_s = t1' / ns_per_s ->
    w_block w' = w_block w ->
    nth_error (outcomes rule_fixed mask255 h) (length h1) = Some (Some OAccept) ->
    nth_error (outcomes rule_fixed mask255 h) (length h1 + 1 + length h2) <> Some (Some OAccept).
  Proof. exact (at_most_once opens sealed_block_binds). Qed.
End Sealed.
Print Assumptions C08_at_most_once.

(* the hypothesis is satisfiable (toy scheme: the block spells out key and timestamp) and the
   theorem's situation occurs *)
Example C08_at_most_once_inhabited :
  (forall r1 r2 b ts1 ts2, toy_opens r1 b = Some ts1 -> toy_opens r2 b = Some ts2 ->
     mask255 r1 = mask255 r2 /\ ts1 = ts2) /\
  let w := mkW true rnd0 (100%N :: mask255 rnd0) in
  let w' := mkW true (flip255 rnd0) (100%N :: mask255 rnd0) in
  outcomes rule_fixed mask255 (map (abs_event toy_opens)
     [WPresent w (100 * ns_per_s) (100 * ns_per_s); WClean (101 * ns_per_s); WPresent w' (102 * ns_per_s) (102 * ns_per_s)])
  = [Some OAccept; None; Some OReplay].
Proof. exact (conj toy_binds toy_accepts_once). Qed.

(* generated obligations about the constants printed by the Go compiler *)
Theorem C08_constants :
  tolerance = 180 * ns_per_s /\ (tolerance mod ns_per_s = 0 /\ 0 < tolerance) /\
  0 < clean_period /\ 2 * tolerance < clean_period.
Proof. exact (conj tolerance_value (conj tolerance_whole_seconds (conj clean_period_pos clean_period_exceeds_retention))). Qed.
