(* C04 - Frame encoding round-trips, respects the size limit and keeps the wire format.
   Only the property theorems, each closed by [exact <lemma>].  [encode]/[decode] are the
   models of Obfuscator.obfuscate / deobfuscate (Model/Codec.v); the method ranges over
   plain, aes-256-gcm, chacha20-poly1305 and aes-128-gcm; all numeric constants are the
   ones regenerated from /repo (Gen/Consts.v). *)
From Coq Require Import NArith ZArith List.
From Cloak Require Import Gen.Consts Model.Codec Proofs.Codec.
Import ListNotations.
Local Open Scope Z_scope.

(* For every method, key, stream id, sequence number, closing flag, non-empty payload of ANY
   length, admissible padding length and all random bytes: obfuscate succeeds, deobfuscate
   under the same key returns the identical frame, and the length is 14+payload+pad+tag. *)
Theorem C04_roundtrip :
  forall (m : method) (key : list N) (f : frame) (padLen : N) (rnd : list N),
  (f_sid f < 2 ^ 32)%N -> (f_seq f < 2 ^ 64)%N -> (f_closing f < 256)%N ->
  (1 <= length (f_payload f))%nat ->
  Z.of_N padLen <= mux_maxExtraLen - method_tag_len m ->
  zlen rnd = Z.of_N padLen + method_tag_len m ->
  exists msg, encode m key f padLen rnd = Some msg /\ decode m key msg = Ok f /\
    zlen msg = mux_frameHeaderLength + zlen (f_payload f) + Z.of_N padLen + method_tag_len m.
Proof. exact roundtrip. Qed.
Print Assumptions C04_roundtrip.

(* Any message obfuscate returns fits the on-wire limit from which the per-frame payload
   maximum was derived (maxStreamUnitWrite = limit - frameHeaderLength - maxExtraLen). *)
Theorem C04_size_limit :
  forall (limit : Z) (m : method) (key : list N) (f : frame) (padLen : N) (rnd msg : list N),
  zlen (f_payload f) <= max_stream_unit_write limit ->
  Z.of_N padLen <= mux_maxExtraLen - method_tag_len m ->
  encode m key f padLen rnd = Some msg ->
  zlen msg <= limit.
Proof. exact size_limit. Qed.
Print Assumptions C04_size_limit.

(* The derivation matches what MakeSession computed for both limits in use (16401 and the
   default 16640), closing frames (payload up to 256 bytes) are within the maximum, and both
   limits are accepted by TLSConn.Write. *)
Theorem C04_limits_in_use :
  max_stream_unit_write client_appDataMaxLength = mux_maxStreamUnitWrite_16401 /\
  max_stream_unit_write server_appDataMaxLength = mux_maxStreamUnitWrite_16401 /\
  max_stream_unit_write mux_defaultMaxOnWireSize = mux_default_maxStreamUnitWrite /\
  256 <= mux_maxStreamUnitWrite_16401 /\ 256 <= mux_default_maxStreamUnitWrite /\
  mux_defaultMaxOnWireSize <= common_tlsconn_write_limit /\
  client_appDataMaxLength <= common_tlsconn_write_limit.
Proof. exact max_stream_unit_write_values. Qed.
Print Assumptions C04_limits_in_use.

(* padding + tag fits the one-byte length field for every value RandInt can return *)
Theorem extra_len_fits_byte :
  forall (m : method) (key : list N) (draw : N),
  Z.of_N draw < rand_bound (payload_cipher m key) ->
  Z.of_N draw + method_tag_len m < 256 /\ Z.of_N draw <= mux_maxExtraLen - method_tag_len m.
Proof. exact Proofs.Codec.extra_len_fits_byte. Qed.
Print Assumptions extra_len_fits_byte.

(* padding is drawn iff seq < padFirstNFrames *)
Theorem C04_padding_threshold :
  forall (seq draw : N),
  (Z.of_N seq < mux_padFirstNFrames -> pad_len seq draw = draw) /\
  (mux_padFirstNFrames <= Z.of_N seq -> pad_len seq draw = 0%N).
Proof. exact padding_threshold. Qed.
Print Assumptions C04_padding_threshold.

(* obfuscate as called by the session: for every sequence number (both sides of the padding
   threshold), every RandInt result and all random bytes, with a payload within the maximum *)
Theorem C04_obfuscate :
  forall (m : method) (key : list N) (f : frame) (draw : N) (rnd : list N) (limit : Z),
  (f_sid f < 2 ^ 32)%N -> (f_seq f < 2 ^ 64)%N -> (f_closing f < 256)%N ->
  (1 <= length (f_payload f))%nat -> zlen (f_payload f) <= max_stream_unit_write limit ->
  Z.of_N draw < rand_bound (payload_cipher m key) ->
  zlen rnd = Z.of_N (pad_len (f_seq f) draw) + method_tag_len m ->
  exists msg, obfuscate m key f draw rnd = Some msg /\ decode m key msg = Ok f /\ zlen msg <= limit.
Proof. exact obfuscate_roundtrip. Qed.
Print Assumptions C04_obfuscate.

(* encode produces exactly the Cloak-v2 layout (v2_message: header = StreamID(4,BE) | Seq(8,BE)
   | Closing | extraLen, body = AEAD-sealed payload++pad under nonce header[:12] (or payload ++
   pad ++ 8 random bytes), header xor Salsa20(sessionKey, last 8 bytes of the message)) *)
Theorem C04_layout :
  forall (m : method) (key : list N) (f : frame) (padLen : N) (rnd : list N),
  (1 <= length (f_payload f))%nat -> zlen rnd = Z.of_N padLen + method_tag_len m ->
  encode m key f padLen rnd =
  Some (v2_message (payload_cipher m key) key (f_sid f) (f_seq f) (f_closing f) (f_payload f)
          (firstn (N.to_nat padLen) rnd) (skipn (N.to_nat padLen) rnd)).
Proof. exact encode_layout. Qed.
Print Assumptions C04_layout.

(* decode accepts every message of that layout under the key, whoever produced it *)
Theorem C04_interop :
  forall (m : method) (key : list N) (sid seq closing : N) (payload pad tail : list N),
  (sid < 2 ^ 32)%N -> (seq < 2 ^ 64)%N -> (closing < 256)%N ->
  zlen pad + method_tag_len m <= mux_maxExtraLen ->
  (m = Plain -> zlen tail = mux_salsa20NonceSize) ->
  decode m key (v2_message (payload_cipher m key) key sid seq closing payload pad tail) =
  Ok (mkFrame sid seq closing payload).
Proof. exact interop. Qed.
Print Assumptions C04_interop.
