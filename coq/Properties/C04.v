(* C04 - Frame encoding round-trips, respects the size limit and keeps the wire format.
   Only the property theorems, each closed by [exact <lemma>].  [encode]/[decode] are the
   models of Obfuscator.obfuscate / deobfuscate (Model/Codec.v); the method ranges over
   plain, aes-256-gcm, chacha20-poly1305 and aes-128-gcm; all numeric constants are the
   ones regenerated from /repo (Gen/Consts.v). *)
From Coq Require Import NArith ZArith List.
From Cloak Require Import Gen.Consts Model.Crypto.CBytes Model.Codec Proofs.Codec Model.SessionLimit Proofs.SessionLimit.
Import ListNotations.
Local Open Scope Z_scope.

(* For every method, key, stream id, sequence number, closing flag, non-empty payload of ANY
   length, admissible padding length and all random bytes: obfuscate succeeds, deobfuscate
   under the same key returns the identical frame, and the length is 14+payload+pad+tag. *)
Theorem C04_roundtrip :
  forall (m : method) (key : list N) (f : frame) (padLen : N) (rnd : list N),
  (f_sid f < 2 ^ 32)%N -> (f_seq f < 2 ^ 64)%N -> (f_closing f < 256)%N ->
  (1 <= length (f_payload f))%nat ->
  Z.of_N padLen <= mux_maxExtraLen - method_tag_len m ->
  zlen rnd = Z.of_N padLen + method_tag_len m ->
  exists msg, encode m key f padLen rnd = Some msg /\ decode m key msg = Ok f /\
    zlen msg = mux_frameHeaderLength + zlen (f_payload f) + Z.of_N padLen + method_tag_len m.
Proof. exact roundtrip. Qed.
Print Assumptions C04_roundtrip.

(* Any message obfuscate returns fits the on-wire limit from which the per-frame payload
   maximum was derived (maxStreamUnitWrite = limit - frameHeaderLength - maxExtraLen). *)
Theorem C04_size_limit :
  forall (limit : Z) (m : method) (key : list N) (f : frame) (padLen : N) (rnd msg : list N),
  zlen (f_payload f) <= max_stream_unit_write limit ->
  Z.of_N padLen <= mux_maxExtraLen - method_tag_len m ->
  encode m key f padLen rnd = Some msg ->
  zlen msg <= limit.
Proof. exact size_limit. Qed.
Print Assumptions C04_size_limit.

(* The derivation matches what MakeSession computed for both limits in use (16401 and the
   default 16640), closing frames (payload up to 256 bytes) are within the maximum, and both
   limits are accepted by TLSConn.Write. *)
Theorem C04_limits_in_use :
  max_stream_unit_write client_appDataMaxLength = mux_maxStreamUnitWrite_16401 /\
  max_stream_unit_write server_appDataMaxLength = mux_maxStreamUnitWrite_16401 /\
  max_stream_unit_write mux_defaultMaxOnWireSize = mux_default_maxStreamUnitWrite /\
  256 <= mux_maxStreamUnitWrite_16401 /\ 256 <= mux_default_maxStreamUnitWrite /\
  mux_defaultMaxOnWireSize <= common_tlsconn_write_limit /\
  client_appDataMaxLength <= common_tlsconn_write_limit.
Proof. exact max_stream_unit_write_values. Qed.
Print Assumptions C04_limits_in_use.

(* padding + tag fits the one-byte length field for every value RandInt can return *)
Theorem extra_len_fits_byte :
  forall (m : method) (key : list N) (draw : N),
  Z.of_N draw < rand_bound (payload_cipher m key) ->
  Z.of_N draw + method_tag_len m < 256 /\ Z.of_N draw <= mux_maxExtraLen - method_tag_len m.
Proof. exact Proofs.Codec.extra_len_fits_byte. Qed.
Print Assumptions extra_len_fits_byte.

(* padding is drawn iff seq < padFirstNFrames *)
Theorem C04_padding_threshold :
  forall (seq draw : N),
  (Z.of_N seq < mux_padFirstNFrames -> pad_len seq draw = draw) /\
  (mux_padFirstNFrames <= Z.of_N seq -> pad_len seq draw = 0%N).
Proof. exact padding_threshold. Qed.
Print Assumptions C04_padding_threshold.

(* obfuscate as called by the session: for every sequence number (both sides of the padding
   threshold), every RandInt result and all random bytes, with a payload within the maximum *)
Theorem C04_obfuscate :
  forall (m : method) (key : list N) (f : frame) (draw : N) (rnd : list N) (limit : Z),
  (f_sid f < 2 ^ 32)%N -> (f_seq f < 2 ^ 64)%N -> (f_closing f < 256)%N ->
  (1 <= length (f_payload f))%nat -> zlen (f_payload f) <= max_stream_unit_write limit ->
  Z.of_N draw < rand_bound (payload_cipher m key) ->
  zlen rnd = Z.of_N (pad_len (f_seq f) draw) + method_tag_len m ->
  exists msg, obfuscate m key f draw rnd = Some msg /\ decode m key msg = Ok f /\ zlen msg <= limit.
Proof. exact obfuscate_roundtrip. Qed.
Print Assumptions C04_obfuscate.

(* encode produces exactly the Cloak-v2 layout (v2_message: header = StreamID(4,BE) | Seq(8,BE)
   | Closing | extraLen, body = AEAD-sealed payload++pad under nonce header[:12] (or payload ++
   pad ++ 8 random bytes), header xor Salsa20(sessionKey, last 8 bytes of the message)) *)
Theorem C04_layout :
  forall (m : method) (key : list N) (f : frame) (padLen : N) (rnd : list N),
  (1 <= length (f_payload f))%nat -> zlen rnd = Z.of_N padLen + method_tag_len m ->
  encode m key f padLen rnd =
  Some (v2_message (payload_cipher m key) key (f_sid f) (f_seq f) (f_closing f) (f_payload f)
          (firstn (N.to_nat padLen) rnd) (skipn (N.to_nat padLen) rnd)).
Proof. exact encode_layout. Qed.
Print Assumptions C04_layout.

(* decode accepts every message of that layout under the key, whoever produced it *)
Theorem C04_interop :
  forall (m : method) (key : list N) (sid seq closing : N) (payload pad tail : list N),
  (sid < 2 ^ 32)%N -> (seq < 2 ^ 64)%N -> (closing < 256)%N ->
  zlen pad + method_tag_len m <= mux_maxExtraLen ->
  (m = Plain -> zlen tail = mux_salsa20NonceSize) ->
  decode m key (v2_message (payload_cipher m key) key sid seq closing payload pad tail) =
  Ok (mkFrame sid seq closing payload).
Proof. exact interop. Qed.
Print Assumptions C04_interop.

(* ======================================================================================== *)
(* The size clause for a Session built with ANY configured limit (Model/SessionLimit.v:
   make_session follows MakeSession, stream_write / stream_read_from / closing_notice follow
   Stream.Write, Stream.ReadFrom and the notices of closeStream and Session.Close).
   [limit_in_force L] = L when L > 0, the default otherwise (what MakeSession stores);
   [within lim wire] = every message of [wire] is at most [lim] bytes. *)

(* MakeSession: the per-frame payload maximum and the size of the pooled send buffers are
   derived from the limit in force, the receive buffer is a constant *)
Theorem C04_session_sizes : forall L : Z,
  ss_limit (make_session L) = limit_in_force L /\
  ss_sendbuf (make_session L) = limit_in_force L /\
  ss_unit (make_session L) = limit_in_force L - mux_frameHeaderLength - mux_maxExtraLen /\
  ss_recvbuf (make_session L) = mux_connReceiveBufferSize.
Proof. exact make_session_fields. Qed.
Print Assumptions C04_session_sizes.

(* Every message Stream.Write hands to the connection is within the limit in force: for every
   configured limit (any Go int), ordered and unordered, every method, key, stream id, sequence
   number, input, every RandInt result and all random bytes. *)
Theorem C04_session_write_within_limit :
  forall (L : Z) (unordered : bool) (m : method) (key : list N) (sid seq : N) (input : list N) (rand : draws),
  within (limit_in_force L)
    (r_wire (stream_write (make_session L) unordered (payload_cipher m key) key sid seq input rand)).
Proof. exact session_write_within_limit. Qed.
Print Assumptions C04_session_write_within_limit.

(* the same for Stream.ReadFrom, whatever the reader hands over *)
Theorem C04_session_read_from_within_limit :
  forall (L : Z) (m : method) (key : list N) (sid seq : N) (data : list N) (sizes : list Z) (rand : draws),
  within (limit_in_force L)
    (r_wire (stream_read_from (make_session L) (payload_cipher m key) key sid seq data sizes rand)).
Proof. exact session_read_from_within_limit. Qed.
Print Assumptions C04_session_read_from_within_limit.

(* and for the closing notices of Stream.Close and Session.Close *)
Theorem C04_session_closing_within_limit :
  forall (L : Z) (m : method) (key : list N) (sid seq closing b : N) (filler : list N) (r : N * list N),
  within (limit_in_force L)
    (r_wire (closing_notice (make_session L) (payload_cipher m key) key sid seq closing b filler r)).
Proof. exact session_closing_within_limit. Qed.
Print Assumptions C04_session_closing_within_limit.

(* A limit above frameHeaderLength + maxExtraLen (269) leaves room for a payload byte.  Then an
   ordered Write is accepted whole; its messages decode, under the session key, to the chunks of
   the input (each 1..maxStreamUnitWrite bytes, concatenating to the input) numbered
   consecutively from the stream's counter; and all of them are within the limit. *)
Theorem C04_session_write_complete :
  forall (L : Z) (m : method) (key : list N) (sid seq : N) (input : list N) (rand : draws),
  mux_frameHeaderLength + mux_maxExtraLen < limit_in_force L ->
  (sid < 2 ^ 32)%N -> (seq < 2 ^ 64)%N -> admissible m key seq 0 rand ->
  let ss := make_session L in
  let r := stream_write ss false (payload_cipher m key) key sid seq input rand in
  let chs := chunks_of (ss_unit ss) input in
  r_end r = EndOk /\ r_n r = zlen input /\
  map (decode m key) (r_wire r) = map Ok (frames_from sid seq chs) /\
  r_seq r = seq_at seq (length chs) /\
  concat chs = input /\
  Forall (fun ch => 1 <= zlen ch <= ss_unit ss) chs /\
  within (limit_in_force L) (r_wire r).
Proof. exact session_write_complete. Qed.
Print Assumptions C04_session_write_complete.

(* Unordered sessions never split: a Write within the maximum is one message that decodes to the
   input, a larger one is refused with io.ErrShortBuffer and nothing is sent. *)
Theorem C04_session_write_unordered :
  forall (L : Z) (m : method) (key : list N) (sid seq : N) (input : list N) (rand : draws),
  (sid < 2 ^ 32)%N -> (seq < 2 ^ 64)%N -> admissible m key seq 0 rand -> input <> [] ->
  let ss := make_session L in
  let r := stream_write ss true (payload_cipher m key) key sid seq input rand in
  (zlen input <= ss_unit ss ->
     exists msg, r = mkRes [msg] (zlen input) (next_seq seq) EndOk /\
       decode m key msg = Ok (mkFrame sid seq closing_nothing input) /\ zlen msg <= limit_in_force L) /\
  (ss_unit ss < zlen input -> r = mkRes [] 0 seq EndShortBuffer).
Proof. exact session_write_unordered. Qed.
Print Assumptions C04_session_write_unordered.

(* Limits too small to carry a frame.  0 < L < 269: the payload maximum is negative; an ordered
   Write of anything panics in its slice expression, ReadFrom panics when it slices its buffer, an
   unordered Write is refused; nothing reaches the wire. *)
Theorem C04_session_limit_below_overhead :
  forall (L : Z) (m : method) (key : list N) (sid seq : N) (input data : list N) (sizes : list Z) (rand : draws),
  0 < L -> L < mux_frameHeaderLength + mux_maxExtraLen -> input <> [] ->
  stream_write (make_session L) false (payload_cipher m key) key sid seq input rand = mkRes [] 0 seq EndPanic /\
  stream_write (make_session L) true (payload_cipher m key) key sid seq input rand = mkRes [] 0 seq EndShortBuffer /\
  stream_read_from (make_session L) (payload_cipher m key) key sid seq data sizes rand = mkRes [] 0 seq EndPanic.
Proof. exact session_limit_below_overhead. Qed.
Print Assumptions C04_session_limit_below_overhead.

(* L = 269: the maximum is 0; an ordered Write cuts an empty frame which obfuscate refuses; the
   sequence counter is not advanced (no frame, no number); nothing reaches the wire. *)
Theorem C04_session_limit_equal_overhead :
  forall (L : Z) (m : method) (key : list N) (sid seq : N) (input : list N) (rand : draws),
  L = mux_frameHeaderLength + mux_maxExtraLen -> input <> [] ->
  stream_write (make_session L) false (payload_cipher m key) key sid seq input rand
    = mkRes [] 0 seq EndObfsError /\
  stream_write (make_session L) true (payload_cipher m key) key sid seq input rand
    = mkRes [] 0 seq EndShortBuffer.
Proof. exact session_limit_equal_overhead. Qed.
Print Assumptions C04_session_limit_equal_overhead.

(* A limit of at least 14 + 256 + 255 = 525 carries every closing notice: it is sent, decodes to
   the notice frame and is within the limit. *)
Theorem C04_session_closing_notice_sent :
  forall (L : Z) (m : method) (key : list N) (sid seq closing b : N) (filler : list N) (r : N * list N),
  mux_frameHeaderLength + 256 + mux_maxExtraLen <= limit_in_force L ->
  (sid < 2 ^ 32)%N -> (seq < 2 ^ 64)%N -> (closing < 256)%N ->
  Z.of_N (byte_of b) + 1 <= zlen filler ->
  Z.of_N (fst r) < rand_bound (payload_cipher m key) ->
  zlen (snd r) = Z.of_N (pad_len seq (fst r)) + method_tag_len m ->
  let payload := firstn (Z.to_nat (Z.of_N (byte_of b) + 1)) filler in
  exists msg,
    closing_notice (make_session L) (payload_cipher m key) key sid seq closing b filler r
      = mkRes [msg] 0 (next_seq seq) EndOk /\
    decode m key msg = Ok (mkFrame sid seq closing payload) /\ zlen msg <= limit_in_force L.
Proof. exact session_closing_notice_sent. Qed.
Print Assumptions C04_session_closing_notice_sent.

(* For any limit: the notice panics exactly when its filler does not fit the buffer, and when it
   is sent it is one message within the limit (otherwise obfuscate refused it). *)
Theorem C04_session_closing_notice_small :
  forall (L : Z) (m : method) (key : list N) (sid seq closing b : N) (filler : list N) (r : N * list N),
  let res := closing_notice (make_session L) (payload_cipher m key) key sid seq closing b filler r in
  (limit_in_force L < Z.of_N (byte_of b) + 1 + mux_frameHeaderLength -> res = mkRes [] 0 seq EndPanic) /\
  (r_end res = EndPanic -> limit_in_force L < Z.of_N (byte_of b) + 1 + mux_frameHeaderLength) /\
  (r_end res = EndOk -> exists msg, r_wire res = [msg] /\ zlen msg <= limit_in_force L).
Proof. exact session_closing_notice_small. Qed.
Print Assumptions C04_session_closing_notice_small.

(* The peer can take every message in one read of its deplex buffer, whatever the peer's own
   limit, as long as the sender's limit is at most connReceiveBufferSize. *)
Theorem C04_session_message_fits_peer_buffer :
  forall (L Lpeer : Z) (unordered : bool) (m : method) (key : list N) (sid seq : N) (input : list N) (rand : draws),
  limit_in_force L <= mux_connReceiveBufferSize ->
  within (ss_recvbuf (make_session Lpeer))
    (r_wire (stream_write (make_session L) unordered (payload_cipher m key) key sid seq input rand)).
Proof. exact session_message_fits_peer_buffer. Qed.
Print Assumptions C04_session_message_fits_peer_buffer.

(* Generated obligations: for the limit the commands configure (client and server) and for the
   default, the sizes a real MakeSession reported to the generator are the ones the model
   derives; both limits carry every closing notice, fit the peer's receive buffer and one
   TLSConn.Write. *)
Theorem C04_session_limits_in_use :
  make_session client_appDataMaxLength =
    mkSizes client_appDataMaxLength mux_maxStreamUnitWrite_16401 mux_streamSendBufferSize_16401
            mux_connReceiveBufferSize /\
  make_session server_appDataMaxLength = make_session client_appDataMaxLength /\
  make_session 0 =
    mkSizes mux_default_MsgOnWireSizeLimit mux_default_maxStreamUnitWrite mux_defaultMaxOnWireSize
            mux_connReceiveBufferSize /\
  mux_frameHeaderLength + 256 + mux_maxExtraLen <= client_appDataMaxLength /\
  client_appDataMaxLength <= mux_connReceiveBufferSize /\
  mux_defaultMaxOnWireSize <= mux_connReceiveBufferSize /\
  client_appDataMaxLength <= common_tlsconn_write_limit /\
  mux_defaultMaxOnWireSize <= common_tlsconn_write_limit /\
  0 < mux_frameHeaderLength /\ 0 < mux_maxExtraLen /\
  closing_nothing = 0%N /\ (closing_stream < 256)%N /\ (closing_session < 256)%N.
Proof. exact make_session_generated. Qed.
Print Assumptions C04_session_limits_in_use.

(* The length-only plans the correspondence driver runs agree with the model on message lengths,
   byte count, sequence counter and outcome. *)
Theorem C04_session_plans_agree :
  (forall ss unordered m key sid seq input rand,
     plan_agrees (stream_write ss unordered (payload_cipher m key) key sid seq input rand)
                 (stream_write_plan ss unordered (method_tag_len m) seq (zlen input) (len_draws rand))) /\
  (forall ss m key sid seq data sizes rand,
     plan_agrees (stream_read_from ss (payload_cipher m key) key sid seq data sizes rand)
                 (read_from_plan ss (method_tag_len m) seq (zlen data) sizes 0 (len_draws rand))) /\
  (forall ss m key sid seq closing b filler r,
     Z.of_N (byte_of b) + 1 <= zlen filler ->
     plan_agrees (closing_notice ss (payload_cipher m key) key sid seq closing b filler r)
                 (closing_notice_plan ss (method_tag_len m) seq b (fst r, zlen (snd r)))).
Proof.
  exact (conj stream_write_plan_spec (conj stream_read_from_plan_spec closing_notice_plan_spec)).
Qed.
Print Assumptions C04_session_plans_agree.
