(* C16 - Usage is charged exactly once and exhausted or expired users are cut off.
   Only the property theorems, each closed by [exact <lemma>].  Model: Model/Panel.v.
   Directions: pairs are (up, down) = (rx, tx): dsel true = bytes received from the client
   (AddRx) = UpUsage, subtracted from UpCredit; dsel false = bytes sent (AddTx) = DownUsage.
   Ghost ledgers of the model: g_cnt u = everything the valves of user u's records counted
   (traffic and the notice frames of Session.Close); g_chg u = usage UploadStatus subtracted
   from u's bucket; g_nou u = usage reported while u had no bucket (deleted user);
   g_adm u = sum of the changes the admin API made to u's credit. *)
From Coq Require Import ZArith NArith List Bool.
From Cloak Require Import Model.Panel.
From Cloak Require Import Proofs.LockOrder Proofs.PanelLocks Proofs.PanelWF Proofs.PanelOwn Proofs.PanelC16 Proofs.PanelRefute.
From Cloak Require Model.PanelSplit Proofs.PanelSplit.
Import ListNotations.
Local Open Scope Z_scope.

(* the atomicity the model assumes for the usage queue, tied to the source (see C17.v) *)
Theorem C16_queue_guarded_by_queueM : ltac:(let T := type of queue_guarded in exact T).
Proof. exact queue_guarded. Qed.
Print Assumptions C16_queue_guarded_by_queueM.

(* Conservation.  In every reachable state of every interleaving of traffic, uploads, closures
   (incl. a user's last), terminations and admin changes, for every user and direction:
     charged + reported-for-a-deleted-user + queued + valve residue of ALL records of the user
     + swapped out by a terminating thread + taken by a commit that has not uploaded yet
     = counted.
   The valve residue of records that activeUsers no longer holds is what is lost at termination
   (bytes counted between a record's final Nullify and the closing of its sessions, and whatever
   an orphan record of C17's finding F5 counts): nothing else is ever lost, nothing is counted
   twice. *)
Theorem C16_conservation : forall c d nw s b u, reachable c d nw s ->
  dsel b (g_chg s u) + dsel b (g_nou s u) + dsel b (qsum u (queue s))
  + vsum b s u + lsum b s u + isum b s u = dsel b (g_cnt s u).
Proof. exact conservation. Qed.
Print Assumptions C16_conservation.

(* the stored credit is the initial credit, plus what the admin changed, minus what was charged
   (int64 arithmetic as UploadStatus performs it: equality modulo 2^64) *)
Theorem C16_stored : forall c d0 nw s b u, reachable c d0 nw s ->
  eqm (dsel b (db_credit (db s) u)) (dsel b (db_credit d0 u) + dsel b (g_adm s u) - dsel b (g_chg s u)).
Proof. exact stored_credit. Qed.
Print Assumptions C16_stored.

(* never more than once, never from another user (notice frames are never negative) *)
Theorem C16_at_most_once : forall c, (forall k, 0 <= close_tx c k) ->
  forall d nw s b u, reachable c d nw s ->
  dsel b (g_chg s u) + dsel b (g_nou s u) <= dsel b (g_cnt s u).
Proof. exact at_most_once. Qed.
Print Assumptions C16_at_most_once.

Theorem C16_per_user : forall c, (forall k, 0 <= close_tx c k) ->
  forall d nw s b u, reachable c d nw s ->
  dsel b (g_cnt s u) = 0 -> dsel b (g_chg s u) = 0 /\ dsel b (g_nou s u) = 0.
Proof. exact per_user. Qed.
Print Assumptions C16_per_user.

(* exactly once while the user stays active: once traffic has stopped (no thread in flight),
   nothing is queued for the user and the valves of the user's records are empty - which the
   collection step establishes for every record activeUsers holds (C16_update_collects); for a
   record it does NOT hold this is C17's ownership - everything counted has been reported; with
   C16_stored: stored = initial + admin changes - counted for a user that was never deleted. *)
Theorem C16_exact_when_collected : forall c d nw s b u, reachable c d nw s -> quiescent s ->
  qsum u (queue s) = pzero ->
  (forall r, (r < nrec s)%nat -> r_uid (recs s r) = u -> r_valve (recs s r) = pzero) ->
  dsel b (g_chg s u) + dsel b (g_nou s u) = dsel b (g_cnt s u).
Proof. exact exact_when_collected. Qed.
Print Assumptions C16_exact_when_collected.

Theorem C16_update_collects : forall c s t ch s' cm r,
  thr s t = U2 cm -> tstep c s t ch = Some s' ->
  (r < nrec s)%nat -> table s (r_uid (recs s r)) = Some r -> r_bypass (recs s r) = false ->
  r_valve (recs s' r) = pzero.
Proof. exact update_zeroes_active. Qed.
Print Assumptions C16_update_collects.

(* a concrete run: 5 bytes up and 7 down on a session of user 1 (credits 1000/1000), one upload
   round: stored credit 995/993, queue empty, valve empty *)
Example C16_exact_applies :
  match run cfg_now (init db1 10) ([Spawn (OpDispatch 1 1)] ++ runs 0 4 ++ [Traffic 0 (5, 7); Spawn OpRound] ++ runs 1 12) with
  | Some s => match db s 1%N with
              | Some r => (fst (d_credit r) =? 995) && (snd (d_credit r) =? 993) && is_done (thr s 1)
                          && (fst (g_cnt s 1%N) =? 5) && (fst (g_chg s 1%N) =? 5)
              | None => false
              end
  | None => false
  end = true.
Proof. vm_compute. reflexivity. Qed.

(* Cut-off.  UploadStatus answers TERMINATE for a reported user exactly when the user is deleted,
   or a credit is at or below zero after the deduction, or the user has expired; only reported
   users are ever terminated; commitUpdate enters TerminateActiveUser for the active record of
   every such answer; and the closeAllSessions step of TerminateActiveUser closes every session
   that record ever created (in every interleaving: a session created by a record is in its
   table while it is live).  That each started operation finishes is C17_deadlock_free. *)
Theorem C16_cutoff :
  (forall nw d chg nou u us,
     let '(_, rs, _, _) := upload nw d chg nou [(u, us)] in
     (In u rs <->
      match d u with
      | None => True
      | Some r => wrap64 (fst (d_credit r) - fst us) <= 0 \/ wrap64 (snd (d_credit r) - snd us) <= 0
                  \/ d_exp r < nw
      end))
  /\ (forall nw st d chg nou u,
        let '(_, rs, _, _) := upload nw d chg nou st in In u rs -> In u (map fst st))
  /\ (forall c s t ch s' u k r,
        thr s t = M10 u k -> table s u = Some r -> tstep c s t ch = Some s' ->
        thr s' t = term_enter c r k)
  /\ (forall c d nw s t ch s' r rest k k',
        reachable c d nw s -> thr s t = TC1 r rest k -> tstep c s t ch = Some s' ->
        (k' < nses s)%nat -> s_owner (sess s k') = r ->
        s_closed (sess s' k') = true /\ r_sess (recs s' r) = []).
Proof. exact (conj upload_verdict (conj upload_resp_sound (conj commit_acts_on_verdict terminate_closes_all))). Qed.
Print Assumptions C16_cutoff.

(* ---- commitUpdate overlapping itself, traffic and collection rounds (Model/PanelSplit.v) ----

   The hand model already has Manager.UploadStatus as a step of its own (M8), so C16_conservation
   covers every overlap of upload rounds with everything else.  What it rests on is WHERE the queue
   is emptied; the small model below makes that a parameter.  early = true (the code as it is:
   emptied in the critical section that reads it; generated obligation
   commitUpdate_drain_and_reset_one_step of Proofs/AtomPanel.v): for every label sequence
   - any number of commitUpdate activations, traffic and collection rounds in any interleaving - every
   byte the valve counted is in exactly one of valve / queue / taken by a commit that has not uploaded
   yet / charged. *)
Theorem C16_overlapping_rounds_conservation : forall thr ls s,
  Forall (fun p => p = PanelSplit.CIdle) thr -> PanelSplit.crun true (PanelSplit.c_init thr) ls = Some s ->
  PanelSplit.c_counted s
  = PanelSplit.c_valve s + PanelSplit.c_queue s + PanelSplit.inflight (PanelSplit.c_thr s) + PanelSplit.c_charged s.
Proof. exact PanelSplit.commit_early_conservation. Qed.
Print Assumptions C16_overlapping_rounds_conservation.

(* hence exactly once, when traffic has stopped, everything is collected and no upload is in flight *)
Theorem C16_overlapping_rounds_exactly_once : forall thr ls s,
  Forall (fun p => p = PanelSplit.CIdle) thr -> PanelSplit.crun true (PanelSplit.c_init thr) ls = Some s ->
  PanelSplit.c_quiet s = true -> PanelSplit.c_charged s = PanelSplit.c_counted s.
Proof. exact PanelSplit.commit_early_exactly_once. Qed.
Print Assumptions C16_overlapping_rounds_exactly_once.

(* early = false (emptied in a second critical section AFTER the upload: the seeded change C16_m2):
   usage collected while the upload is in flight is wiped (150 carried, 100 charged) ... *)
Theorem C16_late_reset_refuted_lost :
  exists s, PanelSplit.crun false (PanelSplit.c_init [PanelSplit.CIdle]) PanelSplit.late_lost = Some s
  /\ PanelSplit.c_quiet s = true /\ PanelSplit.c_counted s = 150 /\ PanelSplit.c_charged s = 100.
Proof. exact PanelSplit.commit_late_loses. Qed.
Print Assumptions C16_late_reset_refuted_lost.

(* ... and two overlapping rounds charge the same 100 bytes twice.  The overlapped scenarios of the
   correspondence (T0.100.0 Ru T1.50.0 U g2 R R  and  T0.100.0 Ru M g2 R R) are these two schedules
   on the real code. *)
Theorem C16_late_reset_refuted_twice :
  exists s, PanelSplit.crun false (PanelSplit.c_init [PanelSplit.CIdle; PanelSplit.CIdle]) PanelSplit.late_twice = Some s
  /\ PanelSplit.c_quiet s = true /\ PanelSplit.c_counted s = 100 /\ PanelSplit.c_charged s = 200.
Proof. exact PanelSplit.commit_late_charges_twice. Qed.
Print Assumptions C16_late_reset_refuted_twice.

(* the same two schedules with the code as it is (the hypotheses of the two theorems above are met) *)
Example C16_overlapping_rounds_inhabited :
  (exists s, PanelSplit.crun true (PanelSplit.c_init [PanelSplit.CIdle])
               [PanelSplit.CTraffic 100; PanelSplit.CCollect; PanelSplit.CRun 0; PanelSplit.CTraffic 50; PanelSplit.CCollect; PanelSplit.CRun 0] = Some s
             /\ PanelSplit.c_counted s = 150 /\ PanelSplit.c_charged s = 100 /\ PanelSplit.c_queue s = 50)
  /\ (exists s, PanelSplit.crun true (PanelSplit.c_init [PanelSplit.CIdle; PanelSplit.CIdle])
               [PanelSplit.CTraffic 100; PanelSplit.CCollect; PanelSplit.CRun 0; PanelSplit.CRun 1; PanelSplit.CRun 0; PanelSplit.CRun 1] = Some s
             /\ PanelSplit.c_quiet s = true /\ PanelSplit.c_counted s = 100 /\ PanelSplit.c_charged s = 100).
Proof. exact PanelSplit.commit_early_same_schedules. Qed.
