(* C20 - Client configuration is honoured exactly as documented, in both input syntaxes.
   Only the property theorems, each closed by [exact <lemma>].  Model: Model/Config.v
   (internal/client/state.go: ssvToJson, ProcessRawConfig; README.md client options as [spec]). *)
From Coq Require Import String.
From Coq Require Import ZArith NArith List Bool.
From Cloak Require Import Gen.Consts Model.Config Proofs.Config.
Import ListNotations.
Local Open Scope Z_scope.

(* Every raw configuration is processed exactly as the documented table says: either both
   reject it or both yield the same LocalConnConfig / RemoteConnConfig / AuthInfo (defaults,
   NumConn <= 0 => one connection per stream, KeepAlive N > 0 => N seconds else disabled,
   StreamTimeout, BrowserSig, Transport, CDN options, AlternativeNames, method names).
   [secs_ok]: second counts that fit a time.Duration (about +-292 years). *)
Theorem C20_process_meets_spec :
  forall r, secs_ok (KeepAlive r) -> secs_ok (StreamTimeout r) -> to_option (process r) = spec r.
Proof. exact process_meets_spec. Qed.
Print Assumptions C20_process_meets_spec.

Example C20_process_meets_spec_hyps :
  secs_ok (KeepAlive ex_raw) /\ secs_ok (StreamTimeout ex_raw) /\ doc_complete ex_raw = true
  /\ exists x, process ex_raw = ROk x /\ r_keepalive (snd (fst x)) = 30 * second_ns
     /\ l_timeout (fst (fst x)) = 300 * second_ns /\ r_singleplex (snd (fst x)) = false
     /\ t_wsurl (r_transport (snd (fst x))) = bytes_of "ws://1.2.3.4:443/".
Proof. exact ex_raw_ok. Qed.
(* edge of the statement (not a finding): beyond [secs_ok] the int64 multiplication wraps *)
Example C20_secs_boundary : secs 9223372037 < 0.
Proof. exact secs_wraps. Qed.

(* The keep-alive period that reaches net.Dialer: N seconds for every positive N ... *)
Theorem C20_keepalive :
  forall r x, 0 < KeepAlive r -> secs_ok (KeepAlive r) -> process r = ROk x ->
  r_keepalive (snd (fst x)) = KeepAlive r * second_ns.
Proof. exact fixed_keepalive. Qed.
Print Assumptions C20_keepalive.
(* ... whereas the line as it was before commit b378e52 (F9) yields 0 for EVERY positive N. *)
Theorem C20_refuted_prefix_keepalive :
  forall r x, 0 < KeepAlive r -> process_gen false r = ROk x -> r_keepalive (snd (fst x)) = 0.
Proof. exact prefix_keepalive_zero. Qed.
Print Assumptions C20_refuted_prefix_keepalive.

(* Incomplete or invalid configurations are rejected with an error - exactly those the
   documentation calls incomplete -, each missing mandatory item on its own is enough, and
   processing has no other outcome than a configuration or an error (no panic outcome exists:
   ProcessRawConfig indexes nothing; ecdh.Unmarshal answers false for a key that is not 32 bytes). *)
Theorem C20_rejects_incomplete :
  (forall r, (exists x, process r = ROk x) \/ (exists e, process r = RErr e)) /\
  (forall r, (exists e, process r = RErr e) <-> doc_complete r = false) /\
  (forall r,
    (ServerName r = [] -> process r = RErr (EEmpty FServerName)) /\
    (ServerName r <> [] -> ProxyMethod r = [] -> process r = RErr (EEmpty FServerName)) /\
    (UID r = [] -> exists e, process r = RErr e) /\
    (length (PublicKey r) <> 32%nat -> exists e, process r = RErr e) /\
    (doc_encryption (EncryptionMethod r) = None -> exists e, process r = RErr e) /\
    (RemoteHost r = [] -> exists e, process r = RErr e) /\
    (RemotePort r = [] -> exists e, process r = RErr e) /\
    (LocalHost r = [] -> exists e, process r = RErr e) /\
    (LocalPort r = [] -> exists e, process r = RErr e)).
Proof. exact (conj process_total (conj rejects_iff rejects_each)). Qed.
Print Assumptions C20_rejects_incomplete.

(* For every configuration in the stated domain - string values and names without semicolon,
   double quote, backslash and control characters, alternative names without comma (empty names
   allowed, the list not empty), literal options among NumConn/StreamTimeout/KeepAlive/UDP - the
   option string key=value;... with an equals sign inside values written backslash-equals is
   parsed into exactly the members of the JSON rendering; and every string body the code puts
   between quotes is then a plain JSON string literal. *)
Theorem C20_ssv_equiv :
  forall c, forallb ok_option c = true ->
  ssv_tokens (render_ssv c) = json_members c /\
  ssv_to_json (render_ssv c) = json_text (json_members c) /\
  (forall o, In o c ->
     match snd o with
     | VStr s => json_plain_body s = true
     | VLit _ => True
     | VList l => forall n, In n l -> json_plain_body n = true
     end /\ json_plain_body (fst o) = true).
Proof. exact ssv_equiv_full. Qed.
Print Assumptions C20_ssv_equiv.

Example C20_ssv_equiv_hyps :
  forallb ok_option ex_b64 = true
  /\ render_ssv ex_b64 = bytes_of "UID=iGAO85zysIyR4c09CyZSLQ\=\=;NumConn=4;AlternativeNames=a.com,,b.com;"
  /\ ssv_to_json (render_ssv ex_b64)
     = bytes_of "{""UID"":""iGAO85zysIyR4c09CyZSLQ=="",""NumConn"":4,""AlternativeNames"":[""a.com"","""",""b.com""]}".
Proof. exact ex_guard. Qed.

(* The domain is the boundary: a semicolon, a trailing backslash, two backslashes, a comma inside
   a name and the empty name list each change the member list (the unescaping runs before the
   split on semicolons, so an escaped semicolon cannot be expressed); a double quote and control
   characters survive to the member list but the text between the quotes is no plain JSON string
   literal any more. *)
Theorem C20_ssv_guard_is_boundary :
  (ssv_tokens (render_ssv cx_semicolon) <> json_members cx_semicolon /\
   ssv_tokens (render_ssv cx_backslash) <> json_members cx_backslash /\
   ssv_tokens (render_ssv cx_two_backslashes) <> json_members cx_two_backslashes /\
   ssv_tokens (render_ssv cx_comma) <> json_members cx_comma /\
   ssv_tokens (render_ssv cx_empty_list) <> json_members cx_empty_list) /\
  ((ssv_tokens (render_ssv cx_quote) = json_members cx_quote /\ json_plain_body [97; 34; 98]%N = false) /\
   (ssv_tokens (render_ssv cx_control) = json_members cx_control /\ json_plain_body [97; 10; 98]%N = false)).
Proof. exact (conj cx_breaks cx_text_level). Qed.
Print Assumptions C20_ssv_guard_is_boundary.
