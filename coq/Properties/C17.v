(* C17 - User bookkeeping never deadlocks and never loses track of a live session.
   Only the property theorems, each closed by [exact <lemma>]. *)
From Coq Require Import ZArith NArith List String.
From Cloak Require Import Gen.LockGraph Gen.Guards Model.Panel.
From Cloak Require Import Proofs.LockOrder Proofs.PanelLocks Proofs.PanelWF Proofs.PanelOwn Proofs.PanelRefute.
Import ListNotations.

(* ---- generated obligations (re-proved on every run about the freshly generated terms) ---- *)

(* lockscan understood every construct, and neither package's "B requested while A held"
   relation has a cycle *)
Theorem C17_lock_graph_acyclic :
  lockscan_errors = [] /\ acyclic server_lock_edges /\ acyclic multiplex_lock_edges.
Proof. exact (conj lockscan_understood_everything (conj server_lock_graph_acyclic multiplex_lock_graph_acyclic)). Qed.
Print Assumptions C17_lock_graph_acyclic.

(* every edge of the code goes upwards in the order the hand model uses
   (usageUpdateQueueM < activeUsersM < sessionsM) *)
Theorem C17_model_order_is_code_order :
  forall a b, In (a, b) server_lock_edges -> model_rank a < model_rank b.
Proof. exact server_edges_follow_model_order. Qed.
Print Assumptions C17_model_order_is_code_order.

Theorem sessions_guarded_by_sessionsM : guarded "ActiveUser.sessions" "ActiveUser.sessionsM".
Proof. exact sessions_guarded. Qed.
Print Assumptions sessions_guarded_by_sessionsM.
Theorem queue_guarded_by_queueM : guarded "userPanel.usageUpdateQueue" "userPanel.usageUpdateQueueM".
Proof. exact queue_guarded. Qed.
Print Assumptions queue_guarded_by_queueM.
Theorem activeUsers_guarded : guarded "userPanel.activeUsers" "userPanel.activeUsersM".
Proof. exact activeUsers_guarded_. Qed.
Print Assumptions activeUsers_guarded.

(* ---- the hand model ---- *)

(* With the lock order of the code as it is now: in every reachable state of any number of
   threads running dispatch / CloseSession / TerminateActiveUser / updateUsageQueue /
   commitUpdate in any interleaving (with traffic, session failures, admin changes, time), if
   some thread is unfinished then some thread can take a step. *)
Theorem C17_deadlock_free :
  forall c, prefix_order c = false ->
  forall d nw s, reachable c d nw s ->
  (exists t, t < nthr s /\ thr s t <> Done) ->
  exists t ch s', t < nthr s /\ step c s (Run t ch) = Some s'.
Proof. exact deadlock_free. Qed.
Print Assumptions C17_deadlock_free.

(* With the acquisition order updateUsageQueue had before 1937ea8 (model parameter): T1 takes
   activeUsersM; T2 takes usageUpdateQueueM; T1 requests usageUpdateQueueM; T2 requests
   activeUsersM.RLock - reachable, and nobody can ever move again. *)
Theorem C17_refuted_prefix_deadlock :
  exists s, reachable cfg_prefix db1 10 s /\ stuck cfg_prefix s
  /\ thr s 2 = U1 false /\ thr s 3 = M1 [1%N] [] /\ rw_w (lkA s) = Some 2 /\ lkQ s = Some 3.
Proof. exact prefix_deadlock. Qed.
Print Assumptions C17_refuted_prefix_deadlock.

(* the hypothesis of C17_deadlock_free is met by the model of the current code, and that
   model does reach states with unfinished threads (the same schedule as above) *)
Example C17_deadlock_free_applies :
  prefix_order cfg_now = false /\ run_stuck_check cfg_now db1 10 deadlock_trace = false.
Proof. exact (conj eq_refl fixed_order_same_schedule_runs). Qed.

(* Ownership: at quiescence every live session of a limited user is in the session table of
   the record stored in activeUsers[uid], and a record the panel has forgotten has no live
   session. *)
Definition C17_ownership (c : cfg) : Prop :=
  forall d nw s, reachable c d nw s -> quiescent s -> owned s /\ terminated_dead s.

(* FALSE of the code as it is (finding F5, open): a concrete reachable quiescent state with a
   live session of limited user 1 in record 0, which activeUsers no longer holds, while
   activeUsers[1] is a second record (second valve) with its own live session. *)
Theorem C17_refuted_orphan :
  ~ C17_ownership cfg_now /\
  exists s, reachable cfg_now db1 10 s /\ quiescent s
  /\ nrec s = 2 /\ r_uid (recs s 0) = 1%N /\ r_uid (recs s 1) = 1%N /\ r_bypass (recs s 0) = false
  /\ s_owner (sess s 1) = 0 /\ s_closed (sess s 1) = false
  /\ s_owner (sess s 2) = 1 /\ s_closed (sess s 2) = false
  /\ table s 1%N = Some 1 /\ ~ owned s.
Proof. exact (conj ownership_refuted orphan_state). Qed.
Print Assumptions C17_refuted_orphan.

(* TRUE of the model with the proposed repair (repo_patches/F5_orphan_session.diff), for both
   lock orders, all interleavings, all databases. *)
Theorem C17_ownership_patched : forall c, patched c = true -> C17_ownership c.
Proof. exact ownership_patched. Qed.
Print Assumptions C17_ownership_patched.

(* what does hold of the code as it is, in every reachable state (quiescent or not) *)
Theorem C17_ownership_partial : forall c d nw s k, reachable c d nw s ->
  k < nses s -> s_closed (sess s k) = false ->
  let r := s_owner (sess s k) in
  r < nrec s /\ slook (s_sid (sess s k)) (r_sess (recs s r)) = Some k
  /\ (table s (r_uid (recs s r)) = Some r \/
      (table s (r_uid (recs s r)) <> Some r /\ ~ owned s \/ r_bypass (recs s r) = true)).
Proof. exact ownership_partial. Qed.
Print Assumptions C17_ownership_partial.
