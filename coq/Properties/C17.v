(* C17 - User bookkeeping never deadlocks and never loses track of a live session.
   Only the property theorems, each closed by [exact <lemma>]. *)
From Coq Require Import ZArith NArith List String.
From Cloak Require Import Gen.LockGraph Gen.Guards Model.Panel.
From Cloak Require Import Proofs.LockOrder Proofs.PanelLocks Proofs.PanelWF Proofs.PanelOwn Proofs.PanelRefute.
From Cloak Require Model.PanelSplit Proofs.PanelSplit.
Import ListNotations.

(* ---- generated obligations (re-proved on every run about the freshly generated terms) ---- *)

(* lockscan understood every construct, and neither package's "B requested while A held"
   relation has a cycle *)
Theorem C17_lock_graph_acyclic :
  lockscan_errors = [] /\ acyclic server_lock_edges /\ acyclic multiplex_lock_edges.
Proof. exact (conj lockscan_understood_everything (conj server_lock_graph_acyclic multiplex_lock_graph_acyclic)). Qed.
Print Assumptions C17_lock_graph_acyclic.

(* every edge of the code goes upwards in the order the hand model uses
   (usageUpdateQueueM < activeUsersM < sessionsM) *)
Theorem C17_model_order_is_code_order :
  forall a b, In (a, b) server_lock_edges -> model_rank a < model_rank b.
Proof. exact server_edges_follow_model_order. Qed.
Print Assumptions C17_model_order_is_code_order.

Theorem sessions_guarded_by_sessionsM : guarded "ActiveUser.sessions" "ActiveUser.sessionsM".
Proof. exact sessions_guarded. Qed.
Print Assumptions sessions_guarded_by_sessionsM.
Theorem queue_guarded_by_queueM : guarded "userPanel.usageUpdateQueue" "userPanel.usageUpdateQueueM".
Proof. exact queue_guarded. Qed.
Print Assumptions queue_guarded_by_queueM.
Theorem activeUsers_guarded : guarded "userPanel.activeUsers" "userPanel.activeUsersM".
Proof. exact activeUsers_guarded_. Qed.
Print Assumptions activeUsers_guarded.

(* ---- the hand model ---- *)

(* With the lock order of the code as it is now: in every reachable state of any number of
   threads running dispatch / CloseSession / TerminateActiveUser / updateUsageQueue /
   commitUpdate in any interleaving (with traffic, session failures, admin changes, time), if
   some thread is unfinished then some thread can take a step. *)
Theorem C17_deadlock_free :
  forall c, prefix_order c = false ->
  forall d nw s, reachable c d nw s ->
  (exists t, t < nthr s /\ thr s t <> Done) ->
  exists t ch s', t < nthr s /\ step c s (Run t ch) = Some s'.
Proof. exact deadlock_free. Qed.
Print Assumptions C17_deadlock_free.

(* With the acquisition order updateUsageQueue had before 1937ea8 (model parameter): T1 takes
   activeUsersM; T2 takes usageUpdateQueueM; T1 requests usageUpdateQueueM; T2 requests
   activeUsersM.RLock - reachable, and nobody can ever move again. *)
Theorem C17_refuted_prefix_deadlock :
  exists s, reachable cfg_prefix db1 10 s /\ stuck cfg_prefix s
  /\ thr s 2 = U1 false /\ thr s 3 = M1 [1%N] [] /\ rw_w (lkA s) = Some 2 /\ lkQ s = Some 3.
Proof. exact prefix_deadlock. Qed.
Print Assumptions C17_refuted_prefix_deadlock.

(* the hypothesis of C17_deadlock_free is met by the model of the current code, and that
   model does reach states with unfinished threads (the same schedule as above) *)
Example C17_deadlock_free_applies :
  prefix_order cfg_now = false /\ run_stuck_check cfg_now db1 10 deadlock_trace = false.
Proof. exact (conj eq_refl fixed_order_same_schedule_runs). Qed.

(* Ownership: at quiescence every live session of a limited user is in the session table of
   the record stored in activeUsers[uid], and a record the panel has forgotten has no live
   session. *)
Definition C17_ownership (c : cfg) : Prop :=
  forall d nw s, reachable c d nw s -> quiescent s -> owned s /\ terminated_dead s.

(* FALSE of the code as it is (finding F5, open): a concrete reachable quiescent state with a
   live session of limited user 1 in record 0, which activeUsers no longer holds, while
   activeUsers[1] is a second record (second valve) with its own live session. *)
Theorem C17_refuted_orphan :
  ~ C17_ownership cfg_now /\
  exists s, reachable cfg_now db1 10 s /\ quiescent s
  /\ nrec s = 2 /\ r_uid (recs s 0) = 1%N /\ r_uid (recs s 1) = 1%N /\ r_bypass (recs s 0) = false
  /\ s_owner (sess s 1) = 0 /\ s_closed (sess s 1) = false
  /\ s_owner (sess s 2) = 1 /\ s_closed (sess s 2) = false
  /\ table s 1%N = Some 1 /\ ~ owned s.
Proof. exact (conj ownership_refuted orphan_state). Qed.
Print Assumptions C17_refuted_orphan.

(* TRUE of the model with the proposed repair (repo_patches/F5_orphan_session.diff), for both
   lock orders, all interleavings, all databases. *)
Theorem C17_ownership_patched : forall c, patched c = true -> C17_ownership c.
Proof. exact ownership_patched. Qed.
Print Assumptions C17_ownership_patched.

(* what does hold of the code as it is, in every reachable state (quiescent or not) *)
Theorem C17_ownership_partial : forall c d nw s k, reachable c d nw s ->
  k < nses s -> s_closed (sess s k) = false ->
  let r := s_owner (sess s k) in
  r < nrec s /\ slook (s_sid (sess s k)) (r_sess (recs s r)) = Some k
  /\ (table s (r_uid (recs s r)) = Some r \/
      (table s (r_uid (recs s r)) <> Some r /\ ~ owned s \/ r_bypass (recs s r) = true)).
Proof. exact ownership_partial. Qed.
Print Assumptions C17_ownership_partial.

(* ---- what holding activeUsersM across GetUser buys (Model/PanelSplit.v) ----

   GetUser split into  lock / lookup / Manager.AuthenticateUser / insert, any number of calls in any
   interleaving, the user database answering whatever it likes whenever it likes.  With the lock kept
   from the lookup to the insertion (the code as it is; the generated obligation
   GetUser_lookup_authenticate_insert_one_step of Proofs/AtomPanel.v says so about the source) every
   run is a run of the ATOMIC GetUser - step D1 of the hand model - in the order in which the calls
   released the lock: same table, same number of records (= valves) created, same results. *)
Theorem C17_getuser_split_refines_atomic : forall thr sched s,
  PanelSplit.all_start thr -> PanelSplit.grun true (PanelSplit.g_init thr) sched = Some s ->
  exists tb, PanelSplit.replay_atomic (fun _ => None) 0 (PanelSplit.g_log s) = (tb, PanelSplit.g_nrec s, true)
             /\ forall u, tb u = PanelSplit.g_table s u.
Proof. exact PanelSplit.split_refines_atomic. Qed.
Print Assumptions C17_getuser_split_refines_atomic.

(* hence: two calls for one UID that returned a record returned THE SAME record, the one the panel
   holds (one record, one valve per UID: also what C19 needs) *)
Theorem C17_one_record_per_uid : forall thr sched s t1 t2 u r1 r2,
  PanelSplit.all_start thr -> PanelSplit.grun true (PanelSplit.g_init thr) sched = Some s ->
  PanelSplit.gget s t1 = PanelSplit.GDone u (Some r1) -> PanelSplit.gget s t2 = PanelSplit.GDone u (Some r2) ->
  r1 = r2 /\ PanelSplit.g_table s u = Some r1.
Proof. exact PanelSplit.split_one_record. Qed.
Print Assumptions C17_one_record_per_uid.

(* and a caller that arrives while another is between its lookup and its insertion cannot move: what
   the harness observes as "waiting for a lock until the first is released" *)
Theorem C17_second_caller_waits : forall thr sched s t t' u ok,
  PanelSplit.all_start thr -> PanelSplit.grun true (PanelSplit.g_init thr) sched = Some s ->
  PanelSplit.holder (PanelSplit.gget s t) = true -> PanelSplit.gget s t' = PanelSplit.GStart u ->
  PanelSplit.gstep true s t' ok = None.
Proof. exact PanelSplit.split_second_caller_blocked. Qed.
Print Assumptions C17_second_caller_waits.

(* the hypotheses are met: a second caller arrives while the first is inside AuthenticateUser *)
Example C17_getuser_split_inhabited :
  exists s, PanelSplit.grun true (PanelSplit.g_init [PanelSplit.GStart 1%N; PanelSplit.GStart 1%N]) PanelSplit.held_schedule = Some s
  /\ PanelSplit.gget s 0 = PanelSplit.GDone 1%N (Some 0) /\ PanelSplit.gget s 1 = PanelSplit.GDone 1%N (Some 0)
  /\ PanelSplit.g_nrec s = 1.
Proof. exact PanelSplit.split_held_example. Qed.

(* WITHOUT the lock across the three steps (lookup under the lock, query unlocked, insertion under a
   second acquisition: the seeded changes C17_m2 / C19_m2) both first connections of user 1 look the
   UID up before either inserts: two records, two valves, caller 0 holds a record the panel has
   overwritten, and no order of atomic calls explains the results.  The overlapped scenarios of the
   correspondence (D1.1a D1.2ah g0 g1 g1) are this schedule on the real code. *)
Theorem C17_getuser_unlocked_refuted :
  exists s, PanelSplit.grun false (PanelSplit.g_init [PanelSplit.GStart 1%N; PanelSplit.GStart 1%N]) PanelSplit.unlocked_schedule = Some s
  /\ PanelSplit.gget s 0 = PanelSplit.GDone 1%N (Some 0) /\ PanelSplit.gget s 1 = PanelSplit.GDone 1%N (Some 1)
  /\ PanelSplit.g_table s 1%N = Some 1 /\ PanelSplit.g_nrec s = 2
  /\ (let '(_, _, good) := PanelSplit.replay_atomic (fun _ => None) 0 (PanelSplit.g_log s) in good) = false.
Proof. exact PanelSplit.split_unlocked_two_records. Qed.
Print Assumptions C17_getuser_unlocked_refuted.
