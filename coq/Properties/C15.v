(* C15 - Connections join the right session; the per-user session cap is never exceeded.
   Only the property theorems, each closed by [exact <lemma>].  The model is Model/Panel.v
   (lookup-or-create of GetSession is ONE atomic step: generated obligation
   sessions_guarded_by_sessionsM, re-proved from the Go source on every run, see C17.v). *)
From Coq Require Import ZArith NArith List Bool Arith.
From Cloak Require Import Gen.Guards Model.Panel.
From Cloak Require Import Proofs.LockOrder Proofs.PanelLocks Proofs.PanelWF Proofs.PanelOwn Proofs.PanelC15 Proofs.PanelRefute.
Import ListNotations.

(* the atomicity assumption of the model, tied to the source *)
(* = guarded "ActiveUser.sessions" "ActiveUser.sessionsM": every access of ActiveUser.sessions in
   internal/server happens with that record's sessionsM held (and there are such accesses) *)
Theorem C15_sessions_guarded_by_sessionsM : ltac:(let T := type of sessions_guarded in exact T).
Proof. exact sessions_guarded. Qed.
Print Assumptions C15_sessions_guarded_by_sessionsM.

(* In every reachable state of every interleaving (any parameter setting):
   - a record's session table is a partial injection between session ids and sessions;
   - every connection that was admitted for (uid, sid) joined a session created by the record it
     resolved, under that sid, for that uid - i.e. it was answered with THAT session's key (the
     key is the session's identity in the model: GetSessionKey of the joined session seals the
     reply) - and while the session is live it is the one stored under (record, sid);
   - hence connections for the same (record, sid) whose sessions are live share one session. *)
Theorem C15_one_session_per_id : forall c d nw s, reachable c d nw s ->
  (forall r sd1 k1 sd2 k2, r < nrec s ->
     In (sd1, k1) (r_sess (recs s r)) -> In (sd2, k2) (r_sess (recs s r)) -> (sd1 = sd2 <-> k1 = k2))
  /\ (forall a, In a (g_log s) ->
        a_rec a < nrec s /\ a_ses a < nses s
        /\ s_owner (sess s (a_ses a)) = a_rec a /\ s_sid (sess s (a_ses a)) = a_sid a
        /\ r_uid (recs s (a_rec a)) = a_uid a
        /\ (s_closed (sess s (a_ses a)) = false ->
            slook (a_sid a) (r_sess (recs s (a_rec a))) = Some (a_ses a)))
  /\ (forall a1 a2, In a1 (g_log s) -> In a2 (g_log s) ->
        a_rec a1 = a_rec a2 -> a_sid a1 = a_sid a2 ->
        s_closed (sess s (a_ses a1)) = false -> s_closed (sess s (a_ses a2)) = false ->
        a_ses a1 = a_ses a2).
Proof.
  exact (fun c d nw s HR => conj (table_injective c d nw s HR)
                             (conj (admission_joined c d nw s HR) (same_id_same_session c d nw s HR))).
Qed.
Print Assumptions C15_one_session_per_id.

(* "same UID and session id" instead of "same record and session id" needs the user to have ONE
   record, i.e. C17's ownership (false of the code as it is: F5 / C17_refuted_orphan gives one
   UID two records; true of the repaired model: C17_ownership_patched).  The race is C17's. *)
Theorem C15_same_uid_sid_given_ownership : forall c d nw s, reachable c d nw s -> owned s ->
  forall a1 a2, In a1 (g_log s) -> In a2 (g_log s) ->
  a_uid a1 = a_uid a2 -> a_sid a1 = a_sid a2 ->
  r_bypass (recs s (a_rec a1)) = false -> r_bypass (recs s (a_rec a2)) = false ->
  s_closed (sess s (a_ses a1)) = false -> s_closed (sess s (a_ses a2)) = false ->
  a_ses a1 = a_ses a2.
Proof. exact (fun c d nw s HR Ho a1 a2 => same_uid_sid_same_session c d nw s HR a1 a2 Ho). Qed.
Print Assumptions C15_same_uid_sid_given_ownership.

(* different session ids or different UIDs never share a session *)
Theorem C15_no_sharing : forall c d nw s, reachable c d nw s ->
  forall a1 a2, In a1 (g_log s) -> In a2 (g_log s) ->
  a_ses a1 = a_ses a2 -> a_uid a1 = a_uid a2 /\ a_sid a1 = a_sid a2 /\ a_rec a1 = a_rec a2.
Proof. exact no_sharing. Qed.
Print Assumptions C15_no_sharing.

(* The cap.  In every state reached by any interleaving during which user u's configured cap
   (SessionsCap read back unsigned, as AuthoriseNewSession does) was at most cp, every record of
   the limited user u holds at most cp sessions.  The cap is per ActiveUser record: with F5's
   second record (C17's finding) the user-level count can reach 2*cp. *)
Theorem C15_cap : forall c d nw u cp s, (0 <= cp)%Z -> reach_capped c d nw u cp s ->
  forall r, r < nrec s -> r_uid (recs s r) = u -> r_bypass (recs s r) = false ->
  (Z.of_nat (length (r_sess (recs s r))) <= cp)%Z.
Proof. exact cap_respected. Qed.
Print Assumptions C15_cap.

(* the hypotheses are met: user 1 of db1 has cap 2; two sessions are admitted, the third
   connection is refused (it runs into CloseSession instead), in a run along which the cap is 2 *)
Example C15_cap_applies :
  match run cfg_now (init db1 10) ([Spawn (OpDispatch 1 1)] ++ runs 0 4 ++ [Spawn (OpDispatch 1 2)] ++ runs 1 4
                                   ++ [Spawn (OpDispatch 1 3)] ++ runs 2 4) with
  | Some s => (length (r_sess (recs s 0)) =? 2) && (nses s =? 2)
              && match thr s 2 with C0 0 3%N => true | _ => false end
  | None => false
  end = true.
Proof. vm_compute. reflexivity. Qed.

(* No session without credit: whenever the session table of a limited user's record grows, the
   user exists, both credits are positive, it has not expired, and the new size is within the
   cap - at that very step, in every interleaving with admin changes and uploads.  And the
   database function refuses exhausted / expired / unknown users whatever the count. *)
Theorem C15_no_credit_no_session :
  (forall c d nw s l s' r, reachable c d nw s -> step c s l = Some s' ->
     r_bypass (recs s r) = false ->
     length (r_sess (recs s r)) < length (r_sess (recs s' r)) ->
     exists dr, db s (r_uid (recs s r)) = Some dr
       /\ (0 < fst (d_credit dr))%Z /\ (0 < snd (d_credit dr))%Z /\ (now s <= d_exp dr)%Z
       /\ (Z.of_nat (length (r_sess (recs s' r))) <= cap_read dr)%Z
       /\ length (r_sess (recs s' r)) = S (length (r_sess (recs s r))))
  /\ (forall nw d u n,
        (match d u with
         | None => True
         | Some r => (fst (d_credit r) <= 0)%Z \/ (snd (d_credit r) <= 0)%Z \/ (d_exp r < nw)%Z
         end) ->
        authenticate nw d u <> AOk /\ authorise nw d u n <> AOk).
Proof. exact (conj admission_checked no_credit_refused). Qed.
Print Assumptions C15_no_credit_no_session.
