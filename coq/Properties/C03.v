(* C03 - Closing a stream delivers everything written before it, then end-of-stream.
   Over every label sequence of the session-pair model (closing notice overtaking or trailing data
   on other connections, closes by either side or both, any number of connections). *)
From Coq Require Import NArith ZArith List Bool.
From Cloak Require Import Model.Reorder Model.Mux Proofs.MuxBase Proofs.MuxSafety Proofs.MuxView
  Proofs.MuxEffect Proofs.MuxPay Proofs.MuxData Proofs.MuxLocal Proofs.MuxClose Proofs.MuxCalm Proofs.MuxUp
  Proofs.MuxExact Proofs.MuxLive.
Import ListNotations.
Local Open Scope N_scope.

(* The closing notice is numbered after every data frame of the stream and carries no data; whatever
   the connections do, the reader is never given anything but a prefix of the bytes written before
   the close (never an early end with wrong bytes, never bytes of another stream). *)
Theorem C03_close_numbered_after_data :
  forall k sp u ta tb s sid ls,
  fresh_run (init k sp u ta tb) ls ->
  nE (run_frames s sid (outputs k sp u ta tb ls)) + 2 < two64 ->
  forall i fr, nth_error (run_frames s sid (outputs k sp u ta tb ls)) i = Some fr -> w_cl fr <> 0 ->
    S i = length (run_frames s sid (outputs k sp u ta tb ls)) /\ w_pay fr = [] /\ w_seq fr = N.of_nat i.
Proof. exact close_numbered_after_data. Qed.
Print Assumptions C03_close_numbered_after_data.

Theorem C03_reader_gets_prefix :
  forall k sp u ta tb s sid ls,
  fresh_run (init k sp u ta tb) ls ->
  nE (run_frames s sid (outputs k sp u ta tb ls)) + 2 < two64 ->
  exists tail, run_written s sid ls (outputs k sp u ta tb ls) = run_reads s sid ls (outputs k sp u ta tb ls) ++ tail.
Proof. exact reads_prefix_of_written. Qed.
Print Assumptions C03_reader_gets_prefix.

(* Once a stream is closed (locally or by the processed peer close), writes on it fail ... *)
Theorem C03_writes_fail_after_close :
  forall y x sid data ch st,
  lookup sid (se_objs (sess y x)) = Some st -> st_closed st = true ->
  stream_write y x sid data ch = (y, [ERet R_BROKEN_STREAM 0 []]).
Proof. exact write_on_closed_stream. Qed.
Print Assumptions C03_writes_fail_after_close.

(* ... reads never block: they return the bytes that had already arrived, then the broken-stream error *)
Theorem C03_closed_stream_serves_buffered_then_error :
  forall k sp u ta tb ls x sid n st,
  let y := reach k sp u ta tb ls in
  lookup sid (se_objs (sess y x)) = Some st -> st_closed st = true ->
  match pipe (st_rb st) with
  | [] => try_read y x sid (S n) = Some (y, R_BROKEN_STREAM, [])
  | _ => exists y', try_read y x sid (S n) = Some (y', R_OK, firstn (S n) (pipe (st_rb st)))
  end.
Proof. exact closed_stream_serves_buffered_then_error. Qed.
Print Assumptions C03_closed_stream_serves_buffered_then_error.

(* the exactness half (the reader gets ALL of B before the error when it never closed the stream
   itself and nothing failed) is decided by the correspondence + oracle (tools/props/c03.py) *)

(* Never an early end, never a lost tail: on a healthy session (k >= 1 connections, multiplexed; any
   opens, writes, reads, accepts, closes of streams, deliveries in ANY cross-connection order -
   closing notice overtaking or trailing the data - timer ticks while streams are open), if the
   reader's end of the stream is closed (its reads return what is left in the pipe, then the
   broken-stream error: C03_closed_stream_serves_buffered_then_error) and the reader did not close the
   stream itself, then the writer did close it, and the bytes the reader has read followed by the
   bytes still in its pipe are EXACTLY the bytes the writer's writes accepted. *)
Theorem C03_close_is_exact :
  forall s sid k unit toA toB ls rb,
  (1 <= k)%nat -> 1 <= unit ->
  fresh_run (init k false unit toA toB) ls -> busy_run k (init k false unit toA toB) ls ->
  no_local_close s sid ls ->
  let os := outputs k false unit toA toB ls in
  let y := reach k false unit toA toB ls in
  nE (run_frames s sid os) + 2 < two64 ->
  rview s sid y = Some (rb, true) ->
  cl_of (run_frames s sid os) <> two64 /\
  run_written s sid ls os = run_reads s sid ls os ++ pipe rb.
Proof. exact close_is_exact. Qed.
Print Assumptions C03_close_is_exact.

(* ... and the end-of-stream IS delivered: once the writer has closed the stream and no frame of that
   direction is in flight any more, the reader's end is closed (its reads return the rest of the
   pipe, then the broken-stream error) and it has been given, or still finds in its pipe, exactly
   the bytes written - whichever connections the data and the closing notice travelled on. *)
Theorem C03_close_is_delivered :
  forall s sid k unit toA toB ls,
  (1 <= k)%nat -> 1 <= unit ->
  fresh_run (init k false unit toA toB) ls -> busy_run k (init k false unit toA toB) ls ->
  no_local_close s sid ls ->
  let os := outputs k false unit toA toB ls in
  let y := reach k false unit toA toB ls in
  nE (run_frames s sid os) + 2 < two64 ->
  cl_of (run_frames s sid os) <> two64 -> inflight s sid y = [] ->
  exists rb, rview s sid y = Some (rb, true) /\ run_written s sid ls os = run_reads s sid ls os ++ pipe rb.
Proof. exact close_is_delivered. Qed.
Print Assumptions C03_close_is_delivered.

(* ---------------------------------------------------------------------------------------------
   The relay level: the two goroutines server.serveSession / client.RouteTCP start per stream
   (common.Copy in both directions, each closing BOTH ends when it is done), Model/RelayPair.v, as a
   transition system with one program counter per goroutine; `sched` is ANY schedule. *)
From Cloak Require Import Model.RelayPair Proofs.RelayPair.

(* The peer wrote B (= concat chunks) and closed the stream; the local peer sends nothing and keeps its
   connection open.  Then, whatever the schedule: the relay closes the local connection only after ALL
   of B has been written to it (never an early end, never a lost tail), what has been written so far
   is always a prefix of B, nothing is sent back up the stream, and the pair is never stuck before
   both goroutines have finished. *)
Theorem C03_relay_delivers_all_before_closing : forall chunks sched,
  let r := run false (RelayPair.init chunks true [] false) sched in
  (l_closed r = true -> l_out r = concat chunks) /\
  (exists tail, concat chunks = l_out r ++ tail) /\
  s_out r = [] /\
  (finished r = true \/ exists t r', step false r t = Some r').
Proof. exact relay_pair_delivers_all_before_closing. Qed.
Print Assumptions C03_relay_delivers_all_before_closing.

(* ... and it does finish: both ends closed, all of B delivered *)
Theorem C03_relay_can_finish : forall chunks,
  let r := run false (RelayPair.init chunks true [] false) (repeat_tid Down (length chunks + 3) ++ repeat_tid Up 3) in
  finished r = true /\ l_closed r = true /\ s_closed r = true /\ l_out r = concat chunks.
Proof. exact relay_pair_can_finish. Qed.
Print Assumptions C03_relay_can_finish.

(* In EVERY environment (whatever either side sends, whenever either side ends) and for every schedule:
   the bytes written to the local connection are a prefix of what the stream delivered, and the frames
   sent up the stream are an initial segment of what the local connection's reads returned. *)
Theorem C03_relay_pair_safe : forall chunks send lin leof sched,
  let r := run false (RelayPair.init chunks send lin leof) sched in
  (exists tail, concat chunks = l_out r ++ tail) /\ (exists rest, lin = s_out r ++ rest).
Proof. exact relay_pair_safe. Qed.
Print Assumptions C03_relay_pair_safe.

(* Why Stream.ReadFrom must not test the stream's closed flag BEFORE its read: with that test the up
   goroutine leaves as soon as the peer has closed, and its deferred closes shut the local connection
   while the down goroutine still holds undelivered bytes (witness: one chunk, schedule Up Up Up Down..). *)
Theorem C03_relay_early_check_refuted :
  exists chunks sched, let r := run true (RelayPair.init chunks true [] false) sched in
    finished r = true /\ l_closed r = true /\ l_out r <> concat chunks.
Proof. exact relay_pair_early_check_refuted. Qed.
Print Assumptions C03_relay_early_check_refuted.
