(* C19 - a limited user's throughput never exceeds the configured rates.
   Only the property theorems, each closed by [exact <lemma>] (proofs: Proofs/Bucket.v).
   Model: Model/Bucket.v (juju/ratelimit's take / adjustavailableTokens / currentTick with its
   integer tick arithmetic, Wait = ideal sleep of the returned duration, NewBucketWithRate's
   quantum search, MakeValve: capacity = rate).  A request (t, c) is a call Wait(c) at time t (ns
   since the bucket was made); it is released at t + wait.  *)
From Coq Require Import ZArith List.
From Cloak Require Import Gen.Consts Model.Bucket Proofs.Bucket.
From Cloak Require Model.PanelSplit Proofs.PanelSplit.
Import ListNotations.
Local Open Scope Z_scope.

(* EVERY request sequence with non-decreasing request times and positive sizes <= m, EVERY
   interval [s,e]: the bytes released in it are at most one quantum per tick touched by the
   interval plus the larger of the bucket capacity and the largest request.
   (Sharper: max (capacity + q*(ticks-1)) (m + q*ticks - 1); this is the form of DESIGN section 6.) *)
Theorem C19_bound : forall p reqs s e m, wf p -> 0 <= s <= e ->
  sorted_from 0 reqs -> counts_in m reqs ->
  released s e (run p (binit p) reqs)
  <= quantum p * (e / fillInterval p - s / fillInterval p + 1) + Z.max (capacity p) m.
Proof. exact bound. Qed.
Print Assumptions C19_bound.

(* In rate terms, for the buckets MakeValve builds (capacity = rate = one second's worth; fill rate
   within 1 % of rate) and messages of at most one second's worth: in any interval of length t ns
   at most 1.01 * rate * t / 1e9 + rate + 2 * quantum bytes are released.  This is C19_partial:
   the property's upper bound under the premise "every message <= one second's worth". *)
Theorem C19_partial : forall rate p reqs s e, wf p -> 0 < rate ->
  capacity p = rate -> within_1pct rate p ->
  0 <= s <= e -> sorted_from 0 reqs -> counts_in rate reqs ->
  100 * 1000000000 * released s e (run p (binit p) reqs)
  <= 101 * rate * (e - s) + 100 * 1000000000 * (rate + 2 * quantum p).
Proof. exact bound_rate. Qed.
Print Assumptions C19_partial.

(* the premises are met by what NewBucketWithRate returns (the model of its search; the driver
   checks on every run that the library returns the same quantum / fillInterval) *)
Theorem C19_search_within_1pct : forall rate cap p, 0 < rate -> 0 < cap ->
  new_bucket_with_rate rate cap = Some p -> wf p /\ capacity p = cap /\ within_1pct rate p.
Proof. exact new_bucket_ok. Qed.
Print Assumptions C19_search_within_1pct.

Example C19_bound_inhabited :
  new_bucket_with_rate 1000 1000 = Some p1000 /\ wf p1000 /\ within_1pct 1000 p1000 /\
  sorted_from 0 [(0, 600); (0, 600); (5, 1000)] /\ counts_in 1000 [(0, 600); (0, 600); (5, 1000)] /\
  run p1000 (binit p1000) [(0, 600); (0, 600); (5, 1000)] = [(0, 600); (200000000, 600); (1200000000, 1000)].
Proof. exact bound_inhabited. Qed.

(* The literal property - "rate x t plus one second's worth, within 1 %" for ALL message sizes: *)
Definition C19_full : Prop :=
  forall rate p reqs s e, wf p -> 0 < rate -> capacity p = rate -> within_1pct rate p ->
  0 <= s <= e -> sorted_from 0 reqs -> Forall (fun tc => 0 < snd tc) reqs ->
  100 * 1000000000 * released s e (run p (binit p) reqs)
  <= 101 * rate * (e - s) + 100 * 1000000000 * (rate + 2 * quantum p).

(* F14: it is FALSE when the rate is below the message size.  At 1000 B/s (quantum 1, fill interval
   1 ms, capacity 1000) one maximal frame of 16401 bytes waits 15.401 s and is then released whole:
   16401 bytes in an interval of length 0, against 1000 + 2. *)
Theorem C19_refuted_small_rate :
  run p1000 (binit p1000) [(0, server_appDataMaxLength)] = [(15401000000, 16401)] /\
  released 15401000000 15401000000 (run p1000 (binit p1000) [(0, server_appDataMaxLength)]) = 16401.
Proof. exact small_rate_burst. Qed.
Print Assumptions C19_refuted_small_rate.

Theorem C19_refuted : ~ C19_full.
Proof. exact full_refuted. Qed.
Print Assumptions C19_refuted.

(* ---- "take the tokens, sleep until they are there" for ANY wait --------------------------------
   C19_bound and C19_partial above quantify over all request sequences: [run] is [take] with
   maxWait = None (the library's infinityDuration), so the wait a request is given is computed from the
   debt alone and nothing in the model bounds it.  The following theorems say so explicitly.

   EVERY request sequence (non-decreasing request times, positive sizes of ANY magnitude): the request
   that completes the first K requested bytes is released at a time r >= 0 whose tick r/fillInterval
   satisfies K <= capacity + quantum * tick: it is never released before the bucket has been refilled
   for everything requested up to and including itself, however long that takes. *)
Theorem C19_never_released_early : forall p reqs, wf p -> sorted_from 0 reqs ->
  Forall (fun tc => 0 < snd tc) reqs ->
  Forall (fun rK => snd rK <= capacity p + quantum p * (fst rK / fillInterval p))
         (cumulate 0 (run p (binit p) reqs)).
Proof. exact never_early. Qed.
Print Assumptions C19_never_released_early.

(* in rate terms, for MakeValve's buckets: that request is released no earlier than
   (K - rate) / (1.01 * rate) seconds after the valve was made *)
Theorem C19_never_released_early_rate : forall rate p reqs, wf p -> 0 < rate -> capacity p = rate ->
  within_1pct rate p -> sorted_from 0 reqs -> Forall (fun tc => 0 < snd tc) reqs ->
  Forall (fun rK => 0 <= fst rK /\ 100 * 1000000000 * (snd rK - rate) <= 101 * rate * fst rK)
         (cumulate 0 (run p (binit p) reqs)).
Proof. exact never_early_rate. Qed.
Print Assumptions C19_never_released_early_rate.

(* k requests of n bytes all issued at time 0 - k senders blocked on the user's bucket at once (streams,
   connections, sessions: one bucket), or one sender's queue: the i-th of them (from 0), with
   K = (i+1)*n bytes requested up to and including itself, is released at r with
   (K - capacity) * fillInterval <= quantum * r, i.e. no earlier than (K - capacity) / fill rate *)
Theorem C19_backlog_wait : forall p n k i r K, wf p -> 0 < n ->
  nth_error (cumulate 0 (run p (binit p) (repeat (0, n) k))) i = Some (r, K) ->
  K = (Z.of_nat i + 1) * n /\ 0 <= r /\ (K - capacity p) * fillInterval p <= quantum p * r.
Proof. exact backlog_wait. Qed.
Print Assumptions C19_backlog_wait.

(* the wait the model imposes has no upper limit: whatever W, a long enough backlog contains a request
   (it exists) that is released later than W *)
Theorem C19_wait_unbounded : forall p n W, wf p -> 0 < n ->
  exists k r K, nth_error (cumulate 0 (run p (binit p) (repeat (0, n) (S k)))) k = Some (r, K) /\ W < r.
Proof. exact wait_unbounded. Qed.
Print Assumptions C19_wait_unbounded.

(* non-vacuity: at 1000 B/s two maximal frames wait 15.4 s and 31.8 s, one request of 3 601 000 bytes
   waits exactly one hour, the sixth of six 8000-byte messages pending at once waits 47 s *)
Example C19_never_released_early_inhabited :
  cumulate 0 (run p1000 (binit p1000) [(0, 16401); (0, 16401)]) = [(15401000000, 16401); (31802000000, 32802)] /\
  cumulate 0 (run p1000 (binit p1000) [(0, 3601000)]) = [(3600000000000, 3601000)] /\
  nth_error (cumulate 0 (run p1000 (binit p1000) (repeat (0, 8000) 6))) 5 = Some (47000000000, 48000).
Proof. exact never_early_inhabited. Qed.

(* counted from the moment the valve is made, the LITERAL bound of the property holds for all message
   sizes (no term for the largest message: F14 needs an interval that begins later): everything released
   in [0, e] is covered by the initial content and the refill *)
Theorem C19_bound_from_start : forall p reqs e, wf p -> 0 <= e -> sorted_from 0 reqs ->
  Forall (fun tc => 0 < snd tc) reqs ->
  released 0 e (run p (binit p) reqs) <= capacity p + quantum p * (e / fillInterval p).
Proof. exact from_start. Qed.
Print Assumptions C19_bound_from_start.

Theorem C19_partial_from_start : forall rate p reqs e, wf p -> 0 < rate -> capacity p = rate ->
  within_1pct rate p -> 0 <= e -> sorted_from 0 reqs -> Forall (fun tc => 0 < snd tc) reqs ->
  100 * 1000000000 * released 0 e (run p (binit p) reqs) <= 101 * rate * e + 100 * 1000000000 * rate.
Proof. exact from_start_rate. Qed.
Print Assumptions C19_partial_from_start.

(* The valve must call Wait.  With the limited variant the library also offers - WaitMaxDuration(n, 30 s),
   result ignored (seeded change C19_r2m2; Model: run_capped) - a request whose wait would exceed the
   limit takes no token and goes out at once: two 16030-byte messages at 500 B/s are released after
   31.06 s and 63.12 s by Wait, both at time 0 by the capped wait: 32060 bytes in an interval of length
   0, against 16031 (C19_bound with the largest message) and 500 (C19_bound_from_start). *)
Theorem C19_refuted_capped_wait :
  run p500 (binit p500) [(0, 16030); (0, 16030)] = [(31060000000, 16030); (63120000000, 16030)] /\
  run_capped p500 (binit p500) 30000000000 [(0, 16030); (0, 16030)] = [(0, 16030); (0, 16030)] /\
  released 0 0 (run_capped p500 (binit p500) 30000000000 [(0, 16030); (0, 16030)]) = 32060 /\
  quantum p500 * (0 / fillInterval p500 - 0 / fillInterval p500 + 1) + Z.max (capacity p500) 16030 = 16031 /\
  capacity p500 + quantum p500 * (0 / fillInterval p500) = 500.
Proof. exact capped_wait_exceeds. Qed.
Print Assumptions C19_refuted_capped_wait.

(* all sessions of one active user draw from ONE bucket: GetSession hands the user's valve to every
   session it creates (whatever the sequence of GetSession calls) ... *)
Theorem C19_shared_valve : forall sids u,
  Forall (fun sv => snd sv = u_valve u) (u_sessions u) ->
  let u' := fold_left (fun u sid => fst (get_session u sid)) sids u in
  u_valve u' = u_valve u /\ Forall (fun sv => snd sv = u_valve u) (u_sessions u') /\
  forall sid, snd (get_session u' sid) = u_valve u.
Proof. exact get_session_shared. Qed.
(* ... so the bound holds for what all sessions together release *)
Theorem C19_shared : forall p (reqs : list (nat * Z * Z)) s e m, wf p -> 0 <= s <= e ->
  sorted_from 0 (map untag reqs) -> counts_in m (map untag reqs) ->
  released s e (map untag (run_tagged p (binit p) reqs))
  <= quantum p * (e / fillInterval p - s / fillInterval p + 1) + Z.max (capacity p) m.
Proof. exact shared_bound. Qed.
Print Assumptions C19_shared.
(* with one bucket per session instead, two sessions release 2000 bytes at once at rate 1000 (bound: 1001) *)
Theorem C19_refuted_unshared :
  released 0 0 (run p1000 (binit p1000) [(0, 1000)] ++ run p1000 (binit p1000) [(0, 1000)]) = 2000 /\
  quantum p1000 * (0 / fillInterval p1000 - 0 / fillInterval p1000 + 1) + Z.max (capacity p1000) 1000 = 1001.
Proof. exact unshared_exceeds. Qed.

(* "a backlogged sender is not held below that rate" - MODEL ONLY (ideal sleeps; real timers
   oversleep): a sender that issues each Wait the moment the previous one returns has the message
   completing its first K bytes released at time 0 or before (K - capacity + quantum)/quantum fill
   intervals, i.e. earlier than (K - rate + quantum) / (0.99 rate) seconds *)
Theorem C19_not_starved_partial : forall rate p cs, wf p -> 0 < rate -> capacity p = rate -> quantum p <= rate ->
  within_1pct rate p -> Forall (fun c => 0 < c) cs ->
  Forall (fun rK => fst rK = 0 \/ 99 * rate * fst rK < 100 * 1000000000 * (snd rK - rate + quantum p))
         (cumulate 0 (run_seq p (binit p) 0 cs)).
Proof. exact not_starved_rate. Qed.
Print Assumptions C19_not_starved_partial.

Example C19_not_starved_inhabited :
  cumulate 0 (run_seq p1000 (binit p1000) 0 [600; 600; 1000]) = [(0, 600); (200000000, 1200); (1200000000, 2200)].
Proof. vm_compute. reflexivity. Qed.

(* "counted across all of the user's sessions and connections together" needs ONE valve per user even
   when the user's first connections overlap: GetUser creates the valve together with the record, and
   with activeUsersM kept from the lookup to the insertion (Model/PanelSplit.v, held = true; tied to
   the source by the generated obligation GetUser_lookup_authenticate_insert_one_step) any number of
   overlapping calls, whatever the user database answers and when, all get the one record - g_nrec
   counts the records, i.e. the valves, created. *)
Theorem C19_one_valve_per_user_under_overlap : forall thr sched s t1 t2 u r1 r2,
  PanelSplit.all_start thr -> PanelSplit.grun true (PanelSplit.g_init thr) sched = Some s ->
  PanelSplit.gget s t1 = PanelSplit.GDone u (Some r1) -> PanelSplit.gget s t2 = PanelSplit.GDone u (Some r2) ->
  r1 = r2 /\ PanelSplit.g_table s u = Some r1.
Proof. exact PanelSplit.split_one_record. Qed.
Print Assumptions C19_one_valve_per_user_under_overlap.

(* without that lock two overlapping first connections get two records = two valves (seeded change
   C19_m2), and C19_refuted_unshared above says what two valves release *)
Theorem C19_two_valves_when_unlocked :
  exists s, PanelSplit.grun false (PanelSplit.g_init [PanelSplit.GStart 1%N; PanelSplit.GStart 1%N]) PanelSplit.unlocked_schedule = Some s
  /\ PanelSplit.gget s 0 = PanelSplit.GDone 1%N (Some 0%nat) /\ PanelSplit.gget s 1 = PanelSplit.GDone 1%N (Some 1%nat)
  /\ PanelSplit.g_nrec s = 2%nat.
Proof. exact PanelSplit.split_unlocked_two_valves. Qed.
Print Assumptions C19_two_valves_when_unlocked.
