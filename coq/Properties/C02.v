(* C02 - Stream reassembly is independent of the order in which frames arrive.
   This file contains only the property theorems, each closed by [exact <lemma>]. *)
From Coq Require Import NArith List Sorting.Permutation.
From Cloak Require Import Model.Reorder Proofs.Reorder.
Import ListNotations.
Local Open Scope N_scope.

(* Frames b..b+n-1 (data), each delivered exactly once, in any order, reads of any size at
   any moments: the application receives the payloads concatenated in sequence order. *)
Theorem C02_reassembly :
  forall (pl : N -> list N) (b : N) (n : nat) (es : list ev) (l : list N),
  b + N.of_nat n < two64 ->
  no_close es ->
  writes es = map (fun i => mkF i false (pl i)) l ->
  Permutation l (range b n) ->
  exists st out, run es (rb_init b) [] = (st, out, false, false)
    /\ out ++ pipe st = flat_map pl (range b n) /\ heap st = [] /\ next st = b + N.of_nat n.
Proof. exact reassembly. Qed.
Print Assumptions C02_reassembly.

(* A closing frame (number b+c) takes effect exactly when every lower-numbered frame and
   the closing frame itself have arrived; at that moment exactly frames b..b+c-1 have been
   handed over.  Quantified over every event list, hence over every prefix of a run. *)
Theorem C02_close_in_order :
  forall (pl : N -> list N) (b : N) (c : nat) (es : list ev) (l : list N),
  let cl := b + N.of_nat c in
  no_close es ->
  writes es = map (fun i => mkF i (i =? cl) (pl i)) l ->
  NoDup l -> (forall i, In i l -> b <= i /\ i + 1 < two64) ->
  exists st out r, run es (rb_init b) [] = (st, out, r, false)
    /\ (r = true <-> (forall j, b <= j <= cl -> In j l))
    /\ (r = true -> out ++ pipe st = flat_map pl (range b c)).
Proof. exact close_in_order. Qed.
Print Assumptions C02_close_in_order.

(* Edge of the statement (not a finding): numbering across 2^64 is rejected. *)
Theorem C02_wrap_guard :
  snd (rb_write (rb_init (two64 - 1)) (mkF 0 false [1])) = true.
Proof. exact wrap_guard. Qed.
Print Assumptions C02_wrap_guard.
