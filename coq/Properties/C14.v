(* C14 - Datagram (UDP) mode preserves message boundaries and stream isolation.
   This file contains only the property theorems, each closed by [exact <lemma>].
   Vocabulary (Model/Datagram.v, Proofs/Datagram.v):
     steps d es      run of an arbitrary list of operations (Wr closing payload | Rd k | Cl) on the
                     datagram pipe, giving the final state and one observation per operation;
     accepted es os  the payloads of the writes that were stored (outcome WrStored), in order;
     delivered os    the byte strings returned by the successful reads, in order;
     pending d       the queue of whole datagrams the state holds (buf cut at the lengths in lens);
     written es      the payloads of all writes of es, in order. *)
From Coq Require Import NArith ZArith List.
From Cloak Require Import Gen.Consts Model.Datagram Proofs.Datagram.
Import ListNotations.

(* length queue and byte buffer never drift apart *)
Theorem C14_dg_inv : forall d, reachable d -> list_sum (lens d) = length (buf d).
Proof. exact dg_inv_reachable. Qed.
Print Assumptions C14_dg_inv.

(* Boundaries: for EVERY sequence of operations (writes - closing or not -, reads with any buffer
   sizes, Close), the successful reads return exactly the stored datagrams d_1, d_2, ... whole, in
   arrival order, each at most once (a prefix of the accepted list, position by position), and what
   has not been returned yet is still held intact.  Since the statement holds for every operation
   list it holds for every prefix of a run. *)
Theorem C14_boundaries : forall es d os, steps dg_init es = (d, os) ->
  accepted es os = delivered os ++ pending d
  /\ lens d = map (@length N) (pending d) /\ buf d = concat (pending d).
Proof. exact boundaries. Qed.
Print Assumptions C14_boundaries.

(* what a read does in any reachable state, for any buffer size k *)
Theorem C14_read_outcomes : forall d k, reachable d ->
  match pending d with
  | [] => dg_read d k = (d, if closed d then RdEOF else RdEmpty)
  | x :: rest =>
      if Nat.ltb k (length x) then dg_read d k = (d, RdShort)
      else exists d', dg_read d k = (d', RdData x) /\ pending d' = rest /\ closed d' = closed d
                      /\ reachable d'
  end.
Proof. exact read_outcomes. Qed.
Print Assumptions C14_read_outcomes.

(* A read buffer too small for the next datagram: error, state UNCHANGED, and the datagram is
   neither consumed nor truncated - any later read with room returns it whole. *)
Theorem C14_short_read_noop : forall d k x rest, reachable d -> pending d = x :: rest -> k < length x ->
  dg_read d k = (d, RdShort)
  /\ forall k', length x <= k' -> exists d', dg_read d k' = (d', RdData x) /\ pending d' = rest.
Proof. exact short_read_noop. Qed.
Print Assumptions C14_short_read_noop.

Theorem C14_short_read_state_unchanged : forall d k, snd (dg_read d k) = RdShort -> fst (dg_read d k) = d.
Proof. exact read_short_noop. Qed.
Print Assumptions C14_short_read_state_unchanged.

(* While the pipe is open (no closing frame, no Close) and below recvBufferSizeLimit every
   datagram written is accepted ... *)
Theorem C14_all_accepted : forall es d os,
  data_only es -> (N.of_nat (total_bytes es) <= buf_limit)%N ->
  steps dg_init es = (d, os) -> accepted es os = written es /\ closed d = false.
Proof. intros es d os Hdo Hl Hs. exact (all_accepted es dg_init d os eq_refl Hdo Hl Hs). Qed.
Print Assumptions C14_all_accepted.

(* ... and after draining with large-enough buffers each of d_1..d_m has been delivered exactly
   once, whole, in arrival order, and the pipe is empty. *)
Theorem C14_exactly_once : forall es ks d os,
  data_only es -> (N.of_nat (total_bytes es) <= buf_limit)%N ->
  steps dg_init es = (d, os) ->
  Forall2 (fun k x => length x <= k) ks (pending d) ->
  exists d' os', steps dg_init (es ++ map Rd ks) = (d', os ++ os')
    /\ delivered (os ++ os') = written es /\ lens d' = [] /\ buf d' = [].
Proof. exact exactly_once. Qed.
Print Assumptions C14_exactly_once.

(* Closing frame: the datagrams written before it remain readable, then end-of-stream; nothing
   is accepted afterwards. *)
Theorem C14_closing : forall d p ks k, reachable d -> closed d = false ->
  (N.of_nat (length (buf d)) <= buf_limit)%N ->
  Forall2 (fun k x => length x <= k) ks (pending d) ->
  exists d1 d2,
    dg_write d true p = (d1, WrClosing) /\ pending d1 = pending d /\ closed d1 = true
    /\ steps d1 (map Rd ks ++ [Rd k]) = (d2, map (fun x => ORd (RdData x)) (pending d) ++ [ORd RdEOF])
    /\ (forall c q, dg_write d2 c q = (d2, WrClosedPipe))
    /\ (forall c q, dg_write d1 c q = (d1, WrClosedPipe)).
Proof. exact closing_semantics. Qed.
Print Assumptions C14_closing.

Theorem C14_local_close : forall d ks k, reachable d ->
  Forall2 (fun k x => length x <= k) ks (pending d) ->
  exists d2, steps (dg_close d) (map Rd ks ++ [Rd k])
             = (d2, map (fun x => ORd (RdData x)) (pending d) ++ [ORd RdEOF]).
Proof. exact local_close_semantics. Qed.
Print Assumptions C14_local_close.

(* Sender: a datagram too large for one frame is refused and nothing is sent; one that fits goes
   out as exactly one frame carrying the whole input; there is never a split or a truncation. *)
Theorem C14_oversize_refused : forall maxu inp, (Z.of_nat (length inp) > maxu)%Z -> (0 <= maxu)%Z ->
  usw_write maxu false inp = (0%Z, SwShortBuffer, []).
Proof. exact oversize_refused. Qed.
Print Assumptions C14_oversize_refused.

Theorem C14_fitting_one_frame : forall maxu inp, (0 < Z.of_nat (length inp) <= maxu)%Z ->
  usw_write maxu false inp = (Z.of_nat (length inp), SwNil, [inp]).
Proof. exact fitting_one_frame. Qed.
Print Assumptions C14_fitting_one_frame.

Theorem C14_never_splits : forall maxu c inp n e fs, usw_write maxu c inp = (n, e, fs) ->
  (fs = [] /\ n = 0%Z) \/ (fs = [inp] /\ n = Z.of_nat (length inp) /\ e = SwNil).
Proof. exact usw_never_splits. Qed.
Print Assumptions C14_never_splits.

(* the frame maximum is the one MakeSession derives; a maximal datagram plus header plus maximal
   padding and tag fits the configured on-wire limit (obligations about the generated constants) *)
Theorem C14_max_unit_consts :
  max_unit 16401 = mux_maxStreamUnitWrite_16401
  /\ max_unit mux_default_MsgOnWireSizeLimit = mux_default_maxStreamUnitWrite
  /\ (0 < max_unit 16401)%Z
  /\ forall l, (max_unit l + mux_frameHeaderLength + mux_maxExtraLen <= l)%Z.
Proof. exact (conj max_unit_16401 (conj max_unit_default (conj max_unit_positive_16401 max_unit_fits))). Qed.
Print Assumptions C14_max_unit_consts.

(* Isolation (receive side of an unordered session, Session.recvDataFromRemote): starting from a
   session on which the local side has opened any set [ids] of streams, for EVERY sequence of frame arrivals (any stream ids, data / stream-closing / session-closing), reads and
   local closes, and for every stream s: the reads on s returned exactly the datagrams stored for s,
   in order, each at most once, and the rest is still pending on s.  Payloads of other streams never
   appear on s. *)
Theorem C14_isolation : forall ids es st os, ssteps (ss_opened ids) es = (st, os) ->
  forall s, s_accepted s es os = s_delivered s es os ++ spending s st.
Proof. exact isolation. Qed.
Print Assumptions C14_isolation.

(* Exactly once while the stream is open and the session healthy: the frame is stored on its own
   stream and no other stream's pipe is touched. *)
Theorem C14_session_accepts : forall st f, sreachable st -> sess_closed st = false ->
  f_closing f = ClNothing ->
  (lookup (f_sid f) (table st) = None \/ live_of (f_sid f) st = true) ->
  (N.of_nat (length (buf (pipe_of (f_sid f) st))) <= buf_limit)%N ->
  exists st' r, ss_recv st f = (st', r) /\ (r = RvStored \/ r = RvNewStored)
    /\ spending (f_sid f) st' = spending (f_sid f) st ++ [f_payload f]
    /\ forall s, s <> f_sid f -> pipe_of s st' = pipe_of s st /\ live_of s st' = live_of s st.
Proof. exact session_accepts. Qed.
Print Assumptions C14_session_accepts.

(* ---- Relay level (design finding F15) ------------------------------------------------------
   Around the Stream interface the client (client.RouteUDP) and the server (serveSession with a "udp"
   ProxyBook entry) move datagrams between a UDP socket and a stream.  Both relays are driven on
   loopback UDP by harness/client/c14_udp_test.go and harness/server/c14_udp_test.go.

   Client relay, current code (buffers of 65535 bytes since /repo commit e32244c): a datagram that
   fits one frame is forwarded whole, a larger one is refused by Stream.Write. *)
Theorem C14_relay_full : forall d,
  ((0 < Z.of_nat (length d) <= max_unit 16401)%Z ->
     route_udp_up (max_unit 16401) d = (Z.of_nat (length d), SwNil, [d]))
  /\ ((max_unit 16401 < Z.of_nat (length d))%Z ->
     route_udp_up (max_unit 16401) d = (0%Z, SwShortBuffer, [])).
Proof. exact relay_full. Qed.
Print Assumptions C14_relay_full.

(* ... and towards the application: a datagram of the peer that fits the relay buffer (every
   datagram a frame can carry does: max_unit 16401 < relay_buf) is handed over whole *)
Theorem C14_relay_down_whole : forall bufsize p x rest, reachable p -> pending p = x :: rest ->
  (N.of_nat (length x) <= bufsize)%N ->
  exists p', relay_down bufsize p = (p', Some x) /\ pending p' = rest.
Proof. exact relay_down_whole. Qed.
Print Assumptions C14_relay_down_whole.

Theorem C14_relay_buf_covers_frames : (0 <= max_unit 16401 < Z.of_N relay_buf)%Z.
Proof. exact max_unit_lt_relay_buf. Qed.
Print Assumptions C14_relay_buf_covers_frames.

(* What the fix repaired: with the former 8192-byte buffers (relay_buf_prefix) the same statement
   was false - an 8193-byte datagram, well inside the frame maximum, went out cut to 8192 bytes
   (C14_relay_cut says exactly what went out), and one coming from the peer stopped the relay. *)
Definition C14_relay_prefix_full : Prop := forall d,
  (0 < Z.of_nat (length d) <= max_unit 16401)%Z ->
  relay_up relay_buf_prefix (max_unit 16401) d = (Z.of_nat (length d), SwNil, [d]).

Theorem C14_refuted_prefix_relay : ~ C14_relay_prefix_full.
Proof. exact relay_prefix_refuted. Qed.
Print Assumptions C14_refuted_prefix_relay.

Theorem C14_refuted_prefix_relay_down : exists p x,
  reachable p /\ pending p = [x] /\ (Z.of_nat (length x) <= max_unit 16401)%Z
  /\ relay_down relay_buf_prefix p = (p, None).
Proof. exact relay_down_prefix_refuted. Qed.
Print Assumptions C14_refuted_prefix_relay_down.

(* for any buffer size: whole up to the buffer; above a buffer that is not larger than a frame the
   first [bufsize] bytes are sent as if they were the datagram *)
Theorem C14_relay_whole_upto_buffer : forall bufsize maxu d,
  (0 < N.of_nat (length d) <= bufsize)%N -> (Z.of_nat (length d) <= maxu)%Z ->
  relay_up bufsize maxu d = (Z.of_nat (length d), SwNil, [d]).
Proof. exact relay_up_whole. Qed.
Print Assumptions C14_relay_whole_upto_buffer.

Theorem C14_relay_cut : forall bufsize maxu d, (0 < bufsize)%N -> (Z.of_N bufsize <= maxu)%Z ->
  (bufsize < N.of_nat (length d))%N ->
  relay_up bufsize maxu d = (Z.of_N bufsize, SwNil, [firstn (N.to_nat bufsize) d]).
Proof. exact relay_up_cut. Qed.
Print Assumptions C14_relay_cut.

(* Server relay (OPEN known finding): Stream.ReadFrom reads the proxy server's datagram into
   maxStreamUnitWrite bytes.  "A datagram too large for one frame is refused at the sender" is FALSE
   there: a 16133-byte datagram is forwarded as its first 16132 bytes.  What holds: datagrams up
   to the frame maximum go out whole; a larger one goes out as exactly its first maxu bytes. *)
Definition C14_server_relay_full : Prop := forall d,
  (max_unit 16401 < Z.of_nat (length d))%Z -> stream_read_from_dgram (max_unit 16401) d = [].

Theorem C14_server_relay_refuted : ~ C14_server_relay_full.
Proof. exact server_relay_refuted. Qed.
Print Assumptions C14_server_relay_refuted.

Theorem C14_server_relay_partial : forall maxu d, (0 < maxu)%Z ->
  ((0 < Z.of_nat (length d) <= maxu)%Z -> stream_read_from_dgram maxu d = [d])
  /\ ((maxu < Z.of_nat (length d))%Z ->
       stream_read_from_dgram maxu d = [firstn (Z.to_nat maxu) d]
       /\ Z.of_nat (length (firstn (Z.to_nat maxu) d)) = maxu).
Proof. exact server_relay_partial. Qed.
Print Assumptions C14_server_relay_partial.

(* non-vacuity: a concrete run with short reads, an empty datagram, a closing frame *)
Theorem C14_example_run :
  let es := [Wr false [1;2;3]; Rd 2; Wr false [4]; Wr false []; Rd 3; Rd 0; Rd 5; Rd 1; Wr true [9]; Rd 1; Wr false [7]]%N in
  snd (steps dg_init es) =
    [OWr WrStored; ORd RdShort; OWr WrStored; OWr WrStored; ORd (RdData [1;2;3]); ORd RdShort;
     ORd (RdData [4]); ORd (RdData []); OWr WrClosing; ORd RdEOF; OWr WrClosedPipe]%N.
Proof. exact ex_run. Qed.
Print Assumptions C14_example_run.
