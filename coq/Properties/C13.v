(* C13 - Each stream's frames carry unique, gap-free sequence numbers in write order.
   Over EVERY label sequence of the session-pair model coq/Model/Mux.v (any interleaving of
   writes, closes, deliveries, faults and timers on any number of streams and connections).
   Hypotheses visible in the statements: [fresh_run] = stream ids returned by OpenStream are
   fresh at the opener (in Cloak only the client opens streams); fewer than 2^64-2 frames. *)
From Coq Require Import NArith ZArith List Bool String.
From Cloak Require Import Model.Reorder Model.Mux Proofs.MuxBase Proofs.MuxSafety Proofs.MuxView
  Proofs.MuxEffect Proofs.MuxPay Proofs.MuxData Proofs.MuxGuards Proofs.MuxNonce.
Import ListNotations.
Local Open Scope N_scope.

(* the i-th frame a side puts on the wire for a stream carries sequence number i (so numbers are
   unique, gap-free and in emission order), the right stream id, and only the last one may be a
   closing frame (which carries no data) *)
Theorem C13_frames_numbered :
  forall k sp u ta tb s sid ls,
  fresh_run (init k sp u ta tb) ls ->
  nE (run_frames s sid (outputs k sp u ta tb ls)) + 2 < two64 ->
  forall i fr, nth_error (run_frames s sid (outputs k sp u ta tb ls)) i = Some fr ->
    w_seq fr = N.of_nat i /\ w_sid fr = sid /\
    (w_cl fr = 0 \/ (w_cl fr = 1 /\ S i = List.length (run_frames s sid (outputs k sp u ta tb ls)) /\ w_pay fr = [])).
Proof. exact frames_numbered. Qed.
Print Assumptions C13_frames_numbered.

(* data frames carry, in sequence order, exactly the bytes the writes on that stream accepted *)
Theorem C13_frames_carry_written :
  forall k sp u ta tb s sid ls,
  fresh_run (init k sp u ta tb) ls ->
  nE (run_frames s sid (outputs k sp u ta tb ls)) + 2 < two64 ->
  data_bytes (run_frames s sid (outputs k sp u ta tb ls)) = run_written s sid ls (outputs k sp u ta tb ls).
Proof. exact frames_carry_written. Qed.
Print Assumptions C13_frames_carry_written.

(* across ALL streams of an endpoint: the (stream id, sequence number) pairs of the stream frames it
   puts on the wire are pairwise distinct - with the per-session key, no AEAD nonce is used twice *)
Theorem C13_nonces_unique :
  forall k sp u ta tb s ls,
  fresh_run (init k sp u ta tb) ls ->
  (forall sid, nE (run_frames s sid (outputs k sp u ta tb ls)) + 2 < two64) ->
  NoDup (map (fun fr => (w_sid fr, w_seq fr)) (all_frames s (outputs k sp u ta tb ls))).
Proof. exact nonces_unique. Qed.
Print Assumptions C13_nonces_unique.

(* generated obligations (coq/Gen/Guards.v, regenerated from /repo by tools/lockscan): every access
   of the sequence counter and of the frame template happens under the stream's write mutex *)
Theorem C13_seq_guarded_by_writingM :
  guarded_by "Stream.writingFrame.Seq" "Stream.writingM" = true /\ accessed "Stream.writingFrame.Seq" = true.
Proof. exact seq_guarded. Qed.
Print Assumptions C13_seq_guarded_by_writingM.
Theorem C13_writing_frame_guarded :
  guarded_by "Stream.writingFrame" "Stream.writingM" = true /\ accessed "Stream.writingFrame" = true.
Proof. exact writing_frame_guarded. Qed.
Print Assumptions C13_writing_frame_guarded.
