(* C10 - Everything on the wire in direct mode is a well-formed TLS record stream.
   Only the property theorems, each closed by [exact <lemma>].  The grammar (Model/HelloGrammar.v) is
   independent of Cloak's own parser; the writers are Model/Auth.v (compose_reply, tlsconn_write).
   uTLS is a black box: about the client's first flight the theorems speak of the grammar only. *)
From Coq Require Import NArith ZArith List.
From Cloak Require Import Gen.Consts Model.HelloGrammar Model.Auth Proofs.HelloGrammar Proofs.Auth Proofs.Wire.
Import ListNotations.
Local Open Scope N_scope.

(* For EVERY 32-byte client session id, nonce, encrypted key, filler and certificate of 1..16384 bytes the
   server's reply is exactly ServerHello (length 118, version 0x0303, 32-byte random, session id echoed,
   suite 0x1302, compression 0, key_share x25519 with a 32-byte share, supported_versions 0x0304),
   ChangeCipherSpec (one byte 0x01), one application-data record. *)
Theorem C10_server_flight : forall sid nonce encKey filler cert,
  length sid = 32%nat -> 0 < lenN cert -> lenN cert <= 16384 ->
  parse_server_flight (compose_reply sid nonce encKey filler cert)
  = Some (mkSF (sh_random nonce encKey) sid (sh_share encKey filler) cert).
Proof. exact server_flight_parses. Qed.
Print Assumptions C10_server_flight.

(* Every later write through TLSConn is [23;3;3;len_hi;len_lo] ++ msg, a well-formed application-data
   record, for 0 < |msg| <= 16640; a longer message is refused and nothing is written. *)
Theorem C10_appdata_records : forall msg, 0 < lenN msg /\ lenN msg <= tls_write_limit ->
  tlsconn_write msg = Some ([23; 3; 3; lenN msg / 256; lenN msg mod 256] ++ msg) /\
  [23; 3; 3; lenN msg / 256; lenN msg mod 256] ++ msg = enc_record (mkRec 23 0x0303 msg) /\
  wf_appdata (mkRec 23 0x0303 msg) = true.
Proof. exact tlsconn_write_record. Qed.
Print Assumptions C10_appdata_records.
Theorem C10_write_refuses : forall msg, tls_write_limit < lenN msg -> tlsconn_write msg = None.
Proof. exact tlsconn_write_refuses. Qed.

(* |msg| = 14 + payload + extra: every frame whose payload respects maxStreamUnitWrite (16132 for the
   limit 16401 both ends configure) is non-empty and fits 16401 <= 16640 = 2^14+256; stream- and
   session-closing notices (1..256 payload bytes) included.  Generated obligations on Gen/Consts.v. *)
Theorem C10_frame_fits : forall payload extra : Z,
  (1 <= payload <= mux_maxStreamUnitWrite_16401)%Z -> (0 <= extra <= mux_maxExtraLen)%Z ->
  (0 < mux_frameHeaderLength + payload + extra <= server_appDataMaxLength /\
   mux_frameHeaderLength + payload + extra <= common_tlsconn_write_limit)%Z.
Proof. exact frame_fits_record. Qed.
Theorem C10_frame_fits_any_limit : forall payload extra limit : Z,
  (1 <= payload <= limit - mux_frameHeaderLength - mux_maxExtraLen)%Z -> (0 <= extra <= mux_maxExtraLen)%Z ->
  (0 < mux_frameHeaderLength + payload + extra <= limit)%Z.
Proof. exact frame_fits. Qed.
Theorem C10_closing_frame_fits : forall payload extra : Z,
  (1 <= payload <= 256)%Z -> (0 <= extra <= mux_maxExtraLen)%Z ->
  (0 < mux_frameHeaderLength + payload + extra <= server_appDataMaxLength)%Z.
Proof. exact closing_frame_fits_record. Qed.
Theorem C10_limits :
  (server_appDataMaxLength = client_appDataMaxLength /\
   server_appDataMaxLength <= common_tlsconn_write_limit /\
   common_tlsconn_write_limit = 2 ^ 14 + 256 /\
   mux_maxStreamUnitWrite_16401 = server_appDataMaxLength - mux_frameHeaderLength - mux_maxExtraLen /\
   256 <= mux_maxStreamUnitWrite_16401 /\
   common_ApplicationData = 23 /\ common_VersionTLS13 = 771 /\ common_recordLayerLength = 5)%Z.
Proof. exact limits_chain. Qed.

(* The concatenation of everything one side writes after the handshake - any list of messages of
   admissible size - parses as exactly these application-data records (type 23, version 0x0303,
   0 < length <= 2^14+256). *)
Theorem C10_stream_parses : forall msgs,
  Forall (fun m => 0 < lenN m /\ lenN m <= tls_write_limit) msgs ->
  parse_appdata_stream (wire_of msgs) = Some msgs.
Proof. exact stream_parses. Qed.
Print Assumptions C10_stream_parses.

(* Whole connections: server side = flight then records; client side = one well-formed ClientHello
   record then records. *)
Theorem C10_server_stream : forall sid nonce encKey filler cert msgs,
  length sid = 32%nat -> 0 < lenN cert -> lenN cert <= 16384 ->
  Forall (fun m => 0 < lenN m /\ lenN m <= tls_write_limit) msgs ->
  parse_server_stream (compose_reply sid nonce encKey filler cert ++ wire_of msgs)
  = Some (mkSF (sh_random nonce encKey) sid (sh_share encKey filler) cert, msgs).
Proof. exact server_stream_parses. Qed.
Print Assumptions C10_server_stream.
Theorem C10_client_stream : forall name hello msgs,
  wf_client_hello name hello = true ->
  Forall (fun m => 0 < lenN m /\ lenN m <= tls_write_limit) msgs ->
  exists h, parse_client_hello hello = Some h /\
            parse_client_stream name (hello ++ wire_of msgs) = Some (h, msgs).
Proof. exact client_stream_parses. Qed.
Print Assumptions C10_client_stream.

(* The client's first flight: a well-formed hello carries the expected server name, a 32-byte random
   at offset 11, the session-id length 32 at offset 43, the session id at offset 44 and a 32-byte
   x25519 share inside its key_share extension; these are the fields the locator returns ... *)
Theorem C10_wf_hello_fields : forall name l, wf_client_hello name l = true ->
  exists r s k,
    locate_fields l = Some (r, s, k) /\ server_name_of l = Some name /\
    length r = 32%nat /\ length s = 32%nat /\ length k = 32%nat /\
    firstn 32 (skipn 11 l) = r /\ nth 43 l 0 = 32 /\ firstn 32 (skipn 44 l) = s /\
    (exists pre post, l = pre ++ k ++ post).
Proof. exact wf_hello_fields. Qed.
Print Assumptions C10_wf_hello_fields.
(* ... and where the composer put them. *)
Theorem C10_composer_fields : forall sk r s k, wf_skeleton sk = true ->
  length r = 32%nat -> length s = 32%nat -> length k = 32%nat ->
  locate_fields (mk_client_hello sk r s k) = Some (r, s, k).
Proof. exact locate_mk_client_hello. Qed.
Print Assumptions C10_composer_fields.
(* non-vacuity *)
Theorem C10_premises_inhabited :
  wf_skeleton ex_skeleton = true /\
  wf_client_hello ex_name (mk_client_hello ex_skeleton (repeat 1 32) (repeat 2 32) (repeat 3 32)) = true.
Proof. exact ex_skeleton_wf. Qed.
