(* C12 - Faults tear a session down cleanly: nothing left blocked, new streams refused,
   connections closed, timer only when idle.  Statements over EVERY label sequence of the
   session-pair model (coq/Model/Mux.v): connection failures, FINs, stream and session
   closes by either side, timers, at arbitrary positions relative to frames in flight.
   Only property theorems here, each closed by [exact]. *)
From Coq Require Import NArith ZArith List Bool.
From Cloak Require Import Model.Reorder Model.Mux Proofs.MuxBase Proofs.MuxSafety Proofs.MuxCount Proofs.MuxCB.
Import ListNotations.
Local Open Scope N_scope.

(* After closeSession (whoever triggered it): every stream is closed and its pipe is closed
   (a read returns buffered bytes or the error, it never blocks), OpenStream is refused,
   writes are refused. *)
Theorem C12_teardown_complete :
  forall k sp u ta tb ls s,
  let y := reach k sp u ta tb ls in
  se_closed (sess y s) = true ->
  (forall sid st, lookup sid (se_objs (sess y s)) = Some st -> st_closed st = true /\ pclosed (st_rb st) = true) /\
  (forall sid n, try_read y s sid n <> None) /\
  open_stream y s = (y, [ERet R_BROKEN_SESSION 0 []]) /\
  (forall sid data ch, exists rc, stream_write y s sid data ch = (y, [ERet rc 0 []]) /\ rc <> R_OK).
Proof. exact teardown_complete. Qed.
Print Assumptions C12_teardown_complete.

(* In every reachable state (i.e. after every label has run to quiescence) an application
   call that is still blocked - a Read or an Accept - belongs to a session that is not closed:
   every blocked read and accept of a closed session has returned. *)
Theorem C12_nothing_left_blocked :
  forall k sp u ta tb ls,
  let y := reach k sp u ta tb ls in
  forall p, In p (sy_pend y) -> se_closed (sess y (pend_side p)) = false.
Proof. exact nothing_left_blocked. Qed.
Print Assumptions C12_nothing_left_blocked.

(* closeAll: once the switchboard is marked broken the session is closed and this side's end
   of every pooled connection has been closed. *)
Theorem C12_connections_closed :
  forall k sp u ta tb ls s,
  let y := reach k sp u ta tb ls in
  se_broken (sess y s) = true ->
  se_closed (sess y s) = true /\
  forall c cn, In c (se_pool (sess y s)) -> nthN (N.to_nat c) (sy_conns y) = Some cn -> conn_closed_end cn s = true.
Proof. exact broken_closes_all_connections. Qed.
Print Assumptions C12_connections_closed.

(* A reset seen by both ends, at any moment, closes the session on every side whose end of that
   connection was still open. *)
Theorem C12_fault_closes_sessions :
  forall k sp u ta tb ls c ch cn,
  let y := reach k sp u ta tb ls in
  nthN (N.to_nat c) (sy_conns y) = Some cn -> c_failed cn = false ->
  forall s, conn_closed_end cn s = false -> se_closed (sess (fst (step y (LFail c) ch)) s) = true.
Proof. exact fault_closes_sessions. Qed.
Print Assumptions C12_fault_closes_sessions.

(* The inactivity check closes a session only when its active-stream count is zero. *)
Theorem C12_timer_only_when_idle :
  forall k sp u ta tb ls d ch s,
  let y := reach k sp u ta tb ls in
  let y' := fst (step y (LTick d) ch) in
  se_closed (sess y s) = false -> se_closed (sess y' s) = true -> se_count (sess y s) = 0.
Proof. exact timer_only_when_idle. Qed.
Print Assumptions C12_timer_only_when_idle.

(* the invariant behind all of the above holds in every reachable state *)
Theorem C12_wellformed_always :
  forall k sp u ta tb ls, WF (reach k sp u ta tb ls).
Proof. exact reach_WF. Qed.
Print Assumptions C12_wellformed_always.

(* At every quiescent moment of a live session the count of active streams equals the number of
   open streams (the counter is a uint32, hence "mod 2^32"), over every label sequence: faults,
   closes by either side, timers, any arrival order.  [fresh_opens]: the ids handed out by
   OpenStream are fresh (no 2^32 wrap-around of the id counter and no two openers of the same id). *)
Theorem C12_count_equals_open_streams :
  forall k sp u ta tb ls x,
  fresh_opens (init k sp u ta tb) ls ->
  let se := sess (reach k sp u ta tb ls) x in
  se_closed se = false -> se_count se = N.of_nat (List.length (live_streams se)) mod two32.
Proof. exact count_equals_open_streams. Qed.
Print Assumptions C12_count_equals_open_streams.

(* ... hence the inactivity check closes a multiplexed session only while it has no open stream *)
Theorem C12_timer_closes_only_without_open_streams :
  forall k sp u ta tb ls d ch s,
  fresh_opens (init k sp u ta tb) ls ->
  let y := reach k sp u ta tb ls in
  let y' := fst (step y (LTick d) ch) in
  N.of_nat (List.length (live_streams (sess y s))) < two32 ->
  se_closed (sess y s) = false -> se_closed (sess y' s) = true -> live_streams (sess y s) = [].
Proof. exact timer_closes_only_without_open_streams. Qed.
Print Assumptions C12_timer_closes_only_without_open_streams.

(* "All of the session's connections end up closed": in every reachable state (every quiescent
   moment, after any label sequence) a closed session - closed by a fault, by the peer's notice, by
   its own Close whether or not the notice could be sent, or by the timer - has run closeAll and
   its end of every connection of its pool is closed. *)
Theorem C12_closed_session_has_closed_its_connections :
  forall k sp u ta tb ls s,
  let y := reach k sp u ta tb ls in
  se_closed (sess y s) = true ->
  se_broken (sess y s) = true /\
  forall c cn, In c (se_pool (sess y s)) -> nthN (N.to_nat c) (sy_conns y) = Some cn -> conn_closed_end cn s = true.
Proof. exact closed_session_has_closed_its_connections. Qed.
Print Assumptions C12_closed_session_has_closed_its_connections.
