(* C09 - Unauthenticated peers see only the redirect target, byte for byte.
   Only the property theorems, each closed by [exact <lemma>].
   Vocabulary (Proofs/FirstPacket.v): sent_enough bsz s = the peer has sent a complete TLS record that fits the
   first-packet buffer, or a record too large for it, or a complete HTTP request head within the buffer, or a
   request whose head does not end within the buffer, or a first byte other than 0x16 / 0x47. *)
From Coq Require Import NArith ZArith List Bool.
From Cloak Require Import Gen.Consts Model.Hello Model.FirstPacket Model.Dispatch Model.DispatchInst
  Proofs.FirstPacket Proofs.Hello Proofs.Dispatch Proofs.DispatchInst.
Import ListNotations.
Local Open Scope N_scope.

(* generated obligation: the buffer holds a record header (breaks if firstPacketSize drops below 5) *)
Theorem C09_buffer_holds_header : (5 <= fps)%nat.
Proof. exact fps_ge_5. Qed.
Print Assumptions C09_buffer_holds_header.

(* In EVERY branch of readFirstPacket, error branches included, for every stream, ending and buffer size:
   the buffered bytes are exactly the first r_n bytes of the stream, the prefix replayed to the target
   (buf[:i]) is the same, the connection's next unread byte is byte number r_n: nothing lost, nothing twice. *)
Theorem C09_consumed_exact : forall (bsz : nat) (s : list N) (e : ending), (5 <= bsz)%nat ->
  let r := rfp_gen bsz s e in
  r_buf r = firstn (r_n r) s /\ r_rest r = skipn (r_n r) s /\ first_data r = firstn (r_n r) s
  /\ nth_error (r_rest r) 0 = nth_error s (r_n r)
  /\ (r_n r <= bsz)%nat /\ (r_n r <= length s)%nat /\ r_err r <> RFuel.
Proof. exact consumed_exact. Qed.
Print Assumptions C09_consumed_exact.

(* Once the peer has sent enough the decision is "redirect" and the target's input is the peer's stream,
   exactly; otherwise (the stream ended early) there is no redirect and the connection is closed. *)
Theorem C09_target_gets_everything : forall (bsz : nat) (s : list N) (e : ending), (5 <= bsz)%nat ->
  let r := rfp_gen bsz s e in
  (sent_enough bsz s -> r_redir r = true /\ r_closed r = false /\ relay r = s) /\
  (~ sent_enough bsz s -> r_redir r = false /\ r_closed r = true /\ r_err r = RRead e /\ r_n r = length s).
Proof. exact target_gets_everything. Qed.
Print Assumptions C09_target_gets_everything.

(* which prefix is replayed in the classes a prober cares about *)
Theorem C09_prefix_per_class : forall (bsz : nat) (s : list N) (e : ending), (5 <= bsz)%nat ->
  let r := rfp_gen bsz s e in
  (tls_oversize bsz s -> r_err r = RShortBuffer /\ r_n r = 5%nat) /\
  (unrecognised s -> r_err r = RUnrecognised /\ r_n r = 1%nat) /\
  (forall t1 t2 hi lo body tail, s = 0x16 :: t1 :: t2 :: hi :: lo :: body ++ tail ->
     N.of_nat (length body) = hi * 256 + lo -> hi * 256 + lo + 5 <= N.of_nat bsz ->
     r_err r = RNone /\ first_data r = 0x16 :: t1 :: t2 :: hi :: lo :: body /\ r_rest r = tail).
Proof. exact class_details. Qed.
Print Assumptions C09_prefix_per_class.

(* io.ReadFull sees the same bytes whatever the segmentation of the stream *)
Theorem C09_segmentation : forall (chunks : list (list N)) (n : nat),
  let '(d, rest, ok) := read_full_seg n chunks in
  read_full n (concat chunks) = (d, concat rest, ok).
Proof. exact read_full_seg_eq. Qed.
Print Assumptions C09_segmentation.

(* The hand-written parsers: no panic gets past the recover() wrappers, their loops end within the model's
   fuel, and there is NO reachable panic in unmarshalClientHello / unmarshalHidden / processFirstPacket, for
   any input bytes and any X25519. *)
Theorem C09_parsers_total :
  (forall input, parseExtensions input <> Panic /\ parseExtensions input <> Err EFuel) /\
  (forall input, parseKeyShare input <> Panic /\ parseKeyShare input <> Err EFuel) /\
  (forall data, parseClientHello data <> Panic /\ parseClientHello data <> Err EFuel) /\
  (forall dh ch pv, unmarshalClientHello dh ch pv <> Panic /\ unmarshalClientHello dh ch pv <> Err EFuel) /\
  (forall dh data pv, tls_first_packet dh data pv <> Panic /\ tls_first_packet dh data pv <> Err EFuel) /\
  (forall dh hidden pv, ws_first_packet dh hidden pv <> Panic /\ ws_first_packet dh hidden pv <> Err EFuel).
Proof.
  exact (conj parseExtensions_total (conj parseKeyShare_total (conj parseClientHello_total
        (conj unmarshalClientHello_no_panic (conj tls_first_packet_total ws_first_packet_total))))).
Qed.
Print Assumptions C09_parsers_total.

(* decryptClientInfo indexes the plaintext OUTSIDE any recover(): it cannot panic because AES-GCM opening strips
   exactly the tag from the fixed 64-byte block.  Stated for every cipher with that length property ... *)
Theorem C09_no_crash : forall dh gcm_open,
  (forall k n ct aad pt, gcm_open k n ct aad = Some pt -> (length pt + 16 = length ct)%nat) ->
  forall p st now, decide dh gcm_open p st now <> Crash.
Proof. exact decide_no_crash. Qed.
Print Assumptions C09_no_crash.
(* ... and discharged for the Gallina AES-GCM the correspondence runs *)
Theorem C09_no_crash_gcm : forall dh p st now, decide_gcm dh p st now <> Crash.
Proof. exact decide_gcm_no_crash. Qed.
Print Assumptions C09_no_crash_gcm.

(* On every rejection path of the dispatch decision the server writes nothing of its own: it originates bytes
   only towards sessions; a rejected complete first packet (parse error, replay, decryption failure, window,
   encryption byte, proxy method, UID - any reason) is handed to goWeb with prefix ++ rest = the stream;
   over-long / unrecognisable streams likewise; a stream that ended early is closed. *)
Theorem C09_no_server_byte : forall dh gcm_open,
  (forall k n ct aad pt, gcm_open k n ct aad = Some pt -> (length pt + 16 = length ct)%nat) ->
  forall (http_hidden : list N -> option (list N)) (s : list N) (e : ending) (st : server_state) (now : Z),
  let r := rfp s e in
  let o := dispatch_conn dh gcm_open http_hidden s e st now in
  (server_writes o = true <->
     r_err r = RNone /\ is_session (decide dh gcm_open (packet_of http_hidden r) st now)) /\
  (forall why, r_err r = RNone -> decide dh gcm_open (packet_of http_hidden r) st now = Redirect why ->
     o = OWeb (first_data r) (r_rest r) /\ first_data r ++ r_rest r = s) /\
  (r_err r <> RNone -> (r_redir r = true -> o = OWeb (first_data r) (r_rest r) /\ first_data r ++ r_rest r = s)
                       /\ (r_redir r = false -> o = OClose)) /\
  o <> OCrash.
Proof. exact dispatch_no_server_byte. Qed.
Print Assumptions C09_no_server_byte.

(* Exactly one outcome per connection: it is relayed to the redirect target (then with prefix ++ rest = the whole
   stream) or answered by the server itself, never both; it is relayed exactly when the first packet was read and
   the decision is a Redirect (parse, replay, decryption, window, encryption byte, PROXY METHOD, UID) or when
   readFirstPacket failed with its redirect flag set. *)
Theorem C09_one_outcome : forall dh gcm_open,
  (forall k n ct aad pt, gcm_open k n ct aad = Some pt -> (length pt + 16 = length ct)%nat) ->
  forall (http_hidden : list N -> option (list N)) (s : list N) (e : ending) (st : server_state) (now : Z),
  let r := rfp s e in
  let o := dispatch_conn dh gcm_open http_hidden s e st now in
  (relays o = true -> server_writes o = false) /\ (server_writes o = true -> relays o = false) /\
  (relays o = true <->
     (r_err r = RNone /\ exists why, decide dh gcm_open (packet_of http_hidden r) st now = Redirect why) \/
     (r_err r <> RNone /\ r_redir r = true)) /\
  (relays o = true -> o = OWeb (first_data r) (r_rest r) /\ first_data r ++ r_rest r = s).
Proof. exact one_outcome. Qed.
Print Assumptions C09_one_outcome.

(* a valid credential naming a proxy method the server does not serve is web traffic, nothing else *)
Theorem C09_unknown_method_is_web : forall dh gcm_open,
  (forall k n ct aad pt, gcm_open k n ct aad = Some pt -> (length pt + 16 = length ct)%nat) ->
  forall p st now ci,
  auth_first_packet dh gcm_open p st now = DOk ci -> known_enc (ci_enc ci) = true -> is_admin st ci = false ->
  ~ In (ci_method ci) (st_proxyBook st) ->
  decide dh gcm_open p st now = Redirect RMethod.
Proof. exact unknown_method_is_web. Qed.
Print Assumptions C09_unknown_method_is_web.

(* and the relay itself only ever passes the other side's bytes on; a failed dial / first write closes the peer *)
Theorem C09_relay_bytes : forall data rest e d t,
  let w := goweb data rest e d t in
  (w_peer w = [] \/ w_peer w = t_reply t) /\ (w_target w = [] \/ w_target w = data ++ rest) /\
  (d <> DialOk -> w_peer_closed w = true /\ w_peer w = [] /\ w_target w = []).
Proof. exact goweb_bytes. Qed.
Print Assumptions C09_relay_bytes.
