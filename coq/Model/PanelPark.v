(* Park points at the UserManager seam of the panel model (Model/Panel.v).

   userPanel.Manager is an interface: the harness hands the real panel a wrapper around the real
   localManager that can hold a scenario thread INSIDE Manager.AuthenticateUser (GetUser),
   Manager.AuthoriseNewSession (GetSession) or Manager.UploadStatus (commitUpdate) - see
   harness/server/c17_common_test.go.  A thread held there keeps the locks the code holds across
   the call.  In the model those calls are part of the critical-section steps D1, D3 and of step
   M8; [at_mgr] says whether the NEXT step of a thread makes such a call, i.e. where the model
   thread must be stopped to be in the same place as the held goroutine:

     D1 (holds activeUsersM)    lookup misses and the UID is not a bypass UID -> AuthenticateUser
     D3 (holds r.sessionsM)     no session under that id, record not bypass   -> AuthoriseNewSession
     M8 (holds nothing)         a non-empty status list                       -> UploadStatus

   Executable definitions only. *)
From Coq Require Import ZArith NArith List Bool.
From Cloak Require Import Model.Panel.
Import ListNotations.

Inductive mpoint := MpAuth | MpSess | MpUpload.

Definition mpoint_eqb (a b : mpoint) : bool :=
  match a, b with
  | MpAuth, MpAuth | MpSess, MpSess | MpUpload, MpUpload => true
  | _, _ => false
  end.

Definition at_mgr (c : cfg) (s : state) (p : pc) : option mpoint :=
  match p with
  | D1 u sd =>
      match table s u with
      | Some _ => None
      | None => if is_bypass c u then None else Some MpAuth
      end
  | D3 u sd r =>
      let x := recs s r in
      if patched c && r_term x then None
      else match slook sd (r_sess x) with
           | Some _ => None
           | None => if r_bypass x then None else Some MpSess
           end
  | M8 _ => Some MpUpload
  | _ => None
  end.

(* the lock a thread held at a manager park point keeps: what the harness must observe as
   "every other caller of that lock is blocked until the held thread is released" *)
Inductive heldlock := HoldA | HoldS (r : nat) | HoldNone.
Definition mgr_holds (p : pc) : heldlock :=
  match p with
  | D1 _ _ => HoldA
  | D3 _ _ r => HoldS r
  | _ => HoldNone
  end.
