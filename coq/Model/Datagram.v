(* Model of internal/multiplex/datagramBufferedPipe.go (non-blocking view), of the unordered
   branch of Stream.Write (stream.go) and of the receive-side demultiplexer
   Session.recvDataFromRemote (session.go) restricted to an unordered session.
   Executable definitions only: proofs live in Proofs/Datagram.v. *)
From Coq Require Import NArith ZArith List Bool.
From Cloak Require Import Gen.Consts.
Import ListNotations.

(* ---------------------------------------------------------------------------------- *)
(* datagramBufferedPipe: pLens (queue of datagram lengths), buf (bytes.Buffer, bytes are
   N < 256), closed.  rwCond / deadlines are not modelled (non-blocking view). *)
Record dg := mkD { lens : list nat; buf : list N; closed : bool }.

Definition dg_init : dg := mkD [] [] false.

(* recvBufferSizeLimit = 1<<31 - 1 *)
Definition buf_limit : N := Z.to_N mux_recvBufferSizeLimit.

(* Write(f *Frame) (toBeClosed bool, err error) *)
Inductive wr_result :=
| WrStored                 (* (false, nil): the datagram was appended *)
| WrClosing                (* (true, nil): a closing frame closed the pipe *)
| WrClosedPipe             (* (true, io.ErrClosedPipe) *)
| WrWouldBlock.            (* buf.Len() > recvBufferSizeLimit: rwCond.Wait() *)

Definition dg_write (d : dg) (closing : bool) (payload : list N) : dg * wr_result :=
  if closed d then (d, WrClosedPipe)
  else if negb (N.leb (N.of_nat (length (buf d))) buf_limit) then (d, WrWouldBlock)
  else if closing then (mkD (lens d) (buf d) true, WrClosing)
  else (mkD (lens d ++ [length payload]) (buf d ++ payload) false, WrStored).

(* Read(target []byte) (int, error) with len(target) = k *)
Inductive rd_result :=
| RdData (x : list N)      (* (dataLen, nil) and target[:dataLen] *)
| RdEOF                    (* (0, io.EOF) *)
| RdShort                  (* (0, io.ErrShortBuffer) *)
| RdEmpty.                 (* nothing pending, not closed: rwCond.Wait() *)

Definition dg_read (d : dg) (k : nat) : dg * rd_result :=
  match lens d with
  | [] => (d, if closed d then RdEOF else RdEmpty)
  | n :: rest =>
      if Nat.ltb k n then (d, RdShort)
      else (mkD rest (skipn n (buf d)) (closed d), RdData (firstn n (buf d)))
  end.

Definition dg_close (d : dg) : dg := mkD (lens d) (buf d) true.

(* Specification-side view of a state: the queue of whole datagrams it holds (buf cut at the
   boundaries recorded in lens).  Used only in theorem statements, not by the code model. *)
Fixpoint split_by (ls : list nat) (b : list N) : list (list N) :=
  match ls with
  | [] => []
  | n :: r => firstn n b :: split_by r (skipn n b)
  end.
Definition pending (d : dg) : list (list N) := split_by (lens d) (buf d).

(* ---- op sequences on one pipe (what the white-box driver replays) ----------------- *)
Inductive ev :=
| Wr (closing : bool) (payload : list N)
| Rd (k : nat)
| Cl.

Inductive obs :=
| OWr (r : wr_result)
| ORd (r : rd_result)
| OCl.

Definition step (d : dg) (e : ev) : dg * obs :=
  match e with
  | Wr c p => let '(d', r) := dg_write d c p in (d', OWr r)
  | Rd k => let '(d', r) := dg_read d k in (d', ORd r)
  | Cl => (dg_close d, OCl)
  end.

Fixpoint steps (d : dg) (es : list ev) : dg * list obs :=
  match es with
  | [] => (d, [])
  | e :: t => let '(d1, o) := step d e in let '(d2, os) := steps d1 t in (d2, o :: os)
  end.

(* ---------------------------------------------------------------------------------- *)
(* Stream.Write on an unordered session.  maxStreamUnitWrite is derived in MakeSession. *)
Local Open Scope Z_scope.

Definition max_unit (msgOnWireSizeLimit : Z) : Z :=
  msgOnWireSizeLimit - mux_frameHeaderLength - mux_maxExtraLen.

Inductive sw_err := SwNil | SwBrokenStream | SwShortBuffer.

(* result: n, err, the frames handed to obfuscateAndSend (payloads).  The send itself is
   assumed to succeed (healthy session). *)
Definition usw_write (maxu : Z) (sclosed : bool) (inp : list N) : Z * sw_err * list (list N) :=
  if sclosed then (0, SwBrokenStream, [])
  else match inp with
       | [] => (0, SwNil, [])                                     (* for n < len(in): no iteration *)
       | _ => if Z.of_nat (length inp) <=? maxu
              then (Z.of_nat (length inp), SwNil, [inp])          (* one frame with in[0:] *)
              else (0, SwShortBuffer, [])                         (* "we are not allowed to" split *)
       end.

(* The UDP relays around the Stream interface.
   client.RouteUDP (internal/client/piper.go), uplink:
     data := make([]byte, SIZE); i, addr, err := localConn.ReadFrom(data); ... stream.Write(data[:i])
   ReadFrom into a buffer shorter than the datagram keeps what fits and silently discards the rest
   (Linux recvfrom without MSG_TRUNC).  SIZE is a literal in the source (the relay driver measures its
   effect): 65535 since commit e32244c, 8192 before. *)
Definition relay_up (bufsize : N) (maxu : Z) (d : list N) : Z * sw_err * list (list N) :=
  usw_write maxu false (firstn (N.to_nat bufsize) d).
Definition relay_buf : N := 65535%N.
Definition relay_buf_prefix : N := 8192%N.
Definition route_udp_up : Z -> list N -> Z * sw_err * list (list N) := relay_up relay_buf.

(* downlink, one iteration of the relay goroutine: buf := make([]byte, SIZE); n, err := stream.Read(buf);
   an error ends the goroutine (stream closed, mapping deleted: None), otherwise buf[:n] is sent to
   the application as one datagram *)
Definition relay_down (bufsize : N) (p : dg) : dg * option (list N) :=
  match dg_read p (N.to_nat bufsize) with
  | (p', RdData x) => (p', Some x)
  | (p', _) => (p', None)
  end.
Definition route_udp_down : dg -> dg * option (list N) := relay_down relay_buf.

(* server side (dispatcher.go serveSession): common.Copy(newStream, localConn) = Stream.ReadFrom(localConn);
   one iteration on a datagram socket: read, er := r.Read(buf[frameHeaderLength : frameHeaderLength+maxStreamUnitWrite]),
   then one frame with the bytes read.  An empty read makes obfuscate fail ("payload cannot be empty"):
   nothing is sent and ReadFrom returns. *)
Definition stream_read_from_dgram (maxu : Z) (d : list N) : list (list N) :=
  match firstn (Z.to_nat maxu) d with
  | [] => []
  | f => [f]
  end.

(* ---------------------------------------------------------------------------------- *)
(* Receive side of an unordered session: Session.streams as an association list.  An entry
   keeps the stream's pipe (the application still holds the *Stream after the table slot
   became nil) and [live] = the slot is non-nil. *)
Local Open Scope N_scope.

Record sentry := mkE { sid : N; spipe : dg; live : bool }.
Record sess := mkS { table : list sentry; sess_closed : bool }.

Definition ss_init : sess := mkS [] false.
(* a session on which the local side has opened streams [ids] (OpenStream registers a fresh,
   empty pipe under a fresh id); ss_init = ss_opened [] *)
Definition ss_opened (ids : list N) : sess := mkS (map (fun s => mkE s dg_init true) ids) false.

Fixpoint lookup (s : N) (t : list sentry) : option sentry :=
  match t with
  | [] => None
  | e :: r => if sid e =? s then Some e else lookup s r
  end.

Fixpoint update (s : N) (p : dg) (lv : bool) (t : list sentry) : list sentry :=
  match t with
  | [] => [mkE s p lv]
  | e :: r => if sid e =? s then mkE s p lv :: r else e :: update s p lv r
  end.

(* frame as recvDataFromRemote sees it after deobfuscate *)
Inductive fclosing := ClNothing | ClStream | ClSession.
Record frame := mkF { f_sid : N; f_closing : fclosing; f_payload : list N }.

Inductive rv_result :=
| RvStored            (* appended to the stream's pipe *)
| RvNewStored         (* a new stream was created (acceptCh), then appended *)
| RvStreamClosed      (* closing frame: pipe closed, slot set to nil *)
| RvNewStreamClosed   (* closing frame for an unknown id: stream created and closed at once *)
| RvDropped           (* slot is nil: the stream existed before, frame ignored *)
| RvSessionClosed     (* closingSession frame: every live stream closed *)
| RvBroken            (* session already closed: ErrBrokenSession / errRepeatSessionClosing *)
| RvWouldBlock.

(* closeSession: every stream with a non-nil slot gets its pipe closed *)
Definition close_all (t : list sentry) : list sentry :=
  map (fun e => if live e then mkE (sid e) (dg_close (spipe e)) false else e) t.

Definition recv_into (st : sess) (s : N) (p : dg) (isnew : bool) (f : frame) : sess * rv_result :=
  match dg_write p (match f_closing f with ClNothing => false | _ => true end) (f_payload f) with
  | (p', WrStored) => (mkS (update s p' true (table st)) false, if isnew then RvNewStored else RvStored)
  | (p', WrClosing) => (* toBeClosed: passiveClose -> closeStream(s,false): recvBuf.Close, slot := nil *)
      (mkS (update s (dg_close p') false (table st)) false, if isnew then RvNewStreamClosed else RvStreamClosed)
  | (p', WrClosedPipe) => (* toBeClosed on an already closed stream: closeStream's CAS fails
                              (errRepeatStreamClosing, swallowed), the table is not touched *)
      (st, RvDropped)
  | (p', WrWouldBlock) => (st, RvWouldBlock)
  end.

Definition ss_recv (st : sess) (f : frame) : sess * rv_result :=
  match f_closing f with
  | ClSession =>
      if sess_closed st then (st, RvBroken) else (mkS (close_all (table st)) true, RvSessionClosed)
  | _ =>
      if sess_closed st then (st, RvBroken)
      else match lookup (f_sid f) (table st) with
           | Some e => if live e then recv_into st (f_sid f) (spipe e) false f else (st, RvDropped)
           | None => recv_into st (f_sid f) dg_init true f
           end
  end.

(* Stream.Read(buf) on stream s with len(buf) = k (k > 0; Stream.Read returns (0,nil) for k = 0
   without touching the pipe): io.EOF is reported as ErrBrokenStream, same outcome class *)
Inductive srd_result := SrNoStream | SrZero | Sr (r : rd_result).
Definition ss_read (st : sess) (s : N) (k : nat) : sess * srd_result :=
  match lookup s (table st) with
  | None => (st, SrNoStream)
  | Some e =>
      match k with
      | O => (st, SrZero)
      | _ => let '(p', r) := dg_read (spipe e) k in
             (mkS (update s p' (live e) (table st)) (sess_closed st), Sr r)
      end
  end.

(* Stream.Close() by the local application (active close): pipe closed, slot := nil.
   The closing frame it sends belongs to the other direction and is not modelled here. *)
Definition ss_close_stream (st : sess) (s : N) : sess :=
  match lookup s (table st) with
  | Some e => if live e then mkS (update s (dg_close (spipe e)) false (table st)) (sess_closed st) else st
  | None => st
  end.

Inductive sev := SRecv (f : frame) | SRead (s : N) (k : nat) | SClose (s : N).
Inductive sobs := OSRecv (r : rv_result) | OSRead (r : srd_result) | OSClose.

Definition sstep (st : sess) (e : sev) : sess * sobs :=
  match e with
  | SRecv f => let '(st', r) := ss_recv st f in (st', OSRecv r)
  | SRead s k => let '(st', r) := ss_read st s k in (st', OSRead r)
  | SClose s => (ss_close_stream st s, OSClose)
  end.

Fixpoint ssteps (st : sess) (es : list sev) : sess * list sobs :=
  match es with
  | [] => (st, [])
  | e :: t => let '(s1, o) := sstep st e in let '(s2, os) := ssteps s1 t in (s2, o :: os)
  end.
