(* An INDEPENDENT grammar of the TLS byte strings Cloak puts on the wire in direct mode
   (property C10) and a composer of ClientHellos standing in for uTLS (property C06).

     parse_records        the TLS record layer (RFC 8446 5.1): type, version, length, body
     parse_appdata_stream what every byte after the handshake must be
     parse_server_flight  ServerHello + ChangeCipherSpec + one application-data record
     parse_client_hello / wf_client_hello / locate_fields
                          one handshake record holding a structurally valid ClientHello
     mk_client_hello      a ClientHello written from a skeleton and the three Cloak fields

   Nothing here is transcribed from Cloak's own parser (internal/server/TLSAux.go - that is
   Model/Hello.v): this file is written from RFC 8446 section 4.1.2/4.1.3/4.2 and is the
   oracle side of C10.  "Structurally valid" is exactly what wf_client_hello checks - lengths,
   nesting, extension framing, no duplicate extension, server_name, key_share, supported_versions -
   it is not a full TLS 1.3 validator.
   Executable definitions only; proofs are in Proofs/HelloGrammar.v. *)
From Coq Require Import NArith List Bool Arith.
Import ListNotations.
Local Open Scope N_scope.

(* ------------------------------------------------------------------------------ bytes *)
Definition g_take (n : nat) (l : list N) : option (list N * list N) :=
  if (n <=? length l)%nat then Some (firstn n l, skipn n l) else None.

Definition lenN (l : list N) : N := N.of_nat (length l).

(* big-endian length fields as the writer emits them (uint16 / uint24 truncation) *)
Definition u8 (x : N) : list N := [x mod 256].
Definition u16 (x : N) : list N := [(x / 256) mod 256; x mod 256].
Definition u24 (x : N) : list N := [(x / 65536) mod 256; (x / 256) mod 256; x mod 256].

Fixpoint g_bytes_eqb (a b : list N) : bool :=
  match a, b with
  | [], [] => true
  | x :: a', y :: b' => (x =? y) && g_bytes_eqb a' b'
  | _, _ => false
  end.

(* ------------------------------------------------------------------------------ records *)
Record record := mkRec { r_type : N; r_ver : N; r_body : list N }.

Definition parse_record (l : list N) : option (record * list N) :=
  match l with
  | t :: v1 :: v0 :: l1 :: l0 :: rest =>
    match g_take (N.to_nat (l1 * 256 + l0)) rest with
    | Some (body, rest') => Some (mkRec t (v1 * 256 + v0) body, rest')
    | None => None
    end
  | _ => None
  end.

(* every record consumes at least its 5 header bytes: fuel = length suffices *)
Fixpoint parse_records_fuel (fuel : nat) (l : list N) : option (list record) :=
  match l with
  | [] => Some []
  | _ =>
    match fuel with
    | O => None
    | S f =>
      match parse_record l with
      | Some (r, rest) =>
        match parse_records_fuel f rest with
        | Some rs => Some (r :: rs)
        | None => None
        end
      | None => None
      end
    end
  end.
Definition parse_records (l : list N) : option (list record) := parse_records_fuel (length l) l.

Definition enc_record (r : record) : list N :=
  [r_type r] ++ u16 (r_ver r) ++ u16 (lenN (r_body r)) ++ r_body r.

(* RFC 8446 5.2: a TLSCiphertext is at most 2^14 + 256 bytes; 5.1/5.4: zero-length
   application-data fragments are what an implementation may send as padding only - the
   property forbids them *)
Definition max_record_len : N := 16640.
Definition wf_appdata (r : record) : bool :=
  (r_type r =? 23) && (r_ver r =? 0x0303) && (0 <? lenN (r_body r)) && (lenN (r_body r) <=? max_record_len).

(* the bodies of the records, if the whole string is a sequence of well-formed
   application-data records *)
Definition parse_appdata_stream (l : list N) : option (list (list N)) :=
  match parse_records l with
  | Some rs => if forallb wf_appdata rs then Some (map r_body rs) else None
  | None => None
  end.

(* ------------------------------------------------------------------------------ TLV lists *)
(* extensions (type16, len16, data) and key-share entries (group16, len16, key) share a shape *)
Definition parse_tlv (l : list N) : option ((N * list N) * list N) :=
  match l with
  | t1 :: t0 :: l1 :: l0 :: rest =>
    match g_take (N.to_nat (l1 * 256 + l0)) rest with
    | Some (data, rest') => Some ((t1 * 256 + t0, data), rest')
    | None => None
    end
  | _ => None
  end.
Fixpoint parse_tlvs_fuel (fuel : nat) (l : list N) : option (list (N * list N)) :=
  match l with
  | [] => Some []
  | _ =>
    match fuel with
    | O => None
    | S f =>
      match parse_tlv l with
      | Some (e, rest) =>
        match parse_tlvs_fuel f rest with
        | Some es => Some (e :: es)
        | None => None
        end
      | None => None
      end
    end
  end.
Definition parse_tlvs (l : list N) : option (list (N * list N)) := parse_tlvs_fuel (length l) l.

Definition enc_tlv (e : N * list N) : list N := u16 (fst e) ++ u16 (lenN (snd e)) ++ snd e.
Definition enc_tlvs (l : list (N * list N)) : list N := flat_map enc_tlv l.

Fixpoint assoc (k : N) (l : list (N * list N)) : option (list N) :=
  match l with
  | [] => None
  | (k', v) :: t => if k =? k' then Some v else assoc k t
  end.
Fixpoint nodup_b (l : list N) : bool :=
  match l with
  | [] => true
  | x :: t => negb (existsb (N.eqb x) t) && nodup_b t
  end.

Definition ext_server_name : N := 0.
Definition ext_supported_versions : N := 43.
Definition ext_key_share : N := 51.
Definition group_x25519 : N := 29.

(* ------------------------------------------------------------------------------ ClientHello *)
Record hello := mkHello {
  h_version : N;
  h_random : list N;
  h_sid : list N;
  h_suites : list N;
  h_comps : list N;
  h_exts : list (N * list N) }.

(* struct { ProtocolVersion legacy_version; Random random; opaque legacy_session_id<0..32>;
            CipherSuite cipher_suites<2..2^16-2>; opaque legacy_compression_methods<1..2^8-1>;
            Extension extensions<8..2^16-1>; } ClientHello;   inside Handshake{type 1, uint24 length}
   inside exactly one TLSPlaintext{type 22, version 0x0301} *)
Definition parse_hello_body (rest : list N) : option hello :=
  match rest with
  | v1 :: v0 :: rest1 =>
    match g_take 32 rest1 with
    | Some (random, sl :: rest2) =>
      match g_take (N.to_nat sl) rest2 with
      | Some (sid, c1 :: c0 :: rest3) =>
        match g_take (N.to_nat (c1 * 256 + c0)) rest3 with
        | Some (suites, m :: rest4) =>
          match g_take (N.to_nat m) rest4 with
          | Some (comps, e1 :: e0 :: exts) =>
            if e1 * 256 + e0 =? lenN exts then
              match parse_tlvs exts with
              | Some es => Some (mkHello (v1 * 256 + v0) random sid suites comps es)
              | None => None
              end
            else None
          | _ => None
          end
        | _ => None
        end
      | _ => None
      end
    | _ => None
    end
  | _ => None
  end.

Definition hello_of_record (r : record) : option hello :=
  if (r_type r =? 22) && (r_ver r =? 0x0301) then
    match r_body r with
    | 1 :: n2 :: n1 :: n0 :: rest =>
      if n2 * 65536 + n1 * 256 + n0 =? lenN rest then parse_hello_body rest else None
    | _ => None
    end
  else None.
Definition parse_client_hello (l : list N) : option hello :=
  match parse_record l with
  | Some (r, []) => hello_of_record r
  | _ => None
  end.

(* server_name extension: ServerNameList<1..2^16-1> of {name_type 0, HostName<1..2^16-1>};
   exactly one entry *)
Definition sni_name (data : list N) : option (list N) :=
  match data with
  | ll1 :: ll0 :: 0 :: nl1 :: nl0 :: name =>
    if (ll1 * 256 + ll0 =? lenN name + 3) && (nl1 * 256 + nl0 =? lenN name) && (0 <? lenN name)
    then Some name else None
  | _ => None
  end.

(* key_share extension: KeyShareEntry client_shares<0..2^16-1>; the x25519 entry is the first
   one of group 0x001d *)
Definition key_share_entries (data : list N) : option (list (N * list N)) :=
  match data with
  | k1 :: k0 :: entries => if k1 * 256 + k0 =? lenN entries then parse_tlvs entries else None
  | _ => None
  end.
Definition x25519_share (data : list N) : option (list N) :=
  match key_share_entries data with
  | Some ents =>
    match assoc group_x25519 ents with
    | Some k => if (length k =? 32)%nat then Some k else None
    | None => None
    end
  | None => None
  end.

(* supported_versions: ProtocolVersion versions<2..254>; must offer TLS 1.3 *)
Fixpoint has_version (v : N) (l : list N) : bool :=
  match l with
  | a :: b :: t => (a * 256 + b =? v) || has_version v t
  | _ => false
  end.
Definition versions_ok (data : list N) : bool :=
  match data with
  | n :: vs => (n =? lenN vs) && Nat.even (length vs) && (2 <=? length vs)%nat && has_version 0x0304 vs
  | [] => false
  end.

Definition hello_server_name (h : hello) : option (list N) :=
  match assoc ext_server_name (h_exts h) with
  | Some d => sni_name d
  | None => None
  end.
Definition hello_share (h : hello) : option (list N) :=
  match assoc ext_key_share (h_exts h) with
  | Some d => x25519_share d
  | None => None
  end.

Definition wf_hello (name : list N) (h : hello) : bool :=
  (h_version h =? 0x0303) &&
  (length (h_random h) =? 32)%nat &&
  (length (h_sid h) =? 32)%nat &&
  Nat.even (length (h_suites h)) && (2 <=? length (h_suites h))%nat &&
  (1 <=? length (h_comps h))%nat &&
  nodup_b (map fst (h_exts h)) &&
  match hello_server_name h with Some n => g_bytes_eqb n name | None => false end &&
  match hello_share h with Some _ => true | None => false end &&
  match assoc ext_supported_versions (h_exts h) with Some d => versions_ok d | None => false end.

(* THE predicate of C10 for the client's first flight *)
Definition wf_client_hello (name : list N) (l : list N) : bool :=
  match parse_client_hello l with
  | Some h => wf_hello name h
  | None => false
  end.

(* random, session id, x25519 key share *)
Definition locate_fields (l : list N) : option (list N * list N * list N) :=
  match parse_client_hello l with
  | Some h =>
    match hello_share h with
    | Some k => Some (h_random h, h_sid h, k)
    | None => None
    end
  | None => None
  end.

(* the server name of a hello, for the "random" configuration; and what randomServerName may
   produce: 3..12 lower-case letters, a dot, one of the listed top-level domains *)
Definition server_name_of (l : list N) : option (list N) :=
  match parse_client_hello l with
  | Some h => hello_server_name h
  | None => None
  end.
Definition is_lower (c : N) : bool := (97 <=? c) && (c <=? 122).
Definition tlds : list (list N) :=
  [ [99;111;109]; [110;101;116]; [111;114;103]; [105;116]; [102;114]; [109;101]; [114;117]; [99;110];
    [101;115]; [116;114]; [116;111;112]; [120;121;122]; [105;110;102;111] ].
Fixpoint split_dot (l : list N) (acc : list N) : option (list N * list N) :=
  match l with
  | [] => None
  | c :: t => if c =? 46 then Some (rev acc, t) else split_dot t (c :: acc)
  end.
Definition is_random_name (name : list N) : bool :=
  match split_dot name [] with
  | Some (label, tld) =>
    forallb is_lower label && (3 <=? length label)%nat && (length label <=? 12)%nat &&
    existsb (g_bytes_eqb tld) tlds
  | None => false
  end.

(* ------------------------------------------------------------------------------ composer *)
(* A skeleton is everything of a ClientHello that is not one of the three Cloak fields. *)
Record skeleton := mkSk {
  sk_suites : list N;
  sk_comps : list N;
  sk_exts_before : list (N * list N);
  sk_shares_before : list (N * list N);
  sk_shares_after : list (N * list N);
  sk_exts_after : list (N * list N) }.

Definition mk_key_share (sk : skeleton) (share : list N) : list N :=
  let entries := enc_tlvs (sk_shares_before sk ++ [(group_x25519, share)] ++ sk_shares_after sk) in
  u16 (lenN entries) ++ entries.
Definition mk_exts (sk : skeleton) (share : list N) : list (N * list N) :=
  sk_exts_before sk ++ [(ext_key_share, mk_key_share sk share)] ++ sk_exts_after sk.
Definition mk_hello_body (sk : skeleton) (random sid share : list N) : list N :=
  let exts := enc_tlvs (mk_exts sk share) in
  u16 0x0303 ++ random ++ u8 (lenN sid) ++ sid ++
  u16 (lenN (sk_suites sk)) ++ sk_suites sk ++ u8 (lenN (sk_comps sk)) ++ sk_comps sk ++
  u16 (lenN exts) ++ exts.
Definition mk_client_hello (sk : skeleton) (random sid share : list N) : list N :=
  let rest := mk_hello_body sk random sid share in
  let body := [1] ++ u24 (lenN rest) ++ rest in
  enc_record (mkRec 22 0x0301 body).

(* size and disjointness conditions under which the composer's output parses back
   (field widths of the format; the x25519 entry is the first of its group; key_share is the
   only extension of its type) *)
Definition tlv_fits (e : N * list N) : bool := (fst e <? 65536) && (lenN (snd e) <? 65536).
Definition wf_skeleton (sk : skeleton) : bool :=
  forallb tlv_fits (sk_exts_before sk) && forallb tlv_fits (sk_exts_after sk) &&
  forallb tlv_fits (sk_shares_before sk) && forallb tlv_fits (sk_shares_after sk) &&
  negb (existsb (fun e => fst e =? group_x25519) (sk_shares_before sk)) &&
  negb (existsb (fun e => fst e =? ext_key_share) (sk_exts_before sk)) &&
  (lenN (sk_suites sk) <? 65536) && (lenN (sk_comps sk) <? 256) &&
  (lenN (enc_tlvs (sk_shares_before sk ++ [(group_x25519, repeat 0 32)] ++ sk_shares_after sk)) <? 65534) &&
  (lenN (mk_hello_body sk (repeat 0 32) (repeat 0 32) (repeat 0 32)) <? 65532).

(* ------------------------------------------------------------------------------ server flight *)
Record server_flight := mkSF {
  sf_random : list N;
  sf_sid : list N;
  sf_share : list N;
  sf_cert : list N }.

(* struct { legacy_version 0x0303; Random; legacy_session_id_echo<0..32>; cipher_suite;
            legacy_compression_method 0; Extension extensions<6..2^16-1>; } ServerHello *)
Definition parse_server_hello (body : list N) : option (list N * list N * list N) :=
  match body with
  | 2 :: n2 :: n1 :: n0 :: rest =>
    if negb (n2 * 65536 + n1 * 256 + n0 =? lenN rest) then None
    else if negb (lenN rest =? 118) then None
    else
    match rest with
    | 3 :: 3 :: rest1 =>
      match g_take 32 rest1 with
      | Some (random, 32 :: rest2) =>
        match g_take 32 rest2 with
        | Some (sid, 0x13 :: 0x02 :: 0 :: e1 :: e0 :: exts) =>
          if e1 * 256 + e0 =? lenN exts then
            match parse_tlvs exts with
            | Some es =>
              if (length es =? 2)%nat && nodup_b (map fst es) then
                match assoc ext_key_share es, assoc ext_supported_versions es with
                | Some (0 :: 29 :: 0 :: 32 :: share), Some [3; 4] =>
                  if (length share =? 32)%nat then Some (random, sid, share) else None
                | _, _ => None
                end
              else None
            | None => None
            end
          else None
        | _ => None
        end
      | _ => None
      end
    | _ => None
    end
  | _ => None
  end.

Definition flight_of (sh ccs app : record) : option server_flight :=
  if (r_type sh =? 22) && (r_ver sh =? 0x0303) &&
     (r_type ccs =? 20) && (r_ver ccs =? 0x0303) && g_bytes_eqb (r_body ccs) [1] &&
     wf_appdata app
  then
    match parse_server_hello (r_body sh) with
    | Some (random, sid, share) => Some (mkSF random sid share (r_body app))
    | None => None
    end
  else None.

Definition parse_server_flight (l : list N) : option server_flight :=
  match parse_records l with
  | Some [sh; ccs; app] => flight_of sh ccs app
  | _ => None
  end.

(* everything the server writes on one connection: the flight, then application data
   (flight, bodies of the later records) *)
Definition parse_server_stream (l : list N) : option (server_flight * list (list N)) :=
  match parse_records l with
  | Some (sh :: ccs :: app :: rest) =>
    match flight_of sh ccs app with
    | Some f => if forallb wf_appdata rest then Some (f, map r_body rest) else None
    | None => None
    end
  | _ => None
  end.
(* everything the client writes on one connection: one ClientHello record, then application data *)
Definition parse_client_stream (name : list N) (l : list N) : option (hello * list (list N)) :=
  match parse_records l with
  | Some (r :: rest) =>
    match hello_of_record r with
    | Some h => if wf_hello name h && forallb wf_appdata rest then Some (h, map r_body rest) else None
    | None => None
    end
  | _ => None
  end.
(* the server name carried by the first record of a client stream *)
Definition client_stream_name (l : list N) : option (list N) :=
  match parse_record l with
  | Some (r, _) => match hello_of_record r with Some h => hello_server_name h | None => None end
  | None => None
  end.
