(* X25519 (RFC 7748 section 5) as an executable Gallina function on byte strings.
   Independent re-implementation of what golang.org/x/crypto/curve25519.X25519
   (= crypto/ecdh X25519) computes: the scalar is clamped, bit 255 of the u-coordinate is
   masked, non-canonical u are accepted (reduced mod p), the result is
   the 32-byte little-endian encoding of the x-coordinate.  The all-zero-output rejection of
   crypto/ecdh is NOT part of this function (see [dh] in Model/Auth.v).
   Executable definitions only; facts are in Proofs/X25519.v. *)
From Coq Require Import ZArith NArith List Bool.
Import ListNotations.
Local Open Scope Z_scope.

Definition p25519 : Z := 2^255 - 19.
(* Reduction specialised to p = 2^255 - 19 (2^255 = 19 mod p): two folds bring any
   0 <= x < 2^512 below 2^255 + 2^11, one conditional subtraction makes it canonical.
   (Z.modulo on 510-bit numbers dominates the running time of the extracted model.) *)
Definition mask255 : Z := 2^255 - 1.
Definition fold255 (x : Z) : Z := Z.land x mask255 + 19 * Z.shiftr x 255.
Definition freduce (x : Z) : Z :=
  let r := fold255 (fold255 x) in if r >=? p25519 then r - p25519 else r.
(* operands are canonical (in [0, p)) *)
Definition fmul (a b : Z) : Z := freduce (a * b).
Definition fadd (a b : Z) : Z := let s := a + b in if s >=? p25519 then s - p25519 else s.
Definition fsub (a b : Z) : Z := let s := a - b in if s <? 0 then s + p25519 else s.

(* square-and-multiply, exponent consumed from the least significant bit *)
Fixpoint fpow_aux (n : nat) (b e acc : Z) : Z :=
  match n with
  | O => acc
  | S n =>
    let acc' := if Z.odd e then fmul acc b else acc in
    fpow_aux n (fmul b b) (Z.shiftr e 1) acc'
  end.
Definition finv (a : Z) : Z := fpow_aux 255 a (p25519 - 2) 1.

Definition cswap (s : bool) (a b : Z) : Z * Z := if s then (b, a) else (a, b).

(* Montgomery ladder of RFC 7748, bits t = n-1 .. 0 of k *)
Fixpoint ladder (n : nat) (k u x2 z2 x3 z3 : Z) (swap : bool) : Z :=
  match n with
  | O =>
    let '(x2, x3) := cswap swap x2 x3 in
    let '(z2, z3) := cswap swap z2 z3 in
    fmul x2 (finv z2)
  | S t =>
    let kt := Z.testbit k (Z.of_nat t) in
    let swap := xorb swap kt in
    let '(x2, x3) := cswap swap x2 x3 in
    let '(z2, z3) := cswap swap z2 z3 in
    let A := fadd x2 z2 in let AA := fmul A A in
    let B := fsub x2 z2 in let BB := fmul B B in
    let E := fsub AA BB in
    let C := fadd x3 z3 in let D := fsub x3 z3 in
    let DA := fmul D A in let CB := fmul C B in
    let x3 := let s := fadd DA CB in fmul s s in
    let z3 := let s := fsub DA CB in fmul u (fmul s s) in
    let x2 := fmul AA BB in
    let z2 := fmul E (fadd AA (fmul 121665 E)) in
    ladder t k u x2 z2 x3 z3 kt
  end.

(* little-endian byte strings <-> Z *)
Fixpoint le_decode (l : list N) : Z :=
  match l with
  | [] => 0
  | b :: t => Z.of_N b + 256 * le_decode t
  end.
Fixpoint le_encode (n : nat) (z : Z) : list N :=
  match n with
  | O => []
  | S n => Z.to_N (z mod 256) :: le_encode n (z / 256)
  end.

(* decodeScalar25519: k[0] &= 248; k[31] &= 127; k[31] |= 64 *)
Definition clamp_scalar (k : Z) : Z := Z.lor (Z.land (k mod 2^255) (2^255 - 8)) (2^254).
(* decodeUCoordinate: mask the most significant bit of the last byte *)
Definition mask_u (u : Z) : Z := u mod 2^255.

Definition x25519_z (k u : Z) : Z :=
  let k := clamp_scalar k in
  let u := freduce (mask_u u) in   (* non-canonical u (p <= u < 2^255) are accepted and reduced *)
  ladder 255 k u 1 0 u 1 false.

Definition x25519 (scalar u : list N) : list N :=
  le_encode 32 (x25519_z (le_decode scalar) (le_decode u)).

Definition basepoint : list N := 9%N :: repeat 0%N 31.
Definition x25519_base (scalar : list N) : list N := x25519 scalar basepoint.
