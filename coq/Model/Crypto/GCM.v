(* AES-GCM with 96-bit nonces and 16-byte tags (crypto/cipher.NewGCM over crypto/aes),
   key = 16 or 32 bytes.  Structured as key stream + MAC through Model/AEAD.v. *)
From Coq Require Import NArith List.
From Cloak Require Import Model.Crypto.CBytes Model.Crypto.AES Model.Crypto.GHASH Model.AEAD.
Import ListNotations.
Local Open Scope N_scope.

(* counter block nonce || be32 ctr ; forced to 16 bytes *)
Definition gcm_ctr_block (nonce : list N) (ctr : N) : list N :=
  firstn 12 (nonce ++ zeros 12) ++ be_bytes 4 ctr.

(* one key-stream block, forced to 16 bytes *)
Definition gcm_ks_block (rks : list (list N)) (nonce : list N) (ctr : N) : list N :=
  firstn 16 (aes_encrypt_block rks (gcm_ctr_block nonce ctr) ++ zeros 16).

(* key stream for the payload: counter blocks 2, 3, ... *)
Definition gcm_stream (key nonce : list N) (len : nat) : list N :=
  let rks := aes_expand key in
  stream_blocks (gcm_ks_block rks nonce) 2 (blocks_for 16 len).

Definition gcm_mac (key nonce aad ct : list N) : list N :=
  let rks := aes_expand key in
  let h := be_num (gcm_ks_block rks [] 0) in   (* E_K(0^128): nonce [] and ctr 0 give the zero block *)
  firstn 16 (xorl (ghash h aad ct) (gcm_ks_block rks nonce 1) ++ zeros 16).

Definition gcm_seal (key nonce plaintext aad : list N) : list N :=
  aead_seal gcm_stream gcm_mac key nonce plaintext aad.

Definition gcm_open (key nonce ct aad : list N) : option (list N) :=
  aead_open gcm_stream gcm_mac 16 key nonce ct aad.
