(* Poly1305 (RFC 8439 section 2.5) in Gallina.  Definitions only. *)
From Coq Require Import NArith List.
From Cloak Require Import Model.Crypto.CBytes.
Import ListNotations.
Local Open Scope N_scope.

Definition poly_p : N := 2 ^ 130 - 5.
Definition poly_mask130 : N := 2 ^ 130 - 1.
Definition poly_clamp : N := 0x0ffffffc0ffffffc0ffffffc0fffffff.

(* partial reduction modulo 2^130 - 5: congruent, result < 2^130 + 5 * (x / 2^130) *)
Definition poly_red (x : N) : N := N.land x poly_mask130 + 5 * N.shiftr x 130.

Definition poly_block (r acc : N) (blk : list N) : N :=
  poly_red (poly_red ((acc + le_num (blk ++ [1])) * r)).

(* key = 32 bytes (r || s); returns the 16-byte tag *)
Definition poly1305 (key msg : list N) : list N :=
  let r := N.land (le_num (firstn 16 key)) poly_clamp in
  let s := le_num (firstn 16 (skipn 16 key)) in
  let acc := fold_left (poly_block r) (chunks 16 msg) 0 in
  le_bytes 16 ((acc mod poly_p) + s).
