(* Byte/word helpers shared by the Gallina cipher implementations (Salsa20, ChaCha20,
   Poly1305, AES, GHASH) and by Model/Codec.v.  Executable definitions only.
   Bytes are N (< 256) in lists; 32-bit words are N with the wrap written out. *)
From Coq Require Import NArith List Bool.
Import ListNotations.
Local Open Scope N_scope.

Definition w32 (x : N) : N := N.land x 0xFFFFFFFF.
Definition add32 (a b : N) : N := w32 (a + b).
Definition rotl32 (x k : N) : N := w32 (N.lor (N.shiftl x k) (N.shiftr x (32 - k))).

Definition byte_of (x : N) : N := N.land x 255.

(* little-endian 32-bit word <-> 4 bytes *)
Definition le32_bytes (x : N) : list N :=
  [byte_of x; byte_of (N.shiftr x 8); byte_of (N.shiftr x 16); byte_of (N.shiftr x 24)].
Definition le32_at (l : list N) (i : nat) : N :=
  N.lor (nth i l 0)
   (N.lor (N.shiftl (nth (i + 1) l 0) 8)
     (N.lor (N.shiftl (nth (i + 2) l 0) 16) (N.shiftl (nth (i + 3) l 0) 24))).

(* little-endian / big-endian number of a byte string *)
Definition le_num (l : list N) : N := fold_right (fun b acc => N.lor b (N.shiftl acc 8)) 0 l.
Definition be_num (l : list N) : N := fold_left (fun acc b => N.lor (N.shiftl acc 8) b) l 0.
(* n bytes, little-endian / big-endian, of x (truncating) *)
Fixpoint le_bytes (n : nat) (x : N) : list N :=
  match n with O => [] | S n' => byte_of x :: le_bytes n' (N.shiftr x 8) end.
Definition be_bytes (n : nat) (x : N) : list N := rev (le_bytes n x).

(* xor of two byte strings, truncated to the shorter one *)
Fixpoint xorl (a b : list N) : list N :=
  match a, b with
  | x :: a', y :: b' => N.lxor x y :: xorl a' b'
  | _, _ => []
  end.

Fixpoint upd (l : list N) (i : nat) (v : N) : list N :=
  match l, i with
  | [], _ => []
  | _ :: t, O => v :: t
  | h :: t, S i' => h :: upd t i' v
  end.

Fixpoint iter {A} (n : nat) (f : A -> A) (x : A) : A :=
  match n with O => x | S n' => iter n' f (f x) end.

(* n blocks of key stream, block counter starting at ctr *)
Fixpoint stream_blocks (blk : N -> list N) (ctr : N) (n : nat) : list N :=
  match n with O => [] | S n' => blk ctr ++ stream_blocks blk (ctr + 1) n' end.

(* number of bsz-byte blocks needed to cover len bytes *)
Definition blocks_for (bsz len : nat) : nat := Nat.div (len + (bsz - 1)) bsz.

(* counter-mode encryption: data xor the key stream of enough blocks *)
Definition ctr_xor (blk : N -> list N) (bsz : nat) (ctr : N) (data : list N) : list N :=
  xorl data (stream_blocks blk ctr (blocks_for bsz (length data))).

Fixpoint bytes_eqb (a b : list N) : bool :=
  match a, b with
  | [], [] => true
  | x :: a', y :: b' => (x =? y) && bytes_eqb a' b'
  | _, _ => false
  end.

(* split into chunks of n (the last one may be shorter); fuel = length suffices *)
Fixpoint chunks_fuel (fuel n : nat) (l : list N) : list (list N) :=
  match fuel with
  | O => []
  | S fuel' => match l with [] => [] | _ => firstn n l :: chunks_fuel fuel' n (skipn n l) end
  end.
Definition chunks (n : nat) (l : list N) : list (list N) := chunks_fuel (length l) n l.

Definition zeros (n : nat) : list N := repeat 0 n.
(* zero padding up to a multiple of 16 *)
Definition pad16 (l : list N) : list N :=
  l ++ zeros (Nat.modulo (16 - Nat.modulo (length l) 16) 16).
