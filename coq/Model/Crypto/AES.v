(* AES-128 / AES-256 block encryption (FIPS 197) in Gallina, byte oriented; the S-box is
   computed (inverse in GF(2^8) + affine map) once and stored in a small binary trie.
   Executable definitions only. *)
From Coq Require Import NArith List Bool.
From Cloak Require Import Model.Crypto.CBytes.
Import ListNotations.
Local Open Scope N_scope.

(* multiplication by x in GF(2^8) modulo x^8+x^4+x^3+x+1 *)
Definition xtime (a : N) : N :=
  let d := N.double a in if d <? 256 then d else N.lxor d 0x11b.

Fixpoint gmul_fuel (fuel : nat) (a b acc : N) : N :=
  match fuel with
  | O => acc
  | S f => gmul_fuel f (xtime a) (N.div2 b) (if N.odd b then N.lxor acc a else acc)
  end.
Definition gmul (a b : N) : N := gmul_fuel 8 a b 0.

(* a^254 = a^-1 (0 -> 0) *)
Definition ginv (a : N) : N :=
  let a2 := gmul a a in let a4 := gmul a2 a2 in let a8 := gmul a4 a4 in
  let a16 := gmul a8 a8 in let a32 := gmul a16 a16 in let a64 := gmul a32 a32 in
  let a128 := gmul a64 a64 in
  gmul a128 (gmul a64 (gmul a32 (gmul a16 (gmul a8 (gmul a4 a2))))).

Definition rotl8 (x k : N) : N := N.land (N.lor (N.shiftl x k) (N.shiftr x (8 - k))) 255.
Definition sbox_calc (a : N) : N :=
  let b := ginv a in
  N.lxor b (N.lxor (rotl8 b 1) (N.lxor (rotl8 b 2) (N.lxor (rotl8 b 3) (N.lxor (rotl8 b 4) 0x63)))).

Fixpoint nrange (a : N) (n : nat) : list N :=
  match n with O => [] | S k => a :: nrange (a + 1) k end.

(* binary trie indexed by the bits of the index, least significant first *)
Inductive trie := TLeaf (v : N) | TNode (l r : trie).
Fixpoint evens (l : list N) : list N :=
  match l with [] => [] | x :: t => x :: match t with [] => [] | _ :: t' => evens t' end end.
Definition odds (l : list N) : list N := match l with [] => [] | _ :: t => evens t end.
Fixpoint trie_build (depth : nat) (l : list N) : trie :=
  match depth with
  | O => TLeaf (hd 0 l)
  | S d => TNode (trie_build d (evens l)) (trie_build d (odds l))
  end.
Fixpoint trie_get (t : trie) (i : N) : N :=
  match t with
  | TLeaf v => v
  | TNode l r => if N.odd i then trie_get r (N.div2 i) else trie_get l (N.div2 i)
  end.

Definition sbox_trie : trie := Eval vm_compute in trie_build 8 (map sbox_calc (nrange 0 256)).
Definition sbox (a : N) : N := trie_get sbox_trie a.

(* state: 16 bytes, byte i = row (i mod 4), column (i / 4) *)
Definition sub_bytes (s : list N) : list N := map sbox s.
Definition shift_rows (s : list N) : list N :=
  map (fun i => nth i s 0) [0;5;10;15;4;9;14;3;8;13;2;7;12;1;6;11]%nat.
Definition mix_column (a0 a1 a2 a3 : N) : list N :=
  let x0 := xtime a0 in let x1 := xtime a1 in let x2 := xtime a2 in let x3 := xtime a3 in
  [ N.lxor x0 (N.lxor (N.lxor x1 a1) (N.lxor a2 a3));
    N.lxor a0 (N.lxor x1 (N.lxor (N.lxor x2 a2) a3));
    N.lxor a0 (N.lxor a1 (N.lxor x2 (N.lxor x3 a3)));
    N.lxor (N.lxor x0 a0) (N.lxor a1 (N.lxor a2 x3)) ].
Definition mix_columns (s : list N) : list N :=
  match s with
  | [a0;a1;a2;a3;b0;b1;b2;b3;c0;c1;c2;c3;d0;d1;d2;d3] =>
      mix_column a0 a1 a2 a3 ++ mix_column b0 b1 b2 b3 ++ mix_column c0 c1 c2 c3 ++ mix_column d0 d1 d2 d3
  | _ => s
  end.

(* key expansion: words are 4-byte lists; nk = 4 or 8; returns 4*(nr+1) words, newest last *)
Definition rot_word (w : list N) : list N := match w with a :: t => t ++ [a] | [] => [] end.
Fixpoint expand_fuel (fuel : nat) (nk : nat) (i : nat) (rcon : N) (ws : list (list N)) : list (list N) :=
  (* ws is kept reversed: head = word i-1 *)
  match fuel with
  | O => ws
  | S f =>
      let prev := hd [] ws in
      let back := nth (nk - 1) ws [] in   (* word i-nk *)
      let '(t, rcon') :=
        if Nat.eqb (Nat.modulo i nk) 0 then
          (xorl (map sbox (rot_word prev)) [rcon; 0; 0; 0], xtime rcon)
        else if Nat.ltb 6 nk && Nat.eqb (Nat.modulo i nk) 4 then (map sbox prev, rcon)
        else (prev, rcon) in
      expand_fuel f nk (S i) rcon' (xorl back t :: ws)
  end.
(* round keys as a list of 16-byte lists *)
Definition aes_expand (key : list N) : list (list N) :=
  let nk := Nat.div (length key) 4 in
  let nr := (nk + 6)%nat in
  let w0 := rev (chunks 4 key) in
  let ws := rev (expand_fuel (4 * (nr + 1) - nk) nk nk 1 w0) in
  chunks 16 (concat ws).

Definition aes_round (s rk : list N) : list N := xorl (mix_columns (shift_rows (sub_bytes s))) rk.
Definition aes_final (s rk : list N) : list N := xorl (shift_rows (sub_bytes s)) rk.

Fixpoint aes_rounds (s : list N) (rks : list (list N)) : list N :=
  match rks with
  | [] => s
  | [rk] => aes_final s rk
  | rk :: t => aes_rounds (aes_round s rk) t
  end.

(* encrypt one 16-byte block under expanded round keys *)
Definition aes_encrypt_block (rks : list (list N)) (blk : list N) : list N :=
  match rks with
  | [] => blk
  | rk0 :: t => aes_rounds (xorl blk rk0) t
  end.

Definition aes_encrypt (key blk : list N) : list N := aes_encrypt_block (aes_expand key) blk.
