(* Salsa20 (20 rounds) in Gallina, independent of golang.org/x/crypto/salsa20.
   salsa20_xor key nonce data = salsa20.XORKeyStream(out, data, nonce[8], &key[32]),
   block counter starting at 0.  Executable definitions only. *)
From Coq Require Import NArith List.
From Cloak Require Import Model.Crypto.CBytes.
Import ListNotations.
Local Open Scope N_scope.

Definition nthN (l : list N) (i : nat) : N := nth i l 0.

(* x[a] ^= rotl(x[b] + x[c], k) *)
Definition salsa_qstep (x : list N) (a b c : nat) (k : N) : list N :=
  upd x a (N.lxor (nthN x a) (rotl32 (add32 (nthN x b) (nthN x c)) k)).

Definition salsa_quarter (x : list N) (a b c d : nat) : list N :=
  let x := salsa_qstep x b a d 7 in
  let x := salsa_qstep x c b a 9 in
  let x := salsa_qstep x d c b 13 in
  salsa_qstep x a d c 18.

Definition salsa_doubleround (x : list N) : list N :=
  let x := salsa_quarter x 0 4 8 12 in
  let x := salsa_quarter x 5 9 13 1 in
  let x := salsa_quarter x 10 14 2 6 in
  let x := salsa_quarter x 15 3 7 11 in
  let x := salsa_quarter x 0 1 2 3 in
  let x := salsa_quarter x 5 6 7 4 in
  let x := salsa_quarter x 10 11 8 9 in
  salsa_quarter x 15 12 13 14.

(* the Salsa20 core on 16 words *)
Definition salsa20_core (inp : list N) : list N :=
  map (fun p => add32 (fst p) (snd p)) (combine (iter 10 salsa_doubleround inp) inp).

(* state for key (32 bytes), nonce (8 bytes), 64-bit block counter; always 16 words *)
Definition salsa20_state (key nonce : list N) (ctr : N) : list N :=
  [ 0x61707865; le32_at key 0; le32_at key 4; le32_at key 8;
    le32_at key 12; 0x3320646e; le32_at nonce 0; le32_at nonce 4;
    w32 ctr; w32 (N.shiftr ctr 32); 0x79622d32; le32_at key 16;
    le32_at key 20; le32_at key 24; le32_at key 28; 0x6b206574 ].

(* serialise 16 words, always 64 bytes *)
Definition words16_bytes (w : list N) : list N :=
  le32_bytes (nthN w 0) ++ le32_bytes (nthN w 1) ++ le32_bytes (nthN w 2) ++ le32_bytes (nthN w 3) ++
  le32_bytes (nthN w 4) ++ le32_bytes (nthN w 5) ++ le32_bytes (nthN w 6) ++ le32_bytes (nthN w 7) ++
  le32_bytes (nthN w 8) ++ le32_bytes (nthN w 9) ++ le32_bytes (nthN w 10) ++ le32_bytes (nthN w 11) ++
  le32_bytes (nthN w 12) ++ le32_bytes (nthN w 13) ++ le32_bytes (nthN w 14) ++ le32_bytes (nthN w 15).

Definition salsa20_block (key nonce : list N) (ctr : N) : list N :=
  words16_bytes (salsa20_core (salsa20_state key nonce ctr)).

Definition salsa20_xor (key nonce data : list N) : list N :=
  ctr_xor (salsa20_block key nonce) 64 0 data.
