(* ChaCha20 (RFC 8439, 32-bit counter, 96-bit nonce) in Gallina.  Definitions only. *)
From Coq Require Import NArith List.
From Cloak Require Import Model.Crypto.CBytes Model.Crypto.Salsa20.
Import ListNotations.
Local Open Scope N_scope.

(* a += b; d ^= a; d <<<= k *)
Definition chacha_step (x : list N) (a b d : nat) (k : N) : list N :=
  let va := add32 (nthN x a) (nthN x b) in
  let x := upd x a va in
  upd x d (rotl32 (N.lxor (nthN x d) va) k).

Definition chacha_quarter (x : list N) (a b c d : nat) : list N :=
  let x := chacha_step x a b d 16 in
  let x := chacha_step x c d b 12 in
  let x := chacha_step x a b d 8 in
  chacha_step x c d b 7.

Definition chacha_doubleround (x : list N) : list N :=
  let x := chacha_quarter x 0 4 8 12 in
  let x := chacha_quarter x 1 5 9 13 in
  let x := chacha_quarter x 2 6 10 14 in
  let x := chacha_quarter x 3 7 11 15 in
  let x := chacha_quarter x 0 5 10 15 in
  let x := chacha_quarter x 1 6 11 12 in
  let x := chacha_quarter x 2 7 8 13 in
  chacha_quarter x 3 4 9 14.

Definition chacha20_state (key nonce : list N) (ctr : N) : list N :=
  [ 0x61707865; 0x3320646e; 0x79622d32; 0x6b206574;
    le32_at key 0; le32_at key 4; le32_at key 8; le32_at key 12;
    le32_at key 16; le32_at key 20; le32_at key 24; le32_at key 28;
    w32 ctr; le32_at nonce 0; le32_at nonce 4; le32_at nonce 8 ].

Definition chacha20_core (inp : list N) : list N :=
  map (fun p => add32 (fst p) (snd p)) (combine (iter 10 chacha_doubleround inp) inp).

Definition chacha20_block (key nonce : list N) (ctr : N) : list N :=
  words16_bytes (chacha20_core (chacha20_state key nonce ctr)).

(* chacha20_xor key nonce12 ctr data: RFC 8439 section 2.4 with initial counter ctr *)
Definition chacha20_xor (key nonce : list N) (ctr : N) (data : list N) : list N :=
  ctr_xor (chacha20_block key nonce) 64 ctr data.
