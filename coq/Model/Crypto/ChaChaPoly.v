(* AEAD_CHACHA20_POLY1305 (RFC 8439 section 2.8) = golang.org/x/crypto/chacha20poly1305.
   Structured as key stream + MAC and instantiated through Model/AEAD.v. *)
From Coq Require Import NArith List.
From Cloak Require Import Model.Crypto.CBytes Model.Crypto.ChaCha20 Model.Crypto.Poly1305 Model.AEAD.
Import ListNotations.
Local Open Scope N_scope.

(* key stream for the payload: blocks 1, 2, ... *)
Definition chachapoly_stream (key nonce : list N) (len : nat) : list N :=
  stream_blocks (chacha20_block key nonce) 1 (blocks_for 64 len).

Definition chachapoly_mac (key nonce aad ct : list N) : list N :=
  let otk := firstn 32 (chacha20_block key nonce 0) in
  poly1305 otk (pad16 aad ++ pad16 ct ++
                le_bytes 8 (N.of_nat (length aad)) ++ le_bytes 8 (N.of_nat (length ct))).

Definition chachapoly_seal (key nonce plaintext aad : list N) : list N :=
  aead_seal chachapoly_stream chachapoly_mac key nonce plaintext aad.

Definition chachapoly_open (key nonce ct aad : list N) : option (list N) :=
  aead_open chachapoly_stream chachapoly_mac 16 key nonce ct aad.
