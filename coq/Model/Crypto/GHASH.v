(* GHASH (NIST SP 800-38D): polynomial hash over GF(2^128), blocks as 128-bit N with the
   first byte most significant (so bit 127 of the N is GCM's bit 0).  Definitions only. *)
From Coq Require Import NArith List.
From Cloak Require Import Model.Crypto.CBytes.
Import ListNotations.
Local Open Scope N_scope.

Definition gh_R : N := 0xe1000000000000000000000000000000.

(* multiply by x: shift right in this bit order, reduce *)
Definition gh_mulx (v : N) : N :=
  if N.odd v then N.lxor (N.div2 v) gh_R else N.div2 v.

(* z = x * y by Horner from the least significant N-bit of x (GCM's highest power) *)
Fixpoint gh_mul_fuel (fuel : nat) (x y z : N) : N :=
  match fuel with
  | O => z
  | S f =>
      let z := gh_mulx z in
      gh_mul_fuel f (N.div2 x) y (if N.odd x then N.lxor z y else z)
  end.
Definition gh_mul (x y : N) : N := gh_mul_fuel 128 x y 0.

Definition ghash_blocks (h : N) (blocks : list (list N)) : N :=
  fold_left (fun y blk => gh_mul (N.lxor y (be_num blk)) h) blocks 0.

(* GHASH_H(A, C) as 16 bytes *)
Definition ghash (h : N) (aad ct : list N) : list N :=
  let data := pad16 aad ++ pad16 ct ++
              be_bytes 8 (8 * N.of_nat (length aad)) ++ be_bytes 8 (8 * N.of_nat (length ct)) in
  be_bytes 16 (ghash_blocks h (chunks 16 data)).
