(* Hand-written model of internal/server/dispatcher.go: connReadLine, readFirstPacket and the
   replay-then-copy of goWeb.  Executable definitions only.

   The peer is the list of bytes it sends plus how its stream ends (EOF, or it stalls and the
   15 s read deadline fires).  The connection state is the list of bytes not yet read.  The
   model keeps the buffer contents, the count `bufOffset` the code returns and the unread rest as
   three separate quantities, exactly as the code does (the count is accumulated from the return
   values of io.ReadFull); that they fit together (C09_consumed_exact) is a theorem. *)
From Coq Require Import NArith ZArith List Bool Arith.
From Cloak Require Import Gen.Consts Model.Hello.
Import ListNotations.
Local Open Scope N_scope.

Inductive ending := EOF | Stall.
Inductive transport := TNone | TTLS | TWS.
Inductive rerr :=
| RNone
| RShortBuffer                 (* io.ErrShortBuffer *)
| RUnrecognised                (* ErrUnrecognisedProtocol *)
| RRead (e : ending)           (* "read error after connection is established" / "error reading first packet" *)
| RFuel.                       (* model artefact, proved unreachable *)

(* io.ReadFull(conn, buf[a:a+n]) on a stream that delivers its bytes in ANY segmentation and then
   ends: the first min(n, available) bytes, the unread rest, success iff n bytes were available *)
Definition read_full (n : nat) (conn : list N) : list N * list N * bool :=
  (firstn n conn, skipn n conn, (n <=? length conn)%nat).

(* The same over an explicit segmentation (each element = what one conn.Read returns when the
   caller's buffer is large enough; a Read never returns more than asked).  ReadAtLeast's loop. *)
Fixpoint read_full_seg (n : nat) (chunks : list (list N)) : list N * list (list N) * bool :=
  match n with
  | O => ([], chunks, true)
  | _ =>
    match chunks with
    | [] => ([], [], false)
    | c :: cs =>
      if (length c <=? n)%nat
      then let '(d, rest, ok) := read_full_seg (n - length c) cs in (c ++ d, rest, ok)
      else (firstn n c, skipn n c :: cs, true)
    end
  end.

(* connReadLine(conn, buf[bufOffset:]) with room = len(buf) - bufOffset *)
Inductive lstatus := LOk | LShort | LErr.
Fixpoint read_line (room : nat) (conn : list N) : list N * list N * lstatus :=
  match room with
  | O => ([], conn, LShort)                        (* loop not entered / left: return i, io.ErrShortBuffer *)
  | S room' =>
    match conn with
    | [] => ([], [], LErr)                         (* io.ReadFull(conn, buf[i:i+1]) fails *)
    | b :: conn' =>
      if b =? 10 then ([b], conn', LOk)            (* buf[i] == '\n' : return i+1, nil *)
      else let '(l, c, st) := read_line room' conn' in (b :: l, c, st)
    end
  end.

Record rfp_out := mkR {
  r_buf : list N;        (* buf[:bufOffset] as filled by the reads *)
  r_n : nat;             (* the returned count *)
  r_rest : list N;       (* bytes still unread on the connection *)
  r_tr : transport;
  r_redir : bool;
  r_err : rerr;
  r_closed : bool }.     (* conn.Close() inside readFirstPacket *)

Definition CR : N := 13.
Definition LF : N := 10.

(* case 0x47: for { i, err := connReadLine(conn, buf[bufOffset:]); line := ...; bufOffset += i; ... } *)
Fixpoint ws_loop (fuel : nat) (bsz : nat) (e : ending) (buf : list N) (n : nat) (conn : list N) : rfp_out :=
  match fuel with
  | O => mkR buf n conn TWS false RFuel false
  | S f =>
    let '(line, conn', st) := read_line (bsz - n) conn in
    let buf' := buf ++ line in
    let n' := (n + length line)%nat in
    match st with
    | LShort => mkR buf' n' conn' TWS true RShortBuffer false
    | LErr => mkR buf' n' conn' TWS false (RRead e) true
    | LOk => if bytes_eqb line [CR; LF] then mkR buf' n' conn' TWS true RNone false
             else ws_loop f bsz e buf' n' conn'
    end
  end.

(* readFirstPacket(conn, buf, timeout) with len(buf) = bsz *)
Definition rfp_gen (bsz : nat) (s : list N) (e : ending) : rfp_out :=
  let '(b, conn0, ok0) := read_full 1 s in                        (* io.ReadFull(conn, buf[:1]) *)
  if negb ok0 then mkR [] 0 conn0 TNone false (RRead e) true       (* return 0, nil, false, err *)
  else
  let b0 := nth 0 b 0 in
  if b0 =? 0x16 then
    let '(h, conn1, ok1) := read_full 4 conn0 in                  (* io.ReadFull(conn, buf[1:5]) *)
    let buf1 := b ++ h in
    let n1 := (1 + length h)%nat in
    if negb ok1 then mkR buf1 n1 conn1 TTLS false (RRead e) true
    else
    let dataLength := be_val (firstn 2 (skipn 3 buf1)) in         (* u16(buf[3:5]) *)
    if N.of_nat bsz <? dataLength + 5 then mkR buf1 n1 conn1 TTLS true RShortBuffer false
    else
    let '(body, conn2, ok2) := read_full (N.to_nat dataLength) conn1 in   (* buf[5:dataLength+5] *)
    let buf2 := buf1 ++ body in
    let n2 := (n1 + length body)%nat in
    if negb ok2 then mkR buf2 n2 conn2 TTLS false (RRead e) true
    else mkR buf2 n2 conn2 TTLS true RNone false
  else if b0 =? 0x47 then
    ws_loop (S bsz) bsz e b 1 conn0
  else mkR b 1 conn0 TNone true RUnrecognised false.

Definition fps : nat := Z.to_nat server_firstPacketSize.
Definition rfp (s : list N) (e : ending) : rfp_out := rfp_gen fps s e.

(* goWeb: webConn.Write(data) with data = buf[:i], then common.Copy(webConn, conn) forwards every byte
   still unread on the peer connection: what the redirect target is sent *)
Definition first_data (r : rfp_out) : list N :=                (* data := buf[:i] of the zeroed buffer *)
  firstn (r_n r) (r_buf r ++ repeat 0 (r_n r)).
Definition relay (r : rfp_out) : list N := first_data r ++ r_rest r.
