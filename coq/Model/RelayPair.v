(* Model of the two relay goroutines that server.serveSession (internal/server/dispatcher.go) starts for
   every accepted stream - and that client.RouteTCP starts for every local connection:

       go common.Copy(localConn, newStream)      "down": Stream.Read -> localConn.Write
       go common.Copy(newStream, localConn)      "up":   = newStream.ReadFrom(localConn): localConn.Read -> one frame

   as a labelled transition system with one program counter per goroutine.  Each goroutine, when its
   copy ends, runs Copy's deferred  src.Close(); dst.Close()  - two separate steps.  The two share the
   stream and the local connection, so the closes of one end the other; that interplay is what this
   model is about (common.Copy itself, call by call, is Model/Copy.v).

   Environment (inputs of the model): the chunks Stream.Read will return (`s_in`) and whether the peer's
   closing notice follows them (`s_end`); the chunks the local connection's Read will return (`l_in`) and
   whether an EOF follows them (`l_eof`) - when it does not, the read blocks.
   Executable definitions only: proofs live in Proofs/RelayPair.v. *)
From Coq Require Import NArith List Bool.
Import ListNotations.

Inductive pc := Run | CloseSrc | CloseDst | Done.
Inductive tid := Down | Up.

Record rstate := mkR {
  s_in : list (list N);     (* what Stream.Read still has to return, in order *)
  s_end : bool;             (* the peer's closing notice has been processed: the stream counts as closed, and
                               after s_in the read returns ErrBrokenStream (otherwise it blocks) *)
  s_closed : bool;          (* this side called Stream.Close *)
  s_out : list (list N);    (* payloads sent on the stream by the up goroutine, in order *)
  l_in : list (list N);     (* what localConn.Read still has to return *)
  l_eof : bool;             (* after l_in: EOF (otherwise the read blocks) *)
  l_closed : bool;          (* this side called localConn.Close *)
  l_out : list N;           (* bytes written to the local connection, in order *)
  pc_down : pc;
  pc_up : pc }.

Definition init (chunks : list (list N)) (s_end : bool) (lin : list (list N)) (leof : bool) : rstate :=
  mkR chunks s_end false [] lin leof false [] Run Run.

Definition set_down (r : rstate) (p : pc) : rstate :=
  mkR (s_in r) (s_end r) (s_closed r) (s_out r) (l_in r) (l_eof r) (l_closed r) (l_out r) p (pc_up r).
Definition set_up (r : rstate) (p : pc) : rstate :=
  mkR (s_in r) (s_end r) (s_closed r) (s_out r) (l_in r) (l_eof r) (l_closed r) (l_out r) (pc_down r) p.
Definition close_stream (r : rstate) : rstate :=
  mkR (s_in r) (s_end r) true (s_out r) (l_in r) (l_eof r) (l_closed r) (l_out r) (pc_down r) (pc_up r).
Definition close_local (r : rstate) : rstate :=
  mkR (s_in r) (s_end r) (s_closed r) (s_out r) (l_in r) (l_eof r) true (l_out r) (pc_down r) (pc_up r).

(* `early` = Stream.ReadFrom tests the stream's closed flag BEFORE its read as well (it does not in the
   code; the variant is here to show what that test would cost: RelayPair proofs, _refuted) *)
Definition stream_is_closed (r : rstate) : bool := s_closed r || s_end r.

(* one step of goroutine t; None = t cannot move (blocked in a read, or finished) *)
Definition step (early : bool) (r : rstate) (t : tid) : option rstate :=
  match t with
  | Down =>
    match pc_down r with
    | Run =>
      (* nr, er := stream.Read(buf): buffered bytes are served even after a close *)
      match s_in r with
      | c :: rest =>
        let r1 := mkR rest (s_end r) (s_closed r) (s_out r) (l_in r) (l_eof r) (l_closed r) (l_out r) (pc_down r) (pc_up r) in
        if l_closed r then Some (set_down r1 CloseSrc)                       (* localConn.Write fails *)
        else Some (mkR rest (s_end r) (s_closed r) (s_out r) (l_in r) (l_eof r) (l_closed r) (l_out r ++ c) Run (pc_up r))
      | [] => if stream_is_closed r then Some (set_down r CloseSrc) else None
      end
    | CloseSrc => Some (set_down (close_stream r) CloseDst)                  (* src.Close(): the stream *)
    | CloseDst => Some (set_down (close_local r) Done)                       (* dst.Close(): the local conn *)
    | Done => None
    end
  | Up =>
    match pc_up r with
    | Run =>
      if early && stream_is_closed r then Some (set_up r CloseSrc)
      else if l_closed r then Some (set_up r CloseSrc)                       (* read on a closed connection *)
      else
      match l_in r with
      | c :: rest =>
        let r1 := mkR (s_in r) (s_end r) (s_closed r) (s_out r) rest (l_eof r) (l_closed r) (l_out r) (pc_down r) (pc_up r) in
        if stream_is_closed r then Some (set_up r1 CloseSrc)                 (* if s.isClosed() { return n, ErrBrokenStream } *)
        else Some (mkR (s_in r) (s_end r) (s_closed r) (s_out r ++ [c]) rest (l_eof r) (l_closed r) (l_out r) (pc_down r) Run)
      | [] => if l_eof r then Some (set_up r CloseSrc) else None
      end
    | CloseSrc => Some (set_up (close_local r) CloseDst)                     (* src.Close(): the local conn *)
    | CloseDst => Some (set_up (close_stream r) Done)                        (* dst.Close(): the stream *)
    | Done => None
    end
  end.

(* a schedule = which goroutine is given the processor next; a goroutine that cannot move is skipped *)
Fixpoint run (early : bool) (r : rstate) (sched : list tid) : rstate :=
  match sched with
  | [] => r
  | t :: rest => match step early r t with Some r' => run early r' rest | None => run early r rest end
  end.

Definition finished (r : rstate) : bool :=
  match pc_down r, pc_up r with Done, Done => true | _, _ => false end.
