(* Model of internal/multiplex/streamBuffer.go (+ the byte pipe of streamBufferedPipe.go,
   non-blocking view).  Executable definitions only: proofs live in Proofs/Reorder.v. *)
From Coq Require Import NArith List Bool.
Import ListNotations.
Local Open Scope N_scope.

(* A received frame as seen by the re-sequencer: Seq (uint64), Closing != closingNothing,
   Payload (bytes as N < 256). *)
Record frame := mkF { seq : N; closing : bool; payload : list N }.

(* nextRecvSeq, the sorter heap (kept as a list sorted by seq: container/heap is modelled
   as "pop the frame of least Seq"), the byte pipe and its closed flag. *)
Record rbuf := mkB { next : N; heap : list frame; pipe : list N; pclosed : bool }.

Definition two64 : N := 18446744073709551616.
(* sb.nextRecvSeq += 1 on a uint64 *)
Definition succ64 (x : N) : N := (x + 1) mod two64.

Fixpoint insert (f : frame) (h : list frame) : list frame :=
  match h with
  | [] => [f]
  | g :: t => if seq f <=? seq g then f :: h else g :: insert f t
  end.

(* streamBufferedPipe.Write: a closed pipe refuses (the caller ignores the error) *)
Definition pipe_write (cl : bool) (p : list N) (d : list N) : list N :=
  if cl then p else p ++ d.

(* the "keep popping" loop of streamBuffer.Write *)
Fixpoint drain (cl : bool) (h : list frame) (nx : N) (p : list N)
  : list frame * N * list N * bool :=
  match h with
  | [] => ([], nx, p, false)
  | f :: t =>
      if seq f =? nx then
        if closing f then (t, nx, p, true)
        else drain cl t (succ64 nx) (pipe_write cl p (payload f))
      else (h, nx, p, false)
  end.

Definition is_nil {A} (l : list A) := match l with [] => true | _ => false end.

(* streamBuffer.Write: result = new buffer, toBeClosed, error *)
Definition rb_write (b : rbuf) (f : frame) : rbuf * bool * bool :=
  if is_nil (heap b) && (seq f =? next b) then
    if closing f then (b, true, false)
    else (mkB (succ64 (next b)) [] (pipe_write (pclosed b) (pipe b) (payload f)) (pclosed b),
          false, false)
  else if seq f <? next b then (b, false, true)
  else
    let '(h, nx, p, c) := drain (pclosed b) (insert f (heap b)) (next b) (pipe b) in
    (mkB nx h p (pclosed b), c, false).

(* streamBufferedPipe.Read with a k-byte target, non-blocking view *)
Inductive rd_result := RdData (d : list N) | RdEOF | RdEmpty.
Definition rb_read (b : rbuf) (k : nat) : rbuf * rd_result :=
  match pipe b with
  | [] => (b, if pclosed b then RdEOF else RdEmpty)
  | _ => (mkB (next b) (heap b) (skipn k (pipe b)) (pclosed b), RdData (firstn k (pipe b)))
  end.

Definition rb_close (b : rbuf) : rbuf := mkB (next b) (heap b) (pipe b) true.

Definition rb_init (base : N) : rbuf := mkB base [] [] false.

(* ---- the driver-level view used by the correspondence check --------------------- *)
Inductive ev := Wr (f : frame) | Rd (k : nat) | Cl.

(* one observation per event *)
Inductive obs :=
| OWr (toBeClosed err : bool)
| ORd (r : rd_result)
| OCl.

Definition step (b : rbuf) (e : ev) : rbuf * obs :=
  match e with
  | Wr f => let '(b', c, er) := rb_write b f in (b', OWr c er)
  | Rd k => let '(b', r) := rb_read b k in (b', ORd r)
  | Cl => (rb_close b, OCl)
  end.

Fixpoint steps (b : rbuf) (es : list ev) : rbuf * list obs :=
  match es with
  | [] => (b, [])
  | e :: t => let '(b1, o) := step b e in let '(b2, os) := steps b1 t in (b2, o :: os)
  end.

(* ---- the run the theorems speak about ------------------------------------------- *)
(* Writes and reads in any interleaving; the run stops at the first write that reports
   toBeClosed (Stream.recvFrame then closes the stream: later frames never reach the
   buffer) or an error.  Result: state, bytes read so far, closed?, error? *)
Fixpoint run (es : list ev) (b : rbuf) (out : list N) : rbuf * list N * bool * bool :=
  match es with
  | [] => (b, out, false, false)
  | Wr f :: t =>
      let '(b', c, e) := rb_write b f in
      if e then (b', out, false, true)
      else if c then (b', out, true, false)
      else run t b' out
  | Rd k :: t =>
      match rb_read b k with
      | (b', RdData d) => run t b' (out ++ d)
      | (b', _) => run t b' out
      end
  | Cl :: t => run t (rb_close b) out
  end.

Definition writes (es : list ev) : list frame :=
  flat_map (fun e => match e with Wr f => [f] | _ => [] end) es.
