(* Model of the server's user bookkeeping: internal/server/userpanel.go, activeuser.go, the
   user-resolution part of dispatcher.go, usermanager/localmanager.go (AuthenticateUser,
   AuthoriseNewSession, UploadStatus, WriteUserInfo, DeleteUser) and the LimitedValve counters of
   internal/multiplex/qos.go.  Executable definitions only: proofs live in Proofs/Panel*.v.

   A labelled transition system at critical-section granularity (DESIGN 2.3):
   every Lock()/RLock() is a step of its own, enabled only when the lock is available; the body
   of a critical section together with the Unlock that ends it is one step (nothing inside
   blocks: bolt transactions and mux.Session.Close never call back into the panel); every
   atomic instruction on shared state is a step; check-then-act sequences the code does not
   protect are separate steps with a per-thread program counter.

   Reductions (each justified where it is made):
   * LimitedValve.Nullify (two atomic swaps on independent counters) is one step;
   * the loop of updateUsageQueue under both locks is one step (traffic on a user whose valve
     has not been swapped yet commutes to before the loop, the others to after it);
   * commitUpdate reads *usage.up / *usage.down when it leaves the critical section instead of
     entry by entry: usageUpdateQueueM is held throughout and every writer of the queue holds it
     (generated obligation queue_guarded_by_queueM), so the values are the same;
   * Go's RWMutex writer preference is not modelled (see Proofs/PanelLocks.v: the lock-order
     argument does not depend on it);
   * the map iteration order of commitUpdate is a choice carried by the label. *)
From Coq Require Import ZArith NArith List Bool.
Import ListNotations.
Local Open Scope Z_scope.

(* ---------------------------------------------------------------- numbers *)
(* pairs (up, down) = (rx, tx): "up"/"rx" is client -> server.  usagePair{&upIncured,
   &downIncured} is built from (rx, tx) := valve.Nullify() positionally, and UploadStatus
   subtracts UpUsage from UpCredit: the first component everywhere is upload. *)
Definition ZZ := (Z * Z)%type.
Definition pzero : ZZ := (0, 0).
Definition padd (a b : ZZ) : ZZ := (fst a + fst b, snd a + snd b).
Definition psub (a b : ZZ) : ZZ := (fst a - fst b, snd a - snd b).

Definition two32 : Z := 4294967296.
Definition two63 : Z := 9223372036854775808.
Definition two64 : Z := 18446744073709551616.
(* int64 arithmetic as Go performs it (two's complement wrap) *)
Definition wrap64 (z : Z) : Z := (z + two63) mod two64 - two63.

Definition upd {A} (f : nat -> A) (i : nat) (x : A) : nat -> A :=
  fun j => if Nat.eqb j i then x else f j.
Definition updN {A} (f : N -> A) (i : N) (x : A) : N -> A :=
  fun j => if N.eqb j i then x else f j.

Fixpoint memN (u : N) (l : list N) : bool :=
  match l with [] => false | v :: t => if N.eqb u v then true else memN u t end.

(* ---------------------------------------------------------------- database (localmanager.go) *)
(* one bucket: SessionsCap as written (int32), credits (int64), expiry (unix seconds).
   A field that was never written reads as 0 (u32/u64 of a short slice). *)
Record dbrec := mkDb { d_cap : Z; d_credit : ZZ; d_exp : Z }.
Definition dbmap := N -> option dbrec.

Inductive aerr := AOk | ANotFound | ANoUp | ANoDown | AExpired | ACap.

(* sessionsCap = int(u32(bucket.Get("SessionsCap"))) : the int32 is read back unsigned *)
Definition cap_read (r : dbrec) : Z := d_cap r mod two32.

Definition check_live (nw : Z) (r : dbrec) : aerr :=
  if fst (d_credit r) <=? 0 then ANoUp
  else if snd (d_credit r) <=? 0 then ANoDown
  else if d_exp r <? nw then AExpired
  else AOk.

(* AuthenticateUser *)
Definition authenticate (nw : Z) (d : dbmap) (u : N) : aerr :=
  match d u with None => ANotFound | Some r => check_live nw r end.

(* AuthoriseNewSession with ainfo.NumExistingSessions = n *)
Definition authorise (nw : Z) (d : dbmap) (u : N) (n : Z) : aerr :=
  match d u with
  | None => ANotFound
  | Some r => match check_live nw r with
              | AOk => if cap_read r <=? n then ACap else AOk
              | e => e
              end
  end.

(* UploadStatus: one transaction over the status list; result = database, responses (UIDs to
   TERMINATE, with the multiplicity the code produces), and the two ghost ledgers: usage
   subtracted from an existing bucket / usage reported for a bucket that does not exist. *)
Fixpoint upload (nw : Z) (d : dbmap) (chg nou : N -> ZZ) (st : list (N * ZZ))
  : dbmap * list N * (N -> ZZ) * (N -> ZZ) :=
  match st with
  | [] => (d, [], chg, nou)
  | (u, us) :: rest =>
      match d u with
      | None =>
          let '(d', rs, chg', nou') := upload nw d chg (updN nou u (padd (nou u) us)) rest in
          (d', u :: rs, chg', nou')
      | Some r =>
          let nu := wrap64 (fst (d_credit r) - fst us) in
          let nd := wrap64 (snd (d_credit r) - snd us) in
          let r' := mkDb (d_cap r) (nu, nd) (d_exp r) in
          let resp := (if nu <=? 0 then [u] else []) ++ (if nd <=? 0 then [u] else [])
                      ++ (if d_exp r <? nw then [u] else []) in
          let '(d', rs, chg', nou') :=
            upload nw (updN d u (Some r')) (updN chg u (padd (chg u) us)) nou rest in
          (d', resp ++ rs, chg', nou')
      end
  end.

(* admin API: WriteUserInfo (CreateBucketIfNotExists, then only the fields present), DeleteUser *)
Inductive admin :=
| AWrite (u : N) (cap : option Z) (cup cdown : option Z) (ex : option Z)
| ADelete (u : N).

Definition opt_or {A} (o : option A) (x : A) : A := match o with Some y => y | None => x end.

Definition db_write (d : dbmap) (u : N) (cap cup cdown ex : option Z) : dbmap :=
  let old := match d u with Some r => r | None => mkDb 0 pzero 0 end in
  updN d u (Some (mkDb (opt_or cap (d_cap old))
                       (opt_or cup (fst (d_credit old)), opt_or cdown (snd (d_credit old)))
                       (opt_or ex (d_exp old)))).

Definition db_credit (d : dbmap) (u : N) : ZZ :=
  match d u with Some r => d_credit r | None => pzero end.

(* ---------------------------------------------------------------- locks *)
(* sync.RWMutex: writer, readers (thread ids).  sync.Mutex: option owner. *)
Record rwl := mkRw { rw_w : option nat; rw_r : list nat }.
Definition rw0 : rwl := mkRw None [].
Definition rw_can_w (l : rwl) : bool :=
  match rw_w l, rw_r l with None, [] => true | _, _ => false end.
Definition rw_can_r (l : rwl) : bool := match rw_w l with None => true | Some _ => false end.
Definition rw_lock (t : nat) (l : rwl) : rwl := mkRw (Some t) (rw_r l).
Definition rw_unlock (l : rwl) : rwl := mkRw None (rw_r l).
Definition rw_rlock (t : nat) (l : rwl) : rwl := mkRw (rw_w l) (t :: rw_r l).
Definition rw_runlock (t : nat) (l : rwl) : rwl :=
  mkRw (rw_w l) (filter (fun x => negb (Nat.eqb x t)) (rw_r l)).

(* ---------------------------------------------------------------- data *)
(* ActiveUser: arrUID, bypass, sessions (session id -> index of the mux.Session), the valve
   counters (rx, tx), and the flag of the proposed repair (unused unless cfg.patched). *)
Record arec := mkRec { r_uid : N; r_bypass : bool; r_sess : list (N * nat); r_valve : ZZ;
                       r_term : bool }.
(* a mux.Session as the panel sees it: which record created it, under which id, closed? *)
Record ses := mkSes { s_owner : nat; s_sid : N; s_closed : bool }.
Definition rec0 : arec := mkRec 0%N false [] pzero false.
Definition ses0 : ses := mkSes 0 0%N true.

Fixpoint slook (sd : N) (l : list (N * nat)) : option nat :=
  match l with [] => None | (x, k) :: t => if N.eqb sd x then Some k else slook sd t end.
Definition sdel (sd : N) (l : list (N * nat)) : list (N * nat) :=
  filter (fun e => negb (N.eqb sd (fst e))) l.

(* usageUpdateQueue: uid -> (up, down) *)
Fixpoint qadd (u : N) (v : ZZ) (q : list (N * ZZ)) : list (N * ZZ) :=
  match q with
  | [] => [(u, v)]
  | (x, w) :: t => if N.eqb u x then (x, padd w v) :: t else (x, w) :: qadd u v t
  end.
Fixpoint qsum (u : N) (q : list (N * ZZ)) : ZZ :=
  match q with [] => pzero | (x, w) :: t => if N.eqb u x then padd w (qsum u t) else qsum u t end.

(* TerminateActiveUser consists of three parts; their order is what the repair changes *)
Inductive phase := PhN (* updateUsageQueueForOne *) | PhC (* closeAllSessions *)
                 | PhD (* delete from activeUsers *).

(* program counters.  k : the TERMINATE responses commitUpdate still has to act on (the
   continuation of a TerminateActiveUser called from commitUpdate; [] elsewhere);
   rest : the parts of TerminateActiveUser still to run. *)
Inductive pc :=
| Done
(* dispatchConnection from "resolve the user" on *)
| D0 (u sd : N)                 (* about to Lock activeUsersM (GetUser / GetBypassUser) *)
| D1 (u sd : N)                 (* holds activeUsersM: lookup or authenticate-and-create *)
| D2 (u sd : N) (r : nat)       (* schedule point dispatch.gotUser; about to Lock r.sessionsM *)
| D3 (u sd : N) (r : nat)       (* holds r.sessionsM: GetSession body *)
(* ActiveUser.CloseSession *)
| C0 (r : nat) (sd : N)
| C1 (r : nat) (sd : N)         (* holds r.sessionsM *)
(* TerminateActiveUser r *)
| TN0 (r : nat) (rest : list phase) (k : list N)            (* valve.Nullify *)
| TN1 (r : nat) (v : ZZ) (rest : list phase) (k : list N)   (* about to Lock usageUpdateQueueM *)
| TN2 (r : nat) (v : ZZ) (rest : list phase) (k : list N)   (* holds usageUpdateQueueM *)
| TC0 (r : nat) (rest : list phase) (k : list N)            (* about to Lock r.sessionsM *)
| TC1 (r : nat) (rest : list phase) (k : list N)            (* holds it: close all *)
| TD0 (r : nat) (rest : list phase) (k : list N)            (* about to Lock activeUsersM *)
| TD1 (r : nat) (rest : list phase) (k : list N)            (* holds it: delete *)
(* updateUsageQueue; cm = followed by commitUpdate (one round of regularQueueUpload) *)
| U0 (cm : bool)                (* about to take the first lock *)
| U1 (cm : bool)                (* schedule point updateUsageQueue.firstLock; holds the first *)
| U2 (cm : bool)                (* holds both *)
(* commitUpdate *)
| M0
| M1 (todo skip : list N)                       (* holds Q: loop head *)
| M2 (u : N) (todo skip : list N)               (* holds Q, activeUsersM.R: lookup *)
| M3 (u : N) (r : nat) (todo skip : list N)     (* holds Q: about to RLock r.sessionsM (NumSession) *)
| M4 (u : N) (r : nat) (todo skip : list N)     (* holds Q, r.sessionsM.R *)
| M5 (u : N) (todo skip : list N)               (* holds Q: about to RLock activeUsersM (isActive) *)
| M6 (u : N) (todo skip : list N)               (* holds Q, activeUsersM.R *)
| M8 (st : list (N * ZZ))                       (* Manager.UploadStatus *)
| M9 (k : list N)                               (* next TERMINATE: about to RLock activeUsersM *)
| M10 (u : N) (k : list N).                     (* holds activeUsersM.R: lookup *)

(* one admitted connection: presented (uid, sid), resolved record, joined session, existing? *)
Record admission := mkAdm { a_uid : N; a_sid : N; a_rec : nat; a_ses : nat; a_existing : bool }.

Record state := mkState {
  table : N -> option nat;
  nrec : nat;
  recs : nat -> arec;
  nses : nat;
  sess : nat -> ses;
  queue : list (N * ZZ);
  db : N -> option dbrec;
  now : Z;
  lkQ : option nat;
  lkA : rwl;
  lkS : nat -> rwl;
  nthr : nat;
  thr : nat -> pc;
  g_cnt : N -> ZZ;
  g_chg : N -> ZZ;
  g_nou : N -> ZZ;
  g_adm : N -> ZZ;
  g_log : list admission
}.

Definition set_table (x : N -> option nat) (s : state) : state :=
  {| table := x; nrec := nrec s; recs := recs s; nses := nses s; sess := sess s; queue := queue s; db := db s; now := now s; lkQ := lkQ s; lkA := lkA s; lkS := lkS s; nthr := nthr s; thr := thr s; g_cnt := g_cnt s; g_chg := g_chg s; g_nou := g_nou s; g_adm := g_adm s; g_log := g_log s |}.
Definition set_nrec (x : nat) (s : state) : state :=
  {| table := table s; nrec := x; recs := recs s; nses := nses s; sess := sess s; queue := queue s; db := db s; now := now s; lkQ := lkQ s; lkA := lkA s; lkS := lkS s; nthr := nthr s; thr := thr s; g_cnt := g_cnt s; g_chg := g_chg s; g_nou := g_nou s; g_adm := g_adm s; g_log := g_log s |}.
Definition set_recs (x : nat -> arec) (s : state) : state :=
  {| table := table s; nrec := nrec s; recs := x; nses := nses s; sess := sess s; queue := queue s; db := db s; now := now s; lkQ := lkQ s; lkA := lkA s; lkS := lkS s; nthr := nthr s; thr := thr s; g_cnt := g_cnt s; g_chg := g_chg s; g_nou := g_nou s; g_adm := g_adm s; g_log := g_log s |}.
Definition set_nses (x : nat) (s : state) : state :=
  {| table := table s; nrec := nrec s; recs := recs s; nses := x; sess := sess s; queue := queue s; db := db s; now := now s; lkQ := lkQ s; lkA := lkA s; lkS := lkS s; nthr := nthr s; thr := thr s; g_cnt := g_cnt s; g_chg := g_chg s; g_nou := g_nou s; g_adm := g_adm s; g_log := g_log s |}.
Definition set_sess (x : nat -> ses) (s : state) : state :=
  {| table := table s; nrec := nrec s; recs := recs s; nses := nses s; sess := x; queue := queue s; db := db s; now := now s; lkQ := lkQ s; lkA := lkA s; lkS := lkS s; nthr := nthr s; thr := thr s; g_cnt := g_cnt s; g_chg := g_chg s; g_nou := g_nou s; g_adm := g_adm s; g_log := g_log s |}.
Definition set_queue (x : list (N * ZZ)) (s : state) : state :=
  {| table := table s; nrec := nrec s; recs := recs s; nses := nses s; sess := sess s; queue := x; db := db s; now := now s; lkQ := lkQ s; lkA := lkA s; lkS := lkS s; nthr := nthr s; thr := thr s; g_cnt := g_cnt s; g_chg := g_chg s; g_nou := g_nou s; g_adm := g_adm s; g_log := g_log s |}.
Definition set_db (x : N -> option dbrec) (s : state) : state :=
  {| table := table s; nrec := nrec s; recs := recs s; nses := nses s; sess := sess s; queue := queue s; db := x; now := now s; lkQ := lkQ s; lkA := lkA s; lkS := lkS s; nthr := nthr s; thr := thr s; g_cnt := g_cnt s; g_chg := g_chg s; g_nou := g_nou s; g_adm := g_adm s; g_log := g_log s |}.
Definition set_now (x : Z) (s : state) : state :=
  {| table := table s; nrec := nrec s; recs := recs s; nses := nses s; sess := sess s; queue := queue s; db := db s; now := x; lkQ := lkQ s; lkA := lkA s; lkS := lkS s; nthr := nthr s; thr := thr s; g_cnt := g_cnt s; g_chg := g_chg s; g_nou := g_nou s; g_adm := g_adm s; g_log := g_log s |}.
Definition set_lkQ (x : option nat) (s : state) : state :=
  {| table := table s; nrec := nrec s; recs := recs s; nses := nses s; sess := sess s; queue := queue s; db := db s; now := now s; lkQ := x; lkA := lkA s; lkS := lkS s; nthr := nthr s; thr := thr s; g_cnt := g_cnt s; g_chg := g_chg s; g_nou := g_nou s; g_adm := g_adm s; g_log := g_log s |}.
Definition set_lkA (x : rwl) (s : state) : state :=
  {| table := table s; nrec := nrec s; recs := recs s; nses := nses s; sess := sess s; queue := queue s; db := db s; now := now s; lkQ := lkQ s; lkA := x; lkS := lkS s; nthr := nthr s; thr := thr s; g_cnt := g_cnt s; g_chg := g_chg s; g_nou := g_nou s; g_adm := g_adm s; g_log := g_log s |}.
Definition set_lkS (x : nat -> rwl) (s : state) : state :=
  {| table := table s; nrec := nrec s; recs := recs s; nses := nses s; sess := sess s; queue := queue s; db := db s; now := now s; lkQ := lkQ s; lkA := lkA s; lkS := x; nthr := nthr s; thr := thr s; g_cnt := g_cnt s; g_chg := g_chg s; g_nou := g_nou s; g_adm := g_adm s; g_log := g_log s |}.
Definition set_nthr (x : nat) (s : state) : state :=
  {| table := table s; nrec := nrec s; recs := recs s; nses := nses s; sess := sess s; queue := queue s; db := db s; now := now s; lkQ := lkQ s; lkA := lkA s; lkS := lkS s; nthr := x; thr := thr s; g_cnt := g_cnt s; g_chg := g_chg s; g_nou := g_nou s; g_adm := g_adm s; g_log := g_log s |}.
Definition set_thr (x : nat -> pc) (s : state) : state :=
  {| table := table s; nrec := nrec s; recs := recs s; nses := nses s; sess := sess s; queue := queue s; db := db s; now := now s; lkQ := lkQ s; lkA := lkA s; lkS := lkS s; nthr := nthr s; thr := x; g_cnt := g_cnt s; g_chg := g_chg s; g_nou := g_nou s; g_adm := g_adm s; g_log := g_log s |}.
Definition set_g_cnt (x : N -> ZZ) (s : state) : state :=
  {| table := table s; nrec := nrec s; recs := recs s; nses := nses s; sess := sess s; queue := queue s; db := db s; now := now s; lkQ := lkQ s; lkA := lkA s; lkS := lkS s; nthr := nthr s; thr := thr s; g_cnt := x; g_chg := g_chg s; g_nou := g_nou s; g_adm := g_adm s; g_log := g_log s |}.
Definition set_g_chg (x : N -> ZZ) (s : state) : state :=
  {| table := table s; nrec := nrec s; recs := recs s; nses := nses s; sess := sess s; queue := queue s; db := db s; now := now s; lkQ := lkQ s; lkA := lkA s; lkS := lkS s; nthr := nthr s; thr := thr s; g_cnt := g_cnt s; g_chg := x; g_nou := g_nou s; g_adm := g_adm s; g_log := g_log s |}.
Definition set_g_nou (x : N -> ZZ) (s : state) : state :=
  {| table := table s; nrec := nrec s; recs := recs s; nses := nses s; sess := sess s; queue := queue s; db := db s; now := now s; lkQ := lkQ s; lkA := lkA s; lkS := lkS s; nthr := nthr s; thr := thr s; g_cnt := g_cnt s; g_chg := g_chg s; g_nou := x; g_adm := g_adm s; g_log := g_log s |}.
Definition set_g_adm (x : N -> ZZ) (s : state) : state :=
  {| table := table s; nrec := nrec s; recs := recs s; nses := nses s; sess := sess s; queue := queue s; db := db s; now := now s; lkQ := lkQ s; lkA := lkA s; lkS := lkS s; nthr := nthr s; thr := thr s; g_cnt := g_cnt s; g_chg := g_chg s; g_nou := g_nou s; g_adm := x; g_log := g_log s |}.
Definition set_g_log (x : list admission) (s : state) : state :=
  {| table := table s; nrec := nrec s; recs := recs s; nses := nses s; sess := sess s; queue := queue s; db := db s; now := now s; lkQ := lkQ s; lkA := lkA s; lkS := lkS s; nthr := nthr s; thr := thr s; g_cnt := g_cnt s; g_chg := g_chg s; g_nou := g_nou s; g_adm := g_adm s; g_log := x |}.

(* parameters of the model *)
Record cfg := mkCfg {
  prefix_order : bool;     (* updateUsageQueue takes activeUsersM first (the code before 1937ea8) *)
  patched : bool;          (* the repair proposed for F5 (repo_patches/F5_orphan_session.diff) *)
  is_bypass : N -> bool;   (* State.IsBypass *)
  close_tx : nat -> Z      (* size on the wire of the notice frame Session.Close sends for session
                              k (1..256 random padding bytes + header + AEAD overhead): an input,
                              like every random choice; it passes the switchboard, so it is metered *)
}.

Definition init (d : dbmap) (nw : Z) : state :=
  mkState (fun _ => None) 0 (fun _ => rec0) 0 (fun _ => ses0) [] d nw None rw0 (fun _ => rw0)
          0 (fun _ => Done) (fun _ => pzero) (fun _ => pzero) (fun _ => pzero) (fun _ => pzero) [].

Definition goto (t : nat) (p : pc) (s : state) : state := set_thr (upd (thr s) t p) s.
Definition set_rec (r : nat) (x : arec) (s : state) : state := set_recs (upd (recs s) r x) s.
Definition set_lkS1 (r : nat) (l : rwl) (s : state) : state := set_lkS (upd (lkS s) r l) s.

Definition m9 (k : list N) : pc := match k with [] => Done | _ => M9 k end.

Definition phases (c : cfg) : list phase :=
  if patched c then [PhD; PhC; PhN] else [PhN; PhC; PhD].
Definition seq_pc (phs : list phase) (r : nat) (k : list N) : pc :=
  match phs with
  | [] => m9 k
  | PhN :: rest => TN0 r rest k
  | PhC :: rest => TC0 r rest k
  | PhD :: rest => TD0 r rest k
  end.
Definition term_enter (c : cfg) (r : nat) (k : list N) : pc := seq_pc (phases c) r k.

(* close every session in a session table *)
Fixpoint close_all (l : list (N * nat)) (f : nat -> ses) : nat -> ses :=
  match l with
  | [] => f
  | (_, k) :: t => close_all t (upd f k (mkSes (s_owner (f k)) (s_sid (f k)) true))
  end.

(* what the notice frames of close_all cost on the wire: only sessions not yet closed send one *)
Fixpoint close_all_cost (ctx : nat -> Z) (l : list (N * nat)) (f : nat -> ses) : Z :=
  match l with
  | [] => 0
  | (_, k) :: t => (if s_closed (f k) then 0 else ctx k)
                   + close_all_cost ctx t (upd f k (mkSes (s_owner (f k)) (s_sid (f k)) true))
  end.

(* the loop of updateUsageQueue over panel.activeUsers: the records r with activeUsers[uid r] = r
   (invariant table_wf: every table entry is such a record), skipping bypass users *)
Fixpoint nullify_all (n : nat) (tb : N -> option nat) (rs : nat -> arec) (q : list (N * ZZ))
  : (nat -> arec) * list (N * ZZ) :=
  match n with
  | O => (rs, q)
  | S m =>
      let '(rs', q') := nullify_all m tb rs q in
      let x := rs' m in
      match tb (r_uid x) with
      | Some r' => if Nat.eqb r' m && negb (r_bypass x)
                   then (upd rs' m (mkRec (r_uid x) (r_bypass x) (r_sess x) pzero (r_term x)),
                         qadd (r_uid x) (r_valve x) q')
                   else (rs', q')
      | None => (rs', q')
      end
  end.

Fixpoint remove1 (i : nat) (l : list N) : list N :=
  match l, i with
  | [], _ => []
  | _ :: t, O => t
  | x :: t, S j => x :: remove1 j t
  end.

(* one step of thread t (ch: the choice where the code iterates over a map) *)
Definition tstep (c : cfg) (s : state) (t : nat) (ch : nat) : option state :=
  match thr s t with
  | Done => None
  (* ---- dispatch *)
  | D0 u sd =>
      if rw_can_w (lkA s) then Some (goto t (D1 u sd) (set_lkA (rw_lock t (lkA s)) s)) else None
  | D1 u sd =>
      let s1 := set_lkA (rw_unlock (lkA s)) s in
      match table s u with
      | Some r => Some (goto t (D2 u sd r) s1)
      | None =>
          let mk (b : bool) :=
            let r := nrec s in
            goto t (D2 u sd r)
              (set_table (updN (table s) u (Some r))
                (set_nrec (S r) (set_rec r (mkRec u b [] pzero false) s1))) in
          if is_bypass c u then Some (mk true)
          else match authenticate (now s) (db s) u with
               | AOk => Some (mk false)
               | _ => Some (goto t Done s1)     (* goWeb: "+1 unauthorised UID" *)
               end
      end
  | D2 u sd r =>
      if rw_can_w (lkS s r) then Some (goto t (D3 u sd r) (set_lkS1 r (rw_lock t (lkS s r)) s))
      else None
  | D3 u sd r =>
      let s1 := set_lkS1 r (rw_unlock (lkS s r)) s in
      let x := recs s r in
      if patched c && r_term x then Some (goto t (D0 u sd) s1)   (* repair: look the user up again *)
      else match slook sd (r_sess x) with
      | Some k => Some (goto t Done (set_g_log (mkAdm u sd r k true :: g_log s) s1))
      | None =>
          let ok := if r_bypass x then AOk
                    else authorise (now s) (db s) (r_uid x) (Z.of_nat (length (r_sess x))) in
          match ok with
          | AOk =>
              let k := nses s in
              Some (goto t Done
                (set_g_log (mkAdm u sd r k false :: g_log s)
                  (set_nses (S k) (set_sess (upd (sess s) k (mkSes r sd false))
                    (set_rec r (mkRec (r_uid x) (r_bypass x) ((sd, k) :: r_sess x) (r_valve x) (r_term x))
                       s1)))))
          | _ => Some (goto t (C0 r sd) s1)     (* user.CloseSession(ci.SessionId, "") *)
          end
      end
  (* ---- CloseSession *)
  | C0 r sd =>
      if rw_can_w (lkS s r) then Some (goto t (C1 r sd) (set_lkS1 r (rw_lock t (lkS s r)) s))
      else None
  | C1 r sd =>
      let s1 := set_lkS1 r (rw_unlock (lkS s r)) s in
      let x := recs s r in
      let '(l', s2) :=
        match slook sd (r_sess x) with
        | Some k =>
            let l' := sdel sd (r_sess x) in
            (* sesh.Close(): the notice frame is sent (and metered by the LimitedValve) unless the
               session is closed already *)
            let add := if s_closed (sess s k) || r_bypass x then pzero else (0, close_tx c k) in
            (l', set_g_cnt (updN (g_cnt s) (r_uid x) (padd (g_cnt s (r_uid x)) add))
                   (set_sess (upd (sess s) k (mkSes (s_owner (sess s k)) (s_sid (sess s k)) true))
                     (set_rec r (mkRec (r_uid x) (r_bypass x) l' (padd (r_valve x) add) (r_term x)) s1)))
        | None => (r_sess x, s1)
        end in
      match l' with
      | [] => Some (goto t (term_enter c r []) s2)
      | _ => Some (goto t Done s2)
      end
  (* ---- TerminateActiveUser *)
  | TN0 r rest k =>
      let x := recs s r in
      if r_bypass x then Some (goto t (seq_pc rest r k) s)      (* updateUsageQueueForOne returns *)
      else Some (goto t (TN1 r (r_valve x) rest k)
                   (set_rec r (mkRec (r_uid x) (r_bypass x) (r_sess x) pzero (r_term x)) s))
  | TN1 r v rest k =>
      match lkQ s with
      | None => Some (goto t (TN2 r v rest k) (set_lkQ (Some t) s))
      | Some _ => None
      end
  | TN2 r v rest k =>
      Some (goto t (seq_pc rest r k)
              (set_lkQ None (set_queue (qadd (r_uid (recs s r)) v (queue s)) s)))
  | TC0 r rest k =>
      if rw_can_w (lkS s r) then Some (goto t (TC1 r rest k) (set_lkS1 r (rw_lock t (lkS s r)) s))
      else None
  | TC1 r rest k =>
      let x := recs s r in
      let add := if r_bypass x then pzero
                 else (0, close_all_cost (close_tx c) (r_sess x) (sess s)) in   (* the notice frames *)
      Some (goto t (seq_pc rest r k)
              (set_g_cnt (updN (g_cnt s) (r_uid x) (padd (g_cnt s (r_uid x)) add))
                (set_lkS1 r (rw_unlock (lkS s r))
                  (set_sess (close_all (r_sess x) (sess s))
                    (set_rec r (mkRec (r_uid x) (r_bypass x) [] (padd (r_valve x) add) (patched c || r_term x)) s)))))
  | TD0 r rest k =>
      if rw_can_w (lkA s) then Some (goto t (TD1 r rest k) (set_lkA (rw_lock t (lkA s)) s)) else None
  | TD1 r rest k =>
      let u := r_uid (recs s r) in
      let s1 := set_lkA (rw_unlock (lkA s)) s in
      let del := if patched c
                 then match table s u with Some r' => Nat.eqb r' r | None => false end
                 else true in                      (* delete(panel.activeUsers, user.arrUID) *)
      Some (goto t (seq_pc rest r k) (if del then set_table (updN (table s) u None) s1 else s1))
  (* ---- updateUsageQueue *)
  | U0 cm =>
      if prefix_order c
      then if rw_can_w (lkA s) then Some (goto t (U1 cm) (set_lkA (rw_lock t (lkA s)) s)) else None
      else match lkQ s with None => Some (goto t (U1 cm) (set_lkQ (Some t) s)) | Some _ => None end
  | U1 cm =>
      if prefix_order c
      then match lkQ s with None => Some (goto t (U2 cm) (set_lkQ (Some t) s)) | Some _ => None end
      else if rw_can_w (lkA s) then Some (goto t (U2 cm) (set_lkA (rw_lock t (lkA s)) s)) else None
  | U2 cm =>
      let '(rs', q') := nullify_all (nrec s) (table s) (recs s) (queue s) in
      Some (goto t (if cm then M0 else Done)
              (set_lkQ None (set_lkA (rw_unlock (lkA s)) (set_queue q' (set_recs rs' s)))))
  (* ---- commitUpdate *)
  | M0 =>
      match lkQ s with
      | None => Some (goto t (M1 (map fst (queue s)) []) (set_lkQ (Some t) s))
      | Some _ => None
      end
  | M1 [] skip =>
      let st := filter (fun e => negb (memN (fst e) skip)) (queue s) in
      Some (goto t (match st with [] => Done | _ => M8 st end) (set_lkQ None (set_queue [] s)))
  | M1 (u :: todo) skip =>
      if rw_can_r (lkA s) then Some (goto t (M2 u todo skip) (set_lkA (rw_rlock t (lkA s)) s))
      else None
  | M2 u todo skip =>
      let s1 := set_lkA (rw_runlock t (lkA s)) s in
      match table s u with
      | None => Some (goto t (M5 u todo skip) s1)
      | Some r => if r_bypass (recs s r) then Some (goto t (M1 todo (u :: skip)) s1)   (* continue *)
                  else Some (goto t (M3 u r todo skip) s1)
      end
  | M3 u r todo skip =>
      if rw_can_r (lkS s r) then Some (goto t (M4 u r todo skip) (set_lkS1 r (rw_rlock t (lkS s r)) s))
      else None
  | M4 u r todo skip => Some (goto t (M5 u todo skip) (set_lkS1 r (rw_runlock t (lkS s r)) s))
  | M5 u todo skip =>
      if rw_can_r (lkA s) then Some (goto t (M6 u todo skip) (set_lkA (rw_rlock t (lkA s)) s))
      else None
  | M6 u todo skip => Some (goto t (M1 todo skip) (set_lkA (rw_runlock t (lkA s)) s))
  | M8 st =>
      let '(d', rs, chg', nou') := upload (now s) (db s) (g_chg s) (g_nou s) st in
      Some (goto t (m9 rs) (set_g_nou nou' (set_g_chg chg' (set_db d' s))))
  | M9 [] => Some (goto t Done s)
  | M9 (u0 :: k0) =>
      let i := Nat.modulo ch (S (length k0)) in
      let u := nth i (u0 :: k0) u0 in
      if rw_can_r (lkA s) then Some (goto t (M10 u (remove1 i (u0 :: k0))) (set_lkA (rw_rlock t (lkA s)) s))
      else None
  | M10 u k =>
      let s1 := set_lkA (rw_runlock t (lkA s)) s in
      match table s u with
      | Some r => Some (goto t (term_enter c r k) s1)
      | None => Some (goto t (m9 k) s1)
      end
  end.

(* operations a thread can be started with *)
Inductive op :=
| OpDispatch (u sd : N)          (* a connection presenting (uid, session id) *)
| OpClose (r : nat) (sd : N)     (* record r's CloseSession(sd): serveSession's exit *)
| OpUpdate                       (* updateUsageQueue *)
| OpCommit                       (* commitUpdate *)
| OpRound.                       (* one round of regularQueueUpload: both, in sequence *)

Inductive label :=
| Spawn (o : op)
| Run (t : nat) (ch : nat)
| Traffic (k : nat) (v : ZZ)     (* session k's switchboard: AddRx (fst v), AddTx (snd v) *)
| Break (k : nat)                (* session k closes on its own (connection loss, time-out) *)
| Admin (a : admin)
| Tick (d : Z).

Definition start_pc (s : state) (o : op) : option pc :=
  match o with
  | OpDispatch u sd => Some (D0 u sd)
  | OpClose r sd => if Nat.ltb r (nrec s) then Some (C0 r sd) else None
  | OpUpdate => Some (U0 false)
  | OpCommit => Some M0
  | OpRound => Some (U0 true)
  end.

Definition step (c : cfg) (s : state) (l : label) : option state :=
  match l with
  | Spawn o =>
      match start_pc s o with
      | Some p => Some (set_nthr (S (nthr s)) (goto (nthr s) p s))
      | None => None
      end
  | Run t ch => if Nat.ltb t (nthr s) then tstep c s t ch else None
  | Traffic k v =>
      if Nat.ltb k (nses s) && negb (s_closed (sess s k)) && (0 <=? fst v) && (0 <=? snd v) then
        let r := s_owner (sess s k) in
        let x := recs s r in
        if r_bypass x then Some s                     (* UnlimitedValve: AddRx/AddTx do nothing *)
        else Some (set_g_cnt (updN (g_cnt s) (r_uid x) (padd (g_cnt s (r_uid x)) v))
                    (set_rec r (mkRec (r_uid x) (r_bypass x) (r_sess x) (padd (r_valve x) v) (r_term x)) s))
      else None
  | Break k =>
      if Nat.ltb k (nses s)
      then Some (set_sess (upd (sess s) k (mkSes (s_owner (sess s k)) (s_sid (sess s k)) true)) s)
      else None
  | Admin (AWrite u cap cup cdown ex) =>
      let d' := db_write (db s) u cap cup cdown ex in
      Some (set_g_adm (updN (g_adm s) u (padd (g_adm s u) (psub (db_credit d' u) (db_credit (db s) u))))
              (set_db d' s))
  | Admin (ADelete u) =>
      Some (set_g_adm (updN (g_adm s) u (psub (g_adm s u) (db_credit (db s) u)))
              (set_db (updN (db s) u None) s))
  | Tick d => if 0 <=? d then Some (set_now (now s + d) s) else None
  end.

Fixpoint run (c : cfg) (s : state) (ls : list label) : option state :=
  match ls with
  | [] => Some s
  | l :: ls' => match step c s l with Some s' => run c s' ls' | None => None end
  end.

(* ---------------------------------------------------------------- for the drivers *)
Definition is_done (p : pc) : bool := match p with Done => true | _ => false end.
(* the two schedule points of /repo (vhook) *)
Definition at_hook (p : pc) : bool :=
  match p with D2 _ _ _ => true | U1 _ => true | _ => false end.

(* run thread t until it is finished, blocked, or (when stop is set) at a schedule point *)
Fixpoint run_thread (c : cfg) (fuel : nat) (stop : bool) (s : state) (t : nat) : state :=
  match fuel with
  | O => s
  | S f =>
      if is_done (thr s t) then s
      else if stop && at_hook (thr s t) then s
      else match step c s (Run t 0) with
           | Some s' => run_thread c f stop s' t
           | None => s
           end
  end.

Definition enabled (c : cfg) (s : state) (t : nat) : bool :=
  match step c s (Run t 0) with Some _ => true | None => false end.

Definition num_session (s : state) (r : nat) : nat := length (r_sess (recs s r)).
Definition session_live (s : state) (k : nat) : bool := Nat.ltb k (nses s) && negb (s_closed (sess s k)).
