(* Model of the size derivations of MakeSession (internal/multiplex/session.go) and of every
   sender that uses them: Stream.Write and Stream.ReadFrom (stream.go), the closing notices of
   Session.closeStream(active) and Session.Close (session.go).  Executable definitions only
   (proofs: Proofs/SessionLimit.v).

   The point of this file: the per-frame payload maximum (maxStreamUnitWrite) and the size of
   the pooled obfuscation buffers (streamSendBufferSize) are FUNCTIONS OF THE CONFIGURED
   MsgOnWireSizeLimit, and every message a session sends is built by obfuscate inside one of
   those buffers.  Conventions as in Model/Codec.v: Go ints are Z, every Go slice expression
   is a checked slice whose failure is the explicit outcome [EndPanic], randomness is an
   input, uint64 sequence numbers wrap. *)
From Coq Require Import NArith ZArith List Bool.
From Cloak Require Import Gen.Consts Model.Crypto.CBytes Model.Codec.
Import ListNotations.
Local Open Scope Z_scope.

(* ---- MakeSession ------------------------------------------------------------------------ *)
Record session_sizes := mkSizes {
  ss_limit : Z;      (* sesh.MsgOnWireSizeLimit (after the default has been filled in) *)
  ss_unit : Z;       (* sesh.maxStreamUnitWrite *)
  ss_sendbuf : Z;    (* sesh.streamSendBufferSize: len of every buffer of streamObfsBufPool *)
  ss_recvbuf : Z }.  (* sesh.connReceiveBufferSize: len of the buffer deplex reads into *)

(*  if config.MsgOnWireSizeLimit <= 0 { sesh.MsgOnWireSizeLimit = defaultMaxOnWireSize }
    sesh.maxStreamUnitWrite = sesh.MsgOnWireSizeLimit - frameHeaderLength - maxExtraLen
    sesh.streamSendBufferSize = sesh.MsgOnWireSizeLimit
    sesh.connReceiveBufferSize = 20480
   Nothing here depends on config.Unordered; the mode only matters in Stream.Write. *)
Definition make_session (configured : Z) : session_sizes :=
  let limit := if configured <=? 0 then mux_defaultMaxOnWireSize else configured in
  let unit := max_stream_unit_write limit in
  let sendbuf := limit in
  mkSizes limit unit sendbuf mux_connReceiveBufferSize.

(* the limit the property speaks about: the configured one, the default when none is configured *)
Definition limit_in_force (configured : Z) : Z :=
  if configured <=? 0 then mux_defaultMaxOnWireSize else configured.

(* ---- one obfuscate call of the session --------------------------------------------------- *)
(* the k-th obfuscate call of an operation draws r = (what RandInt returned - ignored when the
   frame is not padded -, the bytes rand.Read wrote behind the payload) *)
Definition draws := nat -> N * list N.

(* sesh.obfuscate(&frame, buf, off) with buf taken from streamObfsBufPool *)
Definition sess_obfuscate (ss : session_sizes) (c : option aead) (key : list N) (f : frame)
  (r : N * list N) : option (list N) :=
  encode_in_buf c key f (pad_len (f_seq f) (fst r)) (snd r) (ss_sendbuf ss).

(* s.writingFrame.Seq++ on a uint64 (obfuscateAndSend, after a successful obfuscate) *)
Definition next_seq (s : N) : N := ((s + 1) mod 2 ^ 64)%N.

Inductive send_end :=
| EndOk             (* returned without error *)
| EndShortBuffer    (* io.ErrShortBuffer: unordered Write that would have to be split *)
| EndObfsError      (* obfuscate returned an error (empty payload / obfs buffer too small) *)
| EndReaderEOF      (* ReadFrom: the reader returned an error *)
| EndPanic          (* a slice expression out of range *)
| EndFuel.          (* model artefact, proved unreachable *)

(* what an operation did: the messages handed to switchboard.send, in order; the byte count it
   returned; the stream's sequence counter afterwards; how it ended *)
Record send_result := mkRes {
  r_wire : list (list N); r_n : Z; r_seq : N; r_end : send_end }.

Definition closing_nothing : N := Z.to_N mux_closingNothing.
Definition closing_stream : N := Z.to_N mux_closingStream.
Definition closing_session : N := Z.to_N mux_closingSession.

(* ---- Stream.Write ------------------------------------------------------------------------ *)
(* [rest] = in[n:].  One iteration of  for n < len(in) { ... }  per unit of fuel:
     if len(in)-n <= maxStreamUnitWrite { framePayload = in[n:] }
     else { if Unordered { return io.ErrShortBuffer }; framePayload = in[n : maxStreamUnitWrite+n] }
     obfuscateAndSend(buf, 0)   (Seq++ only after obfuscate succeeded: a frame that cannot be
                                 encoded does not consume a sequence number)
   in[n : unit+n] is out of range exactly when unit < 0 (unit+n < len(in) in this branch). *)
Fixpoint write_loop (fuel : nat) (ss : session_sizes) (unordered : bool) (c : option aead)
  (key : list N) (sid seq : N) (rest : list N) (k : nat) (rand : draws) : send_result :=
  match rest with
  | [] => mkRes [] 0 seq EndOk
  | _ :: _ =>
      match fuel with
      | O => mkRes [] 0 seq EndFuel
      | S fuel' =>
          let unit := ss_unit ss in
          if zlen rest <=? unit then
            match sess_obfuscate ss c key (mkFrame sid seq closing_nothing rest) (rand k) with
            | None => mkRes [] 0 seq EndObfsError
            | Some msg => mkRes [msg] (zlen rest) (next_seq seq) EndOk
            end
          else if unordered then mkRes [] 0 seq EndShortBuffer
          else
            match zslice 0 unit rest with
            | None => mkRes [] 0 seq EndPanic
            | Some chunk =>
                match sess_obfuscate ss c key (mkFrame sid seq closing_nothing chunk) (rand k) with
                | None => mkRes [] 0 seq EndObfsError
                | Some msg =>
                    let r := write_loop fuel' ss unordered c key sid (next_seq seq)
                               (skipn (Z.to_nat unit) rest) (S k) rand in
                    mkRes (msg :: r_wire r) (zlen chunk + r_n r) (r_seq r) (r_end r)
                end
            end
      end
  end.

Definition stream_write (ss : session_sizes) (unordered : bool) (c : option aead) (key : list N)
  (sid seq : N) (input : list N) (rand : draws) : send_result :=
  write_loop (S (length input)) ss unordered c key sid seq input 0 rand.

(* ---- Stream.ReadFrom --------------------------------------------------------------------- *)
(* The reader is a byte source plus a script: the i-th Read hands over at most sizes[i] bytes
   (and never more than len(p), the io.Reader contract); it returns io.EOF when the source or
   the script is exhausted.  One loop iteration:
     read, er := r.Read(buf[frameHeaderLength : frameHeaderLength+maxStreamUnitWrite])
     if er != nil { return n, er }
     Payload = buf[frameHeaderLength : frameHeaderLength+read]; obfuscateAndSend(buf, 14)
   The first slice expression is out of range when unit < 0 or 14+unit > cap(buf). *)
Definition zmin3 (a b c : Z) : Z := Z.min a (Z.min b c).

Fixpoint read_from_loop (ss : session_sizes) (c : option aead) (key : list N) (sid seq : N)
  (data : list N) (sizes : list Z) (k : nat) (rand : draws) : send_result :=
  if (ss_unit ss <? 0) || (mux_frameHeaderLength + ss_unit ss >? ss_sendbuf ss)
  then mkRes [] 0 seq EndPanic
  else
    match sizes, data with
    | [], _ | _, [] => mkRes [] 0 seq EndReaderEOF
    | sz :: sizes', _ :: _ =>
        let n := Z.max 0 (zmin3 sz (ss_unit ss) (zlen data)) in
        let chunk := firstn (Z.to_nat n) data in
        match sess_obfuscate ss c key (mkFrame sid seq closing_nothing chunk) (rand k) with
        | None => mkRes [] 0 seq EndObfsError
        | Some msg =>
            let r := read_from_loop ss c key sid (next_seq seq) (skipn (Z.to_nat n) data) sizes'
                       (S k) rand in
            mkRes (msg :: r_wire r) (zlen chunk + r_n r) (r_seq r) (r_end r)
        end
    end.

Definition stream_read_from ss c key sid seq data sizes rand : send_result :=
  read_from_loop ss c key sid seq data sizes 0 rand.

(* the length of the buffer every Read of ReadFrom is offered (None: the slice expression panics) *)
Definition read_from_offer (ss : session_sizes) : option Z :=
  if (ss_unit ss <? 0) || (mux_frameHeaderLength + ss_unit ss >? ss_sendbuf ss) then None
  else Some (ss_unit ss).

(* ---- closing notices: closeStream(active) and Session.Close ------------------------------- *)
(*   buf := pool.Get(); CryptoRandRead(buf[:1]); padLen := int(buf[0]) + 1
     payload := buf[frameHeaderLength : padLen+frameHeaderLength]; CryptoRandRead(payload)
     obfuscate(frame{sid, seq, closing, payload}, buf, frameHeaderLength)
   b = the byte drawn; filler = the random payload (its first padLen bytes are used).
   buf[:1] needs cap >= 1, the payload slice needs cap >= padLen + 14. *)
Definition closing_notice (ss : session_sizes) (c : option aead) (key : list N)
  (sid seq closing : N) (b : N) (filler : list N) (r : N * list N) : send_result :=
  let padLen := Z.of_N (byte_of b) + 1 in
  if (ss_sendbuf ss <? 1) || (padLen + mux_frameHeaderLength >? ss_sendbuf ss)
  then mkRes [] 0 seq EndPanic
  else
    match sess_obfuscate ss c key (mkFrame sid seq closing (firstn (Z.to_nat padLen) filler)) r with
    | None => mkRes [] 0 seq EndObfsError
    | Some msg => mkRes [msg] 0 (next_seq seq) EndOk
    end.

(* Stream.Close: the notice travels in the stream's own numbering with Closing = closingStream *)
Definition stream_close_notice ss c key sid seq b filler r : send_result :=
  closing_notice ss c key sid seq closing_stream b filler r.
(* Session.Close: Frame{StreamID: 0xffffffff, Seq: 0, Closing: closingSession} *)
Definition session_close_notice ss c key b filler r : send_result :=
  closing_notice ss c key 0xffffffff%N 0%N closing_session b filler r.

(* ---- the same operations reduced to lengths (what the correspondence driver runs) ---------- *)
(* obfuscate as a function of lengths only: Some usefulLen, or None where obfuscate errs *)
Definition obfuscate_len (ss : session_sizes) (tagLen : Z) (seq : N) (payloadLen : Z)
  (r : N * Z) : option Z :=
  let padLen := Z.of_N (pad_len seq (fst r)) in
  let usefulLen := mux_frameHeaderLength + payloadLen + padLen + tagLen in
  if payloadLen =? 0 then None
  else if ss_sendbuf ss <? usefulLen then None
  else if negb (snd r =? padLen + tagLen) then None
  else Some usefulLen.

(* (payload length, message length) per message; rand gives (draw, number of random bytes) *)
Record plan := mkPlan { p_msgs : list (Z * Z); p_n : Z; p_seq : N; p_end : send_end }.

Fixpoint write_plan (fuel : nat) (ss : session_sizes) (unordered : bool) (tagLen : Z) (seq : N)
  (rest : Z) (k : nat) (rand : nat -> N * Z) : plan :=
  if rest <=? 0 then mkPlan [] 0 seq EndOk
  else
    match fuel with
    | O => mkPlan [] 0 seq EndFuel
    | S fuel' =>
        let unit := ss_unit ss in
        if rest <=? unit then
          match obfuscate_len ss tagLen seq rest (rand k) with
          | None => mkPlan [] 0 seq EndObfsError
          | Some l => mkPlan [(rest, l)] rest (next_seq seq) EndOk
          end
        else if unordered then mkPlan [] 0 seq EndShortBuffer
        else if unit <? 0 then mkPlan [] 0 seq EndPanic
        else
          match obfuscate_len ss tagLen seq unit (rand k) with
          | None => mkPlan [] 0 seq EndObfsError
          | Some l =>
              let r := write_plan fuel' ss unordered tagLen (next_seq seq) (rest - unit) (S k) rand in
              mkPlan ((unit, l) :: p_msgs r) (unit + p_n r) (p_seq r) (p_end r)
          end
    end.

Definition stream_write_plan ss unordered tagLen seq (len : Z) rand : plan :=
  write_plan (S (Z.to_nat len)) ss unordered tagLen seq len 0 rand.

Fixpoint read_from_plan (ss : session_sizes) (tagLen : Z) (seq : N) (avail : Z) (sizes : list Z)
  (k : nat) (rand : nat -> N * Z) : plan :=
  if (ss_unit ss <? 0) || (mux_frameHeaderLength + ss_unit ss >? ss_sendbuf ss)
  then mkPlan [] 0 seq EndPanic
  else
    match sizes with
    | [] => mkPlan [] 0 seq EndReaderEOF
    | sz :: sizes' =>
        if avail <=? 0 then mkPlan [] 0 seq EndReaderEOF
        else
          let n := Z.max 0 (zmin3 sz (ss_unit ss) avail) in
          match obfuscate_len ss tagLen seq n (rand k) with
          | None => mkPlan [] 0 seq EndObfsError
          | Some l =>
              let r := read_from_plan ss tagLen (next_seq seq) (avail - n) sizes' (S k) rand in
              mkPlan ((n, l) :: p_msgs r) (n + p_n r) (p_seq r) (p_end r)
          end
    end.

Definition closing_notice_plan (ss : session_sizes) (tagLen : Z) (seq : N) (b : N) (r : N * Z) : plan :=
  let padLen := Z.of_N (byte_of b) + 1 in
  if (ss_sendbuf ss <? 1) || (padLen + mux_frameHeaderLength >? ss_sendbuf ss)
  then mkPlan [] 0 seq EndPanic
  else
    match obfuscate_len ss tagLen seq padLen r with
    | None => mkPlan [] 0 seq EndObfsError
    | Some l => mkPlan [(padLen, l)] 0 (next_seq seq) EndOk
    end.
