(* Generic keystream-based encrypt-then-MAC AEAD:
     seal k n p a = enc k n p ++ mac k n a (enc k n p),   enc = xor with a key stream
     open recomputes the tag over the ciphertext, compares, then decrypts.
   Instantiated by Crypto/ChaChaPoly.v and Crypto/GCM.v; the round-trip theorem is proved
   once in Proofs/AEAD.v.  Executable definitions only. *)
From Coq Require Import NArith List Bool.
From Cloak Require Import Model.Crypto.CBytes.
Import ListNotations.

Section AEAD.
  (* stream key nonce len : at least len bytes of key stream *)
  Variable stream : list N -> list N -> nat -> list N.
  (* mac key nonce aad ciphertext : the tag *)
  Variable mac : list N -> list N -> list N -> list N -> list N.
  Variable tag_len : nat.

  Definition aead_enc (k n p : list N) : list N := xorl p (stream k n (length p)).

  Definition aead_seal (k n p a : list N) : list N :=
    let c := aead_enc k n p in c ++ mac k n a c.

  Definition aead_open (k n c a : list N) : option (list N) :=
    if Nat.ltb (length c) tag_len then None
    else
      let ct := firstn (length c - tag_len) c in
      let t := skipn (length c - tag_len) c in
      if bytes_eqb t (mac k n a ct) then Some (aead_enc k n ct) else None.
End AEAD.
