(* Model of the server's replay memory (internal/server/state.go: registerRandom,
   UsedRandomCleaner; internal/server/auth.go: AuthFirstPacket, the window of
   decryptClientInfo).  Executable definitions only; proofs are in Proofs/Replay.v.

   Time is Z nanoseconds since the Unix epoch (the server clock WorldState.Now()); stored
   sighting times and client timestamps are whole Unix seconds, as in the code. *)
From Coq Require Import ZArith NArith List Bool.
From Cloak Require Import Gen.Consts.
Import ListNotations.
Local Open Scope Z_scope.

Definition ns_per_s : Z := 1000000000.
Definition tolerance : Z := server_timestampTolerance_ns.      (* 180 s *)
Definition clean_period : Z := server_replayCacheAgeLimit_ns.  (* 12 h  *)

(* ---------------------------------------------------------------- byte strings as keys *)
Fixpoint bytes_eqb (a b : list N) : bool :=
  match a, b with
  | [], [] => true
  | x :: a', y :: b' => N.eqb x y && bytes_eqb a' b'
  | _, _ => false
  end.

(* apply f to byte 31 (the last byte of a 32-byte value) *)
Definition upd31 (f : N -> N) (r : list N) : list N :=
  firstn 31 r ++ match skipn 31 r with b :: t => f b :: t | [] => [] end.

(* registerRandom (fixed code):  r[31] &= 0x7f  *)
Definition mask255 (r : list N) : list N := upd31 (fun b => N.land b 127) r.
(* the pre-fix code used the 32 raw bytes *)
Definition rawkey (r : list N) : list N := r.
(* the attacker's one-bit alteration: bit 255 of the little-endian public value *)
Definition flip255 (r : list N) : list N := upd31 (fun b => N.lxor b 128) r.

(* ---------------------------------------------------------------- the cache (Go map)  *)
Definition cache := list (list N * Z).    (* cache key -> Unix second of the LAST sighting *)

Fixpoint lookup (k : list N) (c : cache) : option Z :=
  match c with
  | [] => None
  | (k', v) :: r => if bytes_eqb k k' then Some v else lookup k r
  end.

Fixpoint store (k : list N) (v : Z) (c : cache) : cache :=
  match c with
  | [] => [(k, v)]
  | (k', v') :: r => if bytes_eqb k k' then (k, v) :: r else (k', v') :: store k v r
  end.

(* registerRandom: one critical section under usedRandomM:
     _, used := UsedRandom[r]; UsedRandom[r] = Now().Unix(); return used
   the time is overwritten on every presentation, hit or miss. *)
Definition register (keyfn : list N -> list N) (c : cache) (r : list N) (now : Z) : cache * bool :=
  let k := keyfn r in
  (store k (now / ns_per_s) c, match lookup k c with Some _ => true | None => false end).

(* ---------------------------------------------------------------- eviction rules      *)
(* rule t now = true  <->  the entry with stored second t is deleted by a clean-up at now *)
Definition evict_rule := Z -> Z -> bool.
(* fixed code: time.Unix(t,0).Before(now.Add(-2*timestampTolerance)) *)
Definition rule_fixed : evict_rule := fun t now => t * ns_per_s <? now - 2 * tolerance.
(* not enough: one tolerance *)
Definition rule_one : evict_rule := fun t now => t * ns_per_s <? now - tolerance.
(* the pre-fix code: time.Unix(t,0).Before(now.Add(timestampTolerance)) - always true *)
Definition rule_prefix : evict_rule := fun t now => t * ns_per_s <? now + tolerance.

Definition clean (rule : evict_rule) (c : cache) (now : Z) : cache :=
  filter (fun e => negb (rule (snd e) now)) c.

(* ---------------------------------------------------------------- packets             *)
(* A first packet as this property sees it.  p_parses: processFirstPacket succeeded (a
   ClientHello / upgrade request with the expected fields); p_random: the 32 bytes that
   carry the ephemeral public value; p_auth: Some ts when the sealed 64-byte block opens
   under the secret derived from p_random (ts = the embedded Unix-second timestamp), None
   when it does not.  Cryptography is not this property's subject: p_auth is an input. *)
Record packet := mkP { p_parses : bool; p_random : list N; p_auth : option Z }.

(* decryptClientInfo's window, in nanoseconds: clientTime = time.Unix(ts,0),
   clientTime.After(serverTime.Add(-tol)) && clientTime.Before(serverTime.Add(tol)) *)
Definition in_window (ts now : Z) : bool :=
  (now - tolerance <? ts * ns_per_s) && (ts * ns_per_s <? now + tolerance).

Inductive outcome := OAccept | OReplay | OOther.   (* nil | ErrReplay | any other error *)

(* AuthFirstPacket.  t1 is the clock read inside registerRandom, t2 the clock read handed
   to decryptClientInfo (t1 <= t2; equal under the harness's virtual clock). *)
Definition present (keyfn : list N -> list N) (c : cache) (p : packet) (t1 t2 : Z) : cache * outcome :=
  if negb (p_parses p) then (c, OOther) else
  let (c', used) := register keyfn c (p_random p) t1 in
  if used then (c', OReplay) else
  match p_auth p with
  | Some ts => if in_window ts t2 then (c', OAccept) else (c', OOther)
  | None => (c', OOther)
  end.

(* ---------------------------------------------------------------- histories           *)
Inductive event := Present (p : packet) (t1 t2 : Z) | Clean (t : Z).

Definition ev_time (e : event) : Z := match e with Present _ t1 _ => t1 | Clean t => t end.

Definition step (rule : evict_rule) (keyfn : list N -> list N) (c : cache) (e : event) : cache * option outcome :=
  match e with
  | Present p t1 t2 => let (c', o) := present keyfn c p t1 t2 in (c', Some o)
  | Clean t => (clean rule c t, None)
  end.

(* outcome of every event (None for a clean-up), and the final cache *)
Fixpoint run (rule : evict_rule) (keyfn : list N -> list N) (c : cache) (h : list event) : cache * list (option outcome) :=
  match h with
  | [] => (c, [])
  | e :: h' => let (c', o) := step rule keyfn c e in
               let (c'', os) := run rule keyfn c' h' in (c'', o :: os)
  end.

Definition outcomes rule keyfn h := snd (run rule keyfn [] h).

(* the server clock does not run backwards: registration / clean-up times are non-decreasing
   from lb on, and the second clock read of a presentation is not before the first *)
Fixpoint ordered (lb : Z) (h : list event) : bool :=
  match h with
  | [] => true
  | e :: h' => (lb <=? ev_time e)
               && match e with Present _ t1 t2 => t1 <=? t2 | Clean _ => true end
               && ordered (ev_time e) h'
  end.

(* ---------------------------------------------------------------- the running server  *)
(* What the harness drives: a State created at [start] whose UsedRandomCleaner goroutine
   sleeps clean_period between clean-ups, the test sleeping and presenting in between. *)
Inductive op := OpSleep (d : Z) | OpPresent (p : packet) | OpConcurrent (p : packet) (n : nat).

(* clean-ups due in (now, upto], the next one being at [next]; fuel bounds their number *)
Fixpoint cleans_upto (fuel : nat) (next upto : Z) : list event * Z :=
  match fuel with
  | O => ([], next)
  | S f => if next <=? upto
           then let (l, nx) := cleans_upto f (next + clean_period) upto in (Clean next :: l, nx)
           else ([], next)
  end.

(* the events each op produces; state = (now, time of the next clean-up).  A presentation
   reads the clock twice at the same virtual instant. *)
Fixpoint chunks (now next : Z) (ops : list op) : list (list event) :=
  match ops with
  | [] => []
  | OpSleep d :: r =>
      let upto := now + d in
      let (cl, nx) := cleans_upto (S (Z.to_nat (d / clean_period))) next upto in
      cl :: chunks upto nx r
  | OpPresent p :: r => [Present p now now] :: chunks now next r
  | OpConcurrent p n :: r => repeat (Present p now now) n :: chunks now next r
  end.

(* the history of a server started at [start] and driven by [ops] *)
Definition server_history (start : Z) (ops : list op) : list event :=
  concat (chunks start (start + clean_period) ops).

(* per op: the outcomes of its events and the number of cache entries afterwards
   (len(sta.UsedRandom), what makes the cleaner's effect observable) *)
Fixpoint run_chunks (rule : evict_rule) (keyfn : list N -> list N) (c : cache) (chs : list (list event))
  : list (list (option outcome) * nat) :=
  match chs with
  | [] => []
  | ch :: r => let (c', os) := run rule keyfn c ch in (os, length c') :: run_chunks rule keyfn c' r
  end.

(* observation per op, each with the cache size after it: a sleep (clean-ups ran inside it),
   the outcome of a presentation, the counts (accepted, replays, other) of n concurrent ones *)
Inductive obs := ObsSleep (size : nat) | ObsPresent (o : outcome) (size : nat) | ObsConc (acc rep oth : nat) (size : nat).

Fixpoint count_out (os : list (option outcome)) : nat * nat * nat :=
  match os with
  | [] => (O, O, O)
  | o :: r => let '(a, b, c) := count_out r in
              match o with
              | Some OAccept => (S a, b, c) | Some OReplay => (a, S b, c) | Some OOther => (a, b, S c)
              | None => (a, b, c)
              end
  end.

Definition obs_of (o : op) (r : list (option outcome) * nat) : obs :=
  let (os, sz) := r in
  match o with
  | OpSleep _ => ObsSleep sz
  | OpPresent _ => match os with Some x :: _ => ObsPresent x sz | _ => ObsPresent OOther sz end
  | OpConcurrent _ _ => let '(a, b, c) := count_out os in ObsConc a b c sz
  end.

Fixpoint zip_obs (ops : list op) (rs : list (list (option outcome) * nat)) : list obs :=
  match ops, rs with
  | o :: r, x :: rs' => obs_of o x :: zip_obs r rs'
  | _, _ => []
  end.

Definition serve (rule : evict_rule) (keyfn : list N -> list N) (start : Z) (ops : list op) : list obs :=
  zip_obs ops (run_chunks rule keyfn [] (chunks start (start + clean_period) ops)).

Definition serve_fixed (start : Z) (ops : list op) : list obs := serve rule_fixed mask255 start ops.

(* ---------------------------------------------------------------- N simultaneous presentations *)
(* Each thread runs AuthFirstPacket on the same packet.  Atomic steps: registerRandom (one
   critical section under usedRandomM), then decryptClientInfo (touches no shared state).
   [split_register] models registerRandom WITHOUT the lock: lookup and store become two
   separate steps (used only to show what the lock is for). *)
Inductive tstate := TStart | TLooked (used : bool) | TRegistered (used : bool) | TDone (o : outcome).

Definition finish_auth (p : packet) (used : bool) (t : Z) : outcome :=
  if used then OReplay else
  match p_auth p with
  | Some ts => if in_window ts t then OAccept else OOther
  | None => OOther
  end.

Definition tstep (atomic : bool) (keyfn : list N -> list N) (p : packet) (c : cache) (st : tstate) (t : Z) : cache * tstate :=
  match st with
  | TStart =>
      if atomic then let (c', used) := register keyfn c (p_random p) t in (c', TRegistered used)
      else (c, TLooked (match lookup (keyfn (p_random p)) c with Some _ => true | None => false end))
  | TLooked used => (store (keyfn (p_random p)) (t / ns_per_s) c, TRegistered used)
  | TRegistered used => (c, TDone (finish_auth p used t))
  | TDone o => (c, TDone o)
  end.

Fixpoint set_nth {A} (i : nat) (x : A) (l : list A) : list A :=
  match l, i with
  | [], _ => []
  | _ :: r, O => x :: r
  | y :: r, S j => y :: set_nth j x r
  end.

(* a schedule is a list of (thread index, clock value); a step of a finished or
   non-existent thread is a no-op *)
Fixpoint run_sched (atomic : bool) (keyfn : list N -> list N) (p : packet) (c : cache) (ts : list tstate)
         (sched : list (nat * Z)) : cache * list tstate :=
  match sched with
  | [] => (c, ts)
  | (i, t) :: r =>
      match nth_error ts i with
      | Some st => let (c', st') := tstep atomic keyfn p c st t in
                   run_sched atomic keyfn p c' (set_nth i st' ts) r
      | None => run_sched atomic keyfn p c ts r
      end
  end.

(* a thread "missed" the cache when registerRandom told it the random was new *)
Definition missed (st : tstate) : bool :=
  match st with
  | TStart => false
  | TLooked u => negb u
  | TRegistered u => negb u
  | TDone OReplay => false
  | TDone _ => true
  end.

Definition misses (ts : list tstate) : nat := length (filter missed ts).
