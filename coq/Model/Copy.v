(* Model of internal/common/copy.go: common.Copy(dst, src net.Conn) (written int64, err error).

   Copy is the pump of every relay in Cloak: client.RouteTCP (local connection <-> stream),
   server.serveSession (stream <-> proxy server), dispatchConnection's goWeb (peer <-> redirect
   target).  What the two connections DO is the environment's business and is an input of the model:
   a script of read outcomes (the bytes a Read call returned together with its error) and a script of
   write outcomes (the count and error a Write call returned).  The model follows the function line
   by line, including the deferred closes and the two delegations (io.WriterTo / io.ReaderFrom).
   Executable definitions only: proofs live in Proofs/Copy.v. *)
From Coq Require Import NArith ZArith List Bool.
Import ListNotations.
Local Open Scope Z_scope.

(* the error of a Read call *)
Inductive rerr := RNil | REOF | ROther.
(* one Read call of src: nr = length data (nr > 0 iff data <> []), er *)
Definition rd := (list N * rerr)%type.

(* one Write call of dst: WFull ew = "nw = len(p)", WN nw ew = that count, whatever it is
   (a short count, zero, a negative count, a count above len(p)); ew = an error was returned *)
Inductive wout := WFull (ew : bool) | WN (nw : Z) (ew : bool).
Definition w_count (w : wout) (len : Z) : Z := match w with WFull _ => len | WN n _ => n end.
Definition w_err (w : wout) : bool := match w with WFull e => e | WN _ e => e end.

Inductive cerr := CNil | CWrite | CShortWrite | CRead | CDelegated.

(* calls made on the two connections, in order *)
Inductive cev :=
| ERead                     (* src.Read(buf) *)
| EWrite (p : list N)       (* dst.Write(p) *)
| EWriteTo                  (* src.(io.WriterTo).WriteTo(dst) *)
| EReadFrom                 (* dst.(io.ReaderFrom).ReadFrom(src) *)
| ECloseSrc | ECloseDst.

Record cout := mkCo { co_written : Z; co_err : cerr; co_evs : list cev;
                      co_reads_left : list rd; co_writes_left : list wout; co_fuel : bool }.

(* the generic loop; `acc` = events so far (reversed is avoided: scripts are short) *)
Fixpoint copy_loop (rs : list rd) (ws : list wout) (written : Z) (acc : list cev) : cout :=
  match rs with
  | [] => mkCo written CNil acc [] ws true                         (* script exhausted: not a real outcome *)
  | (data, er) :: rs' =>
    let acc1 := acc ++ [ERead] in
    let after_read (written : Z) (acc : list cev) (ws : list wout) :=
      match er with
      | RNil => copy_loop rs' ws written acc
      | REOF => mkCo written CNil acc rs' ws false                 (* er == io.EOF: err stays nil *)
      | ROther => mkCo written CRead acc rs' ws false              (* err = er *)
      end in
    match data with
    | [] => after_read written acc1 ws                              (* nr == 0 *)
    | _ :: _ =>
      match ws with
      | [] => mkCo written CNil acc1 rs' [] true
      | w :: ws' =>
        let acc2 := acc1 ++ [EWrite data] in
        let len := Z.of_nat (length data) in
        let nw := w_count w len in
        let written' := if 0 <? nw then written + nw else written in
        if w_err w then mkCo written' CWrite acc2 rs' ws' false              (* err = ew; break *)
        else if negb (len =? nw) then mkCo written' CShortWrite acc2 rs' ws' false  (* nr != nw *)
        else after_read written' acc2 ws'
      end
    end
  end.

(* which of the three branches Copy takes *)
Inductive ckind := KWriterTo | KReaderFrom | KPlain.

(* Copy: the deferred func() { src.Close(); dst.Close() }() runs on every path.  A delegated copy
   returns whatever the delegate returned (dn, derr: inputs). *)
Definition copy (k : ckind) (rs : list rd) (ws : list wout) (dn : Z) : cout :=
  let fin (o : cout) := mkCo (co_written o) (co_err o) (co_evs o ++ [ECloseSrc; ECloseDst])
                             (co_reads_left o) (co_writes_left o) (co_fuel o) in
  match k with
  | KWriterTo => fin (mkCo dn CDelegated [EWriteTo] rs ws false)
  | KReaderFrom => fin (mkCo dn CDelegated [EReadFrom] rs ws false)
  | KPlain => fin (copy_loop rs ws 0 [])
  end.

(* ---- specification-side projections (used in theorem statements only) ---- *)
Fixpoint writes_of (es : list cev) : list (list N) :=
  match es with [] => [] | EWrite p :: t => p :: writes_of t | _ :: t => writes_of t end.
Fixpoint nreads (es : list cev) : nat :=
  match es with [] => O | ERead :: t => S (nreads t) | _ :: t => nreads t end.
Definition honest (w : wout) : bool := match w with WFull false => true | _ => false end.

(* ---- the relay pipeline of an ordered stream: what one direction forwards -------------------------
   client.RouteTCP, uplink:  i := ReadAtLeast(local, data[:10240], 1); stream.Write(data[:i]);
                             then Copy(stream, local) = stream.ReadFrom(local): one read of at most
                             `unit` bytes = one Stream write of exactly those bytes.
   Every receiving end (RouteTCP downlink, serveSession both ways) is Copy's generic loop on
   Stream.Read.  The script `rs` is what the local connection's Read calls return. *)
Inductive sact := SWrite (p : list N) | SCloseLocal | SCloseStream.

(* io.ReadAtLeast(local, data, 1): reads until at least one byte has arrived; an error with
   no byte at all fails it (an error accompanied by bytes is dropped: n >= min) *)
Fixpoint read_at_least1 (rs : list rd) : option (list N * list rd) :=
  match rs with
  | [] => None
  | (d, er) :: rs' =>
    match d with
    | _ :: _ => Some (d, rs')
    | [] => match er with RNil => read_at_least1 rs' | _ => None end
    end
  end.

(* Stream.ReadFrom(local) on a healthy stream: every successful read, empty or not, is handed to one
   frame (an empty one is refused by the codec: the loop returns); an error ends the loop *)
Fixpoint read_from (rs : list rd) : list sact :=
  match rs with
  | [] => []
  | (d, er) :: rs' =>
    match er with
    | RNil => match d with [] => [] | _ => SWrite d :: read_from rs' end
    | _ => []                         (* read, er := r.Read(..); if er != nil { return n, er } *)
    end
  end.

Definition route_tcp_up (rs : list rd) : list sact :=
  match read_at_least1 rs with
  | None => [SCloseLocal]
  | Some (first, rest) => SWrite first :: read_from rest ++ [SCloseLocal; SCloseStream]
  end.

Fixpoint swrites (l : list sact) : list (list N) :=
  match l with [] => [] | SWrite p :: t => p :: swrites t | _ :: t => swrites t end.
