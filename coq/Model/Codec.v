(* Model of internal/multiplex/obfs.go: obfuscate, deobfuscate, MakeObfuscator, and of the
   maxStreamUnitWrite derivation in session.go (MakeSession) and the first step of
   Session.recvDataFromRemote.  Executable definitions only (proofs: Proofs/Codec.v).

   Conventions (DESIGN section 4): bytes are N in lists; Go's int index arithmetic is Z and
   every Go slice expression is a checked [zslice] whose failure is the explicit outcome
   [Panic]; randomness (the padding length drawn by RandInt and the bytes written by
   rand.Read) is an input.  zslice checks against len, Go checks against cap >= len: a
   model without Panic therefore implies a Go run without slice panic. *)
From Coq Require Import NArith ZArith List Bool.
From Cloak Require Import Gen.Consts Model.Crypto.CBytes Model.Crypto.Salsa20
  Model.Crypto.ChaChaPoly Model.Crypto.GCM.
Import ListNotations.
Local Open Scope Z_scope.

(* type Frame struct { StreamID uint32; Seq uint64; Closing uint8; Payload []byte } *)
Record frame := mkFrame { f_sid : N; f_seq : N; f_closing : N; f_payload : list N }.

Inductive method := Plain | AES256GCM | ChaCha20Poly1305 | AES128GCM.

Definition method_code (m : method) : Z :=
  match m with
  | Plain => mux_EncryptionMethodPlain
  | AES256GCM => mux_EncryptionMethodAES256GCM
  | ChaCha20Poly1305 => mux_EncryptionMethodChaha20Poly1305
  | AES128GCM => mux_EncryptionMethodAES128GCM
  end.

Definition method_of_code (c : Z) : option method :=
  if c =? mux_EncryptionMethodPlain then Some Plain
  else if c =? mux_EncryptionMethodAES256GCM then Some AES256GCM
  else if c =? mux_EncryptionMethodChaha20Poly1305 then Some ChaCha20Poly1305
  else if c =? mux_EncryptionMethodAES128GCM then Some AES128GCM
  else None.

(* cipher.AEAD with the key already fixed: Seal(nil, nonce, plaintext, nil), Open(..),
   Overhead(), NonceSize() *)
Record aead := mkAEAD {
  a_seal : list N -> list N -> list N;
  a_open : list N -> list N -> option (list N);
  a_overhead : nat;
  a_nonce_size : nat }.

(* Obfuscator.payloadCipher as set up by MakeObfuscator (nil for plain) *)
Definition payload_cipher (m : method) (key : list N) : option aead :=
  match m with
  | Plain => None
  | AES256GCM =>
      Some (mkAEAD (fun n p => gcm_seal key n p []) (fun n c => gcm_open key n c [])
                   (Z.to_nat mux_overhead_aes256gcm) (Z.to_nat mux_noncesize_aes256gcm))
  | AES128GCM =>
      let k := firstn 16 key in
      Some (mkAEAD (fun n p => gcm_seal k n p []) (fun n c => gcm_open k n c [])
                   (Z.to_nat mux_overhead_aes128gcm) (Z.to_nat mux_noncesize_aes128gcm))
  | ChaCha20Poly1305 =>
      Some (mkAEAD (fun n p => chachapoly_seal key n p []) (fun n c => chachapoly_open key n c [])
                   (Z.to_nat mux_overhead_chacha20poly1305) (Z.to_nat mux_noncesize_chacha20poly1305))
  end.

(* MakeObfuscator: None = error (unknown method, or AEAD nonce longer than the header) *)
Definition make_obfuscator (code : Z) (key : list N) : option (option aead) :=
  match method_of_code code with
  | None => None
  | Some m =>
      match payload_cipher m key with
      | None => Some None
      | Some a => if Z.of_nat (a_nonce_size a) >? mux_frameHeaderLength then None else Some (Some a)
      end
  end.

(* ---- checked slices --------------------------------------------------------------- *)
Definition zlen (l : list N) : Z := Z.of_nat (length l).

(* l[lo:hi] *)
Definition zslice (lo hi : Z) (l : list N) : option (list N) :=
  if (0 <=? lo) && (lo <=? hi) && (hi <=? zlen l)
  then Some (firstn (Z.to_nat (hi - lo)) (skipn (Z.to_nat lo) l))
  else None.

(* l[i] *)
Definition zindex (i : Z) (l : list N) : option N :=
  if (0 <=? i) && (i <? zlen l) then nth_error l (Z.to_nat i) else None.

(* ---- obfuscate --------------------------------------------------------------------- *)
Definition tag_len_of (c : option aead) : Z :=
  match c with Some a => Z.of_nat (a_overhead a) | None => mux_salsa20NonceSize end.

(* the 14 header bytes before encryption; header[13] = byte(padLen + tagLen) wraps *)
Definition header_bytes (sid seq closing : N) (extra : Z) : list N :=
  be_bytes 4 sid ++ be_bytes 8 seq ++ [byte_of closing; Z.to_N (extra mod 256)].

(* obfuscate with a buffer that is large enough.  padLen = the value of the local variable
   padLen (0 or the RandInt draw); rnd = the padLen + tagLen bytes rand.Read wrote at
   buf[frameHeaderLength+payloadLen : usefulLen].  None = error return. *)
Definition encode_with (c : option aead) (key : list N) (f : frame) (padLen : N) (rnd : list N)
  : option (list N) :=
  let payload := f_payload f in
  if Nat.eqb (length payload) 0 then None
  else
    let tagLen := tag_len_of c in
    let pad := Z.of_N padLen in
    if negb (zlen rnd =? pad + tagLen) then None   (* precondition on the randomness input *)
    else
      let header := header_bytes (f_sid f) (f_seq f) (f_closing f) (pad + tagLen) in
      let body :=
        match c with
        | Some a => a_seal a (firstn (a_nonce_size a) header) (payload ++ firstn (N.to_nat padLen) rnd)
        | None => payload ++ rnd
        end in
      let buf := header ++ body in
      (* nonce := buf[usefulLen-salsa20NonceSize : usefulLen] *)
      let nonce := skipn (length buf - Z.to_nat mux_salsa20NonceSize) buf in
      Some (salsa20_xor key nonce header ++ body).

(* the same with the len(buf) < usefulLen check *)
Definition encode_in_buf (c : option aead) (key : list N) (f : frame) (padLen : N) (rnd : list N)
  (buflen : Z) : option (list N) :=
  let usefulLen := mux_frameHeaderLength + zlen (f_payload f) + Z.of_N padLen + tag_len_of c in
  if Nat.eqb (length (f_payload f)) 0 then None
  else if buflen <? usefulLen then None
  else encode_with c key f padLen rnd.

Definition encode (m : method) (key : list N) (f : frame) (padLen : N) (rnd : list N)
  : option (list N) :=
  encode_with (payload_cipher m key) key f padLen rnd.

(* if f.Seq < padFirstNFrames { padLen = common.RandInt(maxExtraLen - tagLen + 1) } *)
Definition rand_bound (c : option aead) : Z := mux_maxExtraLen - tag_len_of c + 1.
Definition pad_len (seq : N) (draw : N) : N :=
  if Z.of_N seq <? mux_padFirstNFrames then draw else 0%N.
(* draw = result of RandInt(rand_bound) , i.e. 0 <= draw < rand_bound *)
Definition obfuscate (m : method) (key : list N) (f : frame) (draw : N) (rnd : list N)
  : option (list N) :=
  encode m key f (pad_len (f_seq f) draw) rnd.

(* ---- deobfuscate ------------------------------------------------------------------- *)
Inductive errkind := ErrShort | ErrExtraLen | ErrAuth.
Inductive result := Ok (f : frame) | Err (e : errkind) | Panic.

Definition decode_with (c : option aead) (key msg : list N) : result :=
  if zlen msg <? mux_frameHeaderLength + mux_salsa20NonceSize then Err ErrShort
  else
    match zslice 0 mux_frameHeaderLength msg,
          zslice mux_frameHeaderLength (zlen msg) msg,
          zslice (zlen msg - mux_salsa20NonceSize) (zlen msg) msg with
    | Some header, Some pld, Some nonce =>
        let header := salsa20_xor key nonce header in
        match zslice 0 4 header, zslice 4 12 header, zindex 12 header, zindex 13 header with
        | Some sidb, Some seqb, Some closing, Some extra =>
            let u := zlen pld - Z.of_N extra in
            if (u <? 0) || (u >? zlen pld) then Err ErrExtraLen
            else
              match c with
              | None =>
                  if (extra =? 0)%N then Ok (mkFrame (be_num sidb) (be_num seqb) closing pld)
                  else match zslice 0 u pld with
                       | Some p => Ok (mkFrame (be_num sidb) (be_num seqb) closing p)
                       | None => Panic
                       end
              | Some a =>
                  match zslice 0 (Z.of_nat (a_nonce_size a)) header with
                  | None => Panic
                  | Some n =>
                      match a_open a n pld with
                      | None => Err ErrAuth
                      | Some pt =>
                          (* Open(pld[:0], ..) decrypts in place: the plaintext overwrites
                             the start of pld, the tag bytes stay where they were *)
                          let buf := pt ++ skipn (length pt) pld in
                          match zslice 0 u buf with
                          | Some p => Ok (mkFrame (be_num sidb) (be_num seqb) closing p)
                          | None => Panic
                          end
                      end
                  end
              end
        | _, _, _, _ => Panic
        end
    | _, _, _ => Panic
    end.

Definition decode (m : method) (key msg : list N) : result :=
  decode_with (payload_cipher m key) key msg.

(* ---- MakeSession: sesh.maxStreamUnitWrite ------------------------------------------ *)
Definition max_stream_unit_write (limit : Z) : Z :=
  limit - mux_frameHeaderLength - mux_maxExtraLen.

(* ---- Session.recvDataFromRemote, first step ---------------------------------------- *)
(* The session state is abstract; [handle] stands for everything after a successful
   deobfuscate (closing-session handling, stream lookup/creation, recvFrame). *)
Inductive recv_out (O : Type) := RecvErr (e : errkind) | RecvCrash | RecvHandled (o : O).
Arguments RecvErr {O}. Arguments RecvCrash {O}. Arguments RecvHandled {O}.
Definition recv_data_from_remote {S O : Type} (handle : S -> frame -> S * O)
  (c : option aead) (key : list N) (st : S) (data : list N) : S * recv_out O :=
  match decode_with c key data with
  | Ok f => let '(st', o) := handle st f in (st', RecvHandled o)
  | Err e => (st, RecvErr e)
  | Panic => (st, RecvCrash)
  end.

(* deplex: the receive loop feeds every message read from a connection to recvDataFromRemote
   and only logs its error; a crash ends the process (no recover() in deplex) *)
Fixpoint recv_all {S O : Type} (handle : S -> frame -> S * O) (c : option aead) (key : list N)
  (st : S) (datas : list (list N)) : option S :=
  match datas with
  | [] => Some st
  | d :: rest =>
      match recv_data_from_remote handle c key st d with
      | (_, RecvCrash) => None
      | (st', _) => recv_all handle c key st' rest
      end
  end.

Definition accepted (c : option aead) (key data : list N) : bool :=
  match decode_with c key data with Ok _ => true | _ => false end.

(* ---- driver support: recover the random inputs of an accepted message --------------- *)
(* Some (f, padLen, rnd) such that an honest encoder with these inputs produced msg
   (the AEAD overwrites the tag part of rnd, zeros stand in for it) *)
Definition recover_with (c : option aead) (key msg : list N) : option (frame * N * list N) :=
  match decode_with c key msg with
  | Ok f =>
      let pld := skipn (Z.to_nat mux_frameHeaderLength) msg in
      let plen := length (f_payload f) in
      match c with
      | None =>
          let rnd := skipn plen pld in
          if zlen rnd <? mux_salsa20NonceSize then None
          else Some (f, Z.to_N (zlen rnd - mux_salsa20NonceSize), rnd)
      | Some a =>
          let n := firstn (a_nonce_size a) (header_bytes (f_sid f) (f_seq f) 0 0) in
          match a_open a n pld with
          | Some pt =>
              if Nat.ltb (length pt) plen then None
              else let pad := skipn plen pt in
                   Some (f, N.of_nat (length pad), pad ++ zeros (a_overhead a))
          | None => None
          end
      end
  | _ => None
  end.
Definition recover (m : method) (key msg : list N) := recover_with (payload_cipher m key) key msg.

(* a toy AEAD with a 12-byte nonce whose 16-byte tag is a copy of the nonce: no secrecy, but
   perfectly binding - used only to show that the hypotheses of C11_partial are satisfiable *)
Definition toy_aead : aead :=
  mkAEAD (fun n p => p ++ firstn 12 (n ++ zeros 12) ++ zeros 4)
         (fun n c =>
            if Nat.ltb (length c) 16 then None
            else let p := firstn (length c - 16) c in
                 if bytes_eqb (skipn (length c - 16) c) (firstn 12 (n ++ zeros 12) ++ zeros 4)
                 then Some p else None)
         16 12.

(* flip bit b of byte i *)
Definition flip_bit (msg : list N) (i : nat) (b : N) : list N :=
  firstn i msg ++ match skipn i msg with [] => [] | x :: t => N.lxor x (N.shiftl 1 b) :: t end.
