(* Model of internal/common/tls.go (AddRecordLayer, TLSConn.Write, TLSConn.Read over io.ReadFull
   on a segmented byte stream) and of the Read loop of internal/common/websocket.go over an
   abstract message reader.  Executable definitions only: proofs live in Proofs/Record.v. *)
From Coq Require Import NArith ZArith List Bool.
From Cloak Require Import Gen.Consts.
Import ListNotations.
Local Open Scope N_scope.

Definition nlen (l : list N) : N := N.of_nat (length l).

(* ---- writer ------------------------------------------------------------------------ *)
Definition write_limit : N := Z.to_N common_tlsconn_write_limit.       (* 1<<14 + 256 *)
Definition hdr_len : N := Z.to_N common_recordLayerLength.             (* 5 *)
Definition app_data : N := Z.to_N common_ApplicationData.              (* 23 *)
Definition tls13 : N := Z.to_N common_VersionTLS13.                    (* 0x0303 *)

(* the five header bytes: typ, byte(ver>>8), byte(ver), byte(msgLen>>8), byte(msgLen) *)
Definition header (typ ver len : N) : list N :=
  [typ mod 256; (ver / 256) mod 256; ver mod 256; (len / 256) mod 256; len mod 256].

(* AddRecordLayer(input, typ, ver): no length check, the length bytes wrap *)
Definition add_record_layer (typ ver : N) (m : list N) : list N := header typ ver (nlen m) ++ m.

(* TLSConn.Write(in): None = "message is too long"; Some w = the ONE slice handed to the single
   underlying Conn.Write *)
Definition rec_write (m : list N) : option (list N) :=
  if write_limit <? nlen m then None else Some (header app_data tls13 (nlen m) ++ m).

(* ---- the inbound byte stream as the reader sees it ----------------------------------- *)
(* A list of chunks: each underlying Conn.Read returns (a prefix of) the head chunk; after the
   last chunk the connection reports io.EOF. *)
Definition chunks := list (list N).

Inductive rf_result :=
| RfOk (d : list N)                 (* n = k, err = nil *)
| RfEOF                             (* n = 0, io.EOF *)
| RfUnexpectedEOF (d : list N).     (* 0 < n < k, io.ErrUnexpectedEOF *)

(* io.ReadFull(conn, buf[:k]) = io.ReadAtLeast(conn, buf, k): for n < k && err == nil { Read(buf[n:]) }.
   k = 0 performs no Read at all.  [acc] = what has been read so far. *)
Fixpoint read_full_acc (k : N) (cs : chunks) (acc : list N) : rf_result * chunks :=
  match cs with
  | [] => if k =? 0 then (RfOk acc, [])
          else (match acc with [] => RfEOF | _ => RfUnexpectedEOF acc end, [])
  | c :: rest =>
      if k =? 0 then (RfOk acc, cs)
      else if nlen c <=? k then read_full_acc (k - nlen c) rest (acc ++ c)
      else (RfOk (acc ++ firstn (N.to_nat k) c), skipn (N.to_nat k) c :: rest)
  end.
Definition read_full (k : N) (cs : chunks) : rf_result * chunks := read_full_acc k cs [].

(* TLSConn.Read(buffer) with len(buffer) = buflen *)
Inductive tr_result :=
| TrData (d : list N)               (* (dataLength, nil), buffer[:dataLength] = d *)
| TrShortBuffer                     (* (0, io.ErrShortBuffer) *)
| TrEOF                             (* (0, io.EOF) *)
| TrUnexpectedEOF (n : N).          (* (n, io.ErrUnexpectedEOF): n = 0 inside the header, the partial count inside the body *)

Definition tls_read (buflen : N) (cs : chunks) : tr_result * chunks :=
  if buflen <? hdr_len then (TrShortBuffer, cs)
  else match read_full hdr_len cs with
       | (RfEOF, cs1) => (TrEOF, cs1)
       | (RfUnexpectedEOF _, cs1) => (TrUnexpectedEOF 0, cs1)     (* "_, err = ...; return": n stays 0 *)
       | (RfOk h, cs1) =>
           let dl := 256 * nth 3 h 0 + nth 4 h 0 in                (* binary.BigEndian.Uint16(buffer[3:5]) *)
           if buflen <? dl then (TrShortBuffer, cs1)               (* header consumed, body left in the stream *)
           else match read_full dl cs1 with
                | (RfOk d, cs2) => (TrData d, cs2)
                | (RfEOF, cs2) => (TrEOF, cs2)
                | (RfUnexpectedEOF d, cs2) => (TrUnexpectedEOF (nlen d), cs2)
                end
       end.

(* the caller's loop (switchboard.deplex): read until the first error *)
Fixpoint tls_reads (fuel : nat) (buflen : N) (cs : chunks) : list tr_result :=
  match fuel with
  | O => []
  | S f => match tls_read buflen cs with
           | (TrData d, cs') => TrData d :: tls_reads f buflen cs'
           | (r, _) => [r]
           end
  end.

(* cut a byte string at the given (increasing, absolute) positions *)
Fixpoint cut_at (pos : N) (cuts : list N) (s : list N) : chunks :=
  match cuts with
  | [] => [s]
  | c :: r => if c <=? pos then cut_at pos r s
              else firstn (N.to_nat (c - pos)) s :: cut_at c r (skipn (N.to_nat (c - pos)) s)
  end.

(* ---- several writers, one connection ------------------------------------------------- *)
(* Each TLSConn.Write performs exactly one Conn.Write, which appends its argument atomically.
   A schedule is the order in which the writers' Write calls reach the connection: writer i
   sends the head of its queue. *)
Fixpoint pop_nth {A} (i : nat) (qs : list (list A)) : option (A * list (list A)) :=
  match qs, i with
  | [], _ => None
  | q :: r, O => match q with [] => None | x :: q' => Some (x, q' :: r) end
  | q :: r, S j => match pop_nth j r with Some (x, r') => Some (x, q :: r') | None => None end
  end.

Fixpoint run_sched {A} (qs : list (list A)) (sched : list nat) : option (list A * list (list A)) :=
  match sched with
  | [] => Some ([], qs)
  | i :: t => match pop_nth i qs with
              | None => None
              | Some (x, qs') => match run_sched qs' t with
                                 | Some (l, qf) => Some (x :: l, qf)
                                 | None => None
                                 end
              end
  end.

(* the bytes on the wire after the messages [l] went through TLSConn.Write in that order
   (messages over the limit are refused and leave nothing) *)
Definition wire_of (l : list (list N)) : list N :=
  concat (map (fun m => match rec_write m with Some w => w | None => [] end) l).

(* ---- WebSocketConn.Read ---------------------------------------------------------------- *)
(* The message reader returned by NextReader, abstractly: the list of results its successive Read
   calls would produce given unlimited room: a piece of data, or a failure.  After the last
   piece it reports io.EOF.  A Read into [space] bytes hands out at most [space] bytes of the
   current piece and keeps the rest. *)
Inductive piece := PData (d : list N) | PErr.

Inductive ws_result :=
| WsOk (d : list N)                (* (n, nil) *)
| WsNothingMore (d : list N)       (* (n, "nothing more is read. message may be larger than buffer") *)
| WsErr (d : list N).              (* (n, err) for another error of the message reader *)

(* for { read, err = r.Read(buf[n:]); ... }  -  [space] = len(buf) - n, [acc] = buf[:n].
   A piece longer than the room left takes two iterations: the first fills the buffer, the second
   reads 0 bytes with a nil error. *)
Fixpoint ws_loop (space : N) (ps : list piece) (acc : list N) : ws_result :=
  match ps with
  | [] => WsOk acc                                         (* io.EOF: err = nil, break *)
  | PErr :: _ => WsErr acc
  | PData d :: rest =>
      if nlen d =? 0 then WsNothingMore acc                (* read == 0 *)
      else if nlen d <=? space then ws_loop (space - nlen d) rest (acc ++ d)
      else WsNothingMore (acc ++ firstn (N.to_nat space) d)
  end.

(* t, r, err := ws.NextReader(); a non-binary message is reported as (0, nil) *)
Definition ws_read (buflen : N) (binary : bool) (ps : list piece) : ws_result :=
  if binary then ws_loop buflen ps [] else WsOk [].

Fixpoint ws_message (ps : list piece) : list N :=
  match ps with
  | [] => []
  | PData d :: r => d ++ ws_message r
  | PErr :: r => ws_message r
  end.
