(* Model of internal/client/state.go: ssvToJson (option-string front end) and
   RawConfig.ProcessRawConfig, plus the documented option table of README.md ("### Client")
   transcribed as [spec].  Executable definitions only; proofs in Proofs/Config.v.

   Strings are lists of byte codes (N).  encoding/json is a black box: the model of the
   front end produces the member list (tokens) AND the JSON text the code concatenates. *)
From Coq Require Import ZArith NArith List Bool String Ascii.
From Cloak Require Import Gen.Consts.
Import ListNotations.
Local Open Scope Z_scope.

Definition str := list N.
Fixpoint bytes_of (s : string) : str :=
  match s with EmptyString => [] | String a t => N_of_ascii a :: bytes_of t end.

(* ---- string helpers ------------------------------------------------------------------- *)
Fixpoint str_eqb (a b : str) : bool :=
  match a, b with
  | [], [] => true
  | x :: a', y :: b' => N.eqb x y && str_eqb a' b'
  | _, _ => false
  end.
Definition is_empty {A} (l : list A) : bool := match l with [] => true | _ => false end.
(* strings.ToLower restricted to what can match an ASCII keyword: A-Z -> a-z, other bytes unchanged *)
Definition lower_byte (c : N) : N := if (N.leb 65 c && N.leb c 90)%bool then (c + 32)%N else c.
Definition to_lower (s : str) : str := map lower_byte s.
Definition contains_byte (c : N) (s : str) : bool := existsb (N.eqb c) s.

Definition c_colon : N := 58.   Definition c_percent : N := 37.
Definition c_lbr : N := 91.     Definition c_rbr : N := 93.
Definition c_semi : N := 59.    Definition c_eq : N := 61.
Definition c_bslash : N := 92.  Definition c_quote : N := 34.
Definition c_comma : N := 44.   Definition c_lbrace : N := 123.
Definition c_rbrace : N := 125.

(* net.JoinHostPort: a host containing ':' or '%' is bracketed *)
Definition join_host_port (h p : str) : str :=
  if contains_byte c_colon h || contains_byte c_percent h
  then c_lbr :: h ++ c_rbr :: c_colon :: p
  else h ++ c_colon :: p.

Definition kw_plain : str := Eval compute in bytes_of "plain".
Definition kw_aes_gcm : str := Eval compute in bytes_of "aes-gcm".
Definition kw_aes_256_gcm : str := Eval compute in bytes_of "aes-256-gcm".
Definition kw_aes_128_gcm : str := Eval compute in bytes_of "aes-128-gcm".
Definition kw_chacha : str := Eval compute in bytes_of "chacha20-poly1305".
Definition kw_cdn : str := Eval compute in bytes_of "cdn".
Definition kw_direct : str := Eval compute in bytes_of "direct".
Definition kw_firefox : str := Eval compute in bytes_of "firefox".
Definition kw_safari : str := Eval compute in bytes_of "safari".
Definition kw_chrome : str := Eval compute in bytes_of "chrome".
Definition kw_ws : str := Eval compute in bytes_of "ws://".
Definition kw_slash : str := Eval compute in bytes_of "/".

(* ---- RawConfig and the processed configuration ---------------------------------------- *)
Record raw := mkRaw {
  ServerName : str; ProxyMethod : str; EncryptionMethod : str; UID : str; PublicKey : str;
  NumConn : Z; LocalHost : str; LocalPort : str; RemoteHost : str; RemotePort : str;
  AlternativeNames : list str; UDP : bool; BrowserSig : str; Transport : str;
  CDNOriginHost : str; CDNWsUrlPath : str; StreamTimeout : Z; KeepAlive : Z }.

Record transport := mkT { t_mode : str; t_wsurl : str; t_browser : Z }.
Record remote := mkRemote { r_singleplex : bool; r_numconn : Z; r_keepalive : Z (* ns *);
                            r_addr : str; r_transport : transport }.
Record local := mkLocal { l_addr : str; l_timeout : Z (* ns *); l_mock : list str }.
Record auth := mkAuth { a_uid : str; a_sessionid : Z; a_proxy : str; a_enc : Z; a_unordered : bool;
                        a_pub : str; a_mock : str }.

Inductive fname := FServerName | FUID | FPublicKey | FRemoteHost | FRemotePort | FLocalHost | FLocalPort.
Inductive cfg_err := EEmpty (f : fname) | EBadPubKey | EUnknownEnc.
Inductive result (A : Type) := ROk (a : A) | RErr (e : cfg_err).
Arguments ROk {A} a.
Arguments RErr {A} e.

(* time.Duration(n) * time.Second on int64 *)
Definition two63 : Z := 9223372036854775808.
Definition two64 : Z := 18446744073709551616.
Definition wrap64 (z : Z) : Z := let m := z mod two64 in if m <? two63 then m else m - two64.
Definition second_ns : Z := 1000000000.
Definition secs (n : Z) : Z := wrap64 (n * second_ns).

Definition enc_method (s : str) : option Z :=
  let l := to_lower s in
  if str_eqb l kw_plain then Some mux_EncryptionMethodPlain
  else if str_eqb l kw_aes_gcm || str_eqb l kw_aes_256_gcm then Some mux_EncryptionMethodAES256GCM
  else if str_eqb l kw_aes_128_gcm then Some mux_EncryptionMethodAES128GCM
  else if str_eqb l kw_chacha then Some mux_EncryptionMethodChaha20Poly1305
  else None.

Definition browser_of (s : str) : Z :=
  let l := to_lower s in
  if str_eqb l kw_firefox then client_browser_firefox
  else if str_eqb l kw_safari then client_browser_safari
  else client_browser_chrome.                      (* "chrome" and everything else *)

Definition transport_of (r : raw) : transport :=
  if str_eqb (to_lower (Transport r)) kw_cdn then
    let hostport := if is_empty (CDNOriginHost r) then join_host_port (RemoteHost r) (RemotePort r)
                    else join_host_port (CDNOriginHost r) (RemotePort r) in
    let path := if is_empty (CDNWsUrlPath r) then kw_slash else CDNWsUrlPath r in
    mkT kw_cdn (kw_ws ++ hostport ++ path) 0
  else mkT kw_direct [] (browser_of (BrowserSig r)).   (* "direct" and everything else *)

Definition filter_names (l : list str) : list str := filter (fun s => negb (is_empty s)) l.

(* ProcessRawConfig, statement by statement.  [ka_fixed = true]: the code as it is now;
   [false]: line 261 before commit b378e52 ([remote.KeepAlive = remote.KeepAlive * time.Second],
   i.e. the zero value times a second). *)
Definition process_gen (ka_fixed : bool) (r : raw) : result (local * remote * auth) :=
  if is_empty (ServerName r) then RErr (EEmpty FServerName) else
  let mock := filter_names (AlternativeNames r) ++ [ServerName r] in
  if is_empty (ProxyMethod r) then RErr (EEmpty FServerName) (* sic: the message names ServerName *) else
  if is_empty (UID r) then RErr (EEmpty FUID) else
  if is_empty (PublicKey r) then RErr (EEmpty FPublicKey) else
  if negb (Nat.eqb (List.length (PublicKey r)) 32) then RErr EBadPubKey (* ecdh.Unmarshal *) else
  match enc_method (EncryptionMethod r) with
  | None => RErr EUnknownEnc
  | Some enc =>
    if is_empty (RemoteHost r) then RErr (EEmpty FRemoteHost) else
    if is_empty (RemotePort r) then RErr (EEmpty FRemotePort) else
    let addr := join_host_port (RemoteHost r) (RemotePort r) in
    let single := NumConn r <=? 0 in
    let nconn := if single then 1 else NumConn r in
    let tr := transport_of r in
    let ka := if KeepAlive r <=? 0 then -1
              else if ka_fixed then secs (KeepAlive r) else wrap64 (0 * second_ns) in
    if is_empty (LocalHost r) then RErr (EEmpty FLocalHost) else
    if is_empty (LocalPort r) then RErr (EEmpty FLocalPort) else
    let timeout := if StreamTimeout r =? 0 then wrap64 (300 * second_ns) else secs (StreamTimeout r) in
    ROk (mkLocal (join_host_port (LocalHost r) (LocalPort r)) timeout mock,
         mkRemote single nconn ka addr tr,
         mkAuth (UID r) 0 (ProxyMethod r) enc (UDP r) (PublicKey r) (ServerName r))
  end.
Definition process : raw -> result (local * remote * auth) := process_gen true.

(* ---- the documented table (README.md "### Client", example_config/ckclient.json) ---------
   Written from the documentation, not from the code: every option with its meaning and
   default; a configuration is usable iff the mandatory items are present and well-formed. *)
Definition doc_default_stream_timeout_s : Z := 300.          (* example_config: "StreamTimeout": 300 *)
Definition doc_default_ws_path : str := kw_slash.              (* "If unset, it will default to "/"" *)
Definition doc_keepalive_disabled : Z := -1.                   (* "Zero or negative value disables it. Default is 0 (disabled)":
                                                                  net.Dialer disables probes for a negative period *)
(* "Options are plain, aes-256-gcm (synonymous to aes-gcm), aes-128-gcm, and chacha20-poly1305"; names in any case *)
Definition doc_encryption (name : str) : option Z :=
  let n := to_lower name in
  if str_eqb n kw_plain then Some mux_EncryptionMethodPlain
  else if str_eqb n kw_aes_256_gcm then Some mux_EncryptionMethodAES256GCM
  else if str_eqb n kw_aes_gcm then Some mux_EncryptionMethodAES256GCM
  else if str_eqb n kw_aes_128_gcm then Some mux_EncryptionMethodAES128GCM
  else if str_eqb n kw_chacha then Some mux_EncryptionMethodChaha20Poly1305
  else None.
(* "Currently, chrome, firefox and safari are supported"; unset = chrome (example_config) *)
Definition doc_browser (name : str) : Z :=
  let n := to_lower name in
  if str_eqb n kw_safari then client_browser_safari
  else if str_eqb n kw_firefox then client_browser_firefox
  else client_browser_chrome.
(* "Transport can be either direct or CDN"; unset = direct *)
Definition doc_is_cdn (name : str) : bool := str_eqb (to_lower name) kw_cdn.

Definition doc_complete (r : raw) : bool :=
  negb (is_empty (ServerName r)) && negb (is_empty (ProxyMethod r)) && negb (is_empty (UID r))
  && Nat.eqb (List.length (PublicKey r)) 32                     (* "static curve25519 public key" *)
  && (match doc_encryption (EncryptionMethod r) with Some _ => true | None => false end)
  && negb (is_empty (RemoteHost r)) && negb (is_empty (RemotePort r))
  && negb (is_empty (LocalHost r)) && negb (is_empty (LocalPort r)).

Definition spec (r : raw) : option (local * remote * auth) :=
  if negb (doc_complete r) then None else
  let enc := match doc_encryption (EncryptionMethod r) with Some e => e | None => 0 end in
  (* "Setting it to 0 will disable connection multiplexing and each TCP connection will spawn a
     separate short-lived session"; property: NumConn <= 0 *)
  let single := NumConn r <=? 0 in
  let tr :=
    if doc_is_cdn (Transport r) then
      (* CDNOriginHost: "If unset, it will default to the remote hostname"; CDNWsUrlPath: default "/" *)
      let origin := if is_empty (CDNOriginHost r) then RemoteHost r else CDNOriginHost r in
      let path := if is_empty (CDNWsUrlPath r) then doc_default_ws_path else CDNWsUrlPath r in
      mkT kw_cdn (kw_ws ++ join_host_port origin (RemotePort r) ++ path) 0
    else mkT kw_direct [] (doc_browser (BrowserSig r)) in
  Some (mkLocal (join_host_port (LocalHost r) (LocalPort r))
                ((if StreamTimeout r =? 0 then doc_default_stream_timeout_s else StreamTimeout r) * second_ns)
                (* AlternativeNames "used alongside ServerName to shuffle between different ServerNames" *)
                (filter_names (AlternativeNames r) ++ [ServerName r]),
        mkRemote single (if single then 1 else NumConn r)
                 (if 0 <? KeepAlive r then KeepAlive r * second_ns else doc_keepalive_disabled)
                 (join_host_port (RemoteHost r) (RemotePort r)) tr,
        mkAuth (UID r) 0 (ProxyMethod r) enc (UDP r) (PublicKey r) (ServerName r)).

Definition to_option {A} (x : result A) : option A := match x with ROk a => Some a | RErr _ => None end.
(* seconds that fit a time.Duration: |n| * 10^9 < 2^63, about 292 years *)
Definition secs_ok (n : Z) : Prop := - 9223372036 <= n <= 9223372036.

(* ---- ssvToJson ------------------------------------------------------------------------- *)
(* strings.Replace(s, [a;b], [r], -1) *)
Fixpoint replace2 (a b r : N) (s : str) : str :=
  match s with
  | [] => []
  | x :: t' =>
      match t' with
      | [] => [x]
      | y :: t => if N.eqb x a && N.eqb y b then r :: replace2 a b r t else x :: replace2 a b r t'
      end
  end.
Definition unescape (s : str) : str :=
  replace2 c_bslash c_semi c_semi (replace2 c_bslash c_eq c_eq (replace2 c_bslash c_bslash c_bslash s)).

(* strings.Split(s, [c]): always at least one segment *)
Fixpoint split_on (c : N) (s : str) : list str :=
  match s with
  | [] => [[]]
  | x :: t =>
      match split_on c t with
      | seg :: rest => if N.eqb x c then [] :: seg :: rest else (x :: seg) :: rest
      | [] => [[x]]   (* unreachable *)
      end
  end.
(* strings.SplitN(s, "=", 2) *)
Fixpoint split_first (c : N) (s : str) : option (str * str) :=
  match s with
  | [] => None
  | x :: t => if N.eqb x c then Some ([], t)
              else match split_first c t with Some (k, v) => Some (x :: k, v) | None => None end
  end.
Fixpoint has_prefix (p s : str) : bool :=
  match p, s with
  | [], _ => true
  | x :: p', y :: s' => N.eqb x y && has_prefix p' s'
  | _, [] => false
  end.

Definition kw_AlternativeNames : str := Eval compute in bytes_of "AlternativeNames".
Definition kw_NumConn : str := Eval compute in bytes_of "NumConn".
Definition kw_StreamTimeout : str := Eval compute in bytes_of "StreamTimeout".
Definition kw_KeepAlive : str := Eval compute in bytes_of "KeepAlive".
Definition kw_UDP : str := Eval compute in bytes_of "UDP".
Definition is_unquoted (k : str) : bool :=
  str_eqb k kw_NumConn || str_eqb k kw_StreamTimeout || str_eqb k kw_KeepAlive || str_eqb k kw_UDP.

(* one member of the JSON object the code writes *)
Inductive token := TStr (k v : str) | TLit (k v : str) | TList (k : str) (vs : list str).

Definition token_of (key value : str) : token :=
  if has_prefix kw_AlternativeNames key then
    (if contains_byte c_comma value then TList key (split_on c_comma value) else TList key [value])
  else if is_unquoted key then TLit key value else TStr key value.

(* the loop over the segments: stop at the first empty one, skip those without '=' *)
Fixpoint tokens_of_segments (segs : list str) : list token :=
  match segs with
  | [] => []
  | ln :: t =>
      if is_empty ln then []
      else match split_first c_eq ln with
           | None => tokens_of_segments t
           | Some (k, v) => token_of k v :: tokens_of_segments t
           end
  end.
Definition ssv_tokens (s : str) : list token := tokens_of_segments (split_on c_semi (unescape s)).

(* the text appended for one member (each ends with a comma) *)
Definition q (s : str) : str := c_quote :: s ++ [c_quote].
Fixpoint join_with (c : N) (l : list str) : str :=
  match l with [] => [] | [x] => x | x :: t => x ++ c :: join_with c t end.
Definition token_text (t : token) : str :=
  match t with
  | TStr k v => q k ++ c_colon :: q v ++ [c_comma]
  | TLit k v => q k ++ c_colon :: v ++ [c_comma]
  | TList k vs => q k ++ c_colon :: c_lbr :: join_with c_comma (map q vs) ++ [c_rbr; c_comma]
  end.
(* ret = "{" ++ members; ret = ret[:len(ret)-1]; ret = append(ret, '}') *)
Definition json_text (ts : list token) : str :=
  removelast (c_lbrace :: List.concat (map token_text ts)) ++ [c_rbrace].
Definition ssv_to_json (s : str) : str := json_text (ssv_tokens s).

(* ---- a configuration and its two renderings --------------------------------------------- *)
Inductive oval := VStr (s : str) | VLit (s : str) | VList (names : list str).
Definition option_ := (str * oval)%type.
(* what the JSON rendering {"k": "v", "n": 4, "l": ["a","b"]} denotes, member by member *)
Definition tok_of_option (o : option_) : token :=
  match snd o with VStr s => TStr (fst o) s | VLit s => TLit (fst o) s | VList l => TList (fst o) l end.
Definition json_members (c : list option_) : list token := map tok_of_option c.

(* the option-string rendering: key=value; with '=' inside a value written as \= *)
Definition esc_eq (s : str) : str := flat_map (fun ch => if N.eqb ch c_eq then [c_bslash; c_eq] else [ch]) s.
Definition oval_text (v : oval) : str :=
  match v with VStr s => s | VLit s => s | VList l => join_with c_comma l end.
Definition render_option (o : option_) : str := fst o ++ c_eq :: esc_eq (oval_text (snd o)) ++ [c_semi].
Definition render_ssv (c : list option_) : str := List.concat (map render_option c).

(* the domain of the equivalence *)
Definition ok_char (ch : N) : bool :=
  N.leb 32 ch && negb (N.eqb ch c_semi) && negb (N.eqb ch c_quote) && negb (N.eqb ch c_bslash).
Definition ok_str (s : str) : bool := forallb ok_char s.
Definition ok_key (k : str) : bool :=
  ok_str k && negb (is_empty k) && negb (contains_byte c_eq k).
Definition ok_option (o : option_) : bool :=
  ok_key (fst o) &&
  match snd o with
  | VStr s => ok_str s && negb (has_prefix kw_AlternativeNames (fst o)) && negb (is_unquoted (fst o))
  | VLit s => ok_str s && is_unquoted (fst o)
  | VList l => has_prefix kw_AlternativeNames (fst o) && negb (is_empty l)
               && forallb (fun n => ok_str n && negb (contains_byte c_comma n)) l
  end.
(* a string body that is a JSON string literal denoting itself (RFC 8259 "unescaped") *)
Definition json_plain_body (s : str) : bool :=
  forallb (fun ch => N.leb 32 ch && negb (N.eqb ch c_quote) && negb (N.eqb ch c_bslash)) s.

(* ParseConfig: an argument containing both ';' and '=' is an option string, anything else a file name *)
Definition is_ssv (s : str) : bool := contains_byte c_semi s && contains_byte c_eq s.
