(* Small-order inputs of X25519, as an executable predicate on 32-byte strings.
   The points of order 1, 2, 4 and 8 of Curve25519 and of its quadratic twist have the x-coordinates
     0 (order 2; also what the neutral element decodes to), 1 (order 4, curve), p-1 (order 4, twist),
     order8a, order8b (order 8, curve).
   X25519 (RFC 7748) masks bit 255 of the received string and reduces mod p = 2^255-19, so the 32-byte strings
   that decode to one of them are the 7 values below 2^255 and the same with bit 255 set: 14 strings.
   Every X25519 library documents that the shared secret is all-zero for exactly these inputs, whatever the
   private key (the clamped scalar is a multiple of 8); crypto/ecdh turns that into the error
   "bad X25519 remote ECDH input: low order point".  Executable definitions only; facts in Proofs/LowOrder.v. *)
From Coq Require Import ZArith NArith List Bool.
From Cloak Require Import Model.Crypto.X25519.
Import ListNotations.
Local Open Scope Z_scope.

Definition order8a : Z := 325606250916557431795983626356110631294008115727848805560023387167927233504.
Definition order8b : Z := 39382357235489614581723060781553021112529911719440698176882885853963445705823.

Definition low_order_x (x : Z) : bool :=
  (x =? 0) || (x =? 1) || (x =? p25519 - 1) || (x =? order8a) || (x =? order8b).

(* the u-coordinate exactly as x25519_z decodes it *)
Definition decode_u (u : list N) : Z := freduce (mask_u (le_decode u)).
Definition low_order (u : list N) : bool := low_order_x (decode_u u).

(* the numbers below 2^256 that decode to a small-order x-coordinate, and their 32-byte encodings *)
Definition low_order_values : list Z :=
  let base := [0; 1; order8a; order8b; p25519 - 1; p25519; p25519 + 1] in
  base ++ map (fun v => v + 2 ^ 255) base.
Definition low_order_points : list (list N) := map (le_encode 32) low_order_values.
