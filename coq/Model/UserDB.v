(* Model of internal/server/usermanager/{localmanager.go, api_router.go} and of the way a
   stored record reaches multiplex.MakeValve (internal/server/userpanel.go GetUser,
   activeuser.go GetSession, internal/multiplex/qos.go).  Executable definitions only: the
   proofs live in Proofs/UserDB.v.

   bolt is modelled as "root bucket = association list UID -> bucket, bucket = six optional
   byte strings"; durability (close + reopen gives back the same map) is TRUSTED, see [reopen].
   encoding/json, base64 and gorilla/mux are black boxes: a request reaches the model already
   classified (path segment decodes / does not decode; body decodes to a UserInfo / does not). *)
From Coq Require Import ZArith NArith List Bool.
Import ListNotations.
Local Open Scope Z_scope.

(* ---- outcomes: a Go panic is an explicit result --------------------------------------- *)
Inductive outcome (A : Type) : Type := Ok (a : A) | Panic.
Arguments Ok {A} a.
Arguments Panic {A}.
Definition bind {A B} (o : outcome A) (f : A -> outcome B) : outcome B :=
  match o with Ok a => f a | Panic => Panic end.
Notation "x <- e ;; f" := (bind e (fun x => f)) (at level 61, e at next level, right associativity).

(* ---- big-endian codec (encoding/binary) ------------------------------------------------ *)
(* PutUintNN: k bytes, most significant first *)
Fixpoint be_enc (k : nat) (n : N) : list N :=
  match k with O => [] | S k' => be_enc k' (n / 256)%N ++ [(n mod 256)%N] end.
Definition be_dec (l : list N) : N := fold_left (fun acc b => (acc * 256 + b)%N) l 0%N.

Definition two31 : Z := 2147483648.
Definition two32 : Z := 4294967296.
Definition two63 : Z := 9223372036854775808.
Definition two64 : Z := 18446744073709551616.

(* uint64(v) / uint32(v) of a signed value, and back: int64(u) / int32(u) *)
Definition to_u64 (v : Z) : N := Z.to_N (v mod two64).
Definition to_u32 (v : Z) : N := Z.to_N (v mod two32).
Definition to_i64 (n : N) : Z := let z := Z.of_N n in if z <? two63 then z else z - two64.
Definition to_i32 (n : N) : Z := let z := Z.of_N n in if z <? two31 then z else z - two32.
(* int64 arithmetic wraps *)
Definition wrap64 (z : Z) : Z := to_i64 (to_u64 z).

(* i64ToB / i32ToB *)
Definition be_of_int64 (v : Z) : list N := be_enc 8 (to_u64 v).
Definition be_of_int32 (v : Z) : list N := be_enc 4 (to_u32 v).

(* The package-level u64 / u32.  [fx = true]: the code as it is now (a slice that is too
   short - bolt returns nil for a missing key - reads as 0).  [fx = false]: the shape before
   commit cd5140b, binary.BigEndian.Uint64(b) directly, which panics on a short slice. *)
Definition u64t (b : list N) : N := if (length b <? 8)%nat then 0%N else be_dec (firstn 8 b).
Definition u32t (b : list N) : N := if (length b <? 4)%nat then 0%N else be_dec (firstn 4 b).
Definition u64 (fx : bool) (b : list N) : outcome N :=
  if (length b <? 8)%nat then (if fx then Ok 0%N else Panic) else Ok (be_dec (firstn 8 b)).
Definition u32 (fx : bool) (b : list N) : outcome N :=
  if (length b <? 4)%nat then (if fx then Ok 0%N else Panic) else Ok (be_dec (firstn 4 b)).

Definition int64_of_be (b : list N) : Z := to_i64 (u64t b).
Definition int32_of_be (b : list N) : Z := to_i32 (u32t b).

(* ---- records ------------------------------------------------------------------------- *)
Inductive field := FCap | FUpRate | FDownRate | FUpCredit | FDownCredit | FExpiry.

(* a bolt bucket: key present with its bytes, or absent *)
Record rec := mkRec { f_cap : option (list N); f_uprate : option (list N); f_downrate : option (list N);
                      f_upcredit : option (list N); f_downcredit : option (list N); f_expiry : option (list N) }.
Definition rec_empty : rec := mkRec None None None None None None.

Definition getf (f : field) (r : rec) : option (list N) :=
  match f with FCap => f_cap r | FUpRate => f_uprate r | FDownRate => f_downrate r
             | FUpCredit => f_upcredit r | FDownCredit => f_downcredit r | FExpiry => f_expiry r end.
(* bucket.Put *)
Definition setf (f : field) (v : list N) (r : rec) : rec :=
  match f with
  | FCap => mkRec (Some v) (f_uprate r) (f_downrate r) (f_upcredit r) (f_downcredit r) (f_expiry r)
  | FUpRate => mkRec (f_cap r) (Some v) (f_downrate r) (f_upcredit r) (f_downcredit r) (f_expiry r)
  | FDownRate => mkRec (f_cap r) (f_uprate r) (Some v) (f_upcredit r) (f_downcredit r) (f_expiry r)
  | FUpCredit => mkRec (f_cap r) (f_uprate r) (f_downrate r) (Some v) (f_downcredit r) (f_expiry r)
  | FDownCredit => mkRec (f_cap r) (f_uprate r) (f_downrate r) (f_upcredit r) (Some v) (f_expiry r)
  | FExpiry => mkRec (f_cap r) (f_uprate r) (f_downrate r) (f_upcredit r) (f_downcredit r) (Some v)
  end.
(* bucket.Get: nil for a missing key *)
Definition getb (f : field) (r : rec) : list N := match getf f r with Some b => b | None => [] end.

(* UserInfo as decoded from a JSON body: MaybeInt pointers *)
Record wrec := mkW { w_cap : option Z; w_uprate : option Z; w_downrate : option Z;
                     w_upcredit : option Z; w_downcredit : option Z; w_expiry : option Z }.
(* UserInfo as returned by GetUserInfo / ListAllUsers: all six always set (JustInt..) *)
Record vals := mkV { v_cap : Z; v_uprate : Z; v_downrate : Z; v_upcredit : Z; v_downcredit : Z; v_expiry : Z }.

(* WriteUserInfo: Put exactly the fields whose pointer is non-nil *)
Definition put_opt (f : field) (enc : Z -> list N) (o : option Z) (r : rec) : rec :=
  match o with None => r | Some v => setf f (enc v) r end.
Definition write_rec (w : wrec) (r : rec) : rec :=
  put_opt FExpiry be_of_int64 (w_expiry w)
   (put_opt FDownCredit be_of_int64 (w_downcredit w)
     (put_opt FUpCredit be_of_int64 (w_upcredit w)
       (put_opt FDownRate be_of_int64 (w_downrate w)
         (put_opt FUpRate be_of_int64 (w_uprate w)
           (put_opt FCap be_of_int32 (w_cap w) r))))).

(* int64(u64(bucket.Get(key))), int32(u32(..)), int(u32(..)) *)
Definition rd_i64 (fx : bool) (f : field) (r : rec) : outcome Z := n <- u64 fx (getb f r) ;; Ok (to_i64 n).
Definition rd_cap_signed (fx : bool) (r : rec) : outcome Z := n <- u32 fx (getb FCap r) ;; Ok (to_i32 n).
Definition rd_cap_unsigned (fx : bool) (r : rec) : outcome Z := n <- u32 fx (getb FCap r) ;; Ok (Z.of_N n).

(* the six JustInt.. lines of GetUserInfo / ListAllUsers *)
Definition read_vals (fx : bool) (r : rec) : outcome vals :=
  c <- rd_cap_signed fx r ;; a <- rd_i64 fx FUpRate r ;; b <- rd_i64 fx FDownRate r ;;
  d <- rd_i64 fx FUpCredit r ;; e <- rd_i64 fx FDownCredit r ;; x <- rd_i64 fx FExpiry r ;;
  Ok (mkV c a b d e x).

(* ---- the root bucket: association list, generic in the value type --------------------- *)
Definition uid := list N.
Fixpoint uid_eqb (a b : uid) : bool :=
  match a, b with
  | [], [] => true
  | x :: a', y :: b' => N.eqb x y && uid_eqb a' b'
  | _, _ => false
  end.
Definition is_nil {A} (l : list A) : bool := match l with [] => true | _ => false end.

Section Alist.
Context {A : Type}.
Fixpoint lookup (u : uid) (s : list (uid * A)) : option A :=
  match s with [] => None | (k, v) :: t => if uid_eqb u k then Some v else lookup u t end.
(* replace in place, or append (listing order is canonicalised by the drivers: bolt iterates
   in key order, the model in creation order) *)
Fixpoint put (u : uid) (v : A) (s : list (uid * A)) : list (uid * A) :=
  match s with
  | [] => [(u, v)]
  | (k, w) :: t => if uid_eqb u k then (k, v) :: t else (k, w) :: put u v t
  end.
Definition remove (u : uid) (s : list (uid * A)) : list (uid * A) :=
  filter (fun kv => negb (uid_eqb u (fst kv))) s.
End Alist.

Definition store := list (uid * rec).
(* tx.Bucket(name): nil for the empty name and for an absent one *)
Definition bucket {A} (u : uid) (s : list (uid * A)) : option A := if is_nil u then None else lookup u s.

(* closing the database and opening the file again: TRUSTED to give the same map back
   (bbolt durability is not modelled; the correspondence check closes and reopens the real file) *)
Definition reopen {A} (s : list (uid * A)) : list (uid * A) := s.

(* ---- localManager methods ------------------------------------------------------------ *)
Inductive err := ErrUserNotFound | ErrNoUpCredit | ErrNoDownCredit | ErrUserExpired | ErrSessionsCapReached
               | ErrBadRate (* server.ErrBadRate, returned by userPanel.GetUser since commit 638655d *).
Inductive auth_res := AuthOk (up down : Z) | AuthErr (e : err).

Definition credit_checks (upCredit downCredit expiry now : Z) : option err :=
  if upCredit <=? 0 then Some ErrNoUpCredit
  else if downCredit <=? 0 then Some ErrNoDownCredit
  else if expiry <? now then Some ErrUserExpired
  else None.

(* AuthenticateUser; [now] = manager.world.Now().Unix() *)
Definition authenticate (fx : bool) (now : Z) (s : store) (u : uid) : outcome auth_res :=
  match bucket u s with
  | None => Ok (AuthErr ErrUserNotFound)
  | Some r =>
      upRate <- rd_i64 fx FUpRate r ;; downRate <- rd_i64 fx FDownRate r ;;
      upCredit <- rd_i64 fx FUpCredit r ;; downCredit <- rd_i64 fx FDownCredit r ;;
      expiry <- rd_i64 fx FExpiry r ;;
      Ok (match credit_checks upCredit downCredit expiry now with
          | Some e => AuthErr e | None => AuthOk upRate downRate end)
  end.

(* var arrUID [16]byte; copy(arrUID[:], UID) *)
Definition pad16 (u : uid) : uid := firstn 16 (u ++ repeat 0%N 16).

(* AuthoriseNewSession; [n] = ainfo.NumExistingSessions.  The cap is read back UNSIGNED
   (int(u32(..)) on a 64-bit int): observation O5 *)
Definition authorise (fx : bool) (now : Z) (s : store) (u : uid) (n : Z) : outcome (option err) :=
  match bucket (pad16 u) s with
  | None => Ok (Some ErrUserNotFound)
  | Some r =>
      cap <- rd_cap_unsigned fx r ;;
      upCredit <- rd_i64 fx FUpCredit r ;; downCredit <- rd_i64 fx FDownCredit r ;;
      expiry <- rd_i64 fx FExpiry r ;;
      Ok (match credit_checks upCredit downCredit expiry now with
          | Some e => Some e
          | None => if n >=? cap then Some ErrSessionsCapReached else None end)
  end.

(* UploadStatus *)
Record upd := mkUpd { up_uid : uid; up_up : Z; up_down : Z }.
Inductive smsg := MsgGone | MsgNoUp | MsgNoDown | MsgExpired.
Definition sresp := (uid * smsg)%type.   (* Action is always TERMINATE *)

Definition upload_one (fx : bool) (now : Z) (u : uid) (upUsage downUsage : Z) (r : rec)
  : outcome (rec * list sresp) :=
  oldUp <- rd_i64 fx FUpCredit r ;;
  let newUp := wrap64 (oldUp - upUsage) in
  let rs1 := if newUp <=? 0 then [(u, MsgNoUp)] else [] in
  let r1 := setf FUpCredit (be_of_int64 newUp) r in
  oldDown <- rd_i64 fx FDownCredit r1 ;;
  let newDown := wrap64 (oldDown - downUsage) in
  let rs2 := if newDown <=? 0 then [(u, MsgNoDown)] else [] in
  let r2 := setf FDownCredit (be_of_int64 newDown) r1 in
  expiry <- rd_i64 fx FExpiry r2 ;;
  let rs3 := if now >? expiry then [(u, MsgExpired)] else [] in
  Ok (r2, rs1 ++ rs2 ++ rs3).

Fixpoint upload (fx : bool) (now : Z) (s : store) (l : list upd) : outcome (store * list sresp) :=
  match l with
  | [] => Ok (s, [])
  | x :: t =>
      match bucket (up_uid x) s with
      | None => p <- upload fx now s t ;; Ok (fst p, (up_uid x, MsgGone) :: snd p)
      | Some r =>
          q <- upload_one fx now (up_uid x) (up_up x) (up_down x) r ;;
          p <- upload fx now (put (up_uid x) (fst q) s) t ;;
          Ok (fst p, snd q ++ snd p)
      end
  end.

Fixpoint list_all (fx : bool) (s : store) : outcome (list (uid * vals)) :=
  match s with
  | [] => Ok []
  | (u, r) :: t => v <- read_vals fx r ;; l <- list_all fx t ;; Ok ((u, v) :: l)
  end.

(* ---- the API router -------------------------------------------------------------------- *)
(* {UID} path segment after base64.URLEncoding.DecodeString; the decoded UID can be empty
   (segment "%0A": the decoder skips newlines) although the segment itself cannot *)
Inductive path := PBad | PUid (u : uid).
(* request body after json.NewDecoder(r.Body).Decode(&uinfo) *)
Inductive body := BBad | BJson (u : uid) (w : wrec).
Inductive req :=
| RqList | RqGet (p : path) | RqPost (p : path) (b : body) | RqDelete (p : path)
| RqNoUid (* /admin/users/ with an empty segment: no route accepts it, so the
             [b64UID == ""] branches of the handlers are unreachable *).
Inductive resp := RsStatus (code : Z) | RsUser (u : uid) (v : vals) | RsList (l : list (uid * vals)).

(* writeUserInfoHlr.  Order of the checks: path, body, UID mismatch (400, and - since commit
   cd75c40 - return), then WriteUserInfo; CreateBucketIfNotExists refuses the empty name
   (500; the WriteHeader(201) that follows is ignored by net/http). *)
Definition post (s : store) (p : path) (b : body) : store * resp :=
  match p with
  | PBad => (s, RsStatus 400)
  | PUid u =>
      match b with
      | BBad => (s, RsStatus 400)
      | BJson bu w =>
          if negb (uid_eqb u bu) then (s, RsStatus 400)
          else if is_nil bu then (s, RsStatus 500)
          else
            let r := match lookup bu s with Some r => r | None => rec_empty end in
            (put bu (write_rec w r) s, RsStatus 201)
      end
  end.

(* deleteUserHlr: DeleteBucket of an absent (or empty) name is an error: 500 is written,
   the later WriteHeader(200) is ignored *)
Definition delete (s : store) (p : path) : store * resp :=
  match p with
  | PBad => (s, RsStatus 400)
  | PUid u =>
      match bucket u s with
      | None => (s, RsStatus 500)
      | Some _ => (remove u s, RsStatus 200)
      end
  end.

Definition get_user (fx : bool) (s : store) (p : path) : outcome resp :=
  match p with
  | PBad => Ok (RsStatus 400)
  | PUid u =>
      match bucket u s with
      | None => Ok (RsStatus 404)
      | Some r => v <- read_vals fx r ;; Ok (RsUser u v)
      end
  end.

(* ---- histories --------------------------------------------------------------------------- *)
Inductive op :=
| OReq (r : req)
| OReopen
| OUpload (l : list upd)
| OAuth (u : uid)
| OSess (u : uid) (n : Z).
Inductive obs :=
| ObResp (r : resp)
| ObReopen
| ObUpload (l : list sresp)
| ObAuth (a : auth_res)
| ObSess (e : option err).

Definition step (fx : bool) (now : Z) (s : store) (o : op) : outcome (store * obs) :=
  match o with
  | OReq RqList => l <- list_all fx s ;; Ok (s, ObResp (RsList l))
  | OReq (RqGet p) => r <- get_user fx s p ;; Ok (s, ObResp r)
  | OReq (RqPost p b) => let q := post s p b in Ok (fst q, ObResp (snd q))
  | OReq (RqDelete p) => let q := delete s p in Ok (fst q, ObResp (snd q))
  | OReq RqNoUid => Ok (s, ObResp (RsStatus 405))
  | OReopen => Ok (reopen s, ObReopen)
  | OUpload l => q <- upload fx now s l ;; Ok (fst q, ObUpload (snd q))
  | OAuth u => a <- authenticate fx now s u ;; Ok (s, ObAuth a)
  | OSess u n => e <- authorise fx now s u n ;; Ok (s, ObSess e)
  end.

Fixpoint run (fx : bool) (now : Z) (s : store) (ops : list op) : outcome (store * list obs) :=
  match ops with
  | [] => Ok (s, [])
  | o :: t => q <- step fx now s o ;; p <- run fx now (fst q) t ;; Ok (fst p, snd q :: snd p)
  end.

(* ---- the owner connects: userPanel.GetUser then ActiveUser.GetSession -------------------- *)
(* multiplex.MakeValve -> ratelimit.NewBucketWithRate(float64(rate), rate) twice; the library
   panics ("token bucket capacity is not > 0") unless the capacity is positive.  For positive
   rates the quantum search of the library terminates without panic: TRUSTED here (sampled by
   the correspondence check; the search itself is Model/Bucket.v, property C19). *)
Definition make_valve (rx tx : Z) : outcome unit :=
  if (0 <? rx) && (0 <? tx) then Ok tt else Panic.

Inductive conn_res := CnAuthErr (e : err) | CnSessErr (e : err) | CnOk (up down : Z).
(* [guard = true]: the code as it is now - since commit 638655d GetUser refuses a record whose
   UpRate or DownRate is not positive with ErrBadRate, before MakeValve is reached.
   [guard = false]: GetUser before that commit (finding F8): the rates go straight to MakeValve. *)
Definition connect (guard fx : bool) (now : Z) (s : store) (u : uid) : outcome conn_res :=
  a <- authenticate fx now s u ;;
  match a with
  | AuthErr e => Ok (CnAuthErr e)
  | AuthOk up down =>
      if guard && negb ((0 <? up) && (0 <? down)) then Ok (CnAuthErr ErrBadRate)
      else
        _ <- make_valve up down ;;
        e <- authorise fx now s u 0 ;;
        Ok (match e with Some e => CnSessErr e | None => CnOk up down end)
  end.

(* The whole life of one connection as the server harness drives it (dispatcher order):
   GetUser, GetSession(id, ..) with no session yet; on a session error the dispatcher calls
   CloseSession, which terminates the now session-less user and queues a zero usage; on
   success the harness adds [rx]/[tx] to the valve counters, runs updateUsageQueue +
   commitUpdate (UploadStatus of that usage; any response terminates the user, which again
   queues a zero usage), closes the session if the user is still there, and flushes the
   queue with a second commitUpdate (UploadStatus of a zero usage). *)
Inductive conn_obs := CoAuthErr (e : err) | CoSessErr (e : err) | CoOk (active : bool).
Definition connect_use (guard fx : bool) (now : Z) (s : store) (u : uid) (rx tx : Z)
  : outcome (store * conn_obs) :=
  c <- connect guard fx now s u ;;
  match c with
  | CnAuthErr e => Ok (s, CoAuthErr e)
  | CnSessErr e =>
      q <- upload fx now s [mkUpd (pad16 u) 0 0] ;; Ok (fst q, CoSessErr e)
  | CnOk _ _ =>
      q1 <- upload fx now s [mkUpd (pad16 u) rx tx] ;;
      q2 <- upload fx now (fst q1) [mkUpd (pad16 u) 0 0] ;;
      Ok (fst q2, CoOk (is_nil (snd q1)))
  end.

(* ---- the abstract specification: a finite map UID -> six integers ------------------------- *)
Definition astore := list (uid * vals).
Definition vals_zero : vals := mkV 0 0 0 0 0 0.
Definition ov (o : option Z) (d : Z) : Z := match o with Some v => v | None => d end.
(* an update replaces exactly the mentioned fields *)
Definition merge (w : wrec) (v : vals) : vals :=
  mkV (ov (w_cap w) (v_cap v)) (ov (w_uprate w) (v_uprate v)) (ov (w_downrate w) (v_downrate v))
      (ov (w_upcredit w) (v_upcredit v)) (ov (w_downcredit w) (v_downcredit v)) (ov (w_expiry w) (v_expiry v)).

Definition a_post (m : astore) (p : path) (b : body) : astore * resp :=
  match p, b with
  | PBad, _ => (m, RsStatus 400)
  | PUid _, BBad => (m, RsStatus 400)
  | PUid u, BJson bu w =>
      if negb (uid_eqb u bu) then (m, RsStatus 400)          (* rejected: no-op *)
      else if is_nil bu then (m, RsStatus 500)                (* rejected: no-op *)
      else (put bu (merge w (match lookup bu m with Some v => v | None => vals_zero end)) m, RsStatus 201)
  end.
Definition a_delete (m : astore) (p : path) : astore * resp :=
  match p with
  | PBad => (m, RsStatus 400)
  | PUid u => match bucket u m with None => (m, RsStatus 500) | Some _ => (remove u m, RsStatus 200) end
  end.
Definition a_get (m : astore) (p : path) : resp :=
  match p with
  | PBad => RsStatus 400
  | PUid u => match bucket u m with None => RsStatus 404 | Some v => RsUser u v end
  end.
Definition a_auth (now : Z) (m : astore) (u : uid) : auth_res :=
  match bucket u m with
  | None => AuthErr ErrUserNotFound
  | Some v => match credit_checks (v_upcredit v) (v_downcredit v) (v_expiry v) now with
              | Some e => AuthErr e | None => AuthOk (v_uprate v) (v_downrate v) end
  end.
Definition a_sess (now : Z) (m : astore) (u : uid) (n : Z) : option err :=
  match bucket (pad16 u) m with
  | None => Some ErrUserNotFound
  | Some v => match credit_checks (v_upcredit v) (v_downcredit v) (v_expiry v) now with
              | Some e => Some e
              | None => if n >=? v_cap v mod two32 then Some ErrSessionsCapReached else None end
  end.
Definition a_upload_one (now : Z) (u : uid) (upUsage downUsage : Z) (v : vals) : vals * list sresp :=
  let newUp := wrap64 (v_upcredit v - upUsage) in
  let newDown := wrap64 (v_downcredit v - downUsage) in
  (mkV (v_cap v) (v_uprate v) (v_downrate v) newUp newDown (v_expiry v),
   (if newUp <=? 0 then [(u, MsgNoUp)] else []) ++ (if newDown <=? 0 then [(u, MsgNoDown)] else [])
   ++ (if now >? v_expiry v then [(u, MsgExpired)] else [])).
Fixpoint a_upload (now : Z) (m : astore) (l : list upd) : astore * list sresp :=
  match l with
  | [] => (m, [])
  | x :: t =>
      match bucket (up_uid x) m with
      | None => let p := a_upload now m t in (fst p, (up_uid x, MsgGone) :: snd p)
      | Some v =>
          let q := a_upload_one now (up_uid x) (up_up x) (up_down x) v in
          let p := a_upload now (put (up_uid x) (fst q) m) t in
          (fst p, snd q ++ snd p)
      end
  end.

Definition a_step (now : Z) (m : astore) (o : op) : astore * obs :=
  match o with
  | OReq RqList => (m, ObResp (RsList m))
  | OReq (RqGet p) => (m, ObResp (a_get m p))
  | OReq (RqPost p b) => let q := a_post m p b in (fst q, ObResp (snd q))
  | OReq (RqDelete p) => let q := a_delete m p in (fst q, ObResp (snd q))
  | OReq RqNoUid => (m, ObResp (RsStatus 405))
  | OReopen => (m, ObReopen)
  | OUpload l => let q := a_upload now m l in (fst q, ObUpload (snd q))
  | OAuth u => (m, ObAuth (a_auth now m u))
  | OSess u n => (m, ObSess (a_sess now m u n))
  end.
Fixpoint a_run (now : Z) (m : astore) (ops : list op) : astore * list obs :=
  match ops with
  | [] => (m, [])
  | o :: t => let q := a_step now m o in let p := a_run now (fst q) t in (fst p, snd q :: snd p)
  end.

(* abstraction function: decode every stored field, a missing one is 0 *)
Definition abs_rec (r : rec) : vals :=
  mkV (int32_of_be (getb FCap r)) (int64_of_be (getb FUpRate r)) (int64_of_be (getb FDownRate r))
      (int64_of_be (getb FUpCredit r)) (int64_of_be (getb FDownCredit r)) (int64_of_be (getb FExpiry r)).
Definition abs_store (s : store) : astore := map (fun kv => (fst kv, abs_rec (snd kv))) s.

(* what encoding/json guarantees about a decoded body: int32 / int64 ranges *)
Definition in_i64 (v : Z) : Prop := - two63 <= v < two63.
Definition in_i32 (v : Z) : Prop := - two31 <= v < two31.
Definition opt_ok (P : Z -> Prop) (o : option Z) : Prop := match o with Some v => P v | None => True end.
Definition wrec_ok (w : wrec) : Prop :=
  opt_ok in_i32 (w_cap w) /\ opt_ok in_i64 (w_uprate w) /\ opt_ok in_i64 (w_downrate w) /\
  opt_ok in_i64 (w_upcredit w) /\ opt_ok in_i64 (w_downcredit w) /\ opt_ok in_i64 (w_expiry w).
Definition op_ok (o : op) : Prop :=
  match o with OReq (RqPost _ (BJson _ w)) => wrec_ok w | _ => True end.
