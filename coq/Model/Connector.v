(* Model of internal/client/connector.go: client.MakeSession - NumConn goroutines, each of which dials
   and handshakes until it has ONE prepared connection (retrying after a 3 s pause on a failed dial or a
   failed handshake; a failed handshake in direct mode with the chrome signature makes THAT goroutine fall
   back to firefox for all its later attempts), stores the session key the handshake returned and hands
   the connection over; then the session is built from the key stored LAST and gets all the connections.

   The network is the environment: per goroutine a script of attempt outcomes is an input.
   Executable definitions only: proofs live in Proofs/Connector.v. *)
From Coq Require Import NArith List Bool.
Import ListNotations.

Inductive browser := Chrome | Firefox | Safari.
Inductive attempt := ADialFail | AHsFail | AOk (key : N).     (* key: the 32 bytes the handshake returned *)

Inductive gev :=
| GCreate (b : browser)      (* transportConfig.CreateTransport() with the goroutine's current signature *)
| GDial
| GSleep                     (* time.Sleep(3 s) *)
| GHandshake
| GCloseTransport            (* transportConn.Close() after a failed handshake *)
| GStore (k : N)             (* _sessionKey.Store(sk) *)
| GDeliver.                  (* connsCh <- transportConn *)

Definition fallback (direct : bool) (b : browser) : browser :=
  if direct then match b with Chrome => Firefox | _ => b end else b.

(* one goroutine: returns its events, the key it ended with (None = script exhausted: still retrying) *)
Fixpoint conn_loop (direct : bool) (b : browser) (script : list attempt) : list gev * option N :=
  match script with
  | [] => ([], None)
  | ADialFail :: rest =>
      let '(evs, r) := conn_loop direct b rest in ([GCreate b; GDial; GSleep] ++ evs, r)
  | AHsFail :: rest =>
      let '(evs, r) := conn_loop direct (fallback direct b) rest in
      ([GCreate b; GDial; GHandshake; GCloseTransport; GSleep] ++ evs, r)
  | AOk k :: _ => ([GCreate b; GDial; GHandshake; GStore k; GDeliver], Some k)
  end.

(* MakeSession: `order` = the order in which the goroutines finish (a permutation of their indices; the
   key stored last wins).  Result: the key the session is built from and the number of connections it is
   given; None while some goroutine is still retrying (wg.Wait() has not returned). *)
Fixpoint all_some (l : list (option N)) : option (list N) :=
  match l with
  | [] => Some []
  | None :: _ => None
  | Some k :: t => match all_some t with Some ks => Some (k :: ks) | None => None end
  end.

Definition make_session (direct : bool) (b : browser) (scripts : list (list attempt)) (order : list nat)
  : option (N * nat) :=
  match all_some (map (fun s => snd (conn_loop direct b s)) scripts) with
  | None => None
  | Some ks =>
      match order with
      | [] => None
      | _ => Some (nth (last order 0) ks 0%N, length ks)
      end
  end.

(* projections used in statements *)
Fixpoint count_ev (p : gev -> bool) (l : list gev) : nat :=
  match l with [] => O | e :: t => (if p e then 1 else 0) + count_ev p t end.
Definition is_sleep (e : gev) := match e with GSleep => true | _ => false end.
Definition is_deliver (e : gev) := match e with GDeliver => true | _ => false end.
Definition is_close (e : gev) := match e with GCloseTransport => true | _ => false end.
Definition is_dial (e : gev) := match e with GDial => true | _ => false end.
Fixpoint creates (l : list gev) : list browser :=
  match l with [] => [] | GCreate b :: t => b :: creates t | _ :: t => creates t end.
Definition is_fail (a : attempt) := match a with AOk _ => false | _ => true end.
Definition is_hsfail (a : attempt) := match a with AHsFail => true | _ => false end.
