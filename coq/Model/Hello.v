(* Hand-written model of the first-packet parsers of internal/server:
     TLSAux.go  parseExtensions / parseKeyShare / parseClientHello   (hand-written, bounds by recover())
     TLS.go     TLS.unmarshalClientHello, TLS.processFirstPacket
     websocket.go WebSocket.unmarshalHidden (net/http + base64 are black boxes: the model starts
                from the decoded `hidden` bytes)
   Executable definitions only.

   Go slices.  A Go slice expression a[lo:hi] on a SLICE is checked against cap(a), not len(a).
   parseClientHello works on `peeled := make([]byte, len(data)-5)` (cap = len) and every slice it
   takes keeps the rest of `peeled` as capacity.  parseExtensions stores `input[p:p+length]` in the
   map, so an extension body handed to parseKeyShare has the FOLLOWING bytes of the hello as
   capacity, and parseKeyShare's `input[0:2]`, `input[pointer:pointer+2]` ... may read past the
   declared end of the key_share extension without panicking.  The model keeps this: a [gslice] is
   the visible part plus the bytes between len and cap.

   Outcomes.  Index / slice violations are the explicit outcome [Panic]; the deferred recover()
   of each parser is [recover_as].  There is no index or slice expression on a slice in
   unmarshalClientHello / processFirstPacket / AuthFirstPacket outside those three functions
   (array[:] and map lookups cannot panic; copy and append cannot panic). *)
From Coq Require Import NArith ZArith List Bool Arith.
Import ListNotations.
Local Open Scope N_scope.

(* ---------------------------------------------------------------- errors, result monad *)
Inductive perr :=
| EMagic            (* "wrong TLS1.3 handshake magic bytes" *)
| ENotHello         (* "Not a ClientHello" *)
| EHelloLen         (* "Hello length doesn't match" *)
| EMalformedHello   (* recovered panic in parseClientHello *)
| EMalformedExts    (* recovered panic in parseExtensions *)
| EMalformedKS      (* recovered panic in parseKeyShare *)
| EKSLen            (* "key share length should be 32" *)
| ENoX25519         (* "x25519 does not exist" *)
| EInvalidPub       (* ErrInvalidPubKey (ecdh.Unmarshal, unreachable: the array has 32 bytes) *)
| EDH               (* curve25519.X25519 returned an error (low order point) *)
| ECtLen            (* ErrCiphertextLength *)
| EBadGET           (* ErrBadGET: hidden shorter than 96 bytes *)
| EHttp             (* http.ReadRequest failed (black box) *)
| EFuel.            (* model artefact: loop fuel exhausted; proved unreachable *)

Inductive res (A : Type) :=
| Ok (a : A)
| Err (e : perr)
| Panic.
Arguments Ok {A} a.
Arguments Err {A} e.
Arguments Panic {A}.

Definition bind {A B} (r : res A) (f : A -> res B) : res B :=
  match r with Ok a => f a | Err e => Err e | Panic => Panic end.
Notation "x <- r ;; k" := (bind r (fun x => k)) (at level 61, r at next level, right associativity).
Notation "' p <- r ;; k" := (bind r (fun x => let p := x in k))
  (at level 61, p pattern, r at next level, right associativity).

(* defer func() { if r := recover(); r != nil { err = errors.New(..) } }() *)
Definition recover_as {A} (e : perr) (r : res A) : res A :=
  match r with Panic => Err e | x => x end.

Definition of_opt {A} (o : option A) : res A := match o with Some a => Ok a | None => Panic end.

(* ---------------------------------------------------------------- bytes *)
Fixpoint bytes_eqb (a b : list N) : bool :=
  match a, b with
  | [], [] => true
  | x :: a', y :: b' => (x =? y) && bytes_eqb a' b'
  | _, _ => false
  end.

(* binary.BigEndian.Uint16 / the 3-byte length / Uint32 / Uint64 of a byte list *)
Definition be_val (l : list N) : N := fold_left (fun acc b => acc * 256 + b) l 0.

(* copy(dst[:n], src) into a zeroed n-byte array *)
Definition copy_into (n : nat) (src : list N) : list N := firstn n (src ++ repeat 0 n).

(* ---------------------------------------------------------------- Go slices with capacity *)
Record gslice := mkS { vis : list N; extra : list N }.
Definition gs_all (s : gslice) : list N := vis s ++ extra s.
Definition gs_cap (s : gslice) : nat := length (gs_all s).
Definition gs_nil : gslice := mkS [] [].           (* the nil slice a missing map key yields *)
Definition gs_of (l : list N) : gslice := mkS l []. (* cap = len *)

(* s[lo:hi] : panics unless lo <= hi <= cap(s) *)
Definition gs_sub (lo hi : nat) (s : gslice) : res gslice :=
  if (lo <=? hi)%nat && (hi <=? gs_cap s)%nat
  then Ok (mkS (firstn (hi - lo) (skipn lo (gs_all s))) (skipn hi (gs_all s)))
  else Panic.

(* cursor form used where cap = len and the pointer only moves forward:
   `rest` is peeled[pointer:];  peeled[pointer:pointer+n] panics iff n > len(rest) *)
Definition take (n : nat) (rest : list N) : res (list N * list N) :=
  if (n <=? length rest)%nat then Ok (firstn n rest, skipn n rest) else Panic.
(* peeled[pointer] *)
Definition take1 (rest : list N) : res (N * list N) :=
  match rest with b :: r => Ok (b, r) | [] => Panic end.

(* ---------------------------------------------------------------- parseExtensions *)
(* map[[2]byte][]byte as an association list; ret[typ] = data overwrites: the newest binding is
   consed in front and lookup returns the first match *)
Definition extmap := list (list N * gslice).
Fixpoint ext_get (k : list N) (m : extmap) : gslice :=
  match m with
  | [] => gs_nil
  | (k', v) :: m' => if bytes_eqb k k' then v else ext_get k m'
  end.

(* for pointer < totalLen { typ := input[pointer:pointer+2]; length := u16(input[pointer+2:pointer+4]);
                           data := input[pointer+4 : pointer+4+length]; ret[typ] = data }
   input = peeled[pointer:] has cap = len, `rest` = input[pointer:];  pointer < totalLen iff rest <> [] *)
Fixpoint pe_loop (fuel : nat) (rest : list N) (acc : extmap) : res extmap :=
  match fuel with
  | O => Err EFuel
  | S f =>
    match rest with
    | [] => Ok acc
    | _ =>
      '(typ, r1) <- take 2 rest ;;
      '(lenb, r2) <- take 2 r1 ;;
      '(data, r3) <- take (N.to_nat (be_val lenb)) r2 ;;
      pe_loop f r3 ((typ, mkS data r3) :: acc)
    end
  end.
Definition parseExtensions_raw (input : list N) : res extmap := pe_loop (S (length input)) input [].
Definition parseExtensions (input : list N) : res extmap :=
  recover_as EMalformedExts (parseExtensions_raw input).

(* ---------------------------------------------------------------- parseKeyShare *)
(* all = input[0:cap]; pointer <= cap is an invariant (every advance is preceded by a checked slice) *)
Fixpoint pks_loop (fuel : nat) (totalLen : nat) (pointer : nat) (input : gslice) : res (list N) :=
  match fuel with
  | O => Err EFuel
  | S f =>
    if (pointer <? totalLen)%nat then
      g <- gs_sub pointer (pointer + 2) input ;;
      if bytes_eqb [0; 0x1d] (vis g) then
        lb <- gs_sub (pointer + 2) (pointer + 4) input ;;
        let len := N.to_nat (be_val (vis lb)) in
        if negb (len =? 32)%nat then Err EKSLen
        else
          ks <- gs_sub (pointer + 4) (pointer + 4 + len) input ;;
          Ok (vis ks)
      else
        lb <- gs_sub (pointer + 2) (pointer + 4) input ;;
        let len := N.to_nat (be_val (vis lb)) in
        _ <- gs_sub (pointer + 4) (pointer + 4 + len) input ;;
        pks_loop f totalLen (pointer + 4 + len) input
    else Err ENoX25519
  end.
Definition parseKeyShare_raw (input : gslice) : res (list N) :=
  t <- gs_sub 0 2 input ;;
  pks_loop (S (gs_cap input)) (N.to_nat (be_val (vis t))) 2 input.
Definition parseKeyShare (input : gslice) : res (list N) :=
  recover_as EMalformedKS (parseKeyShare_raw input).

(* ---------------------------------------------------------------- parseClientHello *)
Record client_hello := mkCH {
  ch_handshakeType : N;
  ch_length : N;
  ch_clientVersion : list N;
  ch_random : list N;
  ch_sessionIdLen : nat;
  ch_sessionId : list N;
  ch_cipherSuitesLen : nat;
  ch_cipherSuites : list N;
  ch_compressionMethodsLen : nat;
  ch_compressionMethods : list N;
  ch_extensionsLen : nat;
  ch_extensions : extmap }.

(* data is taken with cap = len (dispatchConnection passes buf[:i] with i >= 5, where the two
   expressions that look at data, data[0:3] and data[5:], are within len anyway) *)
Definition parseClientHello_raw (data : list N) : res client_hello :=
  '(magic, _) <- take 3 data ;;                         (* data[0:3] *)
  if negb (bytes_eqb magic [0x16; 0x03; 0x01]) then Err EMagic
  else
  '(_, peeled) <- take 5 data ;;                        (* make([]byte, len(data)-5); copy(peeled, data[5:]) *)
  '(handshakeType, r1) <- take1 peeled ;;               (* peeled[0] *)
  if negb (handshakeType =? 1) then Err ENotHello
  else
  '(len3, r2) <- take 3 r1 ;;                           (* peeled[1:4] *)
  let length := be_val len3 in
  if negb (length =? N.of_nat (List.length r2)) then Err EHelloLen   (* length != len(peeled[pointer:]) *)
  else
  '(clientVersion, r3) <- take 2 r2 ;;
  '(random, r4) <- take 32 r3 ;;
  '(sidLenB, r5) <- take1 r4 ;;
  let sessionIdLen := N.to_nat sidLenB in
  '(sessionId, r6) <- take sessionIdLen r5 ;;
  '(csLenB, r7) <- take 2 r6 ;;
  let cipherSuitesLen := N.to_nat (be_val csLenB) in
  '(cipherSuites, r8) <- take cipherSuitesLen r7 ;;
  '(cmLenB, r9) <- take1 r8 ;;
  let compressionMethodsLen := N.to_nat cmLenB in
  '(compressionMethods, r10) <- take compressionMethodsLen r9 ;;
  '(extLenB, r11) <- take 2 r10 ;;
  let extensionsLen := N.to_nat (be_val extLenB) in
  (* extensions, err := parseExtensions(peeled[pointer:]) : err is the named result, ret is set, return *)
  extensions <- parseExtensions r11 ;;
  Ok (mkCH handshakeType length clientVersion random sessionIdLen sessionId cipherSuitesLen cipherSuites
           compressionMethodsLen compressionMethods extensionsLen extensions).
Definition parseClientHello (data : list N) : res client_hello :=
  recover_as EMalformedHello (parseClientHello_raw data).

(* ---------------------------------------------------------------- authFragments *)
Record fragments := mkFrag {
  f_shared : list N;       (* sharedSecret [32]byte *)
  f_rand : list N;         (* randPubKey [32]byte *)
  f_ct : list N }.         (* ciphertextWithTag [64]byte *)

Section WithDH.
  (* curve25519.X25519(priv, pub): None = error (all-zero output, "low order point") *)
  Variable dh : list N -> list N -> option (list N).

  Definition key_share_ext : list N := [0x00; 0x33].

  (* TLS.unmarshalClientHello *)
  Definition unmarshalClientHello (ch : client_hello) (staticPv : list N) : res fragments :=
    let randPubKey := copy_into 32 (ch_random ch) in          (* copy(fragments.randPubKey[:], ch.random) *)
    if negb (List.length randPubKey =? 32)%nat then Err EInvalidPub   (* ecdh.Unmarshal: len(data) != 32 *)
    else
    match dh staticPv randPubKey with
    | None => Err EDH
    | Some sharedSecret =>
      keyShare <- parseKeyShare (ext_get key_share_ext (ch_extensions ch)) ;;
      let ctxTag := ch_sessionId ch ++ keyShare in             (* append(ch.sessionId, keyShare...) *)
      if negb (List.length ctxTag =? 64)%nat then Err ECtLen
      else Ok (mkFrag (copy_into 32 sharedSecret) randPubKey (copy_into 64 ctxTag))
    end.

  (* TLS.processFirstPacket (fragments only; the responder is C06/C10 matter).  Every parse error
     becomes ErrBadClientHello; we keep the cause for the comparison of error classes. *)
  Definition tls_first_packet (data : list N) (staticPv : list N) : res fragments :=
    ch <- parseClientHello data ;;
    unmarshalClientHello ch staticPv.

  (* WebSocket.unmarshalHidden *)
  Definition unmarshalHidden (hidden : list N) (staticPv : list N) : res fragments :=
    if (List.length hidden <? 96)%nat then Err EBadGET
    else
    '(r, rest) <- take 32 hidden ;;                            (* hidden[0:32] *)
    let randPubKey := copy_into 32 r in
    if negb (List.length randPubKey =? 32)%nat then Err EInvalidPub
    else
    match dh staticPv randPubKey with
    | None => Err EDH
    | Some sharedSecret =>
      '(_, tail) <- take 32 hidden ;;                          (* hidden[32:] *)
      if negb (List.length tail =? 64)%nat then Err ECtLen
      else Ok (mkFrag (copy_into 32 sharedSecret) randPubKey (copy_into 64 tail))
    end.

  (* WebSocket.processFirstPacket from the black box's result on: None = http.ReadRequest failed,
     Some hidden = what base64.StdEncoding.DecodeString(req.Header.Get("hidden")) returned (its error is
     ignored by the code: a corrupt string yields the decoded prefix) *)
  Definition ws_first_packet (hidden : option (list N)) (staticPv : list N) : res fragments :=
    match hidden with
    | None => Err EHttp
    | Some h => unmarshalHidden h staticPv
    end.
End WithDH.
