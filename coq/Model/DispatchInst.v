(* Instantiation of the decision model with the Gallina AES-GCM (Model/Crypto/GCM.v) and X25519
   (Model/Crypto/X25519.v); what the extracted drivers of C09 and C07 run.  Executable definitions only. *)
From Coq Require Import NArith ZArith List Bool.
From Cloak Require Import Model.Hello Model.FirstPacket Model.Dispatch Model.Crypto.GCM Model.Crypto.X25519.
Import ListNotations.
Local Open Scope N_scope.

(* curve25519.X25519: an all-zero result is the error "low order point" *)
Definition dh_real (pv pub : list N) : option (list N) :=
  let r := x25519 pv pub in
  if forallb (N.eqb 0) r then None else Some r.

(* X25519 from a table (the driver supplies what Go computed), AES-GCM by the model *)
Definition decide_gcm (dh : list N -> list N -> option (list N)) := decide dh gcm_open.
Definition auth_gcm (dh : list N -> list N -> option (list N)) := auth_first_packet dh gcm_open.
Definition dispatch_gcm (dh : list N -> list N -> option (list N)) (hid : list N -> option (list N)) :=
  dispatch_conn dh gcm_open hid.
(* everything by the model *)
Definition decide_real := decide dh_real gcm_open.
