(* Model of the WRITE side of internal/common/websocket.go under several writer goroutines:
     func (ws *WebSocketConn) Write(data) { ws.writeM.Lock(); err := ws.WriteMessage(BinaryMessage, data); ws.writeM.Unlock() ... }
   One message travels as one or more WebSocket frames (the library fragments a message that is larger
   than its write buffer); every frame is one Write on the underlying connection; the last frame of
   a message carries FIN.  The peer's NextReader hands out the frames' payloads up to FIN as ONE
   message.  The writers are threads of a labelled transition system with the write mutex as explicit
   state; a second system without the mutex shows what the mutex is for.
   Executable definitions only: proofs live in Proofs/WsWriters.v. *)
From Coq Require Import NArith List Bool.
From Cloak Require Import Model.Record.
Import ListNotations.

Record wframe := { wf_fin : bool; wf_data : list N }.

(* cut a message into pieces of at most [S n] bytes ([length m] is enough fuel) *)
Fixpoint chunk (fuel n : nat) (m : list N) : list (list N) :=
  match fuel with
  | O => [m]
  | S f => if Nat.leb (length m) (S n) then [m] else firstn (S n) m :: chunk f n (skipn (S n) m)
  end.

Fixpoint mark_last (cs : list (list N)) : list wframe :=
  match cs with
  | [] => []
  | [c] => [{| wf_fin := true; wf_data := c |}]
  | c :: r => {| wf_fin := false; wf_data := c |} :: mark_last r
  end.

(* the frames of one message for a write buffer of [S n] bytes; never empty, exactly the last has FIN *)
Definition frag (n : nat) (m : list N) : list wframe := mark_last (chunk (length m) n m).

(* what the peer's message reader makes of a frame sequence: completed messages, and the payload
   bytes of a message whose FIN has not arrived yet *)
Fixpoint reasm (acc : list N) (fs : list wframe) : list (list N) * list N :=
  match fs with
  | [] => ([], acc)
  | f :: r => if wf_fin f then let (ms, p) := reasm [] r in ((acc ++ wf_data f) :: ms, p)
              else reasm (acc ++ wf_data f) r
  end.

(* ---- writers serialised by writeM ------------------------------------------------------ *)
Inductive wact := WLock | WEmit | WUnlock.

Record wstate := {
  w_lock : option nat;                 (* holder of writeM *)
  w_queues : list (list (list N));     (* messages each writer has still to pass to Write *)
  w_pending : list wframe;             (* frames of the holder's message not yet handed to the conn *)
  w_wire : list wframe                 (* frames the underlying connection has taken, in order *)
}.

Definition w_init (qs : list (list (list N))) : wstate :=
  {| w_lock := None; w_queues := qs; w_pending := []; w_wire := [] |}.

(* writer [i] performs [a]; None = the step is not enabled (a writer waiting for the mutex simply
   does not move) *)
Definition wstep (n : nat) (st : wstate) (ia : nat * wact) : option wstate :=
  let (i, a) := ia in
  match a with
  | WLock =>
      match w_lock st with
      | Some _ => None
      | None => match pop_nth i (w_queues st) with
                | None => None
                | Some (m, qs') => Some {| w_lock := Some i; w_queues := qs'; w_pending := frag n m; w_wire := w_wire st |}
                end
      end
  | WEmit =>
      match w_lock st, w_pending st with
      | Some j, f :: r => if Nat.eqb i j
                          then Some {| w_lock := Some j; w_queues := w_queues st; w_pending := r; w_wire := w_wire st ++ [f] |}
                          else None
      | _, _ => None
      end
  | WUnlock =>
      match w_lock st, w_pending st with
      | Some j, [] => if Nat.eqb i j
                      then Some {| w_lock := None; w_queues := w_queues st; w_pending := []; w_wire := w_wire st |}
                      else None
      | _, _ => None
      end
  end.

Fixpoint wrun (n : nat) (st : wstate) (tr : list (nat * wact)) : option wstate :=
  match tr with
  | [] => Some st
  | x :: t => match wstep n st x with Some st' => wrun n st' t | None => None end
  end.

(* the serialisation order: which writer took the mutex, in order *)
Fixpoint lock_order (tr : list (nat * wact)) : list nat :=
  match tr with
  | [] => []
  | (i, WLock) :: t => i :: lock_order t
  | _ :: t => lock_order t
  end.

(* ---- the same writers WITHOUT the mutex -------------------------------------------------- *)
Record ustate := {
  u_queues : list (list (list N));
  u_pending : list (list wframe);      (* per writer *)
  u_wire : list wframe
}.

Fixpoint set_nth {A} (i : nat) (x : A) (l : list A) : list A :=
  match l, i with
  | [], _ => []
  | _ :: r, O => x :: r
  | y :: r, S j => y :: set_nth j x r
  end.

Definition ustep (n : nat) (st : ustate) (ia : nat * wact) : option ustate :=
  let (i, a) := ia in
  match a with
  | WLock =>                          (* enters WriteMessage at once *)
      match nth i (u_pending st) [], pop_nth i (u_queues st) with
      | [], Some (m, qs') => Some {| u_queues := qs'; u_pending := set_nth i (frag n m) (u_pending st); u_wire := u_wire st |}
      | _, _ => None
      end
  | WEmit =>
      match nth i (u_pending st) [] with
      | f :: r => Some {| u_queues := u_queues st; u_pending := set_nth i r (u_pending st); u_wire := u_wire st ++ [f] |}
      | [] => None
      end
  | WUnlock => Some st
  end.

Fixpoint urun (n : nat) (st : ustate) (tr : list (nat * wact)) : option ustate :=
  match tr with
  | [] => Some st
  | x :: t => match ustep n st x with Some st' => urun n st' t | None => None end
  end.
