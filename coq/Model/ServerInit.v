(* Hand-written model of the configuration layer of internal/server/state.go:
     parseRedirAddr, parseProxyBook, InitState   (RawConfig -> State), State.IsBypass
   i.e. which UIDs are served without consulting the user database, who the admin is, which proxy methods are
   served, which user manager is used - plus the other values InitState derives (KeepAlive of the proxy dialer,
   redirect host / port).  Executable definitions only.

   Black boxes, passed as parameters: net.ResolveIPAddr / ResolveTCPAddr / ResolveUDPAddr (does the string resolve?),
   opening the bolt database (its content, or failure).  strings.ToLower is modelled on ASCII.
   Go maps: RawConfig.ProxyBook is a map (distinct names, iteration order unspecified); the model takes the entries
   as a list and the only order-dependent fact (which address wins when two names differ only in case) is not
   represented - the State's ProxyBook is modelled by its key set, as in Model/Dispatch.v. *)
From Coq Require Import NArith ZArith List Bool Arith.
From Cloak Require Import Model.Hello Model.FirstPacket Model.Dispatch.
Import ListNotations.
Local Open Scope N_scope.

Record raw_config := mkRaw {
  rc_book : list (list N * list (list N));   (* ProxyBook: name -> [network, address] (any number of strings) *)
  rc_bypass : list (list N);                 (* BypassUID *)
  rc_redir : list N;                         (* RedirAddr *)
  rc_privateKey : list N;
  rc_admin : list N;                         (* AdminUID; [] = not configured *)
  rc_dbPath : list N;                        (* DatabasePath; [] = "" *)
  rc_keepAlive : Z;
  rc_cnc : bool }.

Inductive init_err := IECnc | IEDb | IERedir | IEBook | IEKey.
Inductive ires (A : Type) := IOk (a : A) | IErr (e : init_err).
Arguments IOk {A} a.
Arguments IErr {A} e.

(* ------------------------------------------------------------------ strings *)
Definition lower1 (b : N) : N := if (65 <=? b) && (b <=? 90) then b + 32 else b.
Definition lower (s : list N) : list N := map lower1 s.

(* strings.Split(s, ":") *)
Fixpoint split_on (sep : N) (s : list N) (cur : list N) : list (list N) :=
  match s with
  | [] => [rev cur]
  | b :: t => if b =? sep then rev cur :: split_on sep t [] else split_on sep t (b :: cur)
  end.
Definition split_colon (s : list N) : list (list N) := split_on 58 s [].

Fixpoint has_prefix (p s : list N) : bool :=
  match p, s with
  | [], _ => true
  | x :: p', y :: s' => (x =? y) && has_prefix p' s'
  | _, [] => false
  end.
Definition trim_prefix (p s : list N) : list N := if has_prefix p s then skipn (length p) s else s.
Definition trim_suffix (p s : list N) : list N :=
  if has_prefix (rev p) (rev s) then firstn (length s - length p) s else s.

(* parseRedirAddr up to the resolution: (host, port) *)
Definition redir_host_port (s : list N) : list N * list N :=
  let cs := split_colon s in
  match cs with
  | [h; p] => (h, p)                                         (* domain or ipv4 with port *)
  | _ :: _ :: _ =>
    if existsb (N.eqb 91) s then                             (* contains "[" : ipv6 with port *)
      let port := last cs [] in
      (trim_prefix [91] (trim_suffix ([93; 58] ++ port) s), port)
    else (s, [])                                             (* ipv6 without port *)
  | _ => (s, [])                                             (* domain or ipv4 without port *)
  end.

(* ------------------------------------------------------------------ parseProxyBook *)
Definition tcp : list N := [116; 99; 112].
Definition udp : list N := [117; 100; 112].

Section Init.
  Variable resolve_ip : list N -> bool.                        (* net.ResolveIPAddr("ip", host) succeeds *)
  Variable resolve_addr : list N -> list N -> bool.            (* net.ResolveTCPAddr / ResolveUDPAddr (network, address) succeeds *)
  Variable db_open : list N -> option (list (list N * urec)).  (* bolt.Open(path): the records, or failure *)

  (* one entry: None = error; Some None = silently skipped (network neither tcp nor udp); Some (Some key) *)
  Definition book_entry (e : list N * list (list N)) : option (option (list N)) :=
    let name := lower (fst e) in
    match snd e with
    | [network; address] =>
      let nw := lower network in
      if bytes_eqb nw tcp || bytes_eqb nw udp then
        if resolve_addr nw address then Some (Some name) else None
      else Some None
    | _ => None
    end.
  Fixpoint parse_book (l : list (list N * list (list N))) : option (list (list N)) :=
    match l with
    | [] => Some []
    | e :: t =>
      match book_entry e, parse_book t with
      | Some (Some k), Some ks => Some (k :: ks)
      | Some None, Some ks => Some ks
      | _, _ => None
      end
    end.

  (* ---------------------------------------------------------------- the bypass set *)
  (* copy(arrUID[:], UID) into the ONE array shared by all iterations: a UID shorter than 16 bytes keeps the tail
     the previous entry left there *)
  Definition copy_arr (arr uid : list N) : list N := firstn 16 (uid ++ skipn (length uid) arr).
  Fixpoint bypass_loop (arr : list N) (l : list (list N)) (keys : list (list N)) : list N * list (list N) :=
    match l with
    | [] => (arr, keys)
    | uid :: t => let a := copy_arr arr uid in bypass_loop a t (a :: keys)
    end.
  Definition bypass_keys (bypass : list (list N)) (admin : list N) : list (list N) :=
    let '(arr, keys) := bypass_loop (repeat 0 16) bypass [] in
    if (length admin =? 0)%nat then keys else copy_arr arr admin :: keys.

  (* ---------------------------------------------------------------- InitState *)
  Record init_out := mkInit {
    io_state : server_state;
    io_local_manager : bool;       (* localManager on DatabasePath (true) or Voidmanager (false) *)
    io_keepAlive : Z;              (* net.Dialer.KeepAlive of the proxy dialer in ns; -1 = keep-alives disabled *)
    io_redirHost : list N;
    io_redirPort : list N }.

  Definition init_state (rc : raw_config) : ires init_out :=
    if rc_cnc rc then IErr IECnc
    else
    let void := (length (rc_admin rc) =? 0)%nat || (length (rc_dbPath rc) =? 0)%nat in
    match (if void then Some [] else db_open (rc_dbPath rc)) with
    | None => IErr IEDb
    | Some db =>
      let ka := if (rc_keepAlive rc <=? 0)%Z then (-1)%Z else (rc_keepAlive rc * 1000000000)%Z in
      let '(host, port) := redir_host_port (rc_redir rc) in
      if negb (resolve_ip host) then IErr IERedir
      else
      match parse_book (rc_book rc) with
      | None => IErr IEBook
      | Some book =>
        if (length (rc_privateKey rc) =? 0)%nat then IErr IEKey
        else
          IOk (mkInit (mkSt (copy_into 32 (rc_privateKey rc)) (rc_admin rc)
                            (bypass_keys (rc_bypass rc) (rc_admin rc)) book [] [] db)
                      (negb void) ka host port)
      end
    end.

  (* State.IsBypass(UID): copy into a fresh zero array, look it up *)
  Definition is_bypass (st : server_state) (uid : list N) : bool := mem_bytes (copy_into 16 uid) (st_bypass st).
End Init.
