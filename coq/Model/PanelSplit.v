(* Small-step variants of two panel operations that Model/Panel.v treats as one critical section,
   with the atomicity decision as an explicit PARAMETER.  Executable definitions only; the
   proofs are in Proofs/PanelSplit.v.

   1. userPanel.GetUser (userpanel.go) split into  lock / lookup / authenticate / insert.
        held = true   the code as it is: activeUsersM is taken before the lookup and released after
                      the insertion (defer Unlock), so it is kept across Manager.AuthenticateUser;
        held = false  lookup under the lock, user database queried unlocked, insertion under a
                      second acquisition without looking again (the seeded changes C17_m2 / C19_m2).
      The answer of the user database is an input of the authenticate step (it may change between
      any two steps: the admin API is not synchronised with the panel).
      Proofs/PanelSplit.v: with held = true every run refines the atomic GetUser of Model/Panel.v
      (step D1) executed in the order of the lock releases, hence one record per UID and every
      caller gets that record; with held = false a six-step run gives two callers two records.
      What the generated obligation GetUser_lookup_authenticate_insert_one_step (Proofs/AtomPanel.v)
      buys is exactly the premise held = true.

   2. userPanel.commitUpdate split into  read+reset / upload  (early = true: the code as it is:
      the queue is emptied in the critical section that reads it) or  read / upload / reset
      (early = false: the queue is emptied in a second critical section after the upload, the
      seeded change C16_m2), running against traffic and collection rounds.
      Proofs/PanelSplit.v: with early = true every byte counted is in exactly one place in every
      reachable state (so it is charged exactly once); with early = false two short runs lose
      usage resp. charge it twice. *)
From Coq Require Import ZArith NArith List Bool.
Import ListNotations.

(* ------------------------------------------------------------------ 1. GetUser *)
Inductive gpc :=
| GStart (u : N)                 (* about to take activeUsersM *)
| GLocked (u : N)                (* holds it (held) : about to look the UID up *)
| GLooked (u : N)                (* lookup missed: about to call Manager.AuthenticateUser *)
| GAuthed (u : N) (ok : bool)    (* the database has answered: about to insert / give up *)
| GDone (u : N) (r : option nat) (* returned record r / an error *)
| GNone.                         (* no such thread *)

Record gstate := mkG {
  g_table : N -> option nat;     (* panel.activeUsers *)
  g_nrec : nat;                  (* records created so far (a record = a valve) *)
  g_lock : option nat;           (* holder of activeUsersM *)
  g_thr : list gpc;
  g_log : list (N * bool * option nat)   (* ghost: (uid, database answer used, result) in the order
                                            in which the calls took effect *)
}.

Definition g_init (thr : list gpc) : gstate := mkG (fun _ => None) 0 None thr [].

Definition updN' {A} (f : N -> A) (i : N) (x : A) : N -> A :=
  fun j => if N.eqb j i then x else f j.

Fixpoint set_nth {A} (l : list A) (i : nat) (x : A) : list A :=
  match l, i with
  | [], _ => []
  | _ :: t, O => x :: t
  | h :: t, S j => h :: set_nth t j x
  end.

Definition gget (s : gstate) (t : nat) : gpc := nth t (g_thr s) GNone.
Definition ggoto (s : gstate) (t : nat) (p : gpc) : list gpc := set_nth (g_thr s) t p.

(* the atomic GetUser: step D1 of Model/Panel.v restricted to the table (ok = the answer of
   Manager.AuthenticateUser, i.e. authenticate (now s) (db s) u = AOk) *)
Definition atomic_getuser (tb : N -> option nat) (n : nat) (u : N) (ok : bool)
  : (N -> option nat) * nat * option nat :=
  match tb u with
  | Some r => (tb, n, Some r)
  | None => if ok then (updN' tb u (Some n), S n, Some n) else (tb, n, None)
  end.

(* one step of thread t; ok is consumed by the authenticate step only *)
Definition gstep (held : bool) (s : gstate) (t : nat) (ok : bool) : option gstate :=
  match gget s t with
  | GStart u =>
      match g_lock s with
      | Some _ => None
      | None =>
          if held then Some (mkG (g_table s) (g_nrec s) (Some t) (ggoto s t (GLocked u)) (g_log s))
          else (* RLock; lookup; RUnlock as one step *)
            match g_table s u with
            | Some r => Some (mkG (g_table s) (g_nrec s) None (ggoto s t (GDone u (Some r)))
                                  (g_log s ++ [(u, false, Some r)]))
            | None => Some (mkG (g_table s) (g_nrec s) None (ggoto s t (GLooked u)) (g_log s))
            end
      end
  | GLocked u =>
      match g_table s u with
      | Some r => Some (mkG (g_table s) (g_nrec s) None (ggoto s t (GDone u (Some r)))
                            (g_log s ++ [(u, false, Some r)]))
      | None => Some (mkG (g_table s) (g_nrec s) (g_lock s) (ggoto s t (GLooked u)) (g_log s))
      end
  | GLooked u => Some (mkG (g_table s) (g_nrec s) (g_lock s) (ggoto s t (GAuthed u ok)) (g_log s))
  | GAuthed u a =>
      let unlocked := if held then true else match g_lock s with None => true | Some _ => false end in
      if unlocked then
        if a then
          Some (mkG (updN' (g_table s) u (Some (g_nrec s))) (S (g_nrec s)) None
                    (ggoto s t (GDone u (Some (g_nrec s)))) (g_log s ++ [(u, true, Some (g_nrec s))]))
        else
          Some (mkG (g_table s) (g_nrec s) None (ggoto s t (GDone u None)) (g_log s ++ [(u, false, None)]))
      else None
  | GDone _ _ => None
  | GNone => None
  end.

Fixpoint grun (held : bool) (s : gstate) (sched : list (nat * bool)) : option gstate :=
  match sched with
  | [] => Some s
  | (t, ok) :: rest => match gstep held s t ok with Some s' => grun held s' rest | None => None end
  end.

(* the calls of the log executed one after the other by the atomic GetUser *)
Fixpoint replay_atomic (tb : N -> option nat) (n : nat) (log : list (N * bool * option nat))
  : (N -> option nat) * nat * bool :=
  match log with
  | [] => (tb, n, true)
  | (u, ok, r) :: rest =>
      let '(tb', n', r') := atomic_getuser tb n u ok in
      let '(tb'', n'', good) := replay_atomic tb' n' rest in
      (tb'', n'', good && match r, r' with
                          | Some a, Some b => Nat.eqb a b
                          | None, None => true
                          | _, _ => false
                          end)
  end.

(* ------------------------------------------------------------------ 2. commitUpdate *)
Local Open Scope Z_scope.

Inductive cpc :=
| CIdle                  (* about to take usageUpdateQueueM *)
| CRead (st : Z)         (* has left the first critical section with the statuses: Manager.UploadStatus next *)
| CUploaded              (* early = false only: about to take the lock again and empty the queue *)
| CDone.

Record cstate := mkC {
  c_valve : Z;           (* LimitedValve counter: counted, not collected *)
  c_queue : Z;           (* usageUpdateQueue entry of the user *)
  c_charged : Z;         (* subtracted from the stored credit *)
  c_counted : Z;         (* ghost: everything the valve ever counted *)
  c_thr : list cpc
}.

Inductive clabel :=
| CTraffic (n : Z)       (* AddRx / AddTx *)
| CCollect               (* updateUsageQueue / updateUsageQueueForOne: Nullify into the queue *)
| CRun (t : nat).        (* next step of commitUpdate thread t *)

Definition c_init (thr : list cpc) : cstate := mkC 0 0 0 0 thr.

Definition cstep (early : bool) (s : cstate) (l : clabel) : option cstate :=
  match l with
  | CTraffic n =>
      if 0 <=? n then Some (mkC (c_valve s + n) (c_queue s) (c_charged s) (c_counted s + n) (c_thr s))
      else None
  | CCollect => Some (mkC 0 (c_queue s + c_valve s) (c_charged s) (c_counted s) (c_thr s))
  | CRun t =>
      match nth t (c_thr s) CDone with
      | CIdle => Some (mkC (c_valve s) (if early then 0 else c_queue s) (c_charged s) (c_counted s)
                           (set_nth (c_thr s) t (CRead (c_queue s))))
      | CRead st => Some (mkC (c_valve s) (c_queue s) (c_charged s + st) (c_counted s)
                              (set_nth (c_thr s) t (if early then CDone else CUploaded)))
      | CUploaded => Some (mkC (c_valve s) 0 (c_charged s) (c_counted s) (set_nth (c_thr s) t CDone))
      | CDone => None
      end
  end.

Fixpoint crun (early : bool) (s : cstate) (ls : list clabel) : option cstate :=
  match ls with
  | [] => Some s
  | l :: rest => match cstep early s l with Some s' => crun early s' rest | None => None end
  end.

(* usage taken out of the queue by commits that have not uploaded it yet *)
Fixpoint inflight (thr : list cpc) : Z :=
  match thr with
  | [] => 0
  | CRead st :: rest => st + inflight rest
  | _ :: rest => inflight rest
  end.

Definition c_quiet (s : cstate) : bool :=
  (c_valve s =? 0) && (c_queue s =? 0) &&
  forallb (fun p => match p with CDone => true | CIdle => true | _ => false end) (c_thr s).
