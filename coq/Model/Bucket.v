(* Model of the token bucket that limits a user's throughput: github.com/juju/ratelimit v1.0.2
   (ratelimit.go: take, adjustavailableTokens, currentTick, Wait, NewBucketWithRate), used by
   internal/multiplex/qos.go (MakeValve: one bucket per direction, capacity = rate tokens) and
   internal/multiplex/switchboard.go (send: txWait(len) BEFORE the write; deplex: rxWait(n) after
   the read and before the data is processed).  Executable definitions only.

   Time is Z nanoseconds measured from the bucket's startTime (now.Sub(tb.startTime)). *)
From Coq Require Import ZArith List Bool.
Import ListNotations.
Local Open Scope Z_scope.

Record params := mkParams { capacity : Z; quantum : Z; fillInterval : Z }.
Record bstate := mkB { avail : Z; (* availableTokens: negative while consumers wait *)
                       ltick : Z  (* latestTick *) }.

Definition binit (p : params) : bstate := mkB (capacity p) 0.

(* currentTick: int64(now.Sub(tb.startTime) / tb.fillInterval) *)
Definition tick_of (p : params) (now : Z) : Z := now / fillInterval p.

(* adjustavailableTokens *)
Definition adjust (p : params) (st : bstate) (tick : Z) : bstate :=
  if capacity p <=? avail st then mkB (avail st) tick
  else let a := avail st + (tick - ltick st) * quantum p in
       mkB (if capacity p <? a then capacity p else a) tick.

(* take(now, count, maxWait) -> (waitTime, ok); None = "would wait longer than maxWait"
   (the bucket has still been adjusted to the current tick in that case) *)
Definition take_max (p : params) (st : bstate) (now count : Z) (maxWait : option Z) : bstate * option Z :=
  if count <=? 0 then (st, Some 0) else
  let tick := tick_of p now in
  let st1 := adjust p st tick in
  let av := avail st1 - count in
  if 0 <=? av then (mkB av tick, Some 0) else
  let endTick := tick + (- av + quantum p - 1) / quantum p in
  let waitTime := endTick * fillInterval p - now in
  match maxWait with
  | Some m => if m <? waitTime then (st1, None) else (mkB av tick, Some waitTime)
  | None => (mkB av tick, Some waitTime)
  end.

(* Take / Wait: maxWait = infinityDuration.  Wait(count) sleeps the returned duration. *)
Definition take (p : params) (st : bstate) (now count : Z) : bstate * Z :=
  match take_max p st now count None with
  | (st', Some w) => (st', w)
  | (st', None) => (st', 0)      (* unreachable *)
  end.

(* A request = (time of the Wait call, number of tokens); its release time is the moment the
   ideal sleep ends: call time + wait.  [run] returns (release time, count) per request. *)
Fixpoint run (p : params) (st : bstate) (reqs : list (Z * Z)) : list (Z * Z) :=
  match reqs with
  | [] => []
  | (t, c) :: r => let (st', w) := take p st t c in (t + w, c) :: run p st' r
  end.

(* bytes released in the closed interval [s, e] *)
Fixpoint released (s e : Z) (out : list (Z * Z)) : Z :=
  match out with
  | [] => 0
  | (r, c) :: o => (if (s <=? r) && (r <=? e) then c else 0) + released s e o
  end.

(* a backlogged sequential sender (switchboard.send in a loop: txWait, write, next txWait): each
   request is issued at the moment the previous one was released *)
Fixpoint run_seq (p : params) (st : bstate) (t : Z) (cs : list Z) : list (Z * Z) :=
  match cs with
  | [] => []
  | c :: r => let (st', w) := take p st t c in (t + w, c) :: run_seq p st' (t + w) r
  end.

(* NOT what the valve does - the limited variant the library also offers, as seeded change C19_r2m2 used
   it: rxWait/txWait calling WaitMaxDuration(count, maxWait) and ignoring the result.  A request whose
   wait would exceed maxWait takes no token and is released at once (the caller carries on). *)
Fixpoint run_capped (p : params) (st : bstate) (maxWait : Z) (reqs : list (Z * Z)) : list (Z * Z) :=
  match reqs with
  | [] => []
  | (t, c) :: r =>
      match take_max p st t c (Some maxWait) with
      | (st', Some w) => (t + w, c) :: run_capped p st' maxWait r
      | (st', None) => (t, c) :: run_capped p st' maxWait r
      end
  end.

(* the same sender pausing gap_i before its i-th request (gap 0 everywhere = run_seq) *)
Fixpoint run_gaps (p : params) (st : bstate) (t : Z) (gcs : list (Z * Z)) : list (Z * Z) :=
  match gcs with
  | [] => []
  | (g, c) :: r => let (st', w) := take p st (t + g) c in (t + g + w, c) :: run_gaps p st' (t + g + w) r
  end.

(* Available(): adjusts the bucket to the current tick and reports the token count *)
Definition available (p : params) (st : bstate) (now : Z) : bstate * Z :=
  let st1 := adjust p st (tick_of p now) in (st1, avail st1).

(* operations of the differential test against the library with an injected clock *)
(* BWait / BWaitMax: Wait(c) / WaitMaxDuration(c, m) on a bucket whose clock is the injected one: the
   library sleeps the duration take returned ON THAT CLOCK (ideal sleep: now advances by exactly the
   wait); WaitMaxDuration returns false at once, WITHOUT having taken any token, when the wait would
   exceed m *)
Inductive bop := BAdvance (d : Z) | BTake (c : Z) | BTakeMax (c m : Z) | BAvailable | BWait (c : Z) | BWaitMax (c m : Z).
Inductive bres := RWait (w : Z) | RRefused | RAvail (a : Z) | RNone.

Fixpoint bops (p : params) (st : bstate) (now : Z) (ops : list bop) : list bres :=
  match ops with
  | [] => []
  | BAdvance d :: r => RNone :: bops p st (now + d) r
  | BTake c :: r => let (st', w) := take p st now c in RWait w :: bops p st' now r
  | BTakeMax c m :: r =>
      match take_max p st now c (Some m) with
      | (st', Some w) => RWait w :: bops p st' now r
      | (st', None) => RRefused :: bops p st' now r
      end
  | BAvailable :: r => let (st', a) := available p st now in RAvail a :: bops p st' now r
  | BWait c :: r => let (st', w) := take p st now c in RWait w :: bops p st' (now + w) r
  | BWaitMax c m :: r =>
      match take_max p st now c (Some m) with
      | (st', Some w) => RWait w :: bops p st' (now + w) r
      | (st', None) => RRefused :: bops p st' now r
      end
  end.

(* ------------------------------------------------------------ NewBucketWithRate *)
(* The quantum search uses float64 arithmetic; its RESULT (quantum, fillInterval) is reported by the
   driver for every rate used and validated here: the candidate sequence is reproduced exactly
   (integers), the acceptance test |q*1e9/F - rate| <= 1% rate is checked in integers with one unit
   of slack for the float rounding of fillInterval (see [rate_ok]). *)
Definition next_quantum (q : Z) : Z := let q1 := q * 11 / 10 in if q1 =? q then q1 + 1 else q1.

(* the candidate quanta 1, 2, 3, ... in the order the loop tries them *)
Fixpoint quanta (fuel : nat) (q : Z) : list Z :=
  match fuel with O => [] | S f => q :: quanta f (next_quantum q) end.

(* fillInterval = time.Duration(1e9 * float64(quantum) / rate) for an integral rate: the
   truncated quotient (exact whenever 1e9*quantum < 2^53, which holds for the quanta tried here) *)
Definition fill_for (rate q : Z) : Z := (1000000000 * q) / rate.

(* |tb.Rate() - rate| / rate <= 0.01 with tb.Rate() = 1e9 * q / F *)
Definition rate_ok (rate q F : Z) : bool :=
  (0 <? F) && (100 * Z.abs (1000000000 * q - rate * F) <=? rate * F).

Fixpoint search (rate : Z) (qs : list Z) : option (Z * Z) :=
  match qs with
  | [] => None
  | q :: r => let F := fill_for rate q in
              if rate_ok rate q F then Some (q, F) else search rate r
  end.

Definition new_bucket_with_rate (rate cap : Z) : option params :=
  match search rate (quanta 400 1) with
  | Some (q, F) => Some (mkParams cap q F)
  | None => None
  end.

(* MakeValve(rxRate, txRate): ratelimit.NewBucketWithRate(float64(rate), rate) per direction *)
Definition make_valve (rxRate txRate : Z) : option (params * params) :=
  match new_bucket_with_rate rxRate rxRate, new_bucket_with_rate txRate txRate with
  | Some rx, Some tx => Some (rx, tx)
  | _, _ => None
  end.

(* ------------------------------------------------------------ one valve per active user *)
(* userPanel.GetUser creates the ActiveUser with one valve; ActiveUser.GetSession stores
   config.Valve = u.valve in every session it creates.  Valves are identified by a number. *)
Record auser := mkU { u_valve : nat; u_sessions : list (nat * nat) (* session id -> valve *) }.

Fixpoint find_session (sid : nat) (l : list (nat * nat)) : option nat :=
  match l with
  | [] => None
  | (s, v) :: r => if Nat.eqb s sid then Some v else find_session sid r
  end.

Definition get_session (u : auser) (sid : nat) : auser * nat :=
  match find_session sid (u_sessions u) with
  | Some v => (u, v)
  | None => (mkU (u_valve u) ((sid, u_valve u) :: u_sessions u), u_valve u)
  end.

(* requests tagged with the session that issues them, all served by the user's single bucket *)
Fixpoint run_tagged (p : params) (st : bstate) (reqs : list (nat * Z * Z)) : list (nat * Z * Z) :=
  match reqs with
  | [] => []
  | (sid, t, c) :: r => let (st', w) := take p st t c in (sid, t + w, c) :: run_tagged p st' r
  end.
