(* Which session key a connection's handshake reply carries (internal/server/dispatcher.go, user branch, and
   activeuser.go GetSession): every connection draws a fresh 32-byte key (common.RandRead) BEFORE it knows whether its
   session exists; GetSession(sid) returns the existing session of that id - the fresh key is then dropped - or makes
   a new session holding the fresh key; the reply is sealed around sesh.GetSessionKey(), i.e. the key of the session
   the connection JOINED.  One user's session table is an association list sid -> key.  Executable definitions only. *)
From Coq Require Import NArith List.
Import ListNotations.
Local Open Scope N_scope.

Definition sess_table := list (N * list N).

Fixpoint tbl_get (sid : N) (t : sess_table) : option (list N) :=
  match t with
  | [] => None
  | (s, k) :: t' => if s =? sid then Some k else tbl_get sid t'
  end.

(* one connection: (the key its reply carries = the session's key, the table afterwards) *)
Definition join_session (t : sess_table) (sid : N) (fresh : list N) : list N * sess_table :=
  match tbl_get sid t with
  | Some k => (k, t)
  | None => (fresh, (sid, fresh) :: t)
  end.

(* a sequence of connections (sid, fresh key drawn): the key each reply carries *)
Fixpoint serve_keys (t : sess_table) (conns : list (N * list N)) : list (list N) :=
  match conns with
  | [] => []
  | (sid, fresh) :: rest => let '(k, t') := join_session t sid fresh in k :: serve_keys t' rest
  end.
Fixpoint table_after (t : sess_table) (conns : list (N * list N)) : sess_table :=
  match conns with
  | [] => t
  | (sid, fresh) :: rest => table_after (snd (join_session t sid fresh)) rest
  end.
