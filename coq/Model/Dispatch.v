(* Hand-written model of the decision structure of internal/server:
     auth.go        decryptClientInfo, AuthFirstPacket
     state.go       registerRandom (fixed code: cache key = random with bit 255 cleared), IsBypass
     dispatcher.go  dispatchConnection: MakeObfuscator, admin gate, ProxyBook, user lookup, GetSession, goWeb
     userpanel.go   GetUser / GetBypassUser (active users first, then the user manager)
     usermanager/localmanager.go  AuthenticateUser, AuthoriseNewSession (Voidmanager = empty database)
     activeuser.go  GetSession
   as a pure function of packet, server state and clock.  Executable definitions only.

   X25519 and AES-GCM are section variables (instantiated by Model/Crypto/X25519.v and GCM.v in the
   extraction; the theorems hold for every instantiation).  Times are Z nanoseconds since the Unix
   epoch. *)
From Coq Require Import NArith ZArith List Bool Arith.
From Cloak Require Import Gen.Consts Model.Hello Model.FirstPacket.
Import ListNotations.
Local Open Scope N_scope.

(* ------------------------------------------------------------------------------ data *)
Inductive packet :=
| PTLS (data : list N)                  (* transport TLS{}: the bytes of the first record *)
| PWS (hidden : option (list N)).       (* transport WebSocket{}: result of http.ReadRequest + base64 *)

Record client_info := mkCI {
  ci_uid : list N; ci_sid : N; ci_method : list N; ci_enc : N; ci_unordered : bool }.

Inductive reason :=
| RParse (e : perr)   (* transport.processFirstPacket failed *)
| RReplay             (* ErrReplay *)
| RDecrypt            (* AES-GCM open failed *)
| RWindow             (* ErrTimestampOutOfWindow *)
| REnc                (* MakeObfuscator: unknown encryption method *)
| RMethod             (* ErrBadProxyMethod *)
| RUID.               (* GetUser failed: unauthorised UID *)

Inductive decision :=
| Redirect (r : reason)
| AdminSession
| ProxySession (uid : list N) (sid : N) (method : list N) (enc : N) (unordered : bool)
| DropConn            (* GetSession refused: the function returns, nothing written, nothing relayed *)
| Crash.              (* an index panic outside every recover(): proved unreachable *)

(* user database record (values as the code reads them: int64(u64(..)), int(u32(..))) *)
Record urec := mkU { u_upCredit : Z; u_downCredit : Z; u_expiry : Z; u_sessionsCap : Z }.
(* ActiveUser: uid, the bypass flag it was CREATED with, ids of its sessions *)
Record active := mkA { a_uid : list N; a_bypass : bool; a_sessions : list N }.

Record server_state := mkSt {
  st_staticPv : list N;
  st_adminUID : list N;
  st_bypass : list (list N);              (* keys of State.BypassUID *)
  st_proxyBook : list (list N);           (* keys of State.ProxyBook, as byte strings *)
  st_usedRandom : list (list N);          (* keys of State.UsedRandom *)
  st_active : list active;                (* userPanel.activeUsers *)
  st_db : list (list N * urec) }.         (* the bolt database; Voidmanager = [] *)

(* ------------------------------------------------------------------------------ helpers *)
Definition ns_per_s : Z := 1000000000.
Definition tolerance : Z := server_timestampTolerance_ns.
Definition unixToInternal : Z := 62135596800.        (* package time: seconds from year 1 to 1970 *)
Definition two63 : Z := 9223372036854775808.
Definition two64 : Z := 18446744073709551616.
Definition wrap64 (z : Z) : Z := ((z + two63) mod two64 - two63)%Z.     (* int64 arithmetic *)
Definition int64_of (n : N) : Z := wrap64 (Z.of_N n).                     (* int64(uint64) *)

(* bytes.Trim(b, "\x00") *)
Fixpoint drop0 (l : list N) : list N :=
  match l with
  | 0 :: t => drop0 t
  | _ => l
  end.
Definition trim0 (l : list N) : list N := rev (drop0 (rev (drop0 l))).

Definition mem_bytes (k : list N) (l : list (list N)) : bool := existsb (bytes_eqb k) l.

(* r[31] &= 0x7f *)
Definition mask255 (r : list N) : list N :=
  firstn 31 r ++ match skipn 31 r with b :: t => N.land b 127 :: t | [] => [] end.

(* registerRandom: (used, new key set) *)
Definition register_random (cache : list (list N)) (r : list N) : bool * list (list N) :=
  let k := mask255 r in (mem_bytes k cache, if mem_bytes k cache then cache else k :: cache).

(* time.Unix(ts,0).After(serverTime.Add(-tol)) && .Before(serverTime.Add(tol)):
   time.Unix stores ts + unixToInternal in an int64 (wraps for absurd ts) *)
Definition client_ns (ts : N) : Z :=
  ((wrap64 (int64_of ts + unixToInternal) - unixToInternal) * ns_per_s)%Z.
Definition in_window (ts : N) (now : Z) : bool :=
  ((now - tolerance <? client_ns ts) && (client_ns ts <? now + tolerance))%Z.

(* plaintext[lo:hi] on the slice AESGCMDecrypt returns (cap >= len; checked against len here, which is
   the stricter reading: if this cannot panic the code cannot) *)
Definition psub (lo hi : nat) (p : list N) : res (list N) :=
  if (lo <=? hi)%nat && (hi <=? length p)%nat then Ok (firstn (hi - lo) (skipn lo p)) else Panic.
Definition pidx (i : nat) (p : list N) : res N :=
  match nth_error p i with Some b => Ok b | None => Panic end.

Inductive dres := DOk (ci : client_info) | DFail (r : reason) | DPanic.

Section Decide.
  Variable dh : list N -> list N -> option (list N).
  Variable gcm_open : list N -> list N -> list N -> list N -> option (list N).   (* key nonce ct aad *)

  (* decryptClientInfo(fragments, serverTime) - NOT under any recover() *)
  Definition decryptClientInfo (fr : fragments) (now : Z) : dres :=
    match gcm_open (f_shared fr) (firstn 12 (f_rand fr)) (f_ct fr) [] with
    | None => DFail RDecrypt
    | Some pt =>
      match (uid <- psub 0 16 pt ;;
             m <- psub 16 28 pt ;;
             enc <- pidx 28 pt ;;
             flag <- pidx 41 pt ;;
             tsb <- psub 29 37 pt ;;
             Ok (uid, m, enc, flag, tsb)) with
      | Panic => DPanic
      | Err _ => DPanic
      | Ok (uid, m, enc, flag, tsb) =>
        if negb (in_window (be_val tsb) now) then DFail RWindow
        else
          match psub 37 41 pt with
          | Ok sidb => DOk (mkCI uid (be_val sidb) (trim0 m) enc (N.testbit flag 0))
          | _ => DPanic
          end
      end
    end.

  Definition first_packet (p : packet) (pv : list N) : res fragments :=
    match p with
    | PTLS data => tls_first_packet dh data pv
    | PWS h => ws_first_packet dh h pv
    end.

  (* AuthFirstPacket *)
  Definition auth_first_packet (p : packet) (st : server_state) (now : Z) : dres :=
    match first_packet p (st_staticPv st) with
    | Panic => DPanic
    | Err e => DFail (RParse e)
    | Ok fr =>
      if fst (register_random (st_usedRandom st) (f_rand fr)) then DFail RReplay
      else decryptClientInfo fr now
    end.

  (* mux.MakeObfuscator succeeds exactly on the four known method codes *)
  Definition known_enc (enc : N) : bool :=
    let e := Z.of_N enc in
    ((e =? mux_EncryptionMethodPlain) || (e =? mux_EncryptionMethodAES256GCM) ||
     (e =? mux_EncryptionMethodAES128GCM) || (e =? mux_EncryptionMethodChaha20Poly1305))%Z.

  Definition is_admin (st : server_state) (ci : client_info) : bool :=
    negb (length (st_adminUID st) =? 0)%nat && bytes_eqb (ci_uid ci) (st_adminUID st) && (ci_sid ci =? 0).

  Fixpoint db_get (uid : list N) (db : list (list N * urec)) : option urec :=
    match db with
    | [] => None
    | (k, v) :: t => if bytes_eqb uid k then Some v else db_get uid t
    end.
  Definition find_active (uid : list N) (l : list active) : option active :=
    find (fun a => bytes_eqb uid (a_uid a)) l.

  Definition now_unix (now : Z) : Z := (now / ns_per_s)%Z.

  (* localManager.AuthenticateUser *)
  Definition authenticate (st : server_state) (uid : list N) (now : Z) : bool :=
    match db_get uid (st_db st) with
    | None => false
    | Some u => ((0 <? u_upCredit u) && (0 <? u_downCredit u) && (now_unix now <=? u_expiry u))%Z
    end.
  (* localManager.AuthoriseNewSession *)
  Definition authorise_new (st : server_state) (uid : list N) (existing : nat) (now : Z) : bool :=
    match db_get uid (st_db st) with
    | None => false
    | Some u => ((0 <? u_upCredit u) && (0 <? u_downCredit u) && (now_unix now <=? u_expiry u) &&
                 (Z.of_nat existing <? u_sessionsCap u))%Z
    end.

  (* sta.IsBypass + Panel.GetBypassUser / Panel.GetUser: the ActiveUser record or nil *)
  Definition get_user (st : server_state) (uid : list N) (now : Z) : option active :=
    match find_active uid (st_active st) with
    | Some a => Some a                                          (* already active: no database *)
    | None =>
      if mem_bytes uid (st_bypass st) then Some (mkA uid true [])
      else if authenticate st uid now then Some (mkA uid false []) else None
    end.

  (* ActiveUser.GetSession: true = a session (existing or new) is returned *)
  Definition get_session (st : server_state) (a : active) (sid : N) (now : Z) : bool :=
    if existsb (N.eqb sid) (a_sessions a) then true
    else if a_bypass a then true
    else authorise_new st (a_uid a) (length (a_sessions a)) now.

  (* dispatchConnection from AuthFirstPacket on *)
  Definition decide (p : packet) (st : server_state) (now : Z) : decision :=
    match auth_first_packet p st now with
    | DPanic => Crash
    | DFail r => Redirect r
    | DOk ci =>
      if negb (known_enc (ci_enc ci)) then Redirect REnc
      else if is_admin st ci then AdminSession
      else if negb (mem_bytes (ci_method ci) (st_proxyBook st)) then Redirect RMethod
      else
        match get_user st (ci_uid ci) now with
        | None => Redirect RUID
        | Some a =>
          if get_session st a (ci_sid ci) now
          then ProxySession (ci_uid ci) (ci_sid ci) (ci_method ci) (ci_enc ci) (ci_unordered ci)
          else DropConn
        end
    end.

  (* ---------------------------------------------------------------------------- whole connection *)
  (* the net/http + base64 black box of WebSocket.processFirstPacket *)
  Variable http_hidden : list N -> option (list N).

  Inductive conn_outcome :=
  | OClose                                   (* first-packet read failed: conn.Close() *)
  | OWeb (data rest : list N)                (* goWeb(): webConn.Write(data), then copy `rest` and whatever follows *)
  | OSession (d : decision)                  (* finishHandshake writes the reply: the only server-originated bytes *)
  | ODrop                                    (* returns without writing, relaying or closing *)
  | OCrash.

  Definition packet_of (r : rfp_out) : packet :=
    match r_tr r with
    | TWS => PWS (http_hidden (first_data r))
    | _ => PTLS (first_data r)
    end.

  Definition dispatch_conn (s : list N) (e : ending) (st : server_state) (now : Z) : conn_outcome :=
    let r := rfp s e in
    match r_err r with
    | RNone =>
      match decide (packet_of r) st now with
      | Redirect _ => OWeb (first_data r) (r_rest r)
      | AdminSession => OSession AdminSession
      | ProxySession u i m c f => OSession (ProxySession u i m c f)
      | DropConn => ODrop
      | Crash => OCrash
      end
    | _ => if r_redir r then OWeb (first_data r) (r_rest r) else OClose
    end.

  (* does the server itself originate bytes towards the peer? *)
  Definition server_writes (o : conn_outcome) : bool :=
    match o with OSession _ => true | _ => false end.
End Decide.

(* ------------------------------------------------------------------------------ goWeb as a relay *)
Inductive dialres := DialFail | DialWriteFail | DialOk.
(* the target: replies `t_reply` once it has received `t_after` bytes, then closes or stays *)
Record tscript := mkT { t_reply : list N; t_after : nat; t_close : bool }.
Record web_obs := mkW {
  w_target : list N;       (* bytes the target received *)
  w_peer : list N;         (* bytes the peer received *)
  w_peer_closed : bool;    (* server closed the peer connection *)
  w_web_closed : bool }.   (* server closed the target connection *)

(* goWeb + the two common.Copy goroutines, observed at quiescence (fixed code: the peer connection is
   closed when the dial or the first write fails).  With e = EOF the peer->target copy ends, closes both
   connections and races the reply (observation O2): w_peer is then an upper bound. *)
Definition goweb (data rest : list N) (e : ending) (d : dialres) (t : tscript) : web_obs :=
  match d with
  | DialFail => mkW [] [] true false
  | DialWriteFail => mkW [] [] true true
  | DialOk =>
    let sent := data ++ rest in
    let replied := (t_after t <=? length sent)%nat in
    let closed := match e with EOF => true | Stall => replied && t_close t end in
    mkW sent (if replied then t_reply t else []) closed closed
  end.

(* ------------------------------------------------------------------------------ finishHandshake, direct transport *)
(* TLS.makeResponder: the composed reply is ONE Write on the peer connection.  When that Write fails the responder
   closes the connection and returns the error; dispatchConnection logs it and returns (admin and proxy branch alike):
   the connection is not added to the session, nothing has reached the peer, nothing is relayed. *)
Record fin_obs := mkFO {
  fo_replied : bool;        (* the server's reply reached the peer *)
  fo_peer_closed : bool;    (* the server closed the peer connection *)
  fo_returned : bool }.     (* dispatchConnection returned at once *)
Definition finish_tls (write_ok : bool) : fin_obs :=
  if write_ok then mkFO true false false else mkFO false true true.
(* WebSocket.makeResponder: net/http + gorilla write the "101 Switching Protocols" response first (black box), then
   the 60-byte reply is one Write on the upgraded connection; when THAT Write fails the responder closes the
   connection and returns the error, dispatchConnection returns.  The 101 response has reached the peer. *)
Definition finish_ws (reply_write_ok : bool) : fin_obs :=
  if reply_write_ok then mkFO true false false else mkFO true true true.

(* is the connection handed to the redirect target? *)
Definition relays (o : conn_outcome) : bool := match o with OWeb _ _ => true | _ => false end.

