(* Model of a pair of multiplex.Sessions (internal/multiplex/session.go, stream.go,
   switchboard.go) joined by k connections, at the granularity of "one harness label runs
   to quiescence".  The connections are FIFO queues of decoded frames owned by the
   environment: nothing arrives until a [LDeliver] label says so, which is how every
   cross-connection arrival order, every fault position and every close position is a
   label sequence.  The re-sequencer is Model/Reorder.v.  Executable definitions only. *)
From Coq Require Import NArith ZArith List Bool.
From Cloak Require Import Model.Reorder.
Import ListNotations.
Local Open Scope N_scope.

Inductive side := SA | SB.
Definition other (s : side) : side := match s with SA => SB | SB => SA end.
Definition side_eqb (a b : side) : bool :=
  match a, b with SA, SA => true | SB, SB => true | _, _ => false end.

(* a decoded frame on the wire *)
Record wframe := mkW { w_sid : N; w_seq : N; w_cl : N; w_pay : list N }.

(* a Stream object (both halves) *)
Record stream := mkS {
  st_seq : N;        (* writingFrame.Seq *)
  st_wcl : N;        (* writingFrame.Closing *)
  st_closed : bool;  (* Stream.closed *)
  st_rb : rbuf       (* recvBuf: streamBuffer *)
}.

Record session := mkSe {
  se_objs : list (N * stream);  (* every Stream object ever made, by id (the application keeps the handle) *)
  se_tab : list (N * bool);     (* Session.streams: true = live entry, false = nil entry *)
  se_acceptq : list N;          (* acceptCh *)
  se_nextsid : N;
  se_count : N;                 (* activeStreamCount, uint32 *)
  se_closed : bool;             (* Session.closed (and acceptCh closed) *)
  se_broken : bool;             (* switchboard.broken *)
  se_pool : list N;             (* connection ids in the pool *)
  se_singleplex : bool;
  se_unit : N;                  (* maxStreamUnitWrite *)
  se_timeout : Z;               (* InactivityTimeout, ns *)
  se_timers : list Z            (* armed inactivity checks (absolute times) *)
}.

Record conn := mkC {
  c_toA : list wframe; c_toB : list wframe;   (* in flight *)
  c_clA : bool; c_clB : bool;                 (* this end has been closed locally *)
  c_failed : bool                             (* reset seen by both ends *)
}.

(* a blocked application call *)
Inductive pending := PRead (s : side) (sid : N) (k : nat) | PAccept (s : side).

Record sys := mkSys {
  sy_a : session; sy_b : session;
  sy_conns : list conn;
  sy_now : Z;
  sy_pend : list pending
}.

(* result codes of application calls *)
Definition R_OK : N := 0.
Definition R_BROKEN_STREAM : N := 1.
Definition R_BROKEN_SESSION : N := 2.
Definition R_BLOCKED : N := 3.
Definition R_ERR : N := 4.          (* any other error (send failure, repeat close ...) *)
Definition R_NOMULTIPLEX : N := 5.
Definition R_NOSTREAM : N := 6.    (* the application holds no such stream (harness-level outcome) *)

Inductive ev :=
| EFrame (from : side) (c : N) (fr : wframe)               (* a frame put on the wire *)
| ERet (code : N) (n : N) (data : list N)                  (* result of the label's own call *)
| EPend (p : pending) (code : N) (n : N) (data : list N)   (* a blocked call that has now returned *)
| EConnClosed (s : side) (c : N).                          (* side s closed its end of connection c *)

(* ---------- small library ---------- *)
Fixpoint lookup {A} (k : N) (l : list (N * A)) : option A :=
  match l with [] => None | (k', v) :: t => if k =? k' then Some v else lookup k t end.
Fixpoint update {A} (k : N) (v : A) (l : list (N * A)) : list (N * A) :=
  match l with
  | [] => [(k, v)]
  | (k', v') :: t => if k =? k' then (k, v) :: t else (k', v') :: update k v t
  end.
Fixpoint remove_key {A} (k : N) (l : list (N * A)) : list (N * A) :=
  match l with [] => [] | (k', v) :: t => if k =? k' then t else (k', v) :: remove_key k t end.
Fixpoint nthN {A} (n : nat) (l : list A) : option A :=
  match l, n with [], _ => None | x :: _, O => Some x | _ :: t, S n => nthN n t end.
Fixpoint setN {A} (n : nat) (v : A) (l : list A) : list A :=
  match l, n with [], _ => [] | _ :: t, O => v :: t | x :: t, S n => x :: setN n v t end.
Definition two32 : N := 4294967296.

Definition sess (y : sys) (s : side) : session := match s with SA => sy_a y | SB => sy_b y end.
Definition set_sess (y : sys) (s : side) (se : session) : sys :=
  match s with
  | SA => mkSys se (sy_b y) (sy_conns y) (sy_now y) (sy_pend y)
  | SB => mkSys (sy_a y) se (sy_conns y) (sy_now y) (sy_pend y)
  end.
Definition set_conns (y : sys) (cs : list conn) : sys :=
  mkSys (sy_a y) (sy_b y) cs (sy_now y) (sy_pend y).
Definition set_pend (y : sys) (p : list pending) : sys :=
  mkSys (sy_a y) (sy_b y) (sy_conns y) (sy_now y) p.
Definition set_now (y : sys) (t : Z) : sys :=
  mkSys (sy_a y) (sy_b y) (sy_conns y) t (sy_pend y).

Definition upd_objs (se : session) (o : list (N * stream)) : session :=
  mkSe o (se_tab se) (se_acceptq se) (se_nextsid se) (se_count se) (se_closed se) (se_broken se)
       (se_pool se) (se_singleplex se) (se_unit se) (se_timeout se) (se_timers se).
Definition upd_tab (se : session) (t : list (N * bool)) : session :=
  mkSe (se_objs se) t (se_acceptq se) (se_nextsid se) (se_count se) (se_closed se) (se_broken se)
       (se_pool se) (se_singleplex se) (se_unit se) (se_timeout se) (se_timers se).
Definition upd_acceptq (se : session) (q : list N) : session :=
  mkSe (se_objs se) (se_tab se) q (se_nextsid se) (se_count se) (se_closed se) (se_broken se)
       (se_pool se) (se_singleplex se) (se_unit se) (se_timeout se) (se_timers se).
Definition upd_nextsid (se : session) (n : N) : session :=
  mkSe (se_objs se) (se_tab se) (se_acceptq se) n (se_count se) (se_closed se) (se_broken se)
       (se_pool se) (se_singleplex se) (se_unit se) (se_timeout se) (se_timers se).
Definition upd_count (se : session) (n : N) : session :=
  mkSe (se_objs se) (se_tab se) (se_acceptq se) (se_nextsid se) n (se_closed se) (se_broken se)
       (se_pool se) (se_singleplex se) (se_unit se) (se_timeout se) (se_timers se).
Definition upd_closed (se : session) (b : bool) : session :=
  mkSe (se_objs se) (se_tab se) (se_acceptq se) (se_nextsid se) (se_count se) b (se_broken se)
       (se_pool se) (se_singleplex se) (se_unit se) (se_timeout se) (se_timers se).
Definition upd_broken (se : session) (b : bool) : session :=
  mkSe (se_objs se) (se_tab se) (se_acceptq se) (se_nextsid se) (se_count se) (se_closed se) b
       (se_pool se) (se_singleplex se) (se_unit se) (se_timeout se) (se_timers se).
Definition upd_pool (se : session) (p : list N) : session :=
  mkSe (se_objs se) (se_tab se) (se_acceptq se) (se_nextsid se) (se_count se) (se_closed se) (se_broken se)
       p (se_singleplex se) (se_unit se) (se_timeout se) (se_timers se).
Definition upd_timers (se : session) (t : list Z) : session :=
  mkSe (se_objs se) (se_tab se) (se_acceptq se) (se_nextsid se) (se_count se) (se_closed se) (se_broken se)
       (se_pool se) (se_singleplex se) (se_unit se) (se_timeout se) t.

Definition st_set_rb (st : stream) (rb : rbuf) : stream := mkS (st_seq st) (st_wcl st) (st_closed st) rb.
Definition new_stream : stream := mkS 0 0 false (rb_init 0).

Definition incr32 (x : N) : N := (x + 1) mod two32.
Definition decr32 (x : N) : N := (x + (two32 - 1)) mod two32.   (* AddUint32(^uint32(0)) *)

(* ---------- connections ---------- *)
Definition conn_closed_end (c : conn) (s : side) : bool := match s with SA => c_clA c | SB => c_clB c end.
Definition conn_close_end (c : conn) (s : side) : conn :=
  match s with
  | SA => mkC (c_toA c) (c_toB c) true (c_clB c) (c_failed c)
  | SB => mkC (c_toA c) (c_toB c) (c_clA c) true (c_failed c)
  end.
(* queue of frames travelling towards side s *)
Definition conn_q (c : conn) (s : side) : list wframe := match s with SA => c_toA c | SB => c_toB c end.
Definition conn_set_q (c : conn) (s : side) (q : list wframe) : conn :=
  match s with
  | SA => mkC q (c_toB c) (c_clA c) (c_clB c) (c_failed c)
  | SB => mkC (c_toA c) q (c_clA c) (c_clB c) (c_failed c)
  end.

(* closeAll: CAS broken, then close every pooled connection (this side's end) *)
Fixpoint close_ends (s : side) (pool : list N) (cs : list conn) : list conn * list ev :=
  match pool with
  | [] => (cs, [])
  | c :: t =>
      match nthN (N.to_nat c) cs with
      | Some cn =>
          if conn_closed_end cn s then close_ends s t cs
          else let '(cs', evs) := close_ends s t (setN (N.to_nat c) (conn_close_end cn s) cs) in
               (cs', EConnClosed s c :: evs)
      | None => close_ends s t cs
      end
  end.
Definition close_all (y : sys) (s : side) : sys * list ev :=
  let se := sess y s in
  if se_broken se then (y, [])
  else
    let '(cs, evs) := close_ends s (se_pool se) (sy_conns y) in
    (set_conns (set_sess y s (upd_broken se true)) cs, evs).

(* closeSession: CAS closed; close the accept queue; close and forget every stream that is
   still open.  Returns false if the session was already closed. *)
Fixpoint sweep (tab : list (N * bool)) (objs : list (N * stream)) (cnt : N)
  : list (N * bool) * list (N * stream) * N :=
  match tab with
  | [] => ([], objs, cnt)
  | (id, live) :: t =>
      let '(t', objs', cnt') := sweep t objs cnt in
      if live then
        match lookup id objs' with
        | Some st =>
            if st_closed st then ((id, live) :: t', objs', cnt')
            else (t', update id (mkS (st_seq st) (st_wcl st) true (rb_close (st_rb st))) objs', decr32 cnt')
        | None => ((id, live) :: t', objs', cnt')
        end
      else ((id, live) :: t', objs', cnt')
  end.
Definition close_session_core (se : session) : session * bool :=
  if se_closed se then (se, false)
  else
    let '(t, o, c) := sweep (se_tab se) (se_objs se) (se_count se) in
    (upd_count (upd_objs (upd_tab (upd_closed se true) t) o) c, true).

(* Session.passiveClose *)
Definition passive_close (y : sys) (s : side) : sys * list ev :=
  let '(se, ok) := close_session_core (sess y s) in
  if ok then close_all (set_sess y s se) s else (y, []).

(* ---------- sending ---------- *)
(* switchboard.send with uniformSpread; [pick] is the connection pickRandConn chose (an
   input read off the wire tap).  outcome: 0 = sent, 1 = errBrokenSwitchboard (no
   connection could be picked), 2 = conn.Write failed (send itself then calls passiveClose) *)
Definition sb_send (y : sys) (s : side) (fr : wframe) (pick : N) : sys * list ev * N :=
  let se := sess y s in
  if se_broken se then (y, [], 1)
  else match se_pool se with
  | [] => (y, [], 1)
  | _ =>
      match nthN (N.to_nat pick) (sy_conns y) with
      | None => (y, [], 1)
      | Some cn =>
          if conn_closed_end cn s || c_failed cn then
            let '(y', evs) := passive_close y s in (y', evs, 2)
          else
            let cn' := conn_set_q cn (other s) (conn_q cn (other s) ++ [fr]) in
            (set_conns y (setN (N.to_nat pick) cn' (sy_conns y)),
             [EFrame s pick fr], 0)
      end
  end.

Definition hd_pick (ch : list N) : N * list N := match ch with [] => (0, []) | c :: t => (c, t) end.

(* Stream.obfuscateAndSend: take the sequence number, advance it, send; a broken
   switchboard closes the session.  Returns ok?  (writingFrame.Seq is a uint64: the model
   does not wrap it - a stream never sends 2^64 frames, which the property grants.) *)
Definition stream_emit (y : sys) (s : side) (sid : N) (pay : list N) (ch : list N)
  : sys * list N * list ev * bool :=
  match lookup sid (se_objs (sess y s)) with
  | None => (y, ch, [], false)
  | Some st =>
      let fr := mkW sid (st_seq st) (st_wcl st) pay in
      let st' := mkS (st_seq st + 1) (st_wcl st) (st_closed st) (st_rb st) in
      let y1 := set_sess y s (upd_objs (sess y s) (update sid st' (se_objs (sess y s)))) in
      let '(c, ch') := hd_pick ch in
      let '(y2, evs, rc) := sb_send y1 s fr c in
      if rc =? 0 then (y2, ch', evs, true)
      else if rc =? 1 then let '(y3, evs') := passive_close y2 s in (y3, ch, evs ++ evs', false)
      else (y2, ch', evs, false)
  end.

(* Session.Close *)
Definition session_close (y : sys) (s : side) (ch : list N) : sys * list N * list ev * N :=
  let '(se, ok) := close_session_core (sess y s) in
  if negb ok then (y, ch, [], R_ERR)
  else
    let y1 := set_sess y s se in
    let '(c, ch') := hd_pick ch in
    let '(y2, evs, rc) := sb_send y1 s (mkW 4294967295 0 2 []) c in
    let '(y3, evs') := close_all y2 s in   (* the connections are closed whether or not the notice could be sent *)
    if rc =? 0 then (y3, ch', evs ++ evs', R_OK)
    else if rc =? 1 then (y3, ch, evs ++ evs', R_ERR)
    else (y3, ch', evs ++ evs', R_ERR).

(* Session.closeStream *)
Definition close_stream (y : sys) (s : side) (sid : N) (active : bool) (ch : list N)
  : sys * list N * list ev * N :=
  match lookup sid (se_objs (sess y s)) with
  | None => (y, ch, [], R_NOSTREAM)
  | Some st =>
      if st_closed st then (y, ch, [], R_ERR)   (* errRepeatStreamClosing *)
      else
        let st1 := mkS (st_seq st) (if active then 1 else st_wcl st) true (rb_close (st_rb st)) in
        let y1 := set_sess y s (upd_objs (sess y s) (update sid st1 (se_objs (sess y s)))) in
        let '(y2, ch2, evs2, ok) :=
            if active then stream_emit y1 s sid [] ch else (y1, ch, [], true) in
        if negb ok then (y2, ch2, evs2, R_ERR)
        else
          let se := sess y2 s in
          let cnt := decr32 (se_count se) in
          let se' := upd_count (upd_tab se (update sid false (se_tab se))) cnt in
          let y3 := set_sess y2 s se' in
          if cnt =? 0 then
            if se_singleplex se' then
              let '(y4, ch4, evs4, _) := session_close y3 s ch2 in (y4, ch4, evs2 ++ evs4, R_OK)
            else
              (set_sess y3 s (upd_timers se' (se_timers se' ++ [(sy_now y3 + se_timeout se')%Z])), ch2, evs2, R_OK)
          else (y3, ch2, evs2, R_OK)
  end.

(* ---------- receiving ---------- *)
(* Session.recvDataFromRemote on a decoded frame *)
Definition recv_frame (y : sys) (s : side) (fr : wframe) (ch : list N) : sys * list N * list ev :=
  if w_cl fr =? 2 then let '(y', evs) := passive_close y s in (y', ch, evs)
  else
    let se := sess y s in
    if se_closed se then (y, ch, [])
    else
      let deliver (y0 : sys) :=
          match lookup (w_sid fr) (se_objs (sess y0 s)) with
          | None => (y0, ch, [])
          | Some st =>
              let '(rb', tbc, _) := rb_write (st_rb st) (mkF (w_seq fr) (negb (w_cl fr =? 0)) (w_pay fr)) in
              let y1 := set_sess y0 s (upd_objs (sess y0 s) (update (w_sid fr) (st_set_rb st rb') (se_objs (sess y0 s)))) in
              if tbc then let '(y2, ch2, evs2, _) := close_stream y1 s (w_sid fr) false ch in (y2, ch2, evs2)
              else (y1, ch, [])
          end in
      match lookup (w_sid fr) (se_tab se) with
      | Some false => (y, ch, [])
      | Some true => deliver y
      | None =>
          let se' := upd_count (upd_acceptq (upd_tab (upd_objs se (update (w_sid fr) new_stream (se_objs se)))
                                                     (update (w_sid fr) true (se_tab se)))
                                            (se_acceptq se ++ [w_sid fr]))
                               (incr32 (se_count se)) in
          deliver (set_sess y s se')
      end.

(* the deplex goroutine of side s on connection c got a read error: passiveClose, then its
   deferred conn.Close() *)
Definition deplex_error (y : sys) (s : side) (c : N) : sys * list ev :=
  let '(y1, evs) := passive_close y s in
  match nthN (N.to_nat c) (sy_conns y1) with
  | Some cn =>
      if conn_closed_end cn s then (y1, evs)
      else (set_conns y1 (setN (N.to_nat c) (conn_close_end cn s) (sy_conns y1)), evs ++ [EConnClosed s c])
  | None => (y1, evs)
  end.

(* ---------- application calls ---------- *)
Definition open_stream (y : sys) (s : side) : sys * list ev :=
  let se := sess y s in
  if se_closed se then (y, [ERet R_BROKEN_SESSION 0 []])
  else
    let id := se_nextsid se in
    let se1 := upd_nextsid se ((id + 1) mod two32) in
    if se_singleplex se && (1 <? id) then (set_sess y s se1, [ERet R_NOMULTIPLEX 0 []])
    else
      let se2 := upd_count (upd_tab (upd_objs se1 (update id new_stream (se_objs se1))) (update id true (se_tab se1)))
                           (incr32 (se_count se1)) in
      (set_sess y s se2, [ERet R_OK id []]).

(* Stream.Write (ordered mode): split into frames of at most [unit] bytes *)
Fixpoint write_loop (fuel : nat) (y : sys) (s : side) (sid : N) (data : list N) (n : N) (ch : list N)
  : sys * list N * list ev * N * N :=
  match fuel with
  | O => (y, ch, [], n, R_ERR)
  | S fuel =>
      match data with
      | [] => (y, ch, [], n, R_OK)
      | _ =>
          let u := N.to_nat (se_unit (sess y s)) in
          let chunk := firstn u data in
          let '(y1, ch1, evs1, ok) := stream_emit y s sid chunk ch in
          if ok then
            let '(y2, ch2, evs2, n2, rc) := write_loop fuel y1 s sid (skipn u data) (n + N.of_nat (length chunk)) ch1 in
            (y2, ch2, evs1 ++ evs2, n2, rc)
          else (y1, ch1, evs1, n, R_ERR)
      end
  end.
Definition stream_write (y : sys) (s : side) (sid : N) (data : list N) (ch : list N) : sys * list ev :=
  match lookup sid (se_objs (sess y s)) with
  | None => (y, [ERet R_NOSTREAM 0 []])
  | Some st =>
      if st_closed st then (y, [ERet R_BROKEN_STREAM 0 []])
      else
        let '(y1, _, evs, n, rc) := write_loop (S (length data)) y s sid data 0 ch in
        (y1, evs ++ [ERet rc n []])
  end.

(* Stream.Read, non-blocking view: 0 = returned, blocked otherwise *)
Definition try_read (y : sys) (s : side) (sid : N) (k : nat) : option (sys * N * list N) :=
  match lookup sid (se_objs (sess y s)) with
  | None => Some (y, R_NOSTREAM, [])
  | Some st =>
      match k with
      | O => Some (y, R_OK, [])
      | _ =>
        match rb_read (st_rb st) k with
        | (rb', RdData d) =>
            Some (set_sess y s (upd_objs (sess y s) (update sid (st_set_rb st rb') (se_objs (sess y s)))), R_OK, d)
        | (_, RdEOF) => Some (y, R_BROKEN_STREAM, [])
        | (_, RdEmpty) => None
        end
      end
  end.

Definition try_accept (y : sys) (s : side) : option (sys * N * N) :=
  let se := sess y s in
  match se_acceptq se with
  | id :: q => Some (set_sess y s (upd_acceptq se q), R_OK, id)
  | [] => if se_closed se then Some (y, R_BROKEN_SESSION, 0) else None
  end.

(* blocked calls that can now return, in the order they were issued *)
Fixpoint resolve (ps : list pending) (y : sys) : sys * list pending * list ev :=
  match ps with
  | [] => (y, [], [])
  | p :: t =>
      match p with
      | PRead s sid k =>
          match try_read y s sid k with
          | Some (y1, rc, d) =>
              let '(y2, ps', evs) := resolve t y1 in (y2, ps', EPend p rc (N.of_nat (length d)) d :: evs)
          | None => let '(y2, ps', evs) := resolve t y in (y2, p :: ps', evs)
          end
      | PAccept s =>
          match try_accept y s with
          | Some (y1, rc, id) =>
              let '(y2, ps', evs) := resolve t y1 in (y2, ps', EPend p rc id [] :: evs)
          | None => let '(y2, ps', evs) := resolve t y in (y2, p :: ps', evs)
          end
      end
  end.

(* inactivity timers of one side that are due *)
Fixpoint fire_timers (fuel : nat) (y : sys) (s : side) (ch : list N) : sys * list N * list ev :=
  match fuel with
  | O => (y, ch, [])
  | S fuel =>
      let se := sess y s in
      match se_timers se with
      | [] => (y, ch, [])
      | t :: rest =>
          if (t <=? sy_now y)%Z then
            let y1 := set_sess y s (upd_timers se rest) in
            let se1 := sess y1 s in
            if (se_count se1 =? 0) && negb (se_closed se1) then
              let '(y2, ch2, evs2, _) := session_close y1 s ch in
              let '(y3, ch3, evs3) := fire_timers fuel y2 s ch2 in (y3, ch3, evs2 ++ evs3)
            else fire_timers fuel y1 s ch
          else (y, ch, [])
      end
  end.

Definition has_pending_read (ps : list pending) (s : side) (sid : N) : bool :=
  existsb (fun p => match p with PRead s' sid' _ => side_eqb s s' && (sid =? sid') | _ => false end) ps.
Definition has_pending_accept (ps : list pending) (s : side) : bool :=
  existsb (fun p => match p with PAccept s' => side_eqb s s' | _ => false end) ps.

Inductive label :=
| LOpen (s : side)
| LWrite (s : side) (sid : N) (data : list N)
| LRead (s : side) (sid : N) (k : nat)
| LAccept (s : side)
| LCloseStream (s : side) (sid : N)
| LCloseSession (s : side)
| LDeliver (s : side) (c : N)     (* s = the RECEIVING side *)
| LFail (c : N)
| LTick (d : Z)
| LBreak (c : N)                  (* the connection breaks: what is in flight is lost and writes fail from now on,
                                     but neither read loop has noticed yet *)
| LNotice (s : side) (c : N).     (* the read loop of side s on the broken connection c sees the error *)

(* one label, run to quiescence.  [ch] = the connections pickRandConn drew during this
   label, in order (read off the wire tap by the harness). *)
Definition step_core (y : sys) (l : label) (ch : list N) : sys * list ev :=
  match l with
  | LOpen s => open_stream y s
  | LWrite s sid data => stream_write y s sid data ch
  | LRead s sid k =>
      if has_pending_read (sy_pend y) s sid then (y, [ERet R_ERR 9 []])   (* harness rule: one blocked read per stream *)
      else match try_read y s sid k with
      | Some (y1, rc, d) => (y1, [ERet rc (N.of_nat (length d)) d])
      | None => (set_pend y (sy_pend y ++ [PRead s sid 1]), [ERet R_BLOCKED 0 []])  (* a blocking read asks for one byte *)
      end
  | LAccept s =>
      if se_closed (sess y s) then (y, [ERet R_BROKEN_SESSION 0 []])
      else match try_accept y s with
      | Some (y1, rc, id) => (y1, [ERet rc id []])
      | None =>
          if has_pending_accept (sy_pend y) s then (y, [ERet R_ERR 9 []])
          else (set_pend y (sy_pend y ++ [PAccept s]), [ERet R_BLOCKED 0 []])
      end
  | LCloseStream s sid =>
      let '(y1, _, evs, rc) := close_stream y s sid true ch in (y1, evs ++ [ERet rc 0 []])
  | LCloseSession s =>
      let '(y1, _, evs, rc) := session_close y s ch in (y1, evs ++ [ERet rc 0 []])
  | LDeliver s c =>
      match nthN (N.to_nat c) (sy_conns y) with
      | None => (y, [ERet R_ERR 0 []])
      | Some cn =>
          if conn_closed_end cn s || c_failed cn then (y, [ERet R_ERR 1 []])   (* that reader is gone *)
          else match conn_q cn s with
          | fr :: q =>
              let y1 := set_conns y (setN (N.to_nat c) (conn_set_q cn s q) (sy_conns y)) in
              let '(y2, _, evs) := recv_frame y1 s fr ch in (y2, evs ++ [ERet R_OK 0 []])
          | [] =>
              if conn_closed_end cn (other s) then   (* FIN *)
                let '(y1, evs) := deplex_error y s c in (y1, evs ++ [ERet R_OK 1 []])
              else (y, [ERet R_ERR 2 []])             (* nothing in flight *)
          end
      end
  | LFail c =>
      match nthN (N.to_nat c) (sy_conns y) with
      | None => (y, [ERet R_ERR 0 []])
      | Some cn =>
          let wasA := conn_closed_end cn SA in
          let wasB := conn_closed_end cn SB in
          let y0 := set_conns y (setN (N.to_nat c) (mkC [] [] (c_clA cn) (c_clB cn) true) (sy_conns y)) in
          let '(y1, e1) := if wasA || c_failed cn then (y0, []) else deplex_error y0 SA c in
          let '(y2, e2) := if wasB || c_failed cn then (y1, []) else deplex_error y1 SB c in
          (y2, e1 ++ e2 ++ [ERet R_OK 0 []])
      end
  | LTick d =>
      let y0 := set_now y (sy_now y + d)%Z in
      let '(y1, ch1, e1) := fire_timers 64 y0 SA ch in
      let '(y2, _, e2) := fire_timers 64 y1 SB ch1 in
      (y2, e1 ++ e2 ++ [ERet R_OK 0 []])
  | LBreak c =>
      match nthN (N.to_nat c) (sy_conns y) with
      | None => (y, [ERet R_ERR 0 []])
      | Some cn =>
          (set_conns y (setN (N.to_nat c) (mkC [] [] (c_clA cn) (c_clB cn) true) (sy_conns y)), [ERet R_OK 0 []])
      end
  | LNotice s c =>
      match nthN (N.to_nat c) (sy_conns y) with
      | None => (y, [ERet R_ERR 0 []])
      | Some cn =>
          if c_failed cn && negb (conn_closed_end cn s) then
            let '(y1, evs) := deplex_error y s c in (y1, evs ++ [ERet R_OK 0 []])
          else (y, [ERet R_ERR 1 []])
      end
  end.

Definition step (y : sys) (l : label) (ch : list N) : sys * list ev :=
  let '(y1, evs) := step_core y l ch in
  let '(y2, ps, evs') := resolve (sy_pend y1) y1 in
  (set_pend y2 ps, evs ++ evs').

Fixpoint run (y : sys) (ls : list (label * list N)) : sys * list (list ev) :=
  match ls with
  | [] => (y, [])
  | (l, ch) :: t => let '(y1, o) := step y l ch in let '(y2, os) := run y1 t in (y2, o :: os)
  end.

(* two fresh sessions joined by k healthy connections *)
Definition mk_session (k : nat) (singleplex : bool) (unit : N) (timeout : Z) : session :=
  mkSe [] [] [] 1 0 false false (map N.of_nat (List.seq 0 k)) singleplex unit timeout [timeout].
Definition init (k : nat) (singleplex : bool) (unit : N) (toA toB : Z) : sys :=
  mkSys (mk_session k singleplex unit toA) (mk_session k singleplex unit toB)
        (repeat (mkC [] [] false false false) k) 0%Z [].

(* ---------- projections used by the state dump and by the theorems ---------- *)
Definition stream_open (se : session) (id : N) : bool :=
  match lookup id (se_objs se) with Some st => negb (st_closed st) | None => false end.
Definition live_streams (se : session) : list N :=
  map fst (filter (fun e : N * bool => snd e && stream_open se (fst e)) (se_tab se)).
Definition query_side (y : sys) (s : side) : bool * N * N :=
  let se := sess y s in (se_closed se, se_count se, N.of_nat (length (live_streams se))).
Definition query_conn (c : conn) : bool * bool * bool * N * N :=
  (c_clA c, c_clB c, c_failed c, N.of_nat (length (c_toA c)), N.of_nat (length (c_toB c))).
