(* Hand-written model of the Cloak handshake payloads (property C06, server flight of C10):

     internal/client/auth.go       makeAuthenticationPayload            -> pack, client_payload
     internal/client/TLS.go        DirectTLS.Handshake                  -> client_first_packet_tls, client_finish_tls
     internal/client/websocket.go  WSOverTLS.Handshake                  -> client_first_packet_ws, client_finish_ws
     internal/server/auth.go       decryptClientInfo                    -> unpack, decrypt_client_info
     internal/server/TLS.go        processFirstPacket / makeResponder   -> server_process_tls, server_reply_tls
     internal/server/TLSAux.go     composeServerHello / composeReply / addRecordLayer
     internal/server/websocket.go  processFirstPacket / unmarshalHidden / makeResponder
                                                                        -> server_process_ws, server_reply_ws
     internal/common/tls.go        TLSConn.Read / TLSConn.Write / AddRecordLayer
     internal/ecdh/curve25519.go   GenerateKey / GenerateSharedSecret   -> section variables pub, dh

   X25519 and AES-GCM are SECTION VARIABLES: the theorems hold for every instantiation satisfying the
   stated hypotheses; the executable model (end of file) instantiates them with Model/Crypto/X25519.v
   and Model/Crypto/GCM.v.  uTLS is a black box: the ClientHello is "a well-formed hello carrying the
   three fields" (Model/HelloGrammar.v); net/http + gorilla/websocket are black boxes: the WebSocket
   transport is modelled from the value of the `hidden` header to the 60-byte binary message.
   The replay cache (registerRandom) is C08's matter: here the cache is empty.
   Times are Z nanoseconds since the Unix epoch.  Executable definitions only. *)
From Coq Require Import NArith ZArith List Bool Arith.
From Cloak Require Import Gen.Consts Model.HelloGrammar Model.Crypto.X25519 Model.Crypto.GCM.
Import ListNotations.
Local Open Scope N_scope.

(* ------------------------------------------------------------------------------ bytes *)
Definition zeros (n : nat) : list N := repeat 0 n.
(* copy(dst[:n], src) into a fresh zeroed n-byte array *)
Definition fit (n : nat) (src : list N) : list N := firstn n (src ++ zeros n).
(* l[lo:hi] for in-range constant indices *)
Definition sub (lo hi : nat) (l : list N) : list N := firstn (hi - lo) (skipn lo l).
(* copy(dst[off:], src): min(len(src), len(dst)-off) bytes are overwritten *)
Definition put_at (off : nat) (src dst : list N) : list N :=
  let n := Nat.min (length src) (length dst - off) in
  firstn off dst ++ firstn n src ++ skipn (off + n) dst.
(* dst[i] = f(dst[i]) *)
Definition upd_at (i : nat) (f : N -> N) (dst : list N) : list N :=
  match skipn i dst with
  | b :: t => firstn i dst ++ f b :: t
  | [] => dst
  end.
(* binary.BigEndian.PutUintXX of an n-byte unsigned (the value modulo 256^n) *)
Fixpoint be_enc (n : nat) (x : N) : list N :=
  match n with
  | O => []
  | S n' => (x / 256 ^ N.of_nat n') mod 256 :: be_enc n' x
  end.
Definition be_dec (l : list N) : N := fold_left (fun acc b => acc * 256 + b) l 0.

(* bytes.Trim(b, "\x00") *)
Fixpoint drop0 (l : list N) : list N :=
  match l with
  | 0 :: t => drop0 t
  | _ => l
  end.
Definition trim0 (l : list N) : list N := rev (drop0 (rev (drop0 l))).

Definition all_zero (l : list N) : bool := forallb (N.eqb 0) l.

(* ------------------------------------------------------------------------------ the 48-byte plaintext *)
Record info := mkInfo {
  i_uid : list N;         (* AuthInfo.UID / ClientInfo.UID *)
  i_method : list N;      (* ProxyMethod as bytes *)
  i_enc : N;              (* EncryptionMethod byte *)
  i_sid : N;              (* SessionId uint32 *)
  i_unordered : bool }.

Definition client_flag : N := Z.to_N client_UNORDERED_FLAG.
Definition server_flag : N := Z.to_N server_UNORDERED_FLAG.

(* makeAuthenticationPayload, the plaintext.  ts = uint64(Now().UTC().Unix()) *)
Definition pack (i : info) (ts : N) : list N :=
  let p := zeros 48 in                                  (* make([]byte, 48) *)
  let p := put_at 0 (i_uid i) p in                      (* copy(plaintext, authInfo.UID) *)
  let p := put_at 16 (firstn 12 (i_method i)) p in      (* copy(plaintext[16:28], authInfo.ProxyMethod) *)
  let p := put_at 28 [i_enc i] p in                     (* plaintext[28] = authInfo.EncryptionMethod *)
  let p := put_at 29 (be_enc 8 ts) p in                 (* PutUint64(plaintext[29:37], ts) *)
  let p := put_at 37 (be_enc 4 (i_sid i)) p in          (* PutUint32(plaintext[37:41], SessionId) *)
  if i_unordered i then upd_at 41 (fun b => N.lor b client_flag) p else p.

(* the client's clock reading as the timestamp field: Unix() is the floor of seconds *)
Definition ns_per_s : Z := 1000000000.
Definition client_ts (client_now : Z) : N := Z.to_N ((client_now / ns_per_s) mod 2 ^ 64).

(* time.Unix(int64(ts), 0): wall seconds are stored as ts + unixToInternal in an int64 (wraps) *)
Definition unixToInternal : Z := 62135596800.
Definition wrap64 (z : Z) : Z := ((z + 2 ^ 63) mod 2 ^ 64 - 2 ^ 63)%Z.
Definition client_time_ns (ts : N) : Z :=
  ((wrap64 (wrap64 (Z.of_N ts) + unixToInternal) - unixToInternal) * ns_per_s)%Z.
Definition tolerance : Z := server_timestampTolerance_ns.
(* clientTime.After(serverTime.Add(-tol)) && clientTime.Before(serverTime.Add(tol)) *)
Definition in_window (ts : N) (server_now : Z) : bool :=
  ((server_now - tolerance <? client_time_ns ts) && (client_time_ns ts <? server_now + tolerance))%Z.

Inductive ures :=
| UOk (i : info)
| UWindow (i : info)     (* ErrTimestampOutOfWindow; info as returned: SessionId still 0 *)
| UPanic.                (* index out of range: cannot happen for the 48 bytes a 64-byte block opens to *)

(* decryptClientInfo after the AEAD: the fields of the plaintext *)
Definition unpack (pt : list N) (server_now : Z) : ures :=
  if (length pt <? 42)%nat then UPanic
  else
    let i0 := mkInfo (sub 0 16 pt)                              (* UID: plaintext[0:16] *)
                     (trim0 (sub 16 28 pt))                     (* bytes.Trim(plaintext[16:28], "\x00") *)
                     (nth 28 pt 0)                              (* plaintext[28] *)
                     0                                          (* SessionId: 0 *)
                     (negb (N.land (nth 41 pt 0) server_flag =? 0)) in   (* plaintext[41]&UNORDERED_FLAG != 0 *)
    let ts := be_dec (sub 29 37 pt) in
    if negb (in_window ts server_now) then UWindow i0
    else UOk (mkInfo (i_uid i0) (i_method i0) (i_enc i0) (be_dec (sub 37 41 pt)) (i_unordered i0)).

(* ------------------------------------------------------------------------------ base64.StdEncoding *)
Definition b64_char (v : N) : N :=
  if v <? 26 then 65 + v else if v <? 52 then 97 + (v - 26) else if v <? 62 then 48 + (v - 52)
  else if v =? 62 then 43 else 47.
Definition b64_val (c : N) : option N :=
  if (65 <=? c) && (c <=? 90) then Some (c - 65)
  else if (97 <=? c) && (c <=? 122) then Some (c - 97 + 26)
  else if (48 <=? c) && (c <=? 57) then Some (c - 48 + 52)
  else if c =? 43 then Some 62 else if c =? 47 then Some 63 else None.
Fixpoint b64_encode (l : list N) : list N :=
  match l with
  | a :: b :: c :: t =>
    b64_char (a / 4) :: b64_char ((a mod 4) * 16 + b / 16) :: b64_char ((b mod 16) * 4 + c / 64) ::
    b64_char (c mod 64) :: b64_encode t
  | [a; b] => [b64_char (a / 4); b64_char ((a mod 4) * 16 + b / 16); b64_char ((b mod 16) * 4); 61]
  | [a] => [b64_char (a / 4); b64_char ((a mod 4) * 16); 61; 61]
  | [] => []
  end.
(* DecodeString on canonical input; on the first malformed quantum the bytes decoded so far are
   returned (the server ignores DecodeString's error and uses what was decoded) *)
Fixpoint b64_decode_fuel (fuel : nat) (l : list N) : list N :=
  match fuel with
  | O => []
  | S f =>
    match l with
    | c0 :: c1 :: c2 :: c3 :: t =>
      match b64_val c0, b64_val c1 with
      | Some v0, Some v1 =>
        let b0 := v0 * 4 + v1 / 16 in
        if (c2 =? 61) && (c3 =? 61) then (match t with [] => [b0] | _ => [] end)
        else match b64_val c2 with
             | Some v2 =>
               let b1 := (v1 mod 16) * 16 + v2 / 4 in
               if c3 =? 61 then (match t with [] => [b0; b1] | _ => [] end)
               else match b64_val c3 with
                    | Some v3 => b0 :: b1 :: (v2 mod 4) * 64 + v3 :: b64_decode_fuel f t
                    | None => []
                    end
             | None => []
             end
      | _, _ => []
      end
    | _ => []
    end
  end.
Definition b64_decode (l : list N) : list N := b64_decode_fuel (length l) l.

(* ------------------------------------------------------------------------------ server reply layout *)
(* server/TLSAux.go addRecordLayer: typ, ver, uint16(len(input)), input *)
Definition add_record_layer (input : list N) (typ : N) (ver : list N) : list N :=
  [typ] ++ fit 2 ver ++ be_enc 2 (lenN input) ++ input.

(* composeServerHello; filler = the 4 bytes CryptoRandRead puts into keyExchange[28:32] *)
Definition compose_server_hello (sessionId nonce encKey filler : list N) : list N :=
  [0x02] ++                                   (* handshake type *)
  [0x00; 0x00; 0x76] ++                       (* length 118 *)
  [0x03; 0x03] ++                             (* server version *)
  (fit 12 nonce ++ sub 0 20 (fit 48 encKey)) ++   (* random: nonce[0:12] ++ encryptedSessionKeyWithTag[0:20] *)
  [0x20] ++                                   (* session id length 32 *)
  sessionId ++                                (* session id *)
  [0x13; 0x02] ++                             (* TLS_AES_256_GCM_SHA384 *)
  [0x00] ++                                   (* compression method null *)
  [0x00; 0x2e] ++                             (* extensions length 46 *)
  ([0x00; 0x33; 0x00; 0x24; 0x00; 0x1d; 0x00; 0x20] ++
     put_at 28 (fit 4 filler) (put_at 0 (sub 20 48 (fit 48 encKey)) (zeros 32))) ++   (* key share *)
  [0x00; 0x2b; 0x00; 0x02; 0x03; 0x04].       (* supported versions *)

Definition compose_reply (sessionId nonce encKey filler cert : list N) : list N :=
  let tls12 := [0x03; 0x03] in
  add_record_layer (compose_server_hello sessionId nonce encKey filler) 0x16 tls12 ++
  add_record_layer [0x01] 0x14 tls12 ++
  add_record_layer cert 0x17 tls12.

(* common/tls.go TLSConn.Write: None = "message is too long", nothing is written *)
Definition tls_write_limit : N := Z.to_N common_tlsconn_write_limit.
Definition tlsconn_write (msg : list N) : option (list N) :=
  if tls_write_limit <? lenN msg then None
  else Some ([Z.to_N common_ApplicationData; Z.to_N (common_VersionTLS13 / 256); Z.to_N (common_VersionTLS13 mod 256)] ++
             [lenN msg / 256; lenN msg mod 256] ++ msg).
(* common.AddRecordLayer(input, typ, ver) *)
Definition common_add_record_layer (input : list N) (typ ver : N) : list N :=
  [typ; (ver / 256) mod 256; ver mod 256; (lenN input / 256) mod 256; lenN input mod 256] ++ input.

(* TLSConn.Read into a buffer of bufsize bytes from the byte stream `s` (all bytes eventually
   arrive: io.ReadFull): Some (n bytes now at buffer[0:n], rest of stream) or None = error
   (short buffer / EOF) *)
Definition tlsconn_read (bufsize : nat) (s : list N) : option (list N * list N) :=
  if (bufsize <? 5)%nat then None
  else
    match g_take 5 s with
    | Some (hdr, s1) =>
      let dataLength := N.to_nat (be_dec (sub 3 5 hdr)) in
      if (bufsize <? dataLength)%nat then None
      else g_take dataLength s1
    | None => None
    end.

(* ------------------------------------------------------------------------------ the handshake *)
Inductive reject :=
| RejHello       (* ErrBadClientHello / malformed key_share / ErrBadGET *)
| RejDH          (* curve25519.X25519 error *)
| RejCtLen       (* ErrCiphertextLength *)
| RejDecrypt     (* AESGCMDecrypt failed *)
| RejWindow.     (* ErrTimestampOutOfWindow *)
Inductive sres :=
| Accept (i : info) (shared : list N) (sid_echo : list N)   (* ClientInfo; what makeResponder captured *)
| Reject (r : reject)
| SPanic.

Section Handshake.
  (* ecdh.GenerateSharedSecret(priv, pub): None = error (all-zero output); ScalarBaseMult *)
  Variable dh : list N -> list N -> option (list N).
  Variable pub : list N -> list N.
  (* common.AESGCMEncrypt / AESGCMDecrypt: key nonce plaintext|ciphertext aad *)
  Variable seal : list N -> list N -> list N -> list N -> list N.
  Variable open : list N -> list N -> list N -> list N -> option (list N).

  (* makeAuthenticationPayload: (randPubKey, ciphertextWithTag, sharedSecret); None = log.Panicf *)
  Definition client_payload (i : info) (ts : N) (ephPv serverPub : list N)
    : option (list N * list N * list N) :=
    let randPub := fit 32 (pub ephPv) in
    match dh ephPv serverPub with
    | None => None
    | Some secret =>
      let shared := fit 32 secret in
      let ct := seal shared (firstn 12 randPub) (pack i ts) [] in
      Some (randPub, fit 64 ct, shared)
    end.

  (* DirectTLS.Handshake up to rawConn.Write: the bytes on the wire and the shared secret kept *)
  Definition client_first_packet_tls (sk : skeleton) (i : info) (ts : N) (ephPv serverPub : list N)
    : option (list N * list N) :=
    match client_payload i ts ephPv serverPub with
    | Some (randPub, ct, shared) =>
      Some (mk_client_hello sk randPub (sub 0 32 ct) (sub 32 64 ct), shared)
    | None => None
    end.
  (* WSOverTLS.Handshake: the value of the `hidden` header *)
  Definition client_first_packet_ws (i : info) (ts : N) (ephPv serverPub : list N)
    : option (list N * list N) :=
    match client_payload i ts ephPv serverPub with
    | Some (randPub, ct, shared) => Some (b64_encode (randPub ++ ct), shared)
    | None => None
    end.

  (* decryptClientInfo(fragments, serverTime) *)
  Definition decrypt_client_info (shared randPub ct : list N) (sid_echo : list N) (server_now : Z) : sres :=
    match open shared (firstn 12 randPub) ct [] with
    | None => Reject RejDecrypt
    | Some pt =>
      match unpack pt server_now with
      | UOk i => Accept i shared sid_echo
      | UWindow _ => Reject RejWindow
      | UPanic => SPanic
      end
    end.

  (* TLS.processFirstPacket + decryptClientInfo; the field positions come from the grammar's
     locator (Proofs/Auth.v connects it to the model of the server's own parser, Model/Hello.v) *)
  Definition server_process_tls (data : list N) (staticPv : list N) (server_now : Z) : sres :=
    match locate_fields data with
    | None => Reject RejHello
    | Some (random, sid, share) =>
      let randPub := fit 32 random in
      match dh staticPv randPub with
      | None => Reject RejDH
      | Some secret =>
        let ctxTag := sid ++ share in
        if negb (length ctxTag =? 64)%nat then Reject RejCtLen
        else decrypt_client_info (fit 32 secret) randPub (fit 64 ctxTag) sid server_now
      end
    end.

  (* WebSocket.processFirstPacket from the header value on + decryptClientInfo *)
  Definition server_process_ws (hidden_b64 : list N) (staticPv : list N) (server_now : Z) : sres :=
    let hidden := b64_decode hidden_b64 in
    if (length hidden <? 96)%nat then Reject RejHello
    else
      let randPub := fit 32 (sub 0 32 hidden) in
      match dh staticPv randPub with
      | None => Reject RejDH
      | Some secret =>
        if negb (length (skipn 32 hidden) =? 64)%nat then Reject RejCtLen
        else decrypt_client_info (fit 32 secret) randPub (fit 64 (skipn 32 hidden)) [] server_now
      end.

  (* TLS.makeResponder: what is written to the connection *)
  Definition server_reply_tls (shared sid_echo key nonce filler cert : list N) : list N :=
    let encKey := fit 48 (seal shared (fit 12 nonce) key []) in
    compose_reply sid_echo (fit 12 nonce) encKey filler cert.
  (* WebSocket.makeResponder: the binary message *)
  Definition server_reply_ws (shared key nonce : list N) : list N :=
    nonce ++ seal shared nonce key [].

  (* DirectTLS.Handshake after the write: buf := make([]byte, 1024); three TLSConn.Read *)
  Definition client_finish_tls (shared : list N) (stream : list N) : option (list N) :=
    match tlsconn_read 1024 stream with
    | None => None
    | Some (body, s1) =>
      let buf := put_at 0 body (zeros 1024) in
      let encrypted := sub 6 38 buf ++ sub 84 116 buf in
      let nonce := sub 0 12 encrypted in
      let ciphertextWithTag := sub 12 60 encrypted in
      match open shared nonce ciphertextWithTag [] with
      | None => None
      | Some k =>
        match tlsconn_read 1024 s1 with
        | None => None
        | Some (_, s2) =>
          match tlsconn_read 1024 s2 with
          | None => None
          | Some _ => Some (fit 32 k)
          end
        end
      end
    end.
  (* WSOverTLS.Handshake after the upgrade: one binary message, must be 60 bytes *)
  Definition client_finish_ws (shared : list N) (msg : list N) : option (list N) :=
    if negb (length msg =? 60)%nat then None
    else
      match open shared (sub 0 12 msg) (skipn 12 msg) [] with
      | None => None
      | Some k => Some (fit 32 k)
      end.
End Handshake.

(* ------------------------------------------------------------------------------ executable instance *)
(* crypto/ecdh X25519: the all-zero shared secret is an error *)
Definition dh_x25519 (priv pubkey : list N) : option (list N) :=
  let r := x25519 (fit 32 priv) (fit 32 pubkey) in
  if all_zero r then None else Some r.
Definition pub_x25519 (priv : list N) : list N := x25519_base (fit 32 priv).

(* the Diffie-Hellman function is a parameter so that the driver can also supply shared secrets
   computed by Go (a table) for the cases that do not go through the Gallina ladder *)
Definition x_server_process_tls dh := server_process_tls dh gcm_open.
Definition x_server_process_ws dh := server_process_ws dh gcm_open.
Definition x_server_reply_tls := server_reply_tls gcm_seal.
Definition x_server_reply_ws := server_reply_ws gcm_seal.
Definition x_client_finish_tls := client_finish_tls gcm_open.
Definition x_client_finish_ws := client_finish_ws gcm_open.
Definition x_client_payload dh pubf := client_payload dh pubf gcm_seal.
Definition x_client_first_packet_tls dh pubf := client_first_packet_tls dh pubf gcm_seal.
Definition x_client_first_packet_ws dh pubf := client_first_packet_ws dh pubf gcm_seal.
