Require Extraction.
From Coq Require Import ExtrOcamlBasic.
From Cloak Require Import Model.Reorder Model.Mux.
Extraction Blacklist List String Int.
Extraction "../ocaml/gen/mux.ml" init step query_side query_conn sy_conns sy_pend.
