Require Extraction.
From Coq Require Import ExtrOcamlBasic.
From Cloak Require Import Model.Replay.
Extraction Blacklist List String Int.
Extraction "../ocaml/gen/c08.ml" serve_fixed serve rule_fixed rule_one rule_prefix mask255 rawkey.
