Require Extraction.
From Coq Require Import ExtrOcamlBasic ZArith.
From Cloak Require Import Model.UserDB.
Extraction Blacklist List String Int.
Extraction "../ocaml/gen/c18.ml" run a_run abs_store connect connect_use Z.add Z.mul Z.opp Z.div Z.modulo Z.eqb Z.ltb.
