Require Extraction.
From Coq Require Import ExtrOcamlBasic.
From Cloak Require Import Model.HelloGrammar Model.Auth.
Extraction Blacklist List String Int.
Extraction "../ocaml/gen/c10.ml"
  parse_records parse_record parse_client_stream parse_server_stream client_stream_name is_random_name
  wf_client_hello locate_fields hello_share hello_server_name parse_server_flight parse_appdata_stream
  tlsconn_write compose_reply mk_client_hello wf_skeleton.
