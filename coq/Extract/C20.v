Require Extraction.
From Coq Require Import ExtrOcamlBasic ZArith.
From Cloak Require Import Model.Config.
Extraction Blacklist List String Int.
Extraction "../ocaml/gen/c20.ml" process process_gen spec ssv_tokens ssv_to_json is_ssv Z.add Z.mul Z.opp Z.div Z.modulo Z.eqb.
