Require Extraction.
From Coq Require Import ExtrOcamlBasic.
From Cloak Require Import Model.Codec.
Extraction Blacklist List String Int.
Extraction "../ocaml/gen/c11.ml" encode decode flip_bit accepted payload_cipher recv_all.
