Require Extraction.
From Coq Require Import ExtrOcamlBasic.
From Cloak Require Import Model.Record.
Extraction Blacklist List String Int.
Extraction "../ocaml/gen/c05.ml" rec_write add_record_layer wire_of cut_at tls_read tls_reads run_sched ws_read ws_message.
