Require Extraction.
From Coq Require Import ExtrOcamlBasic.
From Cloak Require Import Model.Bucket.
Extraction Blacklist List String Int.
From Coq Require Import NArith.
(* N.succ only so that the datatype N exists in the module (ocaml/common.ml refers to it) *)
Extraction "../ocaml/gen/c19.ml" binit bops run run_gaps new_bucket_with_rate make_valve N.succ.
