Require Extraction.
From Coq Require Import ExtrOcamlBasic.
From Cloak Require Import Model.Panel Model.PanelPark.
Extraction Blacklist List String Int.
Extraction "../ocaml/gen/c16.ml" init step run_thread enabled at_hook is_done mkCfg mkDb
  table nrec recs nses sess queue db now lkQ lkA lkS nthr thr g_log
  r_uid r_bypass r_sess r_valve r_term s_owner s_sid s_closed d_cap d_credit d_exp rw_w rw_r
  qsum db_credit slook at_mgr mpoint_eqb.
