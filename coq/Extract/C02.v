Require Extraction.
From Coq Require Import ExtrOcamlBasic.
From Cloak Require Import Model.Reorder.
Extraction Blacklist List String Int.
Extraction "../ocaml/gen/c02.ml" rb_init steps rb_write rb_read rb_close.
