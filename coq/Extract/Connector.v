Require Extraction.
From Coq Require Import ExtrOcamlBasic.
From Cloak Require Import Model.Connector.
Extraction Blacklist List String Int.
Extraction "../ocaml/gen/connector.ml" conn_loop make_session creates count_ev is_sleep is_dial is_close is_deliver.
