Require Extraction.
From Coq Require Import ExtrOcamlBasic.
From Cloak Require Import Model.Hello Model.FirstPacket Model.Dispatch Model.DispatchInst Model.Crypto.GCM Model.LowOrder Model.ServerInit.
Extraction Blacklist List String Int.
Extraction "../ocaml/gen/c07.ml" rfp auth_first_packet decide dispatch_conn packet_of gcm_open dh_real in_window client_ns low_order low_order_points init_state is_bypass redir_host_port.
