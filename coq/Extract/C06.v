Require Extraction.
From Coq Require Import ExtrOcamlBasic.
From Cloak Require Import Model.HelloGrammar Model.Auth Model.SessionKey.
Extraction Blacklist List String Int.
Extraction "../ocaml/gen/c06.ml"
  pack unpack client_ts dh_x25519 pub_x25519
  x_client_payload x_server_process_tls x_server_process_ws x_server_reply_tls x_server_reply_ws
  x_client_finish_tls x_client_finish_ws
  wf_client_hello locate_fields parse_server_flight b64_decode b64_encode serve_keys table_after tbl_get.
