Require Extraction.
From Coq Require Import ExtrOcamlBasic.
From Cloak Require Import Model.Copy Model.RelayPair.
Extraction Blacklist List String Int.
Extraction "../ocaml/gen/relay.ml" copy route_tcp_up read_from read_at_least1 RelayPair.init RelayPair.run finished.
