Require Extraction.
From Coq Require Import ExtrOcamlBasic.
From Cloak Require Import Model.Hello Model.FirstPacket Model.Dispatch Model.DispatchInst.
Extraction Blacklist List String Int.
Extraction "../ocaml/gen/c09.ml" rfp rfp_gen relay first_data read_full_seg dispatch_gcm decide_gcm auth_gcm decide_real dh_real goweb
  server_writes relays finish_tls finish_ws parseClientHello parseExtensions parseKeyShare tls_first_packet ws_first_packet.
