Require Extraction.
From Coq Require Import ExtrOcamlBasic.
From Cloak Require Import Model.Datagram.
Extraction Blacklist List String Int.
Extraction "../ocaml/gen/c14.ml" dg_init steps dg_write dg_read dg_close max_unit usw_write relay_up relay_buf relay_buf_prefix route_udp_up relay_down route_udp_down stream_read_from_dgram ss_opened ssteps.
