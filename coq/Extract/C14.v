Require Extraction.
From Coq Require Import ExtrOcamlBasic.
From Cloak Require Import Model.Datagram.
Extraction Blacklist List String Int.
Extraction "../ocaml/gen/c14.ml" dg_init steps dg_write dg_read dg_close max_unit usw_write route_udp_up ss_opened ssteps.
