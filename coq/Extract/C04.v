Require Extraction.
From Coq Require Import ExtrOcamlBasic.
From Cloak Require Import Model.Codec Model.Crypto.Salsa20 Model.Crypto.ChaChaPoly Model.Crypto.GCM.
Extraction Blacklist List String Int.
Extraction "../ocaml/gen/c04.ml" encode decode recover obfuscate encode_in_buf payload_cipher
  max_stream_unit_write pad_len rand_bound
  salsa20_xor chachapoly_seal chachapoly_open gcm_seal gcm_open.
