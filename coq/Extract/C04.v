Require Extraction.
From Coq Require Import ExtrOcamlBasic.
From Cloak Require Import Model.Codec Model.SessionLimit Model.Crypto.Salsa20 Model.Crypto.ChaChaPoly Model.Crypto.GCM.
Extraction Blacklist List String Int.
Extraction "../ocaml/gen/c04.ml" encode decode recover obfuscate encode_in_buf payload_cipher
  max_stream_unit_write pad_len rand_bound
  make_session limit_in_force stream_write_plan read_from_plan closing_notice_plan read_from_offer next_seq
  salsa20_xor chachapoly_seal chachapoly_open gcm_seal gcm_open.
