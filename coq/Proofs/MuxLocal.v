(* Local facts about a single application call in a given state (C03: after a close). *)
From Coq Require Import NArith ZArith List Bool Lia.
From Cloak Require Import Model.Reorder Model.Mux Proofs.MuxBase Proofs.MuxSafety.
Import ListNotations.
Local Open Scope N_scope.

Lemma write_on_closed_stream y x sid data ch st :
  lookup sid (se_objs (sess y x)) = Some st -> st_closed st = true ->
  stream_write y x sid data ch = (y, [ERet R_BROKEN_STREAM 0 []]).
Proof. intros El Hc. unfold stream_write. now rewrite El, Hc. Qed.

(* a closed stream keeps serving the bytes that had arrived, then reports the broken-stream error;
   it never blocks *)
Lemma read_on_closed_stream y x sid k st :
  WF y -> lookup sid (se_objs (sess y x)) = Some st -> st_closed st = true ->
  match pipe (st_rb st) with
  | [] => try_read y x sid (S k) = Some (y, R_BROKEN_STREAM, [])
  | _ => exists y', try_read y x sid (S k) = Some (y', R_OK, firstn (S k) (pipe (st_rb st)))
  end.
Proof.
  intros Hwf El Hc. destruct (WF_sess y x Hwf) as (Ho & _ & _). destruct (Ho _ _ El) as (H1 & _ & _).
  unfold try_read. rewrite El. unfold rb_read. destruct (pipe (st_rb st)) as [|b p] eqn:Ep.
  - rewrite <- H1, Hc. reflexivity.
  - eexists. reflexivity.
Qed.

(* a local Close keeps what had arrived: the pipe content of the closed stream is what it was *)
Lemma rb_close_keeps_pipe rb : pipe (rb_close rb) = pipe rb /\ pclosed (rb_close rb) = true.
Proof. split; reflexivity. Qed.
