(* Extra facts about the re-sequencer invariant of Proofs/Reorder.v needed when the set of
   frames of a stream grows over time (the sender keeps emitting): the invariant only looks at
   the frames that have arrived. *)
From Coq Require Import NArith List Lia Bool.
From Coq Require Import ZifyN ZifyBool.
From Cloak Require Import Model.Reorder Proofs.Reorder.
Import ListNotations.
Local Open Scope N_scope.

Lemma sorted_above_ext F F' lo h :
  (forall g, In g h -> F' (seq g) = F (seq g)) -> sorted_above F lo h -> sorted_above F' lo h.
Proof.
  revert lo; induction h as [|f t IH]; intros lo Hf Hs; cbn in *; [exact I|].
  destruct Hs as (H1 & H2 & H3 & H4). repeat split; try assumption.
  - rewrite Hf; [exact H3|now left].
  - apply IH; [intros g Hg; apply Hf; now right|exact H4].
Qed.

Lemma cat_ext F F' b k : (forall i, b <= i < b + N.of_nat k -> F' i = F i) -> cat F' b k = cat F b k.
Proof.
  revert b; induction k as [|k IH]; intros b H; [reflexivity|].
  unfold cat in *. cbn [range flat_map]. f_equal.
  - unfold P. rewrite H; [reflexivity|lia].
  - apply IH. intros i Hi. apply H. lia.
Qed.

Lemma Inv_ext F cl F' cl' b A st out n :
  Inv F cl b A st out ->
  (forall i, In i A -> i < n) ->
  (forall i, i < n -> F' i = F i) ->
  (cl' = cl \/ n <= cl') ->
  Inv F' cl' b A st out.
Proof.
  intros (k & Hn & Hpc & Hs & Ho & Hncl & HA) HAn HF Hcl.
  assert (Hlt : forall i, b <= i < next st -> i < n).
  { intros i Hi. apply HAn. apply HA. left. exact Hi. }
  exists k. repeat split; try assumption.
  - eapply sorted_above_ext; [|exact Hs]. intros g Hg. apply HF. apply HAn. apply HA. right. exists g. auto.
  - rewrite Ho. symmetry. apply cat_ext. intros i Hi. apply HF. apply Hlt. lia.
  - intros i Hi. destruct Hcl as [->|Hge]; [apply Hncl; exact Hi|]. specialize (Hlt i Hi). lia.
  - apply HA.
  - apply HA.
Qed.

(* a closed pipe ignores what the re-sequencer hands it *)
Lemma drain_closed_pipe h : forall nx p, snd (fst (drain true h nx p)) = p.
Proof.
  induction h as [|f t IH]; intros nx p; cbn; [reflexivity|].
  destruct (seq f =? nx); [|reflexivity]. destruct (closing f); [reflexivity|].
  unfold pipe_write. apply IH.
Qed.
Lemma rb_write_closed_pipe b f : pclosed b = true -> pipe (fst (fst (rb_write b f))) = pipe b.
Proof.
  intros Hc. unfold rb_write. rewrite Hc. destruct (is_nil (heap b) && (seq f =? next b)).
  - destruct (closing f); reflexivity.
  - destruct (seq f <? next b); [reflexivity|].
    pose proof (drain_closed_pipe (insert f (heap b)) (next b) (pipe b)) as H.
    destruct (drain true _ _ _) as [[[h nx] p] c]. cbn in *. exact H.
Qed.

Lemma cat_snoc' F b n : cat F b (S n) = cat F b n ++ P F (b + N.of_nat n).
Proof. unfold cat. replace (S n) with (n + 1)%nat by lia.
  rewrite range_app, flat_map_app. cbn. now rewrite app_nil_r. Qed.
