(* C03, the other half: on a healthy session, once the writer has closed the stream and no frame of
   that direction is in flight any more, the reader's end IS closed (unless the reader closed it
   itself): the end-of-stream is delivered.  With MuxExact: it then holds exactly the bytes written. *)
From Coq Require Import NArith ZArith List Bool Lia Sorting.Permutation.
From Coq Require Import ZifyN ZifyBool.
From Cloak Require Import Model.Reorder Model.Mux Proofs.Reorder Proofs.ReorderExt Proofs.MuxBase Proofs.MuxSafety
  Proofs.MuxView Proofs.MuxWire Proofs.MuxEffect Proofs.MuxPay Proofs.MuxData Proofs.MuxCalm Proofs.MuxCount
  Proofs.MuxUp Proofs.MuxCov Proofs.MuxComplete Proofs.MuxOpen Proofs.MuxExact.
Import ListNotations.
Local Open Scope N_scope.

Section Live.
Variable s : side.
Variable sid : N.
Variable k : nat.
Let o := other s.
Notation inflight := (inflight s sid).
Notation sview := (sview s sid).
Notation rview := (rview s sid).
Notation keep := (keep sid).
Notation PD := (PD s sid).
Notation wfE := (wfE sid).
Notation ev_frames := (ev_frames s sid).
Notation rclosed := (rclosed s sid).

(* while the reader's object is open its re-sequencer satisfies the re-sequencer invariant for the
   set A of arrived frames, and every emitted frame has arrived or is on the wire *)
Definition LV (y : sys) (E : list wframe) (Rd : list N) : Prop :=
  match rview y with
  | Some (rb, false) =>
      exists A, Inv (FE E) (cl_of E) 0 A rb Rd /\ (forall i, In i A -> i < nE E) /\
                (forall fr, In fr (inflight y) -> ~ In (w_seq fr) A) /\
                (forall i, i < nE E -> In i A \/ onwire (inflight y) i)
  | None => Rd = [] /\ forall i, i < nE E -> onwire (inflight y) i
  | Some (_, true) => True
  end.

Lemma rclosed_step b y a y' : vstep s sid b y a y' -> rclosed y -> rclosed y'.
Proof.
  intros Hv (rb & Hrv).
  assert (Hn : ~ ron (rview y')).
  { intros Hr. pose proof (ron_back s sid _ _ _ _ Hv Hr) as H0. rewrite Hrv in H0. exact H0. }
  destruct (rview y') as [[rb' [|]]|] eqn:E; [exists rb'; exact E|exfalso; apply Hn; exact I|exfalso; apply Hn; exact I].
Qed.
Lemma rclosed_steps b y acts y' : vsteps s sid b y acts y' -> rclosed y -> rclosed y'.
Proof. induction 1; [auto|]. intros Hc. apply IHvsteps. eapply rclosed_step; eauto. Qed.

Lemma LV_closed y E Rd : rclosed y -> LV y E Rd.
Proof. intros (rb & H). unfold LV. now rewrite H. Qed.

(* ---- one action other than an arrival ---- *)
Lemma LV_step y a y' E Rd :
  vstep s sid false y a y' -> (forall fr, a <> AArrive fr) -> PD y E Rd [] -> LV y E Rd ->
  nE (E ++ emitted [a]) + 2 < two64 ->
  LV y' (E ++ emitted [a]) (Rd ++ readout [a]).
Proof.
  intros Hv Hna (Hw & Hs & Hn & Hg & Hnd & Hr) Hlv Hb.
  assert (Hbb : nE E + 1 < two64) by (pose proof (nE_app_le E [] (emitted [a])); rewrite app_nil_r in *; cbn [app] in *; lia).
  (* the same receiver state, frames on the wire permuted *)
  assert (Hsame : forall y2, rview y2 = rview y -> Permutation (inflight y) (inflight y2) -> LV y2 E Rd).
  { intros y2 H2 Hp. unfold LV in *. rewrite H2. destruct (rview y) as [[rb [|]]|]; [exact I| |].
    - destruct Hlv as (A & HI & HA & Hd & Hc). exists A. split; [exact HI|split; [exact HA|split]].
      + intros fr Hin. apply Hd. eapply Permutation_in; [symmetry; exact Hp|exact Hin].
      + intros i Hi. destruct (Hc i Hi) as [H|H]; [left; exact H|right; eapply onwire_perm; eauto].
    - destruct Hlv as [Hrd Hc]. split; [exact Hrd|]. intros i Hi. eapply onwire_perm; [exact Hp|apply Hc; exact Hi]. }
  assert (Hrc : forall y2, rclose (rview y) (rview y2) -> Permutation (inflight y) (inflight y2) -> LV y2 E Rd).
  { intros y2 [Heq|(rb & Ha & Hbq)] Hp; [apply Hsame; assumption|]. unfold LV. now rewrite Hbq. }
  (* a frame numbered nE E is put on the wire *)
  assert (Hemit : forall fr y2, w_seq fr = nE E -> (w_cl fr = 0 \/ w_cl fr = 1) -> cl_of E = two64 ->
            Permutation (inflight y2) (fr :: inflight y) -> rclose (rview y) (rview y2) -> LV y2 (E ++ [fr]) Rd).
  { intros fr y2 Hseq Hcl Hc2 Hp Hrcl.
    destruct Hrcl as [Heq|(rb & Ha & Hbq)]; [|unfold LV; now rewrite Hbq].
    unfold LV in *. rewrite Heq. destruct (rview y) as [[rb [|]]|]; [exact I| |].
    - destruct Hlv as (A & HI & HA & Hd & Hc). exists A.
      split.
      { eapply Inv_ext; [exact HI|exact HA|intros i Hi; apply FE_app; exact Hi|].
        rewrite cl_of_app, Hc2. destruct (w_cl fr =? 0); [left; reflexivity|right; lia]. }
      split; [intros i Hi; rewrite nE_app; specialize (HA _ Hi); lia|]. split.
      + intros f Hin. apply (Permutation_in _ Hp) in Hin. destruct Hin as [<-|Hin]; [|apply Hd; exact Hin].
        rewrite Hseq. intros Hx. specialize (HA _ Hx). lia.
      + intros i Hi. rewrite nE_app in Hi. destruct (N.eq_dec i (nE E)) as [->|Hne].
        * right. exists fr. split; [eapply Permutation_in; [symmetry; exact Hp|now left]|exact Hseq].
        * destruct (Hc i) as [H|(f & Hf & Hsf)]; [lia|left; exact H|right].
          exists f. split; [eapply Permutation_in; [symmetry; exact Hp|now right]|exact Hsf].
    - destruct Hlv as [Hrd Hc]. split; [exact Hrd|]. intros i Hi. rewrite nE_app in Hi.
      destruct (N.eq_dec i (nE E)) as [->|Hne].
      + exists fr. split; [eapply Permutation_in; [symmetry; exact Hp|now left]|exact Hseq].
      + destruct (Hc i) as (f & Hf & Hsf); [lia|]. exists f. split; [eapply Permutation_in; [symmetry; exact Hp|now right]|exact Hsf]. }
  destruct Hv as [y y' (Hp & Hsc & Hrc')
                 |y y' q w pay Hs1 Hs2 Hp Hr2
                 |y y' q w Hs1 Hs2 Hp Hrc'
                 |y y' q w w' Hs1 Hs2 Hp Hrc'
                 |y y' l Hbt Hp Hs2 Hr2
                 |y y' fr rb c Hr1 Hr2 Hi2 Hs2
                 |y y' rb c kk d rb' Hr1 Hrd Hr2 Hi2 Hs2
                 |y y' Hs1 Hs2 Hi2 Hr2
                 |y y' Hr1 Hr2 Hi2 Hs2]; cbn [emitted readout flat_map app]; rewrite ?app_nil_r.
  - apply Hrc; assumption.
  - destruct (Hs _ _ Hs1) as (-> & -> & Had).
    apply Hemit; [reflexivity|left; reflexivity|apply all_data_cl_of; exact Had|exact Hp|left; exact Hr2].
  - destruct (Hs _ _ Hs1) as (-> & _ & Had).
    apply Hemit; [reflexivity|right; reflexivity|apply all_data_cl_of; exact Had|exact Hp|exact Hrc'].
  - apply Hrc; assumption.
  - discriminate Hbt.
  - exfalso. eapply Hna. reflexivity.
  - (* read *)
    unfold LV in *. rewrite Hr2. rewrite Hr1 in Hlv. destruct c; [exact I|].
    destruct Hlv as (A & HI & HA & Hd & Hc).
    pose proof (read_pres (FE E) (cl_of E) 0 A rb Rd kk HI) as Hrp. rewrite Hrd in Hrp.
    exists A. split; [exact Hrp|split; [exact HA|split]].
    + intros f Hin. apply Hd. now rewrite <- Hi2.
    + intros i Hi. destruct (Hc i Hi) as [H|H]; [left; exact H|right; now rewrite Hi2].
  - apply Hsame; [exact Hr2|now rewrite Hi2].
  - (* the receiver's stream object appears *)
    unfold LV in *. rewrite Hr2. rewrite Hr1 in Hlv. destruct Hlv as [-> Hc].
    exists []. split; [apply (Inv_init (FE E) (cl_of E) (FE_seq sid E Hw) (FE_closing sid E Hw Hbb))|].
    split; [intros i []|split; [intros f _ []|]]. intros i Hi. right. rewrite Hi2. apply Hc. exact Hi.
Qed.

Lemma LV_steps_noarr y acts y' : vsteps s sid false y acts y' -> forall E Rd,
  arrivals acts = [] -> PD y E Rd [] -> LV y E Rd -> nE (E ++ emitted acts) + 2 < two64 ->
  LV y' (E ++ emitted acts) (Rd ++ readout acts).
Proof.
  induction 1 as [y|y a y1 l y2 Hstep Hrest IH]; intros E Rd Ha Hpd Hlv Hb.
  - cbn. now rewrite !app_nil_r.
  - rewrite emitted_cons, readout_cons, !app_assoc.
    assert (Ha1 : (forall fr, a <> AArrive fr) /\ arrivals l = []).
    { destruct a; cbn in Ha; try discriminate; split; auto; intros ? Hx; discriminate Hx. }
    destruct Ha1 as [Hna Hal].
    rewrite emitted_cons in Hb.
    assert (Hb1 : nE (E ++ emitted [a]) + 2 < two64) by (pose proof (nE_app_le E (emitted [a]) (emitted l)); lia).
    apply IH; [exact Hal| | |rewrite <- app_assoc; exact Hb].
    + eapply PD_step; [exact Hstep|exact Hpd|exact Hb1|]. destruct a; try reflexivity. exfalso. eapply Hna. reflexivity.
    + eapply LV_step; eauto.
Qed.

Lemma LV_same_view y y' E Rd : inflight y' = inflight y -> rview y' = rview y -> LV y E Rd -> LV y' E Rd.
Proof. unfold LV. intros -> ->. exact (fun H => H). Qed.

(* ---- one label ---- *)
Lemma LV_label y l ch y' evs E Rd :
  step y l ch = (y', evs) -> busy_at y l -> valid_picks k ch -> Healthy k y -> WF y -> CIs y ->
  PD y E Rd [] -> LV y E Rd -> fresh_at y l -> l <> LCloseStream o sid ->
  nE (E ++ ev_frames evs) + 2 < two64 ->
  LV y' (E ++ ev_frames evs) (Rd ++ step_reads s sid l evs).
Proof.
  intros H Hbusy Hvp Hh Hwf Hci Hpd Hlv Hfresh Hnl Hb.
  pose proof H as Hstep. unfold step in H.
  destruct (step_core y l ch) as [yc ec] eqn:Ec.
  destruct (resolve (sy_pend yc) yc) as [[yr ps] er] eqn:Er. injection H as <- <-.
  assert (Hw2 : forall q w, sview y = Some (q, w, false) -> w <> 2).
  { intros q w Hsv. destruct Hpd as (_ & Hs & _). destruct (Hs _ _ Hsv) as (_ & -> & _). lia. }
  destruct (step_core_effect s sid _ _ _ _ _ Ec Hwf Hfresh Hw2) as (y1 & pend & acts & Hpop & Hv & He & Hr & Hpr & Harr & Hlab).
  rewrite (busy_not_droppy _ _ Hbusy) in Hv.
  destruct (resolve_effect s sid _ _ _ _ _ Er) as (acts2 & Hv2 & He2 & Ha2 & Hr2 & Hf2 & Hd2).
  assert (HE : ev_frames (ec ++ er) = emitted acts ++ emitted acts2).
  { rewrite (ev_frames_app s sid), He, He2, Hf2. reflexivity. }
  assert (HR : step_reads s sid l (ec ++ er) = readout acts ++ readout acts2).
  { unfold MuxEffect.step_reads. rewrite Hr, Hr2, (ev_pend_reads_app s sid), Hpr. cbn [app]. f_equal.
    unfold core_reads. destruct l; try reflexivity. destruct (_ && _); [|reflexivity].
    now rewrite ret_data_app, Hd2, app_nil_r. }
  rewrite HE, HR, !app_assoc. rewrite HE, app_assoc in Hb.
  assert (Hb1 : nE (E ++ emitted acts) + 2 < two64).
  { pose proof (nE_app_le E (emitted acts) (emitted acts2)). rewrite <- app_assoc in Hb. lia. }
  assert (Hpdc : PD yc (E ++ emitted acts) (Rd ++ readout acts) []).
  { destruct Hpop as [[-> ->]|(fr & -> & Hk & Hperm & Hs1 & Hr1)].
    - destruct Harr as [[Ha _]|(f & Hf & _)]; [|discriminate].
      apply (PD_steps_noarr s sid _ _ _ _ Hv); assumption.
    - pose proof (PD_pop s sid _ _ _ _ _ Hpd Hperm Hs1 Hr1) as Hpd1.
      destruct Harr as [[Ha _]|(f & Hf & Ha)].
      + eapply PD_drop_P. apply (PD_steps_noarr s sid _ _ _ _ Hv); eassumption.
      + injection Hf as <-. apply (PD_steps_arr s sid _ _ _ _ Hv _ _ fr); assumption. }
  (* enough: the invariant after the core part *)
  assert (Hfin : LV yc (E ++ emitted acts) (Rd ++ readout acts) ->
                 LV (set_pend yr ps) ((E ++ emitted acts) ++ emitted acts2) ((Rd ++ readout acts) ++ readout acts2)).
  { intros Hc. apply (LV_same_view yr); [reflexivity|unfold MuxView.rview; now rewrite sess_set_pend|].
    apply (LV_steps_noarr _ _ _ Hv2); [exact Ha2|exact Hpdc|exact Hc|exact Hb]. }
  apply Hfin. clear Hfin.
  destruct Hpop as [[-> ->]|(fr & -> & Hk & Hperm & Hs1 & Hr1)].
  { (* no frame of this direction was taken off the wire *)
    destruct Harr as [[Ha _]|(f & Hf & _)]; [|discriminate].
    apply (LV_steps_noarr _ _ _ Hv); assumption. }
  (* a frame of this direction is handed to the reader's session: work on the state *)
  destruct (Hlab fr eq_refl) as (c & cn & q & -> & En & Eq). fold o in En, Eq, Ec, Hbusy, Hfresh, Hnl.
  assert (Hsid : w_sid fr = sid) by (unfold MuxView.keep in Hk; apply andb_prop in Hk as [Hk _]; lia).
  remember (rview y) as rvy eqn:Erv. symmetry in Erv.
  destruct rvy as [[rbv [|]]|].
  { (* the reader's end is already closed *)
    apply LV_closed. apply (rclosed_steps _ _ _ _ Hv). exists rbv. congruence. }
  - (* open *)
    assert (Hoa : oa o sid y) by (apply (rview_oa s sid); intros (rb & Hx); congruence).
    rewrite step_core_deliver in Ec. rewrite En in Ec.
    pose proof Hh as (_ & _ & Hcs & _). destruct (Hcs _ _ En) as (C1 & C2 & C3 & _).
    assert (Hgone : conn_closed_end cn o || c_failed cn = false) by (destruct o; cbn; rewrite ?C1, ?C2, C3; reflexivity).
    fold o in Ec. rewrite Hgone, Eq in Ec.
    set (y0 := set_conns y (setN (N.to_nat c) (conn_set_q cn o q) (sy_conns y))) in *.
    destruct (recv_frame y0 o fr ch) as [[y2 ch2] evs2] eqn:Erf. injection Ec as <- <-.
    destruct (deliver_pop_H k y c cn o fr q Hh En Eq) as [Hh0 Hcl2].
    assert (Hwf0 : WF y0).
    { unfold y0. apply WF_set_conns; [exact Hwf|]. destruct (conn_set_q_flags cn o q) as (Ha' & Hb' & _).
      eapply conns_mono_setN; [exact En|rewrite Ha'; auto|rewrite Hb'; auto]. }
    pose proof (recv_frame_own k o sid y0 fr ch _ _ _ Erf Hh0 Hvp Hwf0 (CIs_set_conns _ _ Hci) Hcl2 Hsid (oa_set_conns _ _ _ _ Hoa)) as Hown.
    cbv zeta in Hown. unfold y0 in Hown at 1. rewrite sess_set_conns in Hown.
    pose proof Erv as Erv'. rewrite (rview_def s sid) in Erv'. fold o in Erv'.
    destruct (lookup sid (se_objs (sess y o))) as [st|] eqn:Els; [|discriminate]. cbn in Erv'. injection Erv' as Hrb Hclo.
    change (mkF (w_seq fr) (negb (w_cl fr =? 0)) (w_pay fr)) with (to_frame fr) in Hown.
    destruct (rb_write (st_rb st) (to_frame fr)) as [[rb' tbc] er'] eqn:Ewr.
    destruct Hown as (st' & El' & Ec' & Erb' & Hquiet).
    destruct tbc.
    { apply LV_closed. exists (rb_close rb'). rewrite (rview_def s sid). fold o. rewrite El'. cbn. unfold rv. now rewrite Ec', Erb'. }
    destruct (Hquiet eq_refl) as [Hev Hconns].
    (* nothing emitted or read in the core part *)
    assert (Hem : emitted acts = []) by (rewrite He, Hev; reflexivity).
    assert (Hr0 : readout acts = []) by (rewrite Hr; reflexivity).
    rewrite Hem, Hr0, !app_nil_r.
    (* the frame was in flight; the re-sequencer takes it *)
    pose proof (inflight_dequeue s sid y o (N.to_nat c) cn fr q En Eq) as Hdq. fold y0 in Hdq.
    rewrite side_eqb_refl, Hk in Hdq. cbn [andb app] in Hdq.
    assert (Hif2 : inflight y2 = inflight y0) by (unfold MuxView.inflight; now rewrite Hconns).
    destruct Hpd as (Hw & Hs & Hn & Hg & Hnd & Hro). rewrite app_nil_r in Hg, Hnd.
    assert (Hfr : In fr (inflight y)) by (eapply Permutation_in; [symmetry; exact Hdq|now left]).
    pose proof (Hg _ Hfr) as Hgf. pose proof (nthf_lt _ _ _ Hgf) as Hlt.
    assert (Hbb : nE E + 1 < two64) by (pose proof (nE_app_le E [] (emitted acts)); rewrite app_nil_r in *; cbn [app] in *; lia).
    unfold LV in Hlv. rewrite Erv in Hlv. destruct Hlv as (A & HI & HA & Hd & Hc).
    rewrite <- Hrb in HI.
    assert (Hni : ~ In (w_seq fr) A) by (apply Hd; exact Hfr).
    destruct (write_pres (FE E) (cl_of E) (FE_seq sid E Hw) (FE_closing sid E Hw Hbb) 0 A (st_rb st) Rd (w_seq fr) HI Hni) as (st2 & c' & Hwr' & HcF & HcT);
      [lia|lia|].
    rewrite (to_frame_genuine _ _ Hgf) in Ewr. rewrite Ewr in Hwr'. injection Hwr' as <- <- _.
    specialize (HcF eq_refl).
    unfold LV. rewrite (rview_def s sid). fold o. rewrite El'. cbn. unfold rv. rewrite Ec', Erb'.
    exists (w_seq fr :: A). split; [exact HcF|]. split; [intros i [<-|Hi]; [exact Hlt|apply HA; exact Hi]|]. split.
    + intros f Hf [Heq|HinA].
      * (* sequence numbers of frames in flight are distinct *)
        rewrite Hif2 in Hf.
        assert (Hnd' : NoDup (map w_seq (fr :: inflight y0))) by (eapply nodup_perm; [exact Hdq|exact Hnd]).
        inversion Hnd' as [|? ? Hnotin _]; subst. apply Hnotin. rewrite Heq. apply in_map. exact Hf.
      * rewrite Hif2 in Hf. apply (Hd f); [eapply Permutation_in; [symmetry; exact Hdq|now right]|exact HinA].
    + intros i Hi. destruct (Hc i Hi) as [H|(f & Hf & Hsf)]; [left; now right|].
      apply (Permutation_in _ Hdq) in Hf. destruct Hf as [<-|Hf]; [left; left; exact Hsf|].
      right. exists f. split; [rewrite Hif2; exact Hf|exact Hsf].
  - (* the reader's stream object does not exist yet: this frame creates it *)
    assert (Hoa : oa o sid y) by (apply (rview_oa s sid); intros (rb & Hx); congruence).
    rewrite step_core_deliver in Ec. rewrite En in Ec.
    pose proof Hh as (_ & _ & Hcs & _). destruct (Hcs _ _ En) as (C1 & C2 & C3 & _).
    assert (Hgone : conn_closed_end cn o || c_failed cn = false) by (destruct o; cbn; rewrite ?C1, ?C2, C3; reflexivity).
    fold o in Ec. rewrite Hgone, Eq in Ec.
    set (y0 := set_conns y (setN (N.to_nat c) (conn_set_q cn o q) (sy_conns y))) in *.
    destruct (recv_frame y0 o fr ch) as [[y2 ch2] evs2] eqn:Erf. injection Ec as <- <-.
    destruct (deliver_pop_H k y c cn o fr q Hh En Eq) as [Hh0 Hcl2].
    assert (Hwf0 : WF y0).
    { unfold y0. apply WF_set_conns; [exact Hwf|]. destruct (conn_set_q_flags cn o q) as (Ha' & Hb' & _).
      eapply conns_mono_setN; [exact En|rewrite Ha'; auto|rewrite Hb'; auto]. }
    pose proof (recv_frame_own k o sid y0 fr ch _ _ _ Erf Hh0 Hvp Hwf0 (CIs_set_conns _ _ Hci) Hcl2 Hsid (oa_set_conns _ _ _ _ Hoa)) as Hown.
    cbv zeta in Hown. unfold y0 in Hown at 1. rewrite sess_set_conns in Hown.
    pose proof Erv as Erv'. rewrite (rview_def s sid) in Erv'. fold o in Erv'.
    destruct (lookup sid (se_objs (sess y o))) as [st|] eqn:Els; [discriminate|].
    change (mkF (w_seq fr) (negb (w_cl fr =? 0)) (w_pay fr)) with (to_frame fr) in Hown.
    destruct (rb_write (rb_init 0) (to_frame fr)) as [[rb' tbc] er'] eqn:Ewr.
    destruct Hown as (st' & El' & Ec' & Erb' & Hquiet).
    destruct tbc.
    { apply LV_closed. exists (rb_close rb'). rewrite (rview_def s sid). fold o. rewrite El'. cbn. unfold rv. now rewrite Ec', Erb'. }
    destruct (Hquiet eq_refl) as [Hev Hconns].
    assert (Hem : emitted acts = []) by (rewrite He, Hev; reflexivity).
    assert (Hr0 : readout acts = []) by (rewrite Hr; reflexivity).
    rewrite Hem, Hr0, !app_nil_r.
    pose proof (inflight_dequeue s sid y o (N.to_nat c) cn fr q En Eq) as Hdq. fold y0 in Hdq.
    rewrite side_eqb_refl, Hk in Hdq. cbn [andb app] in Hdq.
    assert (Hif2 : inflight y2 = inflight y0) by (unfold MuxView.inflight; now rewrite Hconns).
    destruct Hpd as (Hw & Hs & Hn & Hg & Hnd & Hro). rewrite app_nil_r in Hg, Hnd.
    assert (Hfr : In fr (inflight y)) by (eapply Permutation_in; [symmetry; exact Hdq|now left]).
    pose proof (Hg _ Hfr) as Hgf. pose proof (nthf_lt _ _ _ Hgf) as Hlt.
    assert (Hbb : nE E + 1 < two64) by (pose proof (nE_app_le E [] (emitted acts)); rewrite app_nil_r in *; cbn [app] in *; lia).
    unfold LV in Hlv. rewrite Erv in Hlv. destruct Hlv as [-> Hc].
    pose proof (Inv_init (FE E) (cl_of E) (FE_seq sid E Hw) (FE_closing sid E Hw Hbb) 0) as HI.
    destruct (write_pres (FE E) (cl_of E) (FE_seq sid E Hw) (FE_closing sid E Hw Hbb) 0 [] (rb_init 0) [] (w_seq fr) HI (fun x => x)) as (st2 & c' & Hwr' & HcF & HcT);
      [lia|lia|].
    rewrite (to_frame_genuine _ _ Hgf) in Ewr. rewrite Ewr in Hwr'. injection Hwr' as <- <- _.
    specialize (HcF eq_refl).
    unfold LV. rewrite (rview_def s sid). fold o. rewrite El'. cbn. unfold rv. rewrite Ec', Erb'.
    exists [w_seq fr]. split; [exact HcF|]. split; [intros i [<-|[]]; exact Hlt|]. split.
    + intros f Hf [Heq|[]]. rewrite Hif2 in Hf.
      assert (Hnd' : NoDup (map w_seq (fr :: inflight y0))) by (eapply nodup_perm; [exact Hdq|exact Hnd]).
      inversion Hnd' as [|? ? Hnotin _]; subst. apply Hnotin. rewrite Heq. apply in_map. exact Hf.
    + intros i Hi. destruct (Hc i Hi) as (f & Hf & Hsf).
      apply (Permutation_in _ Hdq) in Hf. destruct Hf as [<-|Hf]; [left; left; exact Hsf|].
      right. exists f. split; [rewrite Hif2; exact Hf|exact Hsf].
Qed.

(* ---- a whole run ---- *)
Lemma LV_run ls : forall y y' os E Rd,
  run y ls = (y', os) -> WF y -> CIs y -> Healthy k y -> PD y E Rd [] -> LV y E Rd ->
  fresh_run y ls -> busy_run k y ls -> no_local_close s sid ls ->
  nE (E ++ run_frames s sid os) + 2 < two64 ->
  PD y' (E ++ run_frames s sid os) (Rd ++ run_reads s sid ls os) [] /\
  LV y' (E ++ run_frames s sid os) (Rd ++ run_reads s sid ls os).
Proof.
  induction ls as [|[l ch] t IH]; intros y y' os E Rd H Hwf Hci Hh Hpd Hlv Hfr Hbusy Hnl Hb; cbn in H.
  - injection H as <- <-. cbn. rewrite !app_nil_r. auto.
  - destruct (step y l ch) as [y1 o1] eqn:Es. destruct (run y1 t) as [y2 os2] eqn:Er. injection H as <- <-.
    cbn [run_frames run_reads]. rewrite !app_assoc. cbn [run_frames] in Hb. rewrite app_assoc in Hb.
    destruct Hfr as [Hf1 Hf2]. rewrite Es in Hf2. cbn [fst] in Hf2.
    destruct Hbusy as (Hb1 & Hv & Hb2). rewrite Es in Hb2. cbn [fst] in Hb2.
    inversion Hnl as [|? ? Hn1 Hn2]; subst. cbn [fst] in Hn1.
    assert (Hbb : nE (E ++ ev_frames o1) + 2 < two64).
    { pose proof (nE_app_le E (ev_frames o1) (run_frames s sid os2)). rewrite <- app_assoc in Hb. lia. }
    apply (IH y1); [exact Er|eapply step_WF; eauto|eapply step_CIs; eauto|eapply busy_step; eauto| | |exact Hf2|exact Hb2|exact Hn2|exact Hb].
    + eapply PD_label; eauto.
    + eapply LV_label; eauto.
Qed.

(* what the invariant says once the writer has closed and nothing is in flight *)
Lemma LV_delivered y E Rd :
  PD y E Rd [] -> LV y E Rd -> cl_of E <> two64 -> inflight y = [] -> nE E + 2 < two64 -> rclosed y.
Proof.
  intros (Hw & _) Hlv Hcl Hif Hb. unfold LV in Hlv. rewrite Hif in Hlv.
  assert (Hpos : 0 < nE E).
  { destruct (cl_of_cases E) as [Hx|[_ Hx]]; [contradiction|exact Hx]. }
  destruct (rview y) as [[rb [|]]|] eqn:Erv; [exists rb; exact Erv| |].
  - exfalso. destruct Hlv as (A & HI & HA & _ & Hc).
    assert (Hall : forall i, i < nE E -> In i A).
    { intros i Hi. destruct (Hc i Hi) as [H|(f & [] & _)]. exact H. }
    pose proof HI as (kk & Hnx & Hpc & Hso & Ho & Hncl & HAiff).
    assert (Hbb : nE E + 1 < two64) by lia.
    destruct (cl_of_cases E) as [Hx|[Hc2 _]]; [contradiction|].
    (* the closing frame has arrived, so has everything before it: the re-sequencer is past it *)
    destruct (N.lt_trichotomy (next rb) (nE E)) as [Hlt|[Heq|Hgt]].
    + assert (Hin : In (next rb) A) by (apply Hall; exact Hlt).
      apply HAiff in Hin. destruct Hin as [Hx|(g & Hg1 & Hg2)]; [lia|].
      pose proof (sorted_above_in (FE E) (cl_of E) (FE_seq sid E Hw) (FE_closing sid E Hw Hbb) _ _ _ Hso Hg1). lia.
    + apply (Hncl (cl_of E)); [lia|reflexivity].
    + assert (Hin : In (nE E) A) by (apply HAiff; left; lia). specialize (HA _ Hin). lia.
  - exfalso. destruct Hlv as [_ Hc]. destruct (Hc 0 Hpos) as (f & [] & _).
Qed.
End Live.

(* C03: the end-of-stream is delivered *)
Theorem close_is_delivered s sid k unit toA toB ls :
  (1 <= k)%nat -> 1 <= unit ->
  fresh_run (init k false unit toA toB) ls -> busy_run k (init k false unit toA toB) ls ->
  no_local_close s sid ls ->
  let os := outputs k false unit toA toB ls in
  let y := reach k false unit toA toB ls in
  nE (run_frames s sid os) + 2 < two64 ->
  cl_of (run_frames s sid os) <> two64 -> inflight s sid y = [] ->
  exists rb, rview s sid y = Some (rb, true) /\ run_written s sid ls os = run_reads s sid ls os ++ pipe rb.
Proof.
  intros Hk Hu Hf Hbusy Hnl os y Hb Hcl Hif.
  assert (Hc : rclosed s sid y).
  { unfold os, y, outputs, reach in *.
    destruct (run (init k false unit toA toB) ls) as [y' os'] eqn:Er. cbn [fst snd] in *.
    destruct (LV_run s sid k ls _ _ _ [] [] Er (init_WF _ _ _ _ _) (init_CIs _ _ _ _ _) (init_H k false unit toA toB Hk Hu eq_refl)
                (PD_init s sid _ _ _ _ _)) as [Hpd Hlv]; try assumption.
    { unfold LV. replace (rview s sid (init k false unit toA toB)) with (@None (rbuf * bool)); [|unfold MuxView.rview; destruct s; reflexivity].
      split; [reflexivity|]. intros i Hi. cbn in Hi. lia. }
    cbn [app] in Hpd, Hlv. eapply LV_delivered; eauto. }
  destruct Hc as (rb & Hrv). exists rb. split; [exact Hrv|].
  destruct (close_is_exact s sid k unit toA toB ls rb Hk Hu Hf Hbusy Hnl Hb Hrv) as [_ Hx]. exact Hx.
Qed.
