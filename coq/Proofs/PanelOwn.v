(* C17, second half: ownership.  The statement (a Definition, parameterised by the model
   parameters), its proof for the model WITH the proposed repair (cfg.patched), and what holds
   of the code as it is. *)
From Coq Require Import ZArith NArith List Bool Lia Arith.
From Cloak Require Import Model.Panel Proofs.PanelLocks Proofs.PanelWF.
Import ListNotations.

Definition quiescent (s : state) : Prop := forall t, t < nthr s -> thr s t = Done.

(* every live session (of a limited user) is in the session table of its record, and that
   record is the one activeUsers holds for the user *)
Definition owned (s : state) : Prop :=
  forall k, k < nses s -> s_closed (sess s k) = false ->
  let r := s_owner (sess s k) in
  r_bypass (recs s r) = false ->
  table s (r_uid (recs s r)) = Some r /\ slook (s_sid (sess s k)) (r_sess (recs s r)) = Some k.

(* a record the panel no longer knows (terminated) has no live session *)
Definition terminated_dead (s : state) : Prop :=
  forall r k, r < nrec s -> table s (r_uid (recs s r)) <> Some r -> r_bypass (recs s r) = false ->
  k < nses s -> s_owner (sess s k) = r -> s_closed (sess s k) = true.

Definition ownership (c : cfg) : Prop :=
  forall d nw s, reachable c d nw s -> quiescent s -> owned s /\ terminated_dead s.

Lemma owned_terminated_dead : forall s, owned s -> terminated_dead s.
Proof.
  intros s Ho r k Hr Hnt Hb Hk Hown. destruct (s_closed (sess s k)) eqn:E; auto.
  exfalso. apply Hnt. subst r. now apply (Ho k Hk E Hb).
Qed.

(* ------------------------------------------------------------------ the repaired model *)
Definition closing (p : pc) (r : nat) : bool :=
  match p with TC0 r' _ _ | TC1 r' _ _ => Nat.eqb r' r | _ => false end.

Definition rest_ok (p : pc) : Prop :=
  match p with
  | TD0 _ rest _ | TD1 _ rest _ => rest = [PhC; PhN]
  | TC0 _ rest _ | TC1 _ rest _ => rest = [PhN]
  | TN0 _ rest _ | TN1 _ _ rest _ | TN2 _ _ rest _ => rest = []
  | _ => True
  end.

Record PInv (s : state) : Prop := {
  p_term : forall r, r_term (recs s r) = true -> r_sess (recs s r) = [];
  p_rest : forall t, rest_ok (thr s t);
  p_home : forall r, r < nrec s ->
             r_term (recs s r) = true \/ table s (r_uid (recs s r)) = Some r
             \/ exists t, t < nthr s /\ closing (thr s t) r = true
}.

Lemma PInv_init : forall d nw, PInv (init d nw).
Proof. intros; constructor; cbn; intros; try discriminate; try lia; auto. Qed.

Lemma m9_rest : forall k, rest_ok (m9 k).
Proof. destruct k; cbn; auto. Qed.
Lemma m9_closing : forall k r, closing (m9 k) r = false.
Proof. destruct k; auto. Qed.

Section Patched.
Variable c : cfg.
Hypothesis Hp : patched c = true.

Lemma term_enter_patched : forall r k, term_enter c r k = TD0 r [PhC; PhN] k.
Proof. intros. unfold term_enter, phases. rewrite Hp. reflexivity. Qed.

Ltac rest_goal :=
  let t0 := fresh "t0" in
  intros t0;
  match goal with |- context [upd (thr _) ?t _ t0] =>
    destruct (Nat.eq_dec t0 t) as [->|ne];
    [ rewrite upd_same; cbn [rest_ok seq_pc]; auto using m9_rest
    | rewrite upd_other by assumption; auto ]
  end.

(* records and table unchanged (or changed only in fields that do not matter) *)
Ltac home_goal :=
  let r0 := fresh "r0" in let L := fresh "L" in
  intros r0 L; try nullify_norm;
  match goal with
  | ph : (forall r, r < nrec ?s -> _ \/ _ \/ _), Hpc : thr ?s ?t = _ |- _ =>
      destruct (ph r0 L) as [H1|[H1|[t1 [Lt Hc]]]];
      [ left; upd_cases; try subst; simr; auto
      | right; left; upd_cases; try subst; simr; auto
      | right; right; exists t1; split; [assumption|];
        destruct (Nat.eq_dec t1 t) as [->|ne];
        [ rewrite upd_same; rewrite Hpc in Hc; cbn [closing] in *; solve [assumption | discriminate Hc]
        | rewrite upd_other by assumption; assumption ] ]
  end.

Ltac term_goal :=
  let r0 := fresh "r0" in
  intros r0; try nullify_norm; upd_cases; simr; auto.

Ltac other_thread t1 t :=
  right; right; exists t1; split; [assumption|];
  destruct (Nat.eq_dec t1 t) as [->|net];
  [ match goal with Hpc : thr _ t = _, Hc : closing (thr _ t) _ = true |- _ =>
      rewrite Hpc in Hc; cbn [closing] in Hc; first [discriminate Hc | apply Nat.eqb_eq in Hc; congruence] end
  | rewrite upd_other by assumption; assumption ].

Ltac d1_home :=
  let r0 := fresh "r0" in let L := fresh "L" in
  intros r0 L;
  match goal with
  | ph : (forall r, r < nrec ?s -> _ \/ _ \/ _), Hpc : thr ?s ?t = D1 ?u _, Hn : table ?s ?u = None |- _ =>
      destruct (Nat.eq_dec r0 (nrec s)) as [->|ne];
      [ right; left; rewrite upd_same; simr; now rewrite updN_same
      | rewrite upd_other by assumption;
        assert (L' : r0 < nrec s) by lia;
        destruct (ph r0 L') as [H1|[H1|[t1 [Lt Hc]]]];
        [ left; assumption
        | right; left; rewrite updN_other; [assumption | let E := fresh in intro E; rewrite E in H1; congruence]
        | other_thread t1 t ] ]
  end.

Ltac d3_term :=
  let r0 := fresh "r0" in let Ht := fresh "Ht" in
  intros r0; upd_cases; try subst; simr; auto; intros Ht;
  match goal with Hb : patched _ && _ = false |- _ => rewrite Hp in Hb; cbn in Hb; congruence end.

Ltac c1_term :=
  let r0 := fresh "r0" in let Ht := fresh "Ht" in
  intros r0; upd_cases; try subst; simr; auto; intros Ht;
  match goal with
  | pt : (forall r, r_term _ = true -> _), Hf : slook _ (r_sess (recs _ _)) = Some _ |- _ =>
      apply pt in Ht; rewrite Ht in Hf; discriminate Hf
  end.

Ltac tc1_home :=
  let r0 := fresh "r0" in let L := fresh "L" in
  intros r0 L;
  match goal with
  | ph : (forall r, r < nrec ?s -> _ \/ _ \/ _), Hpc : thr ?s ?t = TC1 ?r _ _ |- _ =>
      destruct (Nat.eq_dec r0 r) as [->|ne];
      [ left; rewrite upd_same; simr; now rewrite Hp
      | rewrite !upd_other by assumption;
        destruct (ph r0 L) as [H1|[H1|[t1 [Lt Hc]]]];
        [ left; assumption | right; left; assumption | other_thread t1 t ] ]
  end.

Ltac td1_home :=
  let r0 := fresh "r0" in let L := fresh "L" in
  intros r0 L;
  repeat match goal with H : context [patched _] |- _ => rewrite Hp in H; cbv beta iota in H end;
  try discriminate;
  match goal with
  | ph : (forall r, r < nrec ?s -> _ \/ _ \/ _), Hpc : thr ?s ?t = TD1 ?r _ _,
    Hs : table ?s (r_uid (recs ?s ?r)) = Some ?n, He : (?n =? ?r) = true |- _ =>
      apply Nat.eqb_eq in He; subst n;
      destruct (Nat.eq_dec r0 r) as [->|ne];
      [ right; right; exists t; split; [assumption|]; rewrite upd_same; cbn; apply Nat.eqb_refl
      | destruct (ph r0 L) as [H1|[H1|[t1 [Lt Hc]]]];
        [ left; assumption
        | right; left; rewrite updN_other; [assumption | let E := fresh in intro E; rewrite E in H1; congruence]
        | other_thread t1 t ] ]
  end.

Lemma tstep_PInv : forall s t ch s', t < nthr s -> WF c s -> PInv s -> tstep c s t ch = Some s' -> PInv s'.
Proof.
  intros s t ch s' Ht HW HP H.
  destruct HW as [wt wp wu ws wm wn wl wb wg].
  destruct HP as [pt pr ph].
  pose proof (pr t) as PR.
  tstep_cases H c s t.
  all: try (exfalso; congruence).
  all: rewrite ?term_enter_patched in *.
  all: cbn [rest_ok] in PR; try subst rest.
  all: own_facts.
  all: constructor; sim; try assumption.
  all: try solve [rest_goal].
  all: try solve [home_goal].
  all: try solve [term_goal].
  all: try solve [d1_home].
  all: try solve [d3_term].
  all: try solve [c1_term].
  all: try solve [tc1_home].
  all: try solve [td1_home].
Qed.

Lemma step_PInv : forall s l s', WF c s -> PInv s -> step c s l = Some s' -> PInv s'.
Proof.
  intros s l s' HW HP H. destruct l; cbn [step] in H.
  - destruct (start_pc s o) eqn:E; [|discriminate]. injection H as <-.
    destruct HP as [pt pr ph]. constructor; sim; auto.
    + intros t. destruct (Nat.eq_dec t (nthr s)) as [->|ne]; [rewrite upd_same | rewrite upd_other by assumption; auto].
      destruct o; cbn [start_pc] in E; try (injection E as <-; exact I).
      destruct (Nat.ltb r (nrec s)); [|discriminate E]. injection E as <-. exact I.
    + intros r L. destruct (ph r L) as [H1|[H1|[t1 [Lt Hc]]]]; auto.
      right; right. exists t1. split; [lia|]. rewrite upd_other by lia. assumption.
  - destruct (Nat.ltb_spec t (nthr s)); [|discriminate]. eapply tstep_PInv; eauto.
  - destruct (_ && _); [|discriminate]. destruct (r_bypass _) eqn:Eb; injection H as <-; [assumption|].
    destruct HP as [pt pr ph]. constructor; sim; auto.
    + intros r0. destruct (Nat.eq_dec r0 (s_owner (sess s k))) as [e|ne];
        [rewrite e; rewrite upd_same; simr; auto | rewrite upd_other by assumption; auto].
    + intros r0 L. destruct (Nat.eq_dec r0 (s_owner (sess s k))) as [e|ne];
        [rewrite e in *; rewrite !upd_same; simr; auto | rewrite !upd_other by assumption; auto].
  - destruct (Nat.ltb k (nses s)); [|discriminate]. injection H as <-.
    destruct HP as [pt pr ph]. constructor; sim; auto.
  - destruct a; injection H as <-; destruct HP; constructor; sim; auto.
  - destruct (0 <=? d)%Z; [|discriminate]. injection H as <-. destruct HP; constructor; sim; auto.
Qed.

Lemma reachable_PInv : forall d nw s, reachable c d nw s -> WF c s /\ PInv s.
Proof.
  intros d nw s [ls H].
  eapply (run_inv (fun s => WF c s /\ PInv s)); eauto using WF_init, PInv_init.
  intros s0 l s1 [HW HP] Hs. split; [eapply step_WF; eauto | eapply step_PInv; eauto].
Qed.

Theorem ownership_patched : ownership c.
Proof.
  intros d nw s HR HQ. apply reachable_PInv in HR. destruct HR as [HW HP].
  assert (Ho : owned s).
  { intros k Hk Hc r Hb. subst r.
    pose proof (w_live _ _ HW k Hk Hc) as Hl. split; [|exact Hl].
    pose proof (w_ses _ _ HW k Hk) as Hr.
    destruct (p_home _ HP _ Hr) as [H1|[H1|[t1 [Lt Hcl]]]].
    - apply (p_term _ HP) in H1. rewrite H1 in Hl. discriminate Hl.
    - exact H1.
    - rewrite (HQ t1 Lt) in Hcl. discriminate Hcl. }
  split; [exact Ho | now apply owned_terminated_dead].
Qed.

(* stronger than the property asks: also for bypass users, and a terminated record (flag set)
   never holds a session, quiescent or not *)
Lemma patched_terminated_empty : forall d nw s r k,
  reachable c d nw s -> r_term (recs s r) = true -> k < nses s -> s_owner (sess s k) = r ->
  s_closed (sess s k) = true.
Proof.
  intros d nw s r k HR Ht Hk Ho. apply reachable_PInv in HR. destruct HR as [HW HP].
  destruct (s_closed (sess s k)) eqn:E; auto.
  pose proof (w_live _ _ HW k Hk E) as Hl. rewrite Ho in Hl.
  rewrite (p_term _ HP _ Ht) in Hl. discriminate Hl.
Qed.
End Patched.

(* what holds of the code as it is (any parameter setting, not only at quiescence): a live
   session is always in the session table of the record that created it, under its id - so that
   record's CloseSession / closeAllSessions reach it; the only thing that can fail is that this
   record is still the one activeUsers holds *)
Lemma ownership_partial : forall c d nw s k, reachable c d nw s ->
  k < nses s -> s_closed (sess s k) = false ->
  let r := s_owner (sess s k) in
  r < nrec s /\ slook (s_sid (sess s k)) (r_sess (recs s r)) = Some k
  /\ (table s (r_uid (recs s r)) = Some r \/
      (table s (r_uid (recs s r)) <> Some r /\ ~ owned s \/ r_bypass (recs s r) = true)).
Proof.
  intros c d nw s k HR Hk Hc r. apply reachable_WF in HR.
  split; [now apply (w_ses _ _ HR)|]. split; [now apply (w_live _ _ HR)|].
  destruct (r_bypass (recs s r)) eqn:Eb; [right; right; reflexivity|].
  destruct (table s (r_uid (recs s r))) as [r'|] eqn:Et.
  - destruct (Nat.eq_dec r' r) as [->|ne]; [left; reflexivity|].
    right; left. split; [congruence|]. intro Ho. destruct (Ho k Hk Hc Eb) as [Ht _].
    fold r in Ht. congruence.
  - right; left. split; [congruence|]. intro Ho. destruct (Ho k Hk Hc Eb) as [Ht _].
    fold r in Ht. congruence.
Qed.
