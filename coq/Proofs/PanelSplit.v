(* Proofs about Model/PanelSplit.v: what holding the lock across the steps buys.

   GetUser:      held = true   every run of the split steps, in any interleaving and with any
                               answers of the user database, is a run of the ATOMIC GetUser in the
                               order in which the calls released the lock (refinement); one record
                               per UID; every caller of a UID gets that record;
                 held = false  refuted by a six-step run.
   commitUpdate: early = true  ledger invariant over all label sequences (every byte counted is in
                               exactly one of valve / queue / in flight / charged);
                 early = false refuted twice (usage lost, usage charged twice). *)
From Coq Require Import ZArith NArith List Bool Lia.
From Cloak Require Import Model.PanelSplit.
Import ListNotations.

(* ------------------------------------------------------------------ lists *)
Lemma length_set_nth : forall A (l : list A) i x, length (set_nth l i x) = length l.
Proof. induction l as [|h t IH]; intros [|i] x; cbn; auto. Qed.

Lemma nth_set_nth : forall A (l : list A) i j x d, i < length l ->
  nth j (set_nth l i x) d = if Nat.eqb j i then x else nth j l d.
Proof.
  induction l as [|h t IH]; intros i j x d Hlt; cbn in Hlt; [lia|].
  destruct i as [|i], j as [|j]; cbn; auto.
  apply IH. lia.
Qed.

(* ------------------------------------------------------------------ 1. GetUser *)
Definition holder (p : gpc) : bool :=
  match p with GLocked _ | GLooked _ | GAuthed _ _ => true | _ => false end.

Definition res_agree (r r' : option nat) : bool :=
  match r, r' with Some a, Some b => Nat.eqb a b | None, None => true | _, _ => false end.

Lemma replay_atomic_unfold : forall tb n u ok r rest,
  replay_atomic tb n ((u, ok, r) :: rest) =
  (let '(tb', n', r') := atomic_getuser tb n u ok in
   let '(tb'', n'', good) := replay_atomic tb' n' rest in
   (tb'', n'', good && res_agree r r')).
Proof. reflexivity. Qed.

Lemma replay_app : forall log tb n u ok r tb1 n1 g1,
  replay_atomic tb n log = (tb1, n1, g1) ->
  replay_atomic tb n (log ++ [(u, ok, r)]) =
  (let '(tb2, n2, r') := atomic_getuser tb1 n1 u ok in (tb2, n2, g1 && res_agree r r')).
Proof.
  induction log as [|[[u0 ok0] r0] rest IH]; intros tb n u ok r tb1 n1 g1 H.
  - cbn in H. inversion H; subst. cbn [app]. rewrite replay_atomic_unfold.
    destruct (atomic_getuser tb1 n1 u ok) as [[tb2 n2] r']. cbn. reflexivity.
  - cbn [app]. rewrite replay_atomic_unfold in *.
    destruct (atomic_getuser tb n u0 ok0) as [[tb' n'] r0'].
    destruct (replay_atomic tb' n' rest) as [[tbx nx] gx] eqn:E.
    inversion H; subst.
    rewrite (IH tb' n' u ok r tb1 n1 gx E).
    destruct (atomic_getuser tb1 n1 u ok) as [[tb2 n2] r'].
    f_equal. destruct gx, (res_agree r r'), (res_agree r0 r0'); reflexivity.
Qed.

Record GInv (s : gstate) : Prop := {
  gi_lock : forall t, holder (gget s t) = true -> g_lock s = Some t;
  gi_miss : forall t u, (gget s t = GLooked u \/ exists a, gget s t = GAuthed u a) -> g_table s u = None;
  gi_done : forall t u r, gget s t = GDone u (Some r) -> g_table s u = Some r;
  gi_log : exists tb, replay_atomic (fun _ => None) 0 (g_log s) = (tb, g_nrec s, true)
                      /\ forall u, tb u = g_table s u
}.

Definition all_start (thr : list gpc) : Prop := Forall (fun p => exists u, p = GStart u) thr.

Lemma nth_all_start : forall thr t, all_start thr ->
  nth t thr GNone = GNone \/ exists u, nth t thr GNone = GStart u.
Proof.
  intros thr t H. destruct (Nat.lt_ge_cases t (length thr)) as [Hlt|Hge].
  - right. unfold all_start in H. rewrite Forall_forall in H. apply H. apply nth_In; assumption.
  - left. apply nth_overflow; assumption.
Qed.

Lemma ginv_init : forall thr, all_start thr -> GInv (g_init thr).
Proof.
  intros thr H. constructor; unfold gget, g_init; cbn.
  - intros t Hh. destruct (nth_all_start thr t H) as [E|[u E]]; rewrite E in Hh; discriminate.
  - intros t u [E|[a E]]; destruct (nth_all_start thr t H) as [E'|[u' E']]; rewrite E' in E; discriminate.
  - intros t u r E. destruct (nth_all_start thr t H) as [E'|[u' E']]; rewrite E' in E; discriminate.
  - exists (fun _ => None). split; [reflexivity|reflexivity].
Qed.

Lemma gget_lt : forall s t, gget s t <> GNone -> t < length (g_thr s).
Proof.
  intros s t H. destruct (Nat.lt_ge_cases t (length (g_thr s))) as [Hlt|Hge]; [assumption|].
  exfalso. apply H. unfold gget. apply nth_overflow; assumption.
Qed.

Lemma gget_goto : forall s t p t' tb n lk lg, t < length (g_thr s) ->
  gget (mkG tb n lk (ggoto s t p) lg) t' = if Nat.eqb t' t then p else gget s t'.
Proof. intros. unfold gget, ggoto. cbn. apply nth_set_nth; assumption. Qed.

(* only the holder of the lock is at a holder pc *)
Lemma only_holder : forall s t t', GInv s -> holder (gget s t) = true -> holder (gget s t') = true -> t' = t.
Proof.
  intros s t t' I H H'. pose proof (gi_lock s I t H) as E. pose proof (gi_lock s I t' H') as E'.
  rewrite E in E'. inversion E'; reflexivity.
Qed.

Lemma ginv_step : forall s t ok s', GInv s -> gstep true s t ok = Some s' -> GInv s'.
Proof.
  intros s t ok s' I Hs. unfold gstep in Hs.
  destruct (gget s t) as [u|u|u|u a|u r|] eqn:Ep; try discriminate.
  - (* GStart: take the lock *)
    assert (Hlt : t < length (g_thr s)) by (apply gget_lt; rewrite Ep; discriminate).
    destruct (g_lock s) as [h|] eqn:El; [discriminate|]. cbn in Hs. inversion Hs; subst s'; clear Hs.
    constructor; cbn [g_lock g_table g_nrec g_log].
    + intros t' Hh. rewrite gget_goto in Hh by assumption.
      destruct (Nat.eqb_spec t' t) as [Heq|Hne]; [subst t'; reflexivity|].
      pose proof (gi_lock s I t' Hh) as E. rewrite El in E. discriminate.
    + intros t' u' H. rewrite gget_goto in H by assumption.
      destruct (Nat.eqb_spec t' t) as [Heq|Hne]; [subst t'|].
      * destruct H as [H|[a H]]; discriminate.
      * apply (gi_miss s I t' u' H).
    + intros t' u' r H. rewrite gget_goto in H by assumption.
      destruct (Nat.eqb_spec t' t) as [Heq|Hne]; [subst t'; discriminate|]. apply (gi_done s I t' u' r H).
    + apply (gi_log s I).
  - (* GLocked: lookup *)
    assert (Hlt : t < length (g_thr s)) by (apply gget_lt; rewrite Ep; discriminate).
    assert (Hh : holder (gget s t) = true) by (rewrite Ep; reflexivity).
    destruct (g_table s u) as [r|] eqn:Et; inversion Hs; subst s'; clear Hs.
    + (* hit *)
      constructor; cbn [g_lock g_table g_nrec g_log].
      * intros t' Hh'. rewrite gget_goto in Hh' by assumption.
        destruct (Nat.eqb_spec t' t) as [Heq|Hne]; [subst t'; discriminate|].
        exfalso. apply Hne. apply (only_holder s t t' I Hh Hh').
      * intros t' u' H. rewrite gget_goto in H by assumption.
        destruct (Nat.eqb_spec t' t) as [Heq|Hne]; [subst t'|].
        -- destruct H as [H|[a H]]; discriminate.
        -- apply (gi_miss s I t' u' H).
      * intros t' u' r' H. rewrite gget_goto in H by assumption.
        destruct (Nat.eqb_spec t' t) as [Heq|Hne]; [subst t'|].
        -- inversion H; subst. assumption.
        -- apply (gi_done s I t' u' r' H).
      * destruct (gi_log s I) as [tb [Hr Hp]]. exists tb. split; [|assumption].
        rewrite (replay_app _ _ _ u false (Some r) _ _ _ Hr).
        unfold atomic_getuser. rewrite Hp, Et. cbn. rewrite Nat.eqb_refl. reflexivity.
    + (* miss *)
      constructor; cbn [g_lock g_table g_nrec g_log].
      * intros t' Hh'. rewrite gget_goto in Hh' by assumption.
        destruct (Nat.eqb_spec t' t) as [Heq|Hne]; [subst t'; apply (gi_lock s I t Hh)|apply (gi_lock s I t' Hh')].
      * intros t' u' H. rewrite gget_goto in H by assumption.
        destruct (Nat.eqb_spec t' t) as [Heq|Hne]; [subst t'|].
        -- destruct H as [H|[a H]]; [inversion H; subst; assumption|discriminate].
        -- apply (gi_miss s I t' u' H).
      * intros t' u' r' H. rewrite gget_goto in H by assumption.
        destruct (Nat.eqb_spec t' t) as [Heq|Hne]; [subst t'; discriminate|]. apply (gi_done s I t' u' r' H).
      * apply (gi_log s I).
  - (* GLooked: the database answers *)
    assert (Hlt : t < length (g_thr s)) by (apply gget_lt; rewrite Ep; discriminate).
    assert (Hh : holder (gget s t) = true) by (rewrite Ep; reflexivity).
    inversion Hs; subst s'; clear Hs.
    constructor; cbn [g_lock g_table g_nrec g_log].
    + intros t' Hh'. rewrite gget_goto in Hh' by assumption.
      destruct (Nat.eqb_spec t' t) as [Heq|Hne]; [subst t'; apply (gi_lock s I t Hh)|apply (gi_lock s I t' Hh')].
    + intros t' u' H. rewrite gget_goto in H by assumption.
      destruct (Nat.eqb_spec t' t) as [Heq|Hne]; [subst t'|].
      * destruct H as [H|[a H]]; [discriminate|]. inversion H; subst.
        apply (gi_miss s I t u'). left; assumption.
      * apply (gi_miss s I t' u' H).
    + intros t' u' r' H. rewrite gget_goto in H by assumption.
      destruct (Nat.eqb_spec t' t) as [Heq|Hne]; [subst t'; discriminate|]. apply (gi_done s I t' u' r' H).
    + apply (gi_log s I).
  - (* GAuthed: insert / give up, release *)
    assert (Hlt : t < length (g_thr s)) by (apply gget_lt; rewrite Ep; discriminate).
    assert (Hh : holder (gget s t) = true) by (rewrite Ep; reflexivity).
    assert (Hmiss : g_table s u = None) by (apply (gi_miss s I t u); right; exists a; assumption).
    cbn in Hs. destruct a; inversion Hs; subst s'; clear Hs.
    + (* inserted *)
      constructor; cbn [g_lock g_table g_nrec g_log].
      * intros t' Hh'. rewrite gget_goto in Hh' by assumption.
        destruct (Nat.eqb_spec t' t) as [Heq|Hne]; [subst t'; discriminate|].
        exfalso. apply Hne. apply (only_holder s t t' I Hh Hh').
      * intros t' u' H. rewrite gget_goto in H by assumption.
        destruct (Nat.eqb_spec t' t) as [Heq|Hne]; [subst t'|].
        -- destruct H as [H|[a H]]; discriminate.
        -- exfalso. apply Hne. apply (only_holder s t t' I Hh).
           destruct H as [H|[a H]]; rewrite H; reflexivity.
      * intros t' u' r' H. rewrite gget_goto in H by assumption. unfold updN'.
        destruct (Nat.eqb_spec t' t) as [Heq|Hne]; [subst t'|].
        -- inversion H; subst. rewrite N.eqb_refl. reflexivity.
        -- pose proof (gi_done s I t' u' r' H) as Ed.
           destruct (N.eqb_spec u' u) as [->|Hu]; [rewrite Hmiss in Ed; discriminate|assumption].
      * destruct (gi_log s I) as [tb [Hr Hp]].
        exists (updN' tb u (Some (g_nrec s))). split.
        -- rewrite (replay_app _ _ _ u true (Some (g_nrec s)) _ _ _ Hr).
           unfold atomic_getuser. rewrite Hp, Hmiss. cbn. rewrite Nat.eqb_refl. reflexivity.
        -- intros u'. unfold updN'. destruct (N.eqb u' u); [reflexivity|apply Hp].
    + (* refused *)
      constructor; cbn [g_lock g_table g_nrec g_log].
      * intros t' Hh'. rewrite gget_goto in Hh' by assumption.
        destruct (Nat.eqb_spec t' t) as [Heq|Hne]; [subst t'; discriminate|].
        exfalso. apply Hne. apply (only_holder s t t' I Hh Hh').
      * intros t' u' H. rewrite gget_goto in H by assumption.
        destruct (Nat.eqb_spec t' t) as [Heq|Hne]; [subst t'|].
        -- destruct H as [H|[a H]]; discriminate.
        -- apply (gi_miss s I t' u' H).
      * intros t' u' r' H. rewrite gget_goto in H by assumption.
        destruct (Nat.eqb_spec t' t) as [Heq|Hne]; [subst t'; discriminate|]. apply (gi_done s I t' u' r' H).
      * destruct (gi_log s I) as [tb [Hr Hp]]. exists tb. split; [|assumption].
        rewrite (replay_app _ _ _ u false None _ _ _ Hr).
        unfold atomic_getuser. rewrite Hp, Hmiss. cbn. reflexivity.
Qed.

Lemma ginv_run : forall sched s s', GInv s -> grun true s sched = Some s' -> GInv s'.
Proof.
  induction sched as [|[t ok] rest IH]; intros s s' I H; cbn in H.
  - inversion H; subst; assumption.
  - destruct (gstep true s t ok) as [s1|] eqn:E; [|discriminate].
    apply (IH s1 s'); [apply (ginv_step s t ok s1 I E)|assumption].
Qed.

(* Refinement: whatever the interleaving of the split steps of any number of GetUser calls and
   whatever the user database answers and when, the table, the number of records created and every
   result are those of the ATOMIC GetUser executed once per call, in the order in which the calls
   released the lock. *)
Lemma split_refines_atomic : forall thr sched s,
  all_start thr -> grun true (g_init thr) sched = Some s ->
  exists tb, replay_atomic (fun _ => None) 0 (g_log s) = (tb, g_nrec s, true)
             /\ forall u, tb u = g_table s u.
Proof.
  intros thr sched s Ha Hr. apply (gi_log s). apply (ginv_run sched (g_init thr) s); [apply ginv_init; assumption|assumption].
Qed.

(* One record per UID: two calls for the same UID that returned a record returned the same one, and
   it is the one the panel holds. *)
Lemma split_one_record : forall thr sched s t1 t2 u r1 r2,
  all_start thr -> grun true (g_init thr) sched = Some s ->
  gget s t1 = GDone u (Some r1) -> gget s t2 = GDone u (Some r2) ->
  r1 = r2 /\ g_table s u = Some r1.
Proof.
  intros thr sched s t1 t2 u r1 r2 Ha Hr H1 H2.
  assert (I : GInv s) by (apply (ginv_run sched (g_init thr) s); [apply ginv_init; assumption|assumption]).
  pose proof (gi_done s I t1 u r1 H1) as E1. pose proof (gi_done s I t2 u r2 H2) as E2.
  rewrite E1 in E2. inversion E2; subst. split; [reflexivity|exact E1].
Qed.

(* While a call is between its lookup and its insertion nobody else can get past the lock: the
   second caller is blocked until the first is released (what the harness observes as "L"). *)
Lemma split_second_caller_blocked : forall thr sched s t t' u ok,
  all_start thr -> grun true (g_init thr) sched = Some s ->
  holder (gget s t) = true -> gget s t' = GStart u -> gstep true s t' ok = None.
Proof.
  intros thr sched s t t' u ok Ha Hr Hh Hs.
  assert (I : GInv s) by (apply (ginv_run sched (g_init thr) s); [apply ginv_init; assumption|assumption]).
  unfold gstep. rewrite Hs. rewrite (gi_lock s I t Hh). reflexivity.
Qed.

(* the schedule of the seeded change: both calls look the UID up before either inserts *)
Definition unlocked_schedule : list (nat * bool) :=
  [(0, true); (1, true); (0, true); (1, true); (0, true); (1, true)].

Lemma split_unlocked_two_records :
  exists s, grun false (g_init [GStart 1%N; GStart 1%N]) unlocked_schedule = Some s
  /\ gget s 0 = GDone 1%N (Some 0) /\ gget s 1 = GDone 1%N (Some 1)
  /\ g_table s 1%N = Some 1 /\ g_nrec s = 2
  /\ (let '(_, _, good) := replay_atomic (fun _ => None) 0 (g_log s) in good) = false.
Proof. eexists. split; [vm_compute; reflexivity|]. vm_compute. repeat split; reflexivity. Qed.

Lemma split_unlocked_two_valves :
  exists s, grun false (g_init [GStart 1%N; GStart 1%N]) unlocked_schedule = Some s
  /\ gget s 0 = GDone 1%N (Some 0) /\ gget s 1 = GDone 1%N (Some 1) /\ g_nrec s = 2.
Proof. eexists. split; [vm_compute; reflexivity|]. vm_compute. repeat split; reflexivity. Qed.

(* the same schedule with the lock held is not even a run: the second lookup has to wait *)
Lemma split_held_schedule_blocks :
  grun true (g_init [GStart 1%N; GStart 1%N]) unlocked_schedule = None.
Proof. vm_compute. reflexivity. Qed.

(* the hypotheses of the refinement lemma are met by a run in which a second caller arrives while
   the first is inside AuthenticateUser, waits, and then finds the record *)
Definition held_schedule : list (nat * bool) :=
  [(0, true); (0, true); (0, true); (0, true); (1, true); (1, true)].
Lemma split_held_example :
  exists s, grun true (g_init [GStart 1%N; GStart 1%N]) held_schedule = Some s
  /\ gget s 0 = GDone 1%N (Some 0) /\ gget s 1 = GDone 1%N (Some 0) /\ g_nrec s = 1.
Proof. eexists. split; [vm_compute; reflexivity|]. vm_compute. repeat split; reflexivity. Qed.

(* ------------------------------------------------------------------ 2. commitUpdate *)
Local Open Scope Z_scope.

Definition cweight (p : cpc) : Z := match p with CRead st => st | _ => 0 end.

Lemma inflight_set_nth : forall thr t p, (t < length thr)%nat ->
  inflight (set_nth thr t p) = inflight thr - cweight (nth t thr CDone) + cweight p.
Proof.
  induction thr as [|h rest IH]; intros t p Hlt; cbn in Hlt; [lia|].
  destruct t as [|t].
  - cbn [set_nth nth]. destruct h, p; cbn; lia.
  - cbn [set_nth nth]. assert (H : (t < length rest)%nat) by lia. specialize (IH t p H).
    destruct h; cbn [inflight]; rewrite IH; lia.
Qed.

Definition no_uploaded (thr : list cpc) : Prop := Forall (fun p => p <> CUploaded) thr.

Lemma no_uploaded_set_nth : forall thr t p, no_uploaded thr -> p <> CUploaded -> no_uploaded (set_nth thr t p).
Proof.
  unfold no_uploaded. induction thr as [|h rest IH]; intros t p H Hp; cbn; [constructor|].
  inversion H; subst. destruct t; constructor; auto.
Qed.

Lemma nth_no_uploaded : forall thr t, no_uploaded thr -> nth t thr CDone <> CUploaded.
Proof.
  intros thr t H. destruct (Nat.lt_ge_cases t (length thr)) as [Hlt|Hge].
  - unfold no_uploaded in H. rewrite Forall_forall in H. apply H. apply nth_In; assumption.
  - rewrite nth_overflow by assumption. discriminate.
Qed.

Definition CInv (s : cstate) : Prop :=
  c_counted s = c_valve s + c_queue s + inflight (c_thr s) + c_charged s /\ no_uploaded (c_thr s).

Lemma nth_lt_of_ne : forall (thr : list cpc) t, nth t thr CDone <> CDone -> (t < length thr)%nat.
Proof.
  intros thr t H. destruct (Nat.lt_ge_cases t (length thr)) as [Hlt|Hge]; [assumption|].
  exfalso. apply H. apply nth_overflow; assumption.
Qed.

Lemma cinv_step : forall s l s', CInv s -> cstep true s l = Some s' -> CInv s'.
Proof.
  intros s l s' [Hc Hn] Hs. destruct l as [n| |t]; cbn in Hs.
  - destruct (0 <=? n); inversion Hs; subst; clear Hs. split; cbn; [lia|assumption].
  - inversion Hs; subst; clear Hs. split; cbn; [lia|assumption].
  - destruct (nth t (c_thr s) CDone) as [|st| |] eqn:Ep; try discriminate.
    + assert (Hlt : (t < length (c_thr s))%nat) by (apply nth_lt_of_ne; rewrite Ep; discriminate).
      inversion Hs; subst; clear Hs. split; cbn.
      * rewrite inflight_set_nth by assumption. rewrite Ep. cbn. lia.
      * apply no_uploaded_set_nth; [assumption|discriminate].
    + assert (Hlt : (t < length (c_thr s))%nat) by (apply nth_lt_of_ne; rewrite Ep; discriminate).
      inversion Hs; subst; clear Hs. split; cbn.
      * rewrite inflight_set_nth by assumption. rewrite Ep. cbn. lia.
      * apply no_uploaded_set_nth; [assumption|discriminate].
    + exfalso. apply (nth_no_uploaded (c_thr s) t Hn). assumption.
Qed.

Lemma inflight_all_idle : forall thr, Forall (fun p => p = CIdle) thr -> inflight thr = 0 /\ no_uploaded thr.
Proof.
  induction thr as [|h rest IH]; intros H; [split; [reflexivity|constructor]|].
  inversion H; subst. destruct (IH H3) as [E N]. split; [cbn; assumption|constructor; [discriminate|assumption]].
Qed.

(* Ledger over ALL label sequences (any number of commitUpdate activations overlapping each other,
   traffic and collection rounds in any interleaving), the queue being emptied in the critical
   section that reads it: every byte the valve counted is in exactly one place. *)
Lemma commit_early_conservation : forall thr ls s,
  Forall (fun p => p = CIdle) thr -> crun true (c_init thr) ls = Some s ->
  c_counted s = c_valve s + c_queue s + inflight (c_thr s) + c_charged s.
Proof.
  intros thr ls s Hi Hr.
  assert (I0 : CInv (c_init thr)) by (destruct (inflight_all_idle thr Hi) as [E N]; split; cbn; [lia|assumption]).
  assert (G : forall ls s0 s1, CInv s0 -> crun true s0 ls = Some s1 -> CInv s1).
  { induction ls0 as [|l rest IH]; intros s0 s1 I H; cbn in H.
    - inversion H; subst; assumption.
    - destruct (cstep true s0 l) as [sm|] eqn:E; [|discriminate].
      apply (IH sm s1); [apply (cinv_step s0 l sm I E)|assumption]. }
  apply (G ls (c_init thr) s I0 Hr).
Qed.

Lemma inflight_quiet : forall thr,
  forallb (fun p => match p with CDone => true | CIdle => true | _ => false end) thr = true -> inflight thr = 0.
Proof.
  induction thr as [|h rest IH]; intros H; [reflexivity|].
  cbn in H. apply andb_true_iff in H. destruct H as [Hh Hr]. destruct h; try discriminate; cbn; auto.
Qed.

(* ... hence exactly once: when traffic has stopped, everything has been collected and no upload
   is in flight, what was charged is what was carried *)
Lemma commit_early_exactly_once : forall thr ls s,
  Forall (fun p => p = CIdle) thr -> crun true (c_init thr) ls = Some s ->
  c_quiet s = true -> c_charged s = c_counted s.
Proof.
  intros thr ls s Hi Hr Hq. pose proof (commit_early_conservation thr ls s Hi Hr) as E.
  unfold c_quiet in Hq. apply andb_true_iff in Hq. destruct Hq as [Hq Hf].
  apply andb_true_iff in Hq. destruct Hq as [Hv Hqq].
  apply Z.eqb_eq in Hv. apply Z.eqb_eq in Hqq. rewrite (inflight_quiet _ Hf) in E. lia.
Qed.

(* the queue emptied only AFTER the upload, in a second critical section (seeded change C16_m2):
   usage collected while the upload is in flight is wiped ... *)
Definition late_lost : list clabel :=
  [CTraffic 100; CCollect; CRun 0; CTraffic 50; CCollect; CRun 0; CRun 0].
Lemma commit_late_loses :
  exists s, crun false (c_init [CIdle]) late_lost = Some s
  /\ c_quiet s = true /\ c_counted s = 150 /\ c_charged s = 100.
Proof. eexists. split; [vm_compute; reflexivity|]. vm_compute. repeat split; reflexivity. Qed.

(* ... and two overlapping rounds charge the same usage twice *)
Definition late_twice : list clabel :=
  [CTraffic 100; CCollect; CRun 0; CRun 1; CRun 0; CRun 1; CRun 0; CRun 1].
Lemma commit_late_charges_twice :
  exists s, crun false (c_init [CIdle; CIdle]) late_twice = Some s
  /\ c_quiet s = true /\ c_counted s = 100 /\ c_charged s = 200.
Proof. eexists. split; [vm_compute; reflexivity|]. vm_compute. repeat split; reflexivity. Qed.

(* the same two schedules with the code as it is: nothing lost, nothing twice *)
Lemma commit_early_same_schedules :
  (exists s, crun true (c_init [CIdle]) [CTraffic 100; CCollect; CRun 0; CTraffic 50; CCollect; CRun 0] = Some s
             /\ c_counted s = 150 /\ c_charged s = 100 /\ c_queue s = 50)
  /\ (exists s, crun true (c_init [CIdle; CIdle]) [CTraffic 100; CCollect; CRun 0; CRun 1; CRun 0; CRun 1] = Some s
             /\ c_quiet s = true /\ c_counted s = 100 /\ c_charged s = 100).
Proof. split; eexists; (split; [vm_compute; reflexivity|]); vm_compute; repeat split; reflexivity. Qed.
