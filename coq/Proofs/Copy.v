(* Proofs about Model/Copy.v (common.Copy and the relay pipeline built from it). *)
From Coq Require Import NArith ZArith List Bool Lia.
From Cloak Require Import Model.Copy.
Import ListNotations.
Local Open Scope Z_scope.

Lemma writes_of_app a b : writes_of (a ++ b) = writes_of a ++ writes_of b.
Proof. induction a as [|e a IH]; cbn [app writes_of]; [reflexivity|]. destruct e; rewrite ?IH; reflexivity. Qed.
Lemma nreads_app a b : nreads (a ++ b) = (nreads a + nreads b)%nat.
Proof. induction a as [|e a IH]; cbn [app nreads]; [reflexivity|]. destruct e; rewrite ?IH; reflexivity. Qed.

Definition rnil (r : rd) : bool := match snd r with RNil => true | _ => false end.
Definition zlen (l : list N) : Z := Z.of_nat (length l).

(* ------------------------------------------------------------------------------------------
   The loop invariant, as one statement about the result of copy_loop started anywhere:
   the reads consumed are a prefix `pre` of the script, all but the last one returned no error,
   every non-empty one was handed to exactly one Write call, whole and in order, and nothing
   else was ever written. *)
Definition nonempties (l : list (list N)) : list (list N) := filter (fun d => negb (Nat.eqb (length d) 0)) l.

Definition loop_spec (rs : list rd) (ws : list wout) (acc : list cev) (o : cout) : Prop :=
  co_fuel o = false ->
  exists pre wpre,
    rs = pre ++ co_reads_left o /\ ws = wpre ++ co_writes_left o /\
    pre <> [] /\ forallb rnil (removelast pre) = true /\
    writes_of (co_evs o) = writes_of acc ++ nonempties (map fst pre) /\
    nreads (co_evs o) = (nreads acc + length pre)%nat /\
    length wpre = length (nonempties (map fst pre)).

Lemma loop_spec_stop : forall d er rs ws acc wr w,
  d <> [] ->
  loop_spec ((d, er) :: rs) (w :: ws) acc (mkCo wr CNil ((acc ++ [ERead]) ++ [EWrite d]) rs ws false) /\
  forall e, loop_spec ((d, er) :: rs) (w :: ws) acc (mkCo wr e ((acc ++ [ERead]) ++ [EWrite d]) rs ws false).
Proof.
  intros d er rs ws acc wr w Hd.
  assert (G : forall e, loop_spec ((d, er) :: rs) (w :: ws) acc (mkCo wr e ((acc ++ [ERead]) ++ [EWrite d]) rs ws false)).
  { intros e _. exists [(d, er)], [w]. cbn [co_reads_left co_writes_left co_evs app map fst removelast forallb length].
    rewrite !writes_of_app, !nreads_app. cbn [writes_of nreads nonempties filter].
    destruct d as [|b d]; [contradiction|]. cbn [length Nat.eqb negb]. rewrite app_nil_r.
    repeat split; try reflexivity; try discriminate; cbn; lia. }
  split; [apply G|exact G].
Qed.

Lemma loop_spec_stop0 : forall er rs ws acc wr e,
  loop_spec (([], er) :: rs) ws acc (mkCo wr e (acc ++ [ERead]) rs ws false).
Proof.
  intros er rs ws acc wr e _. exists [([], er)], []. cbn [co_reads_left co_writes_left co_evs app map fst removelast forallb length].
  rewrite !writes_of_app, !nreads_app. cbn [writes_of nreads nonempties filter length Nat.eqb negb]. rewrite !app_nil_r.
  repeat split; try reflexivity; try discriminate; cbn; lia.
Qed.

Lemma copy_loop_spec : forall rs ws written acc, loop_spec rs ws acc (copy_loop rs ws written acc).
Proof.
  induction rs as [|[data er] rs IH]; intros ws written acc; cbn [copy_loop].
  - intros Hf. cbn in Hf. discriminate.
  - destruct data as [|b data].
    + destruct er; [|apply loop_spec_stop0|apply loop_spec_stop0].
      pose proof (IH ws written (acc ++ [ERead])) as H. intros Hf.
      destruct (H Hf) as (pre & wpre & E1 & E2 & Hne & Hnil & Hw & Hr & Hl).
      exists (([], RNil) :: pre), wpre. repeat split.
      * cbn [app]. f_equal. exact E1.
      * exact E2.
      * discriminate.
      * destruct pre as [|p pre]; [contradiction|]. cbn [removelast forallb]. cbn [removelast] in Hnil. exact Hnil.
      * rewrite Hw, writes_of_app. cbn [writes_of map fst nonempties filter length Nat.eqb negb]. rewrite app_nil_r. reflexivity.
      * rewrite Hr, nreads_app. cbn [nreads length]. lia.
      * cbn [map fst nonempties filter length Nat.eqb negb]. exact Hl.
    + destruct ws as [|w ws]; [intros Hf; cbn in Hf; discriminate|].
      destruct (loop_spec_stop (b :: data) er rs ws acc) with (w := w) (wr := 0) as [_ _]; [discriminate|].
      destruct (w_err w); [apply loop_spec_stop; discriminate|].
      destruct (negb _); [apply loop_spec_stop; discriminate|].
      destruct er; [|apply loop_spec_stop; discriminate|apply loop_spec_stop; discriminate].
      match goal with |- loop_spec _ _ _ (copy_loop _ _ ?wr ?ac) => pose proof (IH ws wr ac) as H end. intros Hf.
      destruct (H Hf) as (pre & wpre & E1 & E2 & Hne & Hnil & Hw & Hr & Hl).
      exists ((b :: data, RNil) :: pre), (w :: wpre). repeat split.
      * cbn [app]. f_equal. exact E1.
      * cbn [app]. f_equal. exact E2.
      * discriminate.
      * destruct pre as [|p pre]; [contradiction|]. cbn [removelast forallb]. cbn [removelast] in Hnil. exact Hnil.
      * rewrite Hw, !writes_of_app. cbn [writes_of map fst nonempties filter length Nat.eqb negb].
        rewrite <- !app_assoc. reflexivity.
      * rewrite Hr, !nreads_app. cbn [nreads length]. lia.
      * cbn [map fst nonempties filter length Nat.eqb negb]. cbn [length]. f_equal. exact Hl.
Qed.

Lemma concat_filter_nonempty (l : list (list N)) : concat (nonempties l) = concat l.
Proof.
  induction l as [|d l IH]; [reflexivity|]. cbn [nonempties filter]. fold (nonempties l). destruct d as [|x d]; cbn [length Nat.eqb negb concat app].
  - exact IH.
  - rewrite IH. reflexivity.
Qed.

(* what Copy hands to dst.Write is, byte for byte and in order, what the consumed Read calls of src
   returned - for EVERY script of read results and write results *)
Lemma copy_forwards_reads : forall rs ws dn,
  let o := copy KPlain rs ws dn in
  co_fuel o = false ->
  exists pre, rs = pre ++ co_reads_left o /\ concat (writes_of (co_evs o)) = concat (map fst pre).
Proof.
  intros rs ws dn o Hf. subst o. cbn [copy co_fuel co_reads_left co_evs] in *.
  destruct (copy_loop_spec rs ws 0 [] Hf) as (pre & wpre & E1 & _ & _ & _ & Hw & _).
  exists pre. split; [exact E1|].
  rewrite writes_of_app. cbn [writes_of]. rewrite app_nil_r, Hw. cbn [writes_of app].
  apply concat_filter_nonempty.
Qed.

Lemma concat_map_fst_app (a b : list rd) : concat (map fst (a ++ b)) = concat (map fst a) ++ concat (map fst b).
Proof. rewrite map_app, concat_app. reflexivity. Qed.

Lemma copy_forwards_prefix : forall rs ws dn,
  let o := copy KPlain rs ws dn in
  co_fuel o = false ->
  exists tail, concat (map fst rs) = concat (writes_of (co_evs o)) ++ tail.
Proof.
  intros rs ws dn o Hf. destruct (copy_forwards_reads rs ws dn Hf) as (pre & E & Hc).
  exists (concat (map fst (co_reads_left o))). fold o in E, Hc. rewrite Hc. rewrite E at 1. apply concat_map_fst_app.
Qed.

(* both ends are closed, last of all and once each, on every path (delegated or not, fuel or not) *)
Fixpoint no_close (es : list cev) : bool :=
  match es with [] => true | ECloseSrc :: _ => false | ECloseDst :: _ => false | _ :: t => no_close t end.
Lemma no_close_app a b : no_close (a ++ b) = no_close a && no_close b.
Proof. induction a as [|e a IH]; cbn [app no_close]; [reflexivity|]. destruct e; cbn [andb]; auto. Qed.

Lemma copy_loop_no_close : forall rs ws written acc, no_close acc = true -> no_close (co_evs (copy_loop rs ws written acc)) = true.
Proof.
  induction rs as [|[data er] rs IH]; intros ws written acc Ha; cbn [copy_loop co_evs]; [exact Ha|].
  assert (H1 : no_close (acc ++ [ERead]) = true) by (rewrite no_close_app, Ha; reflexivity).
  destruct data as [|b data].
  - destruct er; cbn [co_evs]; auto.
  - destruct ws as [|w ws]; cbn [co_evs]; [exact H1|].
    assert (H2 : no_close ((acc ++ [ERead]) ++ [EWrite (b :: data)]) = true) by (rewrite no_close_app, H1; reflexivity).
    destruct (w_err w); cbn [co_evs]; [exact H2|].
    destruct (negb _); cbn [co_evs]; [exact H2|].
    destruct er; cbn [co_evs]; auto.
Qed.

Lemma copy_closes_both : forall k rs ws dn,
  exists evs, co_evs (copy k rs ws dn) = evs ++ [ECloseSrc; ECloseDst] /\ no_close evs = true.
Proof.
  intros k rs ws dn. destruct k; cbn [copy co_evs].
  - exists [EWriteTo]. split; reflexivity.
  - exists [EReadFrom]. split; reflexivity.
  - eexists. split; [reflexivity|]. apply copy_loop_no_close. reflexivity.
Qed.

(* the count returned: with writers that report what they took (nw = len, no error), `written` is the
   number of bytes handed over *)
Lemma copy_loop_written : forall rs ws written acc, forallb honest ws = true ->
  co_written (copy_loop rs ws written acc) =
  written + zlen (concat (writes_of (co_evs (copy_loop rs ws written acc)))) - zlen (concat (writes_of acc)).
Proof.
  unfold zlen.
  induction rs as [|[data er] rs IH]; intros ws written acc Hh; cbn [copy_loop].
  - cbn. lia.
  - assert (Hacc1 : writes_of (acc ++ [ERead]) = writes_of acc) by (rewrite writes_of_app; cbn; apply app_nil_r).
    destruct data as [|b data].
    + destruct er; [rewrite (IH ws written (acc ++ [ERead]) Hh), Hacc1; reflexivity| |];
        cbn [co_written co_evs]; rewrite Hacc1; lia.
    + destruct ws as [|w ws]; [cbn [co_written co_evs]; rewrite Hacc1; lia|].
      cbn [forallb] in Hh. apply andb_prop in Hh. destruct Hh as [Hw Hh].
      destruct w as [[|]|]; cbn [honest] in Hw; try discriminate. cbn [w_err w_count].
      rewrite Z.eqb_refl. cbn [negb].
      set (d := b :: data).
      assert (Hacc2 : concat (writes_of ((acc ++ [ERead]) ++ [EWrite d])) = concat (writes_of acc) ++ d).
      { rewrite writes_of_app, Hacc1. cbn [writes_of]. rewrite concat_app. cbn [concat]. rewrite app_nil_r. reflexivity. }
      assert (Hpos : (0 <? Z.of_nat (length d)) = true) by (subst d; cbn [length]; apply Z.ltb_lt; lia).
      rewrite Hpos.
      destruct er; [rewrite (IH ws _ _ Hh)| |]; cbn [co_written co_evs]; rewrite Hacc2, app_length; lia.
Qed.

Lemma copy_written_counts : forall rs ws dn, forallb honest ws = true ->
  co_written (copy KPlain rs ws dn) = zlen (concat (writes_of (co_evs (copy KPlain rs ws dn)))).
Proof.
  intros rs ws dn Hh. cbn [copy co_written co_evs].
  rewrite (copy_loop_written rs ws 0 [] Hh). rewrite writes_of_app. cbn [writes_of concat]. rewrite app_nil_r.
  unfold zlen. cbn [length]. lia.
Qed.

(* completeness: a source that ends with EOF after any number of successful reads, into a sink that
   takes whatever it is given: everything is forwarded, err = nil *)
Lemma copy_loop_complete : forall pre d left ws written acc,
  forallb rnil pre = true -> (length pre + 1 <= length ws)%nat -> forallb honest ws = true ->
  co_fuel (copy_loop (pre ++ (d, REOF) :: left) ws written acc) = false /\
  co_err (copy_loop (pre ++ (d, REOF) :: left) ws written acc) = CNil /\
  co_reads_left (copy_loop (pre ++ (d, REOF) :: left) ws written acc) = left /\
  concat (writes_of (co_evs (copy_loop (pre ++ (d, REOF) :: left) ws written acc))) =
    concat (writes_of acc) ++ concat (map fst pre) ++ d.
Proof.
  induction pre as [|[dd ee] pre IH]; intros d left ws written acc Hn Hl Hh.
  - cbn [app copy_loop]. destruct d as [|b d].
    + cbn. rewrite writes_of_app. cbn. rewrite !app_nil_r. auto.
    + destruct ws as [|w ws]; [cbn in Hl; lia|]. cbn [forallb] in Hh. apply andb_prop in Hh. destruct Hh as [Hw _].
      destruct w as [[|]|]; cbn [honest] in Hw; try discriminate. cbn [w_err w_count]. rewrite Z.eqb_refl. cbn [negb].
      cbn [co_fuel co_err co_reads_left co_evs]. rewrite !writes_of_app. cbn [writes_of]. rewrite !concat_app. cbn [concat].
      rewrite !app_nil_r. auto.
  - cbn [forallb] in Hn. apply andb_prop in Hn. destruct Hn as [He Hn]. unfold rnil in He. cbn [snd] in He.
    destruct ee; try discriminate. cbn [app copy_loop].
    assert (Hacc1 : writes_of (acc ++ [ERead]) = writes_of acc) by (rewrite writes_of_app; cbn; apply app_nil_r).
    destruct dd as [|b dd].
    + cbn [length] in Hl. destruct (IH d left ws written (acc ++ [ERead]) Hn ltac:(lia) Hh) as (A & B & C & D).
      repeat split; auto. rewrite D, Hacc1. cbn [map fst concat app]. reflexivity.
    + destruct ws as [|w ws]; [cbn in Hl; lia|]. cbn [forallb] in Hh. apply andb_prop in Hh. destruct Hh as [Hw Hh].
      destruct w as [[|]|]; cbn [honest] in Hw; try discriminate. cbn [w_err w_count]. rewrite Z.eqb_refl. cbn [negb].
      cbn [length] in Hl.
      match goal with |- context [copy_loop _ ws ?wr ?ac] => destruct (IH d left ws wr ac Hn ltac:(lia) Hh) as (A & B & C & D) end.
      repeat split; auto. rewrite D. rewrite !writes_of_app. cbn [writes_of]. rewrite !concat_app. cbn [concat map fst].
      rewrite !app_nil_r, <- !app_assoc. reflexivity.
Qed.

Lemma copy_complete : forall pre d left ws dn,
  forallb rnil pre = true -> (length pre + 1 <= length ws)%nat -> forallb honest ws = true ->
  co_fuel (copy KPlain (pre ++ (d, REOF) :: left) ws dn) = false /\
  co_err (copy KPlain (pre ++ (d, REOF) :: left) ws dn) = CNil /\
  concat (writes_of (co_evs (copy KPlain (pre ++ (d, REOF) :: left) ws dn))) = concat (map fst pre) ++ d /\
  co_written (copy KPlain (pre ++ (d, REOF) :: left) ws dn) = zlen (concat (map fst pre) ++ d).
Proof.
  intros pre d left ws dn Hn Hl Hh.
  destruct (copy_loop_complete pre d left ws 0 [] Hn Hl Hh) as (A & B & C & D).
  assert (Hev : concat (writes_of (co_evs (copy KPlain (pre ++ (d, REOF) :: left) ws dn))) = concat (map fst pre) ++ d).
  { cbn [copy co_evs]. rewrite writes_of_app. cbn [writes_of]. rewrite app_nil_r, D. reflexivity. }
  repeat split; auto.
  rewrite <- Hev. apply copy_written_counts. exact Hh.
Qed.

(* err = nil only after an EOF (a nil error is not returned on any other path) *)
Lemma copy_loop_nil_only_eof : forall rs ws written acc,
  co_fuel (copy_loop rs ws written acc) = false -> co_err (copy_loop rs ws written acc) = CNil ->
  exists pre d, rs = pre ++ (d, REOF) :: co_reads_left (copy_loop rs ws written acc) /\ forallb rnil pre = true.
Proof.
  induction rs as [|[data er] rs IH]; intros ws written acc; cbn [copy_loop].
  - intros Hf. cbn in Hf. discriminate.
  - destruct data as [|b data].
    + destruct er.
      * intros Hf He. destruct (IH _ _ _ Hf He) as (pre & d & E & Hn). exists (([], RNil) :: pre), d.
        split; [cbn [app]; f_equal; exact E|exact Hn].
      * intros _ _. exists [], []. split; reflexivity.
      * intros _ He. cbn in He. discriminate.
    + destruct ws as [|w ws]; [intros Hf; cbn in Hf; discriminate|].
      destruct (w_err w); [intros _ He; cbn in He; discriminate|]. destruct (negb _); [intros _ He; cbn in He; discriminate|].
      destruct er.
      * intros Hf He. destruct (IH _ _ _ Hf He) as (pre & d & E & Hn). exists ((b :: data, RNil) :: pre), d.
        split; [cbn [app]; f_equal; exact E|exact Hn].
      * intros _ _. exists [], (b :: data). split; reflexivity.
      * intros _ He. cbn in He. discriminate.
Qed.

(* after a Write that failed or came up short nothing more is read or written *)
Lemma copy_loop_stops_at_bad_write : forall rs ws written acc,
  co_err (copy_loop rs ws written acc) = CWrite \/ co_err (copy_loop rs ws written acc) = CShortWrite ->
  exists evs p, co_evs (copy_loop rs ws written acc) = evs ++ [EWrite p].
Proof.
  induction rs as [|[data er] rs IH]; intros ws written acc; cbn [copy_loop].
  - intros He. cbn in He. destruct He; discriminate.
  - destruct data as [|b data].
    + destruct er; [apply IH| |]; intros He; cbn in He; destruct He; discriminate.
    + destruct ws as [|w ws]; [intros He; cbn in He; destruct He; discriminate|].
      destruct (w_err w); [intros _; cbn [co_evs]; eauto|]. destruct (negb _); [intros _; cbn [co_evs]; eauto|].
      destruct er; [apply IH| |]; intros He; cbn in He; destruct He; discriminate.
Qed.

(* ---- the uplink of client.RouteTCP ---- *)
Lemma read_at_least1_spec : forall rs first rest,
  read_at_least1 rs = Some (first, rest) ->
  first <> [] /\ exists pre er, rs = pre ++ (first, er) :: rest /\ concat (map fst pre) = [].
Proof.
  induction rs as [|[d er] rs IH]; intros first rest H; cbn [read_at_least1] in H; [discriminate|].
  destruct d as [|b d].
  - destruct er; try discriminate. destruct (IH _ _ H) as (Hne & pre & er' & E & Hc).
    split; [exact Hne|]. exists (([], RNil) :: pre), er'. split; [cbn [app]; f_equal; exact E|exact Hc].
  - injection H as <- <-. split; [discriminate|]. exists [], er. split; reflexivity.
Qed.

Lemma read_from_prefix : forall rs, exists tail, concat (map fst rs) = concat (swrites (read_from rs)) ++ tail.
Proof.
  induction rs as [|[d er] rs IH]; cbn [read_from].
  - exists []. reflexivity.
  - destruct er; try (eexists; reflexivity). destruct d as [|b d]; [eexists; reflexivity|].
    destruct IH as (tail & E). exists tail. cbn [swrites map fst concat]. rewrite E, <- app_assoc. reflexivity.
Qed.

Lemma swrites_app a b : swrites (a ++ b) = swrites a ++ swrites b.
Proof. induction a as [|e a IH]; cbn [app swrites]; [reflexivity|]. destruct e; rewrite ?IH; reflexivity. Qed.

(* every byte the uplink writes to the stream is the next byte the local peer sent: the concatenation
   of its Stream writes is a prefix of the concatenation of what the local connection's reads returned *)
Lemma route_tcp_up_prefix : forall rs, exists tail, concat (map fst rs) = concat (swrites (route_tcp_up rs)) ++ tail.
Proof.
  intros rs. unfold route_tcp_up. destruct (read_at_least1 rs) as [[first rest]|] eqn:H.
  - destruct (read_at_least1_spec _ _ _ H) as (_ & pre & er & E & Hc).
    destruct (read_from_prefix rest) as (tail & Et). exists tail.
    rewrite E, concat_map_fst_app, Hc. cbn [app map fst concat swrites]. rewrite swrites_app. cbn [swrites]. rewrite app_nil_r.
    rewrite Et, <- app_assoc. reflexivity.
  - eexists. cbn [swrites concat app]. reflexivity.
Qed.

(* and nothing is held back: while the local connection's reads succeed with data, every read is a write *)
Lemma read_from_complete : forall ds, (forall d, In d ds -> d <> []) ->
  forall tail er, er <> RNil -> swrites (read_from (map (fun d => (d, RNil)) ds ++ ([], er) :: tail)) = ds.
Proof.
  induction ds as [|d ds IH]; intros Hne tail er Her; cbn [map app read_from].
  - destruct er; [contradiction| |]; reflexivity.
  - destruct d as [|b d]; [exfalso; apply (Hne []); [left; reflexivity|reflexivity]|].
    cbn [swrites]. f_equal. apply IH; [intros x Hx; apply Hne; right; exact Hx|exact Her].
Qed.

(* the local connection is closed on every path; the stream is closed whenever it was opened *)
Lemma route_tcp_up_closes_local : forall rs, In SCloseLocal (route_tcp_up rs).
Proof.
  intros rs. unfold route_tcp_up. destruct (read_at_least1 rs) as [[first rest]|]; [|left; reflexivity].
  right. apply in_or_app. right. left. reflexivity.
Qed.

(* ---- composition: what arrives at the far end of a relayed stream ----
   `written`/`reads` stand for the bytes accepted by the writes / returned by the reads of one stream
   direction of the session pair (Model/Mux.v: run_written / run_reads); the hypothesis Hmux is exactly
   the conclusion of C01_reads_prefix_of_written.  The uplink feeds the stream from the local
   connection's read script `rs`; the far end pumps the stream into its connection with Copy's loop,
   whose read script `rs2` is what Stream.Read returned. *)
Lemma relay_chain : forall (rs rs2 : list rd) (ws : list wout) (dn : Z) (written reads : list N),
  written = concat (swrites (route_tcp_up rs)) ->
  (exists t, written = reads ++ t) ->
  concat (map fst rs2) = reads ->
  let o := copy KPlain rs2 ws dn in
  co_fuel o = false ->
  exists tail, concat (map fst rs) = concat (writes_of (co_evs o)) ++ tail.
Proof.
  intros rs rs2 ws dn written reads Hw (t & Hmux) Hr o Hf.
  destruct (route_tcp_up_prefix rs) as (t1 & E1).
  destruct (copy_forwards_prefix rs2 ws dn Hf) as (t2 & E2). fold o in E2.
  exists (t2 ++ t ++ t1). rewrite E1, <- Hw, Hmux, <- Hr, E2, <- !app_assoc. reflexivity.
Qed.

(* ---- non-vacuity: concrete scripts that meet the hypotheses ---- *)
Example copy_example_mixed :
  let rs := [([1;2;3]%N, RNil); ([], RNil); ([4]%N, RNil); ([5;6]%N, REOF); ([7]%N, RNil)] in
  let o := copy KPlain rs [WFull false; WFull false; WFull false] 0 in
  co_fuel o = false /\ co_err o = CNil /\ co_written o = 6 /\
  writes_of (co_evs o) = [[1;2;3]; [4]; [5;6]]%N /\ co_reads_left o = [([7]%N, RNil)] /\
  co_evs o = [ERead; EWrite [1;2;3]%N; ERead; ERead; EWrite [4]%N; ERead; EWrite [5;6]%N; ECloseSrc; ECloseDst].
Proof. vm_compute. repeat split; reflexivity. Qed.

Example copy_example_short_write :
  let o := copy KPlain [([1;2;3]%N, RNil); ([4]%N, REOF)] [WN 2 false; WFull false] 0 in
  co_err o = CShortWrite /\ co_written o = 2 /\ nreads (co_evs o) = 1%nat /\ co_fuel o = false.
Proof. vm_compute. repeat split; reflexivity. Qed.

Example route_example :
  route_tcp_up [([], RNil); ([9;8]%N, RNil); ([7]%N, RNil); ([], REOF)] =
  [SWrite [9;8]%N; SWrite [7]%N; SCloseLocal; SCloseStream] /\
  route_tcp_up [([], REOF); ([1]%N, RNil)] = [SCloseLocal].
Proof. vm_compute. split; reflexivity. Qed.
