(* Generated obligations: WHICH call of juju/ratelimit's Bucket the limiter model stands for, and where
   it sits, checked against the call events tools/lockscan extracts from internal/multiplex on every
   run (coq/Gen/Atomicity.v: fn_events, in program order).

   Model/Bucket.v models LimitedValve.rxWait(n) / txWait(n) as [take] with maxWait = None followed by
   an ideal sleep of the returned duration - that is Bucket.Wait(n), and only Bucket.Wait(n): the
   tokens are taken whatever the wait, and the caller is held until they are there (theorems
   C19_never_released_early, C19_backlog_wait, C19_wait_unbounded).  The library's other entry points
   do something else - WaitMaxDuration / TakeMaxDuration take NOTHING and return at once when the wait
   would exceed the limit (Model: take_max with Some m; run_capped; C19_refuted_capped_wait),
   TakeAvailable never waits, Take does not sleep - so a valve switched to one of them leaves the
   theorems true of a model that is no longer the code.  The lemmas below make "the valve calls
   Bucket.Wait, and nothing else of the bucket API is used on the rx/tx path" a proof obligation about
   the source: each is closed by vm_compute and breaks when the call changes. *)
From Coq Require Import String List Bool Arith.
From Cloak Require Import Gen.Atomicity Proofs.AtomLib.
Import ListNotations.
Local Open Scope string_scope.

Lemma valve_scan_complete : atomicity_errors = [].
Proof. vm_compute. reflexivity. Qed.

Definition is_any_call (e : ev) : bool := seqb (fst e) "call".
(* a call of the method Wait: "LimitedValve.rxtb.Wait" when made on the field, "github.com/juju/ratelimit.Bucket.Wait"
   when made on a local variable holding it ("....WaitMaxDuration" does not end in ".Wait") *)
Definition is_wait_call (e : ev) : bool := is_any_call e && ends_with ".Wait" (snd e).
Definition contains (sub s : string) : bool := match index 0 sub s with Some _ => true | None => false end.
(* a call that concerns a token bucket: a function of the ratelimit package, a method of a ratelimit type,
   or a method called on one of the valve's two bucket fields *)
Definition is_bucket_call (e : ev) : bool :=
  is_any_call e && (contains "ratelimit." (snd e) || contains ".rxtb." (snd e) || contains ".txtb." (snd e)).

(* f reads bucket field b (never stores to it) and makes exactly ONE call, which is Wait *)
Definition only_waits_on (f b : string) : bool :=
  Nat.eqb (count is_any_call (events_of f)) 1 && Nat.eqb (count is_wait_call (events_of f)) 1
  && Nat.eqb (count is_bucket_call (events_of f)) 1
  && existsb (is_read b) (events_of f) && negb (existsb (is_write b) (events_of f)).

(* the same thing spelled out, as the library's Wait itself is written: ONE Take followed by ONE time.Sleep
   and nothing else (that the sleep is for the duration Take returned is the correspondence's business:
   release times are compared with the model to the nanosecond) *)
Definition is_take_call (e : ev) : bool := is_any_call e && ends_with ".Take" (snd e).
Definition takes_then_sleeps (f b : string) : bool :=
  Nat.eqb (count is_any_call (events_of f)) 2 && Nat.eqb (count is_bucket_call (events_of f)) 1
  && match filter is_any_call (events_of f) with
     | [e1; e2] => is_take_call e1 && is_bucket_call e1 && is_call "time.Sleep" e2
     | _ => false
     end
  && existsb (is_read b) (events_of f) && negb (existsb (is_write b) (events_of f)).
Definition waits_for_tokens (f b : string) : bool := only_waits_on f b || takes_then_sleeps f b.

Lemma rxWait_is_Bucket_Wait : waits_for_tokens "multiplex.LimitedValve.rxWait" "LimitedValve.rxtb" = true.
Proof. vm_compute. reflexivity. Qed.

Lemma txWait_is_Bucket_Wait : waits_for_tokens "multiplex.LimitedValve.txWait" "LimitedValve.txtb" = true.
Proof. vm_compute. reflexivity. Qed.

(* nothing else of the bucket API anywhere in the scanned packages: the two constructors in MakeValve
   (NewBucketWithRate: the quantum search the model reproduces) and the two Wait calls above *)
Definition bucket_calls : list (string * string) :=
  flat_map (fun fe : string * list ev =>
              map (fun e => (fst fe, snd e)) (filter is_bucket_call (snd fe))) fn_events.

Definition allowed_bucket_call (fc : string * string) : bool :=
  (seqb (fst fc) "multiplex.MakeValve" && seqb (snd fc) "github.com/juju/ratelimit.NewBucketWithRate")
  || ((seqb (fst fc) "multiplex.LimitedValve.rxWait" || seqb (fst fc) "multiplex.LimitedValve.txWait")
      && (ends_with ".Wait" (snd fc) || ends_with ".Take" (snd fc))).

Lemma bucket_api_only_constructed_and_waited_on :
  forallb allowed_bucket_call bucket_calls = true /\ length bucket_calls = 4.
Proof. split; vm_compute; reflexivity. Qed.

(* no function other than the valve's own touches the two bucket fields *)
Lemma bucket_fields_private_to_the_valve :
  forallb (fun fe : string * list ev =>
             existsb (seqb (fst fe)) ["multiplex.MakeValve"; "multiplex.LimitedValve.rxWait"; "multiplex.LimitedValve.txWait"]
             || negb (existsb (fun e => is_access "LimitedValve.rxtb" e || is_access "LimitedValve.txtb" e) (snd fe)))
          fn_events = true.
Proof. vm_compute. reflexivity. Qed.

(* ---- where the wait sits (Model/Bucket.v: "wait-then-write / read-then-wait") ---- *)
(* position of the first / last event selected by p in program order *)
Fixpoint first_pos (p : ev -> bool) (l : list ev) (i : nat) : option nat :=
  match l with [] => None | e :: r => if p e then Some i else first_pos p r (S i) end.
Fixpoint last_pos (p : ev -> bool) (l : list ev) (i : nat) (acc : option nat) : option nat :=
  match l with [] => acc | e :: r => last_pos p r (S i) (if p e then Some i else acc) end.
(* a occurs exactly once in f, and every b comes after it (and there is one) *)
Definition once_before_all (f : string) (a b : ev -> bool) : bool :=
  Nat.eqb (count a (events_of f)) 1 &&
  match first_pos a (events_of f) 0, first_pos b (events_of f) 0 with
  | Some i, Some j => Nat.ltb i j
  | _, _ => false
  end.
(* a occurs exactly once in f, and every b comes before it (and there is one) *)
Definition once_after_all (f : string) (a b : ev -> bool) : bool :=
  Nat.eqb (count a (events_of f)) 1 &&
  match first_pos a (events_of f) 0, last_pos b (events_of f) 0 None with
  | Some i, Some j => Nat.ltb j i
  | _, _ => false
  end.

(* switchboard.send: one txWait, ahead of every write to a connection *)
Lemma send_waits_once_before_writing :
  once_before_all "multiplex.switchboard.send" (is_call "Valve.txWait") (is_call "net.Conn.Write") = true.
Proof. vm_compute. reflexivity. Qed.

(* switchboard.deplex: one rxWait, after the read from the connection and ahead of the processing of the data *)
Lemma deplex_waits_once_between_read_and_processing :
  once_after_all "multiplex.switchboard.deplex" (is_call "Valve.rxWait") (is_call "net.Conn.Read") = true
  /\ once_before_all "multiplex.switchboard.deplex" (is_call "Valve.rxWait") (is_call "Session.recvDataFromRemote") = true.
Proof. split; vm_compute; reflexivity. Qed.
