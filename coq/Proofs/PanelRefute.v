(* Concrete witnesses (evaluated by vm_compute) for what is false of the faithful model:
   - with the pre-fix acquisition order of updateUsageQueue, a reachable deadlock (F4, fixed
     in /repo by 1937ea8: the model parameter prefix_order re-introduces it);
   - the orphan session (F5, open): a session created in a record that has just been
     terminated. *)
From Coq Require Import ZArith NArith List Bool Lia Arith.
From Cloak Require Import Model.Panel Proofs.PanelLocks.
Import ListNotations.

(* ------------------------------------------------------------------ stuck states *)
Definition stuck (c : cfg) (s : state) : Prop :=
  (exists t, t < nthr s /\ thr s t <> Done) /\ forall t ch, step c s (Run t ch) = None.

Definition stuck_check (c : cfg) (s : state) : bool :=
  existsb (fun t => negb (is_done (thr s t))) (seq 0 (nthr s))
  && forallb (fun t => negb (enabled c s t)) (seq 0 (nthr s)).

(* whether a thread can move does not depend on the iteration choice *)
Lemma tstep_none_choice : forall c s t ch, tstep c s t 0 = None -> tstep c s t ch = None.
Proof.
  intros c s t ch. unfold tstep. destruct (thr s t); auto.
  all: repeat match goal with
       | |- context [if ?b then _ else _] => destruct b
       | |- context [match ?x with _ => _ end] => destruct x
       end; auto; try discriminate.
Qed.

Lemma stuck_check_sound : forall c s, stuck_check c s = true -> stuck c s.
Proof.
  intros c s H. apply andb_prop in H. destruct H as [H1 H2]. split.
  - apply existsb_exists in H1. destruct H1 as [t [Hin Ht]]. apply in_seq in Hin.
    exists t. split; [lia|]. intro E. rewrite E in Ht. discriminate.
  - intros t ch. cbn [step]. destruct (Nat.ltb_spec t (nthr s)); auto.
    apply tstep_none_choice. rewrite forallb_forall in H2.
    assert (Hin : In t (seq 0 (nthr s))) by (apply in_seq; lia).
    specialize (H2 _ Hin). unfold enabled in H2. cbn [step] in H2.
    destruct (Nat.ltb_spec t (nthr s)); [|lia]. destruct (tstep c s t 0); [discriminate|reflexivity].
Qed.

Definition run_stuck_check (c : cfg) (d : dbmap) (nw : Z) (ls : list label) : bool :=
  match run c (init d nw) ls with Some s => stuck_check c s | None => false end.

Lemma run_stuck_check_sound : forall c d nw ls, run_stuck_check c d nw ls = true ->
  exists s, reachable c d nw s /\ stuck c s.
Proof.
  unfold run_stuck_check. intros c d nw ls H. destruct (run c (init d nw) ls) as [s|] eqn:E; [|discriminate].
  exists s. split; [exists ls; exact E | now apply stuck_check_sound].
Qed.

(* one limited user: uid 1, cap 2, credits 1000/1000, expiry 100; the clock starts at 10 *)
Definition db1 : dbmap := fun u => if N.eqb u 1 then Some (mkDb 2 (1000, 1000)%Z 100) else None.
Definition cfg_prefix : cfg := mkCfg true false (fun _ => false) (fun _ => 0%Z).
Definition cfg_now : cfg := mkCfg false false (fun _ => false) (fun _ => 0%Z).
Definition cfg_patched : cfg := mkCfg false true (fun _ => false) (fun _ => 0%Z).

Fixpoint runs (t : nat) (n : nat) : list label :=
  match n with O => [] | S m => Run t 0 :: runs t m end.

(* F4.  Thread 0 admits a session of user 1; 5 bytes arrive; thread 1 (updateUsageQueue) puts
   them into the queue (it must be non-empty for commitUpdate to look at activeUsers).  Then
   T1 = thread 2 (updateUsageQueue) takes activeUsersM; T2 = thread 3 (commitUpdate) takes
   usageUpdateQueueM; T1 requests usageUpdateQueueM; T2 requests activeUsersM.RLock. *)
Definition deadlock_trace : list label :=
  [Spawn (OpDispatch 1 1)] ++ runs 0 4 ++ [Traffic 0 (5, 0)%Z; Spawn OpUpdate] ++ runs 1 3
  ++ [Spawn OpUpdate; Spawn OpCommit; Run 2 0; Run 3 0].

Lemma prefix_deadlock : exists s, reachable cfg_prefix db1 10%Z s /\ stuck cfg_prefix s
  /\ thr s 2 = U1 false /\ thr s 3 = M1 [1%N] [] /\ rw_w (lkA s) = Some 2 /\ lkQ s = Some 3.
Proof.
  destruct (run cfg_prefix (init db1 10%Z) deadlock_trace) as [s|] eqn:E; [|vm_compute in E; discriminate].
  exists s. split; [exists deadlock_trace; exact E|].
  assert (H : stuck_check cfg_prefix s = true /\ thr s 2 = U1 false /\ thr s 3 = M1 [1%N] []
              /\ rw_w (lkA s) = Some 2 /\ lkQ s = Some 3).
  { vm_compute in E. injection E as <-. vm_compute. auto. }
  destruct H as [H ?]. split; [now apply stuck_check_sound | assumption].
Qed.

(* the same schedule is harmless with the repaired order *)
Lemma fixed_order_same_schedule_runs :
  run_stuck_check cfg_now db1 10%Z deadlock_trace = false.
Proof. vm_compute. reflexivity. Qed.

(* ------------------------------------------------------------------ F5: the orphan session *)
From Cloak Require Import Proofs.PanelWF Proofs.PanelOwn.

Definition quiescent_check (s : state) : bool :=
  forallb (fun t => is_done (thr s t)) (seq 0 (nthr s)).

Definition owned1 (s : state) (k : nat) : bool :=
  let r := s_owner (sess s k) in
  s_closed (sess s k) || r_bypass (recs s r)
  || ((match table s (r_uid (recs s r)) with Some r' => Nat.eqb r' r | None => false end)
      && (match slook (s_sid (sess s k)) (r_sess (recs s r)) with Some k' => Nat.eqb k' k | None => false end)).

Lemma quiescent_check_sound : forall s, quiescent_check s = true -> quiescent s.
Proof.
  intros s H t Ht. unfold quiescent_check in H. rewrite forallb_forall in H.
  assert (Hin : In t (seq 0 (nthr s))) by (apply in_seq; lia).
  apply H in Hin. destruct (thr s t); try discriminate; reflexivity.
Qed.

Lemma owned1_false : forall s k, k < nses s -> owned1 s k = false -> ~ owned s.
Proof.
  intros s k Hk H Ho. unfold owned1 in H.
  apply orb_false_elim in H. destruct H as [H H3]. apply orb_false_elim in H. destruct H as [H1 H2].
  destruct (Ho k Hk H1 H2) as [Ht Hs]. rewrite Ht, Hs, !Nat.eqb_refl in H3. discriminate.
Qed.

(* Thread 0 admits session 1 of user 1 (record 0).  Thread 1 (a second connection, session id
   2) resolves the user: GetUser returns record 0; it is now at the schedule point
   dispatch.gotUser.  Thread 2 = CloseSession(1) of record 0: the last session, so
   TerminateActiveUser runs to the end (record 0 leaves activeUsers).  Thread 1 continues:
   GetSession creates session 2 IN RECORD 0.  Thread 3: the next connection of user 1 (session
   id 3) finds no active user and creates record 1 with a second valve. *)
Definition orphan_trace : list label :=
  [Spawn (OpDispatch 1 1)] ++ runs 0 4
  ++ [Spawn (OpDispatch 1 2)] ++ runs 1 2
  ++ [Spawn (OpClose 0 1)] ++ runs 2 9
  ++ runs 1 2
  ++ [Spawn (OpDispatch 1 3)] ++ runs 3 4.

Lemma orphan_state : exists s, reachable cfg_now db1 10%Z s /\ quiescent s
  /\ nrec s = 2 /\ r_uid (recs s 0) = 1%N /\ r_uid (recs s 1) = 1%N
  /\ r_bypass (recs s 0) = false
  /\ s_owner (sess s 1) = 0 /\ s_closed (sess s 1) = false     (* live session in record 0 *)
  /\ s_owner (sess s 2) = 1 /\ s_closed (sess s 2) = false     (* live session in record 1 *)
  /\ table s 1%N = Some 1                                      (* the panel knows record 1 only *)
  /\ ~ owned s.
Proof.
  destruct (run cfg_now (init db1 10%Z) orphan_trace) as [s|] eqn:E; [|vm_compute in E; discriminate].
  exists s. split; [exists orphan_trace; exact E|].
  assert (H : quiescent_check s = true /\ nrec s = 2 /\ r_uid (recs s 0) = 1%N /\ r_uid (recs s 1) = 1%N
              /\ r_bypass (recs s 0) = false
              /\ s_owner (sess s 1) = 0 /\ s_closed (sess s 1) = false
              /\ s_owner (sess s 2) = 1 /\ s_closed (sess s 2) = false
              /\ table s 1%N = Some 1 /\ (1 <? nses s) = true /\ owned1 s 1 = false).
  { vm_compute in E. injection E as <-. vm_compute. repeat split; reflexivity. }
  destruct H as (H1&H2&H3&H4&H5&H6&H7&H8&H9&H10&H11&H12).
  repeat (split; [assumption|]).
  split; [now apply quiescent_check_sound|]. repeat (split; [assumption|]).
  apply Nat.ltb_lt in H11. eapply owned1_false; eauto.
Qed.

Lemma ownership_refuted : ~ ownership cfg_now.
Proof.
  intro H. destruct orphan_state as [s (HR&HQ&_&_&_&_&_&_&_&_&_&Hn)].
  apply Hn. apply (H _ _ _ HR HQ).
Qed.

(* the same schedule on the repaired model: thread 1 is sent back to look the user up again *)
Lemma orphan_trace_patched_owned :
  match run cfg_patched (init db1 10%Z) (orphan_trace ++ runs 1 4) with
  | Some s => quiescent_check s && forallb (owned1 s) (seq 0 (nses s)) && Nat.eqb (nrec s) 2
  | None => false
  end = true.
Proof. vm_compute. reflexivity. Qed.
