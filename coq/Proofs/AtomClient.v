(* Generated obligations: the relay loops (client.RouteTCP, client.RouteUDP, server.serveSession,
   common.Copy's callers) are modelled as independent per-connection / per-stream pipelines
   (Model/Mux.v labels, Model/Datagram.v the route_udp functions): each relay goroutine reads into a buffer
   of its own.  tools/lockscan lists, for every go statement of the four packages, the variables
   the new goroutine shares with its spawner and where they are declared; a byte buffer (slice,
   array, pointer to one, bytes.Buffer, or anything of unknown type) declared outside the loop
   iteration that spawns the goroutine would be shared by all of them. *)
From Coq Require Import String List Bool.
From Cloak Require Import Gen.Atomicity Proofs.AtomLib.
Import ListNotations.
Local Open Scope string_scope.

Lemma client_scan_complete : atomicity_errors = [].
Proof. vm_compute. reflexivity. Qed.

Lemma relay_goroutines_own_their_buffers : goroutines_own_their_buffers = true.
Proof. vm_compute. reflexivity. Qed.

(* not vacuous: the relays are there and do spawn goroutines *)
Lemma relays_spawn_goroutines :
  spawns "client.RouteTCP" = true /\ spawns "client.RouteUDP" = true /\ spawns "server.serveSession" = true
  /\ spawns "multiplex.switchboard.addConn" = true.
Proof. repeat split; vm_compute; reflexivity. Qed.

(* nor is there a buffer at package level that relays running in different goroutines could
   share.  Reviewed exceptions: three function values of unknown static type
   (binary.BigEndian.Uint16/Uint32, base64's EncodeToString) and a read-only table of strings. *)
Lemma no_buffer_at_package_level :
  no_package_level_buffers ["server.b64"; "server.u16"; "server.u32"; "client.topLevelDomains"] = true.
Proof. vm_compute. reflexivity. Qed.
