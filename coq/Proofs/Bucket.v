(* Proofs about the token bucket model (Model/Bucket.v) - property C19. *)
From Coq Require Import ZArith List Bool Lia.
From Coq Require Import ZifyBool.
From Cloak Require Import Gen.Consts Model.Bucket.
Import ListNotations.
Local Open Scope Z_scope.

Definition wf (p : params) : Prop := 0 < capacity p /\ 0 < quantum p /\ 0 < fillInterval p.

(* ------------------------------------------------------------ arithmetic helpers *)
Lemma ceil_bounds : forall x q, 0 < q -> let k := (x + q - 1) / q in x <= q * k /\ q * k < x + q.
Proof.
  intros x q Hq k. subst k.
  pose proof (Z.div_mod (x + q - 1) q ltac:(lia)) as E.
  pose proof (Z.mod_pos_bound (x + q - 1) q Hq) as B. lia.
Qed.

Lemma ceil_nonneg : forall x q, 0 < q -> 0 < x -> 0 < (x + q - 1) / q.
Proof.
  intros x q Hq Hx. destruct (ceil_bounds x q Hq) as [H1 H2].
  destruct (Z.le_gt_cases ((x + q - 1) / q) 0) as [H|H]; [|exact H]. exfalso. nia.
Qed.

Lemma mul_lt_cancel : forall q a b, 0 < q -> q * a < q * b -> a < b.
Proof. intros. nia. Qed.

Lemma div_mono : forall a b F, 0 < F -> a <= b -> a / F <= b / F.
Proof. intros. apply Z.div_le_mono; lia. Qed.

(* ------------------------------------------------------------ one request *)
(* where the last request is released, read off the state it leaves: its tick if it was served at
   once, else the end tick computed by take *)
Definition rel (p : params) (st : bstate) : Z :=
  ltick st + (if avail st <? 0 then (- avail st + quantum p - 1) / quantum p else 0).

(* tokens in the bucket at tick R if nothing else is requested (no cap applied) *)
Definition bal (p : params) (st : bstate) (R : Z) : Z := avail st + (R - ltick st) * quantum p.

Lemma take_eq : forall p st now c, 0 < c ->
  take p st now c =
  let T := now / fillInterval p in
  let av := avail (adjust p st T) - c in
  (mkB av T, if 0 <=? av then 0 else (T + (- av + quantum p - 1) / quantum p) * fillInterval p - now).
Proof.
  intros p st now c Hc. unfold take, take_max, tick_of.
  destruct (c <=? 0) eqn:E; [lia|]. cbv zeta.
  destruct (0 <=? avail (adjust p st (now / fillInterval p)) - c); reflexivity.
Qed.

Lemma take_nonpos : forall p st now c, c <= 0 -> take p st now c = (st, 0).
Proof. intros p st now c Hc. unfold take, take_max. destruct (c <=? 0) eqn:E; [reflexivity | lia]. Qed.

Lemma adjust_le_cap : forall p st T, avail st <= capacity p -> avail (adjust p st T) <= capacity p.
Proof.
  intros p st T H. unfold adjust. destruct (capacity p <=? avail st) eqn:E; cbn [avail]; [lia|].
  destruct (capacity p <? avail st + (T - ltick st) * quantum p) eqn:E2; lia.
Qed.

Lemma adjust_uncapped : forall p st T, wf p -> avail st <= capacity p -> ltick st <= T ->
  avail (adjust p st T) <= avail st + (T - ltick st) * quantum p.
Proof.
  intros p st T (Hc & Hq & HF) H HT. unfold adjust.
  destruct (capacity p <=? avail st) eqn:E; cbn [avail]; [nia|].
  destruct (capacity p <? avail st + (T - ltick st) * quantum p) eqn:E2; lia.
Qed.

Lemma adjust_ltick : forall p st T, ltick (adjust p st T) = T.
Proof. intros. unfold adjust. destruct (capacity p <=? avail st); reflexivity. Qed.

(* the state after a request, its release tick, and the balance there *)
Lemma take_facts : forall p st now c, wf p -> 0 < c -> 0 <= now ->
  let T := now / fillInterval p in
  let Av := avail (adjust p st T) in
  let st' := fst (take p st now c) in
  let w := snd (take p st now c) in
  st' = mkB (Av - c) T /\ 0 <= w /\
  (now + w) / fillInterval p = rel p st' /\
  T <= rel p st' /\
  0 <= bal p st' (rel p st') /\
  (Av - c < 0 -> bal p st' (rel p st') < quantum p /\ now + w = rel p st' * fillInterval p) /\
  (0 <= Av - c -> rel p st' = T /\ w = 0).
Proof.
  intros p st now c (Hc & Hq & HF) Hcp Hnow T Av st' w.
  subst st' w. rewrite take_eq by exact Hcp. cbv zeta. fold T. fold Av. cbn [fst snd].
  unfold rel, bal. cbn [avail ltick].
  destruct (0 <=? Av - c) eqn:E.
  - assert (Av - c <? 0 = false) as -> by lia.
    repeat split; try lia.
    + rewrite Z.add_0_r. lia.
  - assert (Av - c <? 0 = true) as -> by lia.
    destruct (ceil_bounds (- (Av - c)) (quantum p) Hq) as [C1 C2].
    pose proof (ceil_nonneg (- (Av - c)) (quantum p) Hq ltac:(lia)) as C3.
    set (k := (- (Av - c) + quantum p - 1) / quantum p) in *.
    assert (HT : T * fillInterval p <= now).
    { subst T. pose proof (Z.mul_div_le now (fillInterval p) HF). lia. }
    assert (HT2 : now < (T + 1) * fillInterval p).
    { subst T. pose proof (Z.div_mod now (fillInterval p) ltac:(lia)). pose proof (Z.mod_pos_bound now (fillInterval p) HF). lia. }
    replace (now + ((T + k) * fillInterval p - now)) with ((T + k) * fillInterval p) by lia.
    rewrite Z.div_mul by lia.
    repeat split; try lia; try nia.
Qed.

(* release ticks never decrease along a request sequence *)
Lemma rel_mono : forall p st now c, wf p -> 0 < c -> 0 <= now ->
  avail st <= capacity p -> ltick st <= now / fillInterval p ->
  rel p st <= rel p (fst (take p st now c)).
Proof.
  intros p st now c Hwf Hc Hnow Hcap HL.
  destruct (take_facts p st now c Hwf Hc Hnow) as (Est & _ & _ & HT & Hbal & Hw & Hi).
  pose proof (adjust_uncapped p st (now / fillInterval p) Hwf Hcap HL) as Hun.
  destruct Hwf as (Hc0 & Hq & HF).
  set (T := now / fillInterval p) in *. set (Av := avail (adjust p st T)) in *.
  set (st' := fst (take p st now c)) in *.
  unfold rel at 1. destruct (avail st <? 0) eqn:E; [|lia].
  destruct (ceil_bounds (- avail st) (quantum p) Hq) as [C1 C2].
  set (k0 := (- avail st + quantum p - 1) / quantum p) in *.
  clearbody k0 T Av.
  destruct (Z.le_gt_cases 0 (Av - c)) as [Hge|Hlt].
  - destruct (Hi Hge) as [-> _]. apply Z.lt_succ_r. apply (mul_lt_cancel (quantum p)); [exact Hq|].
    clear - Hq Hc Hge Hun C2. nia.
  - rewrite Est.
    apply Z.lt_succ_r. apply (mul_lt_cancel (quantum p)); [exact Hq|].
    destruct (ceil_bounds (- (Av - c)) (quantum p) Hq) as [D1 D2].
    unfold rel. cbn [avail ltick]. assert (Av - c <? 0 = true) as -> by lia.
    set (k1 := (- (Av - c) + quantum p - 1) / quantum p) in *. clearbody k1.
    clear - Hq Hc Hlt Hun C2 D1. nia.
Qed.

(* ------------------------------------------------------------ request sequences *)
Fixpoint sorted_from (lb : Z) (reqs : list (Z * Z)) : Prop :=
  match reqs with
  | [] => True
  | (t, c) :: r => lb <= t /\ sorted_from t r
  end.

Definition counts_in (m : Z) (reqs : list (Z * Z)) : Prop := Forall (fun tc => 0 < snd tc <= m) reqs.

Fixpoint sum_if (P : Z -> bool) (out : list (Z * Z)) : Z :=
  match out with
  | [] => 0
  | (r, c) :: o => (if P r then c else 0) + sum_if P o
  end.

Lemma released_sum_if : forall s e out, released s e out = sum_if (fun r => (s <=? r) && (r <=? e)) out.
Proof. induction out as [|[r c] o IH]; cbn [released sum_if]; [reflexivity | now rewrite IH]. Qed.

Lemma sum_if_mono : forall (P Q : Z -> bool) out,
  Forall (fun rc => 0 <= snd rc /\ (P (fst rc) = true -> Q (fst rc) = true)) out ->
  sum_if P out <= sum_if Q out.
Proof.
  induction 1 as [|[r c] o [Hc Hi] _ IH]; cbn [sum_if]; [lia|]. cbn [fst snd] in *.
  destruct (P r) eqn:EP; [rewrite (Hi eq_refl); lia|]. destruct (Q r); lia.
Qed.

Lemma sum_if_none : forall (P : Z -> bool) out, Forall (fun rc => P (fst rc) = false) out -> sum_if P out = 0.
Proof. induction 1 as [|[r c] o H _ IH]; cbn [sum_if]; [reflexivity|]. cbn [fst] in H. now rewrite H, IH. Qed.

Lemma sum_if_nonneg : forall (P : Z -> bool) out, Forall (fun rc => 0 <= snd rc) out -> 0 <= sum_if P out.
Proof. induction 1 as [|[r c] o H _ IH]; cbn [sum_if]; [lia|]. cbn [snd] in H. destruct (P r); lia. Qed.

Lemma run_counts : forall p reqs st m, counts_in m reqs -> Forall (fun rc => 0 < snd rc <= m) (run p st reqs).
Proof.
  induction reqs as [|[t c] r IH]; intros st m H; cbn [run]; [constructor|].
  inversion H; subst. destruct (take p st t c) as [st' w]. constructor; [exact H2 | now apply IH].
Qed.

(* every release of a run happens at or after the release tick recorded in the starting state *)
Lemma run_ge : forall p reqs st lb, wf p -> 0 <= lb ->
  avail st <= capacity p -> ltick st <= lb / fillInterval p ->
  sorted_from lb reqs -> counts_in (capacity p + 1) reqs \/ (exists m, counts_in m reqs) ->
  Forall (fun rc => rel p st <= fst rc / fillInterval p) (run p st reqs).
Proof.
  intros p reqs. induction reqs as [|[t c] r IH]; intros st lb Hwf Hlb Hcap HL Hs Hc; cbn [run]; [constructor|].
  destruct Hs as [Ht Hs].
  assert (Hcnt : exists m, counts_in m ((t, c) :: r)) by (destruct Hc as [H|H]; eauto).
  destruct Hcnt as [m Hm]. inversion Hm as [|x l Hcp Hm']; subst. cbn [snd] in Hcp.
  assert (HL' : ltick st <= t / fillInterval p).
  { etransitivity; [exact HL|]. apply div_mono; [apply Hwf | exact Ht]. }
  pose proof (take_facts p st t c Hwf ltac:(lia) ltac:(lia)) as (Est & Hw & Hr & HT & _).
  pose proof (rel_mono p st t c Hwf ltac:(lia) ltac:(lia) Hcap HL') as Hmono.
  destruct (take p st t c) as [st' w] eqn:Et. cbn [fst snd] in *.
  constructor; [cbn [fst]; lia|].
  assert (Hcap' : avail st' <= capacity p).
  { rewrite Est. cbn [avail]. pose proof (adjust_le_cap p st (t / fillInterval p) Hcap). lia. }
  assert (HL2 : ltick st' <= t / fillInterval p) by (rewrite Est; cbn [ltick]; lia).
  specialize (IH st' t Hwf ltac:(lia) Hcap' HL2 Hs (or_intror (ex_intro _ m Hm'))).
  eapply Forall_impl; [|exact IH]. intros rc Hrc. cbn beta in *. lia.
Qed.

(* accounting: everything released up to tick b by a run whose first request is released by then
   is paid for by what the bucket holds when that first request arrives plus the refill since *)
Lemma acc : forall p reqs st lb b m, wf p -> 0 <= lb ->
  avail st <= capacity p -> ltick st <= lb / fillInterval p ->
  sorted_from lb reqs -> counts_in m reqs ->
  match reqs with
  | [] => True
  | (t1, c1) :: _ =>
      rel p (fst (take p st t1 c1)) <= b ->
      sum_if (fun r => r / fillInterval p <=? b) (run p st reqs)
      <= avail (adjust p st (t1 / fillInterval p)) + (b - t1 / fillInterval p) * quantum p
  end.
Proof.
  intros p reqs. induction reqs as [|[t1 c1] rest IH]; intros st lb b m Hwf Hlb Hcap HL Hs Hm; [exact I|].
  intros HR. destruct Hs as [Ht Hs]. inversion Hm as [|x l Hcp Hm']; subst. cbn [snd] in Hcp.
  assert (HL' : ltick st <= t1 / fillInterval p).
  { etransitivity; [exact HL|]. apply div_mono; [apply Hwf | exact Ht]. }
  pose proof (take_facts p st t1 c1 Hwf ltac:(lia) ltac:(lia)) as (Est & Hw & Hr & HT & Hbal & _).
  cbn [run]. destruct (take p st t1 c1) as [st1 w1] eqn:Et. cbn [fst snd] in *.
  cbn [sum_if]. rewrite Hr. assert (rel p st1 <=? b = true) as -> by lia.
  set (T1 := t1 / fillInterval p) in *. set (Av1 := avail (adjust p st T1)) in *.
  assert (Hcap1 : avail st1 <= capacity p).
  { rewrite Est. cbn [avail]. pose proof (adjust_le_cap p st T1 Hcap). fold Av1 in H. lia. }
  assert (HL1 : ltick st1 <= t1 / fillInterval p) by (rewrite Est; cbn [ltick]; lia).
  assert (Hq : 0 < quantum p) by apply Hwf.
  set (R1 := rel p st1) in *.
  unfold bal in Hbal. rewrite Est in Hbal. cbn [avail ltick] in Hbal.
  (* what the rest can still draw: the balance at R1 plus the refill up to b *)
  assert (Hrest : sum_if (fun r => r / fillInterval p <=? b) (run p st1 rest)
                  <= (Av1 - c1) + (b - T1) * quantum p).
  { destruct rest as [|[t2 c2] rest'].
    - cbn [run sum_if]. clear - Hq Hbal HR. nia.
    - destruct (Z.le_gt_cases (rel p (fst (take p st1 t2 c2))) b) as [HR2|HR2].
      + specialize (IH st1 t1 b m Hwf ltac:(lia) Hcap1 HL1 Hs Hm' HR2).
        destruct Hs as [Ht2 _].
        pose proof (adjust_uncapped p st1 (t2 / fillInterval p) Hwf Hcap1
                      ltac:(etransitivity; [exact HL1 | apply div_mono; [apply Hwf | exact Ht2]])) as Hun.
        assert (Ea : avail st1 = Av1 - c1) by (rewrite Est; reflexivity).
        assert (El : ltick st1 = T1) by (rewrite Est; reflexivity).
        rewrite Ea, El in Hun. clear - IH Hun. nia.
      + (* the next request is released after b: so is everything behind it *)
        assert (Z0 : sum_if (fun r => r / fillInterval p <=? b) (run p st1 ((t2, c2) :: rest')) = 0).
        { apply sum_if_none. cbn [run].
          destruct Hs as [Ht2 Hs2]. inversion Hm' as [|x2 l2 Hcp2 Hm2]; subst x2 l2. cbn [snd] in Hcp2.
          pose proof (take_facts p st1 t2 c2 Hwf ltac:(lia) ltac:(lia)) as (Est2 & _ & Hr2 & _).
          assert (HL2 : ltick st1 <= t2 / fillInterval p).
          { etransitivity; [exact HL1 | apply div_mono; [apply Hwf | exact Ht2]]. }
          destruct (take p st1 t2 c2) as [st2 w2] eqn:Et2. cbn [fst snd] in *.
          constructor; [cbn [fst]; lia|].
          assert (Hcap2 : avail st2 <= capacity p).
          { rewrite Est2. cbn [avail]. pose proof (adjust_le_cap p st1 (t2 / fillInterval p) Hcap1). lia. }
          pose proof (run_ge p rest' st2 t2 Hwf ltac:(lia) Hcap2 ltac:(rewrite Est2; cbn [ltick]; lia) Hs2
                        (or_intror (ex_intro _ m Hm2))) as G.
          eapply Forall_impl; [|exact G]. intros rc Hrc. cbn beta in *. lia. }
        rewrite Z0. clear - Hq Hbal HR. nia. }
  lia.
Qed.

(* ------------------------------------------------------------ the bound, in ticks *)
Lemma bound_ticks : forall p reqs st lb a b m, wf p -> 0 <= lb -> a <= b ->
  avail st <= capacity p -> ltick st <= lb / fillInterval p ->
  sorted_from lb reqs -> counts_in m reqs ->
  sum_if (fun r => (a <=? r / fillInterval p) && (r / fillInterval p <=? b)) (run p st reqs)
  <= quantum p * (b - a + 1) + Z.max (capacity p) m.
Proof.
  intros p reqs. induction reqs as [|[t1 c1] rest IH]; intros st lb a b m Hwf Hlb Hab Hcap HL Hs Hm.
  - cbn [run sum_if]. destruct Hwf as (Hc & Hq & HF). nia.
  - assert (Hq : 0 < quantum p) by apply Hwf.
    assert (Hall := Hm). destruct Hs as [Ht Hs]. inversion Hm as [|x l Hcp Hm']; subst. cbn [snd] in Hcp.
    assert (HL' : ltick st <= t1 / fillInterval p).
    { etransitivity; [exact HL|]. apply div_mono; [apply Hwf | exact Ht]. }
    pose proof (take_facts p st t1 c1 Hwf ltac:(lia) ltac:(lia)) as (Est & Hw & Hr & HT & Hbal & Hwait & Himm).
    pose proof (acc p ((t1, c1) :: rest) st lb b m Hwf Hlb Hcap HL (conj Ht Hs) Hall) as Hacc.
    cbv beta iota in Hacc.
    pose proof (run_ge p rest (fst (take p st t1 c1)) t1 Hwf ltac:(lia)) as Hge.
    pose proof (run_counts p rest (fst (take p st t1 c1)) m Hm') as Hcnt.
    cbn [run] in *. destruct (take p st t1 c1) as [st1 w1] eqn:Et. cbn [fst snd] in *.
    set (T1 := t1 / fillInterval p) in *. set (Av1 := avail (adjust p st T1)) in *.
    assert (Hcap1 : avail st1 <= capacity p).
    { rewrite Est. cbn [avail]. pose proof (adjust_le_cap p st T1 Hcap). fold Av1 in H. lia. }
    assert (HL1 : ltick st1 <= t1 / fillInterval p) by (rewrite Est; cbn [ltick]; lia).
    specialize (Hge Hcap1 HL1 Hs (or_intror (ex_intro _ m Hm'))).
    destruct (Z.lt_ge_cases (rel p st1) a) as [Hlt|Hge_a].
    + (* released before the window: not counted *)
      cbn [sum_if]. rewrite Hr. assert (a <=? rel p st1 = false) as -> by lia. cbn [andb].
      specialize (IH st1 t1 a b m Hwf ltac:(lia) Hab Hcap1 HL1 Hs Hm'). lia.
    + (* the window starts here: every later release is >= a, so the window sum is the sum up to b *)
      assert (E : sum_if (fun r => (a <=? r / fillInterval p) && (r / fillInterval p <=? b)) ((t1 + w1, c1) :: run p st1 rest)
                  <= sum_if (fun r => r / fillInterval p <=? b) ((t1 + w1, c1) :: run p st1 rest)).
      { apply sum_if_mono. constructor.
        - cbn [fst snd]. split; [lia|]. intro H. apply andb_true_iff in H. tauto.
        - rewrite Forall_forall in *. intros rc Hin. split; [specialize (Hcnt rc Hin); lia|].
          intro H. apply andb_true_iff in H. tauto. }
      destruct (Z.lt_ge_cases b (rel p st1)) as [Hout|Hin].
      * (* nothing is released in the window *)
        assert (Z0 : sum_if (fun r => r / fillInterval p <=? b) ((t1 + w1, c1) :: run p st1 rest) = 0).
        { apply sum_if_none. constructor; [cbn [fst]; lia|].
          eapply Forall_impl; [|exact Hge]. intros rc Hrc. cbn beta in *. lia. }
        destruct Hwf as (Hc0 & _ & _). nia.
      * specialize (Hacc Hin).
        set (X := sum_if (fun r => (a <=? r / fillInterval p) && (r / fillInterval p <=? b)) ((t1 + w1, c1) :: run p st1 rest)) in *.
        set (Y := sum_if (fun r => r / fillInterval p <=? b) ((t1 + w1, c1) :: run p st1 rest)) in *.
        set (R1 := rel p st1) in *. set (q := quantum p) in *.
        destruct (Z.lt_ge_cases T1 a) as [Hbefore|Hinside].
        -- (* the first request of the window arrived before it and waited into it *)
           destruct (Z.le_gt_cases 0 (Av1 - c1)) as [Hi|Hwt]; [destruct (Himm Hi); lia|].
           destruct (Hwait Hwt) as [Hb _]. unfold bal in Hb. rewrite Est in Hb. cbn [avail ltick] in Hb.
           fold q in Hb.
           assert (P1 : 0 <= (R1 - a) * q) by (apply Z.mul_nonneg_nonneg; lia).
           clear - E Hacc Hb Hcp P1 Hq. clearbody X Y R1 q T1 Av1. nia.
        -- (* it arrived inside the window: at most a full bucket plus the refill *)
           pose proof (adjust_le_cap p st T1 Hcap) as HA. fold Av1 in HA.
           assert (P1 : 0 <= (T1 - a) * q) by (apply Z.mul_nonneg_nonneg; lia).
           clear - E Hacc HA P1 Hq. clearbody X Y q T1 Av1. nia.
Qed.

(* ------------------------------------------------------------ the bound, in time *)
Theorem bound : forall p reqs s e m, wf p -> 0 <= s <= e ->
  sorted_from 0 reqs -> counts_in m reqs ->
  released s e (run p (binit p) reqs)
  <= quantum p * (e / fillInterval p - s / fillInterval p + 1) + Z.max (capacity p) m.
Proof.
  intros p reqs s e m Hwf Hse Hs Hm.
  assert (HF : 0 < fillInterval p) by apply Hwf.
  rewrite released_sum_if.
  etransitivity.
  - apply (sum_if_mono _ (fun r => (s / fillInterval p <=? r / fillInterval p) && (r / fillInterval p <=? e / fillInterval p))).
    pose proof (run_counts p reqs (binit p) m Hm) as Hc.
    rewrite Forall_forall in *. intros rc Hin. specialize (Hc rc Hin). split; [lia|].
    intro H. apply andb_true_iff in H as [H1 H2]. apply andb_true_iff.
    pose proof (div_mono s (fst rc) _ HF ltac:(lia)). pose proof (div_mono (fst rc) e _ HF ltac:(lia)). lia.
  - apply (bound_ticks p reqs (binit p) 0); try assumption; try lia.
    + apply div_mono; lia.
    + cbn [binit avail]. lia.
    + cbn [binit ltick]. rewrite Z.div_0_l by lia. lia.
Qed.

(* in rate terms: capacity = rate (one second's worth), quantum/fillInterval within 1 % of rate, every
   message at most one second's worth: bytes in [s,e] <= 1.01 * rate * (e-s)/1e9 + rate + 2*quantum *)
Definition within_1pct (rate : Z) (p : params) : Prop :=
  100 * Z.abs (1000000000 * quantum p - rate * fillInterval p) <= rate * fillInterval p.

Theorem bound_rate : forall rate p reqs s e, wf p -> 0 < rate ->
  capacity p = rate -> within_1pct rate p ->
  0 <= s <= e -> sorted_from 0 reqs -> counts_in rate reqs ->
  100 * 1000000000 * released s e (run p (binit p) reqs)
  <= 101 * rate * (e - s) + 100 * 1000000000 * (rate + 2 * quantum p).
Proof.
  intros rate p reqs s e Hwf Hrate Hcap H1 Hse Hs Hm.
  pose proof (bound p reqs s e rate Hwf Hse Hs Hm) as B. rewrite Hcap, Z.max_id in B.
  destruct Hwf as (Hc & Hq & HF). unfold within_1pct in H1.
  set (F := fillInterval p) in *. set (q := quantum p) in *.
  assert (Hk : e / F - s / F <= (e - s) / F + 1).
  { pose proof (Z.div_mod e F ltac:(lia)). pose proof (Z.div_mod s F ltac:(lia)). pose proof (Z.div_mod (e - s) F ltac:(lia)).
    pose proof (Z.mod_pos_bound e F HF). pose proof (Z.mod_pos_bound s F HF). pose proof (Z.mod_pos_bound (e - s) F HF). nia. }
  set (k := (e - s) / F) in *.
  assert (Hk0 : 0 <= k) by (apply Z.div_pos; lia).
  assert (HkF : F * k <= e - s) by (apply Z.mul_div_le; lia).
  assert (Hq1 : 100 * 1000000000 * q <= 101 * rate * F) by lia.
  assert (100 * 1000000000 * q * k <= 101 * rate * (e - s)).
  { transitivity (101 * rate * F * k); [nia|]. nia. }
  nia.
Qed.

(* ------------------------------------------------------------ F14: the literal statement is false *)
(* rate 1000 B/s: NewBucketWithRate(1000, 1000) = quantum 1, fillInterval 1 ms, capacity 1000 *)
Definition p1000 : params := mkParams 1000 1 1000000.

Lemma search_1000 : new_bucket_with_rate 1000 1000 = Some p1000.
Proof. vm_compute. reflexivity. Qed.

(* one maximal frame (16401 bytes) is released whole, 15.401 s after it was requested: a burst of
   16401 bytes in an interval of length zero, where rate * 0 + one second's worth = 1000 (+1 %) *)
Lemma small_rate_burst :
  run p1000 (binit p1000) [(0, server_appDataMaxLength)] = [(15401000000, 16401)] /\
  released 15401000000 15401000000 (run p1000 (binit p1000) [(0, server_appDataMaxLength)]) = 16401.
Proof. split; vm_compute; reflexivity. Qed.

(* ------------------------------------------------------------ a backlogged sender is not starved *)
Fixpoint total (cs : list Z) : Z := match cs with [] => 0 | c :: r => c + total r end.

(* cumulative byte counts attached to a run's output *)
Fixpoint cumulate (K : Z) (out : list (Z * Z)) : list (Z * Z) :=
  match out with [] => [] | (r, c) :: o => (r, K + c) :: cumulate (K + c) o end.

(* invariant of the sequential sender: the current time is a tick boundary Rt*F, and the bucket's
   balance there is exactly capacity + refill - consumption (the cap never truncates) *)
Lemma app_cons_assoc : forall {A} (pre : list A) x l, pre ++ x :: l = (pre ++ [x]) ++ l.
Proof. intros. now rewrite <- app_assoc. Qed.

Definition timely (p : params) (rK : Z * Z) : Prop :=
  0 <= fst rK /\ (fst rK = 0 \/ fst rK * quantum p < (snd rK - capacity p + quantum p) * fillInterval p).

Lemma seq_inv : forall p cs st Rt K pre, wf p -> quantum p <= capacity p ->
  0 <= Rt -> ltick st <= Rt -> avail st <= capacity p ->
  bal p st Rt = capacity p + Rt * quantum p - K -> 0 <= bal p st Rt <= capacity p ->
  (Rt = 0 \/ bal p st Rt < quantum p) ->
  Forall (fun c => 0 < c) cs ->
  Forall (timely p) pre ->
  Forall (timely p) (pre ++ cumulate K (run_seq p st (Rt * fillInterval p) cs)).
Proof.
  intros p cs. induction cs as [|c cs IH]; intros st Rt K pre Hwf Hqc HRt HL Hcap Hled Hb Hsm Hcs Hpre.
  - cbn [run_seq cumulate]. now rewrite app_nil_r.
  - inversion Hcs as [|x l Hc Hcs']; subst x l.
    destruct Hwf as (Hc0 & Hq & HF). assert (Hwf : wf p) by (repeat split; assumption).
    cbn [run_seq].
    assert (Hnow : 0 <= Rt * fillInterval p) by nia.
    pose proof (take_facts p st (Rt * fillInterval p) c Hwf Hc Hnow) as (Est & Hw & Hr & HT & Hbal & Hwait & Himm).
    rewrite (Z.div_mul Rt (fillInterval p)) in * by lia.
    (* the adjusted amount is the balance: no truncation by the capacity *)
    assert (HAv : avail (adjust p st Rt) = bal p st Rt).
    { unfold adjust, bal in *. destruct (capacity p <=? avail st) eqn:E; cbn [avail]; [nia|].
      destruct (capacity p <? avail st + (Rt - ltick st) * quantum p) eqn:E2; lia. }
    destruct (take p st (Rt * fillInterval p) c) as [st' w] eqn:Et. cbn [fst snd] in *.
    cbn [cumulate]. rewrite app_cons_assoc.
    set (Av := avail (adjust p st Rt)) in *.
    assert (Ea : avail st' = Av - c) by (rewrite Est; reflexivity).
    assert (El : ltick st' = Rt) by (rewrite Est; reflexivity).
    destruct (Z.le_gt_cases 0 (Av - c)) as [Hi|Hwt].
    + (* served at once: time stands still *)
      destruct (Himm Hi) as [Hrel Hw0]. rewrite Hw0, Z.add_0_r.
      assert (Eb : bal p st' Rt = Av - c) by (unfold bal; rewrite Ea, El; lia).
      apply (IH st' Rt (K + c)); try assumption; try lia.
      apply Forall_app. split; [exact Hpre|]. constructor; [|constructor]. unfold timely. cbn [fst snd].
      split; [exact Hnow|].
      destruct Hsm as [->|Hs]; [left; lia|]. right.
      assert (Rt * quantum p < K + c - capacity p + quantum p) by lia.
      rewrite <- Z.mul_assoc, (Z.mul_comm (fillInterval p)), Z.mul_assoc.
      apply Z.mul_lt_mono_pos_r; assumption.
    + (* waits until tick R' *)
      destruct (Hwait Hwt) as [Hb' Heq]. rewrite Heq.
      set (R' := rel p st') in *.
      assert (Eb : bal p st' R' = Av - c + (R' - Rt) * quantum p) by (unfold bal; rewrite Ea, El; lia).
      rewrite Eb in Hbal, Hb'.
      apply (IH st' R' (K + c)); try assumption; try lia.
      apply Forall_app. split; [exact Hpre|]. constructor; [|constructor]. unfold timely. cbn [fst snd].
      split; [apply Z.mul_nonneg_nonneg; lia|].
      right.
      assert (R' * quantum p < K + c - capacity p + quantum p) by lia.
      rewrite <- Z.mul_assoc, (Z.mul_comm (fillInterval p)), Z.mul_assoc.
      apply Z.mul_lt_mono_pos_r; assumption.
Qed.

(* A backlogged sequential sender: the message that completes the first K bytes is released at time
   0 or before ((K - capacity)/quantum + 1) fill intervals have passed *)
Theorem not_starved : forall p cs, wf p -> quantum p <= capacity p -> Forall (fun c => 0 < c) cs ->
  Forall (fun rK => 0 <= fst rK /\
                    (fst rK = 0 \/ fst rK * quantum p < (snd rK - capacity p + quantum p) * fillInterval p))
         (cumulate 0 (run_seq p (binit p) 0 cs)).
Proof.
  intros p cs Hwf Hqc Hcs.
  pose proof (seq_inv p cs (binit p) 0 0 [] Hwf Hqc ltac:(lia)) as H.
  destruct Hwf as (Hc0 & Hq & HF).
  assert (Eb : bal p (binit p) 0 = capacity p) by (unfold bal, binit; cbn [avail ltick]; ring).
  rewrite Eb in H. cbn [binit ltick avail] in H.
  specialize (H ltac:(lia) ltac:(lia) ltac:(ring) ltac:(lia) (or_introl eq_refl) Hcs (Forall_nil _)).
  cbn [app] in H. rewrite Z.mul_0_l in H. exact H.
Qed.

(* in rate terms (capacity = rate, fill rate at least 0.99 rate): the message completing K bytes is released
   at time 0 or earlier than (K - rate + quantum) / (0.99 rate) seconds *)
Theorem not_starved_rate : forall rate p cs, wf p -> 0 < rate -> capacity p = rate -> quantum p <= rate ->
  within_1pct rate p -> Forall (fun c => 0 < c) cs ->
  Forall (fun rK => fst rK = 0 \/ 99 * rate * fst rK < 100 * 1000000000 * (snd rK - rate + quantum p))
         (cumulate 0 (run_seq p (binit p) 0 cs)).
Proof.
  intros rate p cs Hwf Hrate Hcap Hq1 H1 Hcs.
  pose proof (not_starved p cs Hwf ltac:(lia) Hcs) as H.
  destruct Hwf as (Hc0 & Hq & HF). unfold within_1pct in H1.
  eapply Forall_impl; [|exact H]. intros [r K] [Hr [H0|Hlt]]; cbn [fst snd] in *; [now left|].
  right. rewrite Hcap in Hlt.
  assert (HF99 : 99 * rate * fillInterval p <= 100 * 1000000000 * quantum p) by lia.
  set (X := K - rate + quantum p) in *. set (q := quantum p) in *. set (F := fillInterval p) in *.
  clearbody X q F.
  (* r*q < X*F, r >= 0, so X > 0 *)
  assert (HX : 0 < X).
  { destruct (Z.lt_ge_cases 0 X) as [G|G]; [exact G|]. exfalso.
    assert (0 <= r * q) by (apply Z.mul_nonneg_nonneg; lia).
    assert (X * F <= 0) by (apply Z.mul_nonpos_nonneg; lia). lia. }
  (* 99 rate r q < 99 rate X F <= 1e11 q X *)
  apply (mul_lt_cancel q); [exact Hq|].
  assert (A1 : q * (99 * rate * r) = 99 * rate * (r * q)) by ring.
  assert (A2 : 99 * rate * (r * q) < 99 * rate * (X * F)) by (apply Z.mul_lt_mono_pos_l; lia).
  assert (A3 : 99 * rate * (X * F) = X * (99 * rate * F)) by ring.
  assert (A4 : X * (99 * rate * F) <= X * (100 * 1000000000 * q)) by (apply Z.mul_le_mono_nonneg_l; lia).
  assert (A5 : X * (100 * 1000000000 * q) = q * (100 * 1000000000 * X)) by ring.
  lia.
Qed.

(* ------------------------------------------------------------ one valve for all sessions of a user *)
Lemma find_session_valve : forall l v sid w,
  Forall (fun sv => snd sv = v) l -> find_session sid l = Some w -> w = v.
Proof.
  induction l as [|[s x] l IH]; intros v sid w H Hf; cbn [find_session] in Hf; [discriminate|].
  inversion H; subst. destruct (Nat.eqb s sid); [now injection Hf as <- | eauto].
Qed.

(* whatever sequence of GetSession calls: every session of the user holds the user's valve *)
Lemma get_session_shared : forall sids u,
  Forall (fun sv => snd sv = u_valve u) (u_sessions u) ->
  let u' := fold_left (fun u sid => fst (get_session u sid)) sids u in
  u_valve u' = u_valve u /\ Forall (fun sv => snd sv = u_valve u) (u_sessions u') /\
  forall sid, snd (get_session u' sid) = u_valve u.
Proof.
  induction sids as [|sid sids IH]; intros u H; cbn [fold_left].
  - split; [reflexivity|]. split; [exact H|]. intro sid. unfold get_session.
    destruct (find_session sid (u_sessions u)) as [w|] eqn:E; cbn [snd]; [|reflexivity].
    eapply find_session_valve; eauto.
  - assert (H' : Forall (fun sv => snd sv = u_valve (fst (get_session u sid))) (u_sessions (fst (get_session u sid)))
                 /\ u_valve (fst (get_session u sid)) = u_valve u).
    { unfold get_session. destruct (find_session sid (u_sessions u)); cbn [fst u_sessions u_valve]; [now split|].
      split; [|reflexivity]. constructor; [reflexivity | exact H]. }
    destruct H' as [H1 H2]. specialize (IH _ H1). rewrite H2 in IH. exact IH.
Qed.

(* the sessions' requests are served by that one bucket: what all sessions together release in any
   interval is what the single bucket releases for the merged request sequence *)
Definition untag (x : nat * Z * Z) : Z * Z := let '(_, t, c) := x in (t, c).

Lemma run_tagged_untag : forall p reqs st, map untag (run_tagged p st reqs) = run p st (map untag reqs).
Proof.
  induction reqs as [|[[sid t] c] r IH]; intro st; cbn [run_tagged run map untag]; [reflexivity|].
  destruct (take p st t c) as [st' w]. cbn [map untag]. now rewrite IH.
Qed.

Theorem shared_bound : forall p (reqs : list (nat * Z * Z)) s e m, wf p -> 0 <= s <= e ->
  sorted_from 0 (map untag reqs) -> counts_in m (map untag reqs) ->
  released s e (map untag (run_tagged p (binit p) reqs))
  <= quantum p * (e / fillInterval p - s / fillInterval p + 1) + Z.max (capacity p) m.
Proof. intros. rewrite run_tagged_untag. now apply bound. Qed.

(* if instead every session had its own bucket (valve not shared), two sessions of one user release
   two full buckets at once: 2000 bytes at time 0 at rate 1000, above the bound 1 + 1000 *)
Lemma unshared_exceeds :
  released 0 0 (run p1000 (binit p1000) [(0, 1000)] ++ run p1000 (binit p1000) [(0, 1000)]) = 2000 /\
  quantum p1000 * (0 / fillInterval p1000 - 0 / fillInterval p1000 + 1) + Z.max (capacity p1000) 1000 = 1001.
Proof. split; vm_compute; reflexivity. Qed.

(* ------------------------------------------------------------ the quantum search *)
(* whatever the search returns satisfies the 1 % condition (so the rate corollary applies to every
   valve MakeValve builds) and is well-formed *)
Lemma search_ok : forall rate qs q F, 0 < rate -> Forall (fun q => 0 < q) qs ->
  search rate qs = Some (q, F) -> 0 < q /\ 0 < F /\ 100 * Z.abs (1000000000 * q - rate * F) <= rate * F.
Proof.
  induction qs as [|q0 qs IH]; intros q F Hr Hq H; cbn [search] in H; [discriminate|].
  inversion Hq; subst. destruct (rate_ok rate q0 (fill_for rate q0)) eqn:E.
  - injection H as <- <-. unfold rate_ok in E. apply andb_true_iff in E as [E1 E2]. lia.
  - eauto.
Qed.

Lemma next_quantum_pos : forall q, 0 < q -> 0 < next_quantum q.
Proof.
  intros q Hq. unfold next_quantum. destruct (q * 11 / 10 =? q) eqn:E; [lia|].
  pose proof (Z.div_pos (q * 11) 10 ltac:(lia) ltac:(lia)).
  assert (q <= q * 11 / 10) by (apply Z.div_le_lower_bound; lia). lia.
Qed.

Lemma quanta_pos : forall fuel q, 0 < q -> Forall (fun q => 0 < q) (quanta fuel q).
Proof. induction fuel; intros q Hq; cbn [quanta]; constructor; [exact Hq | apply IHfuel, next_quantum_pos, Hq]. Qed.

Theorem new_bucket_ok : forall rate cap p, 0 < rate -> 0 < cap ->
  new_bucket_with_rate rate cap = Some p -> wf p /\ capacity p = cap /\ within_1pct rate p.
Proof.
  intros rate cap p Hr Hc H. unfold new_bucket_with_rate in H.
  destruct (search rate (quanta 400 1)) as [[q F]|] eqn:E; [|discriminate]. injection H as <-.
  destruct (search_ok rate _ q F Hr (quanta_pos 400 1 ltac:(lia)) E) as (Hq & HF & H1).
  unfold wf, within_1pct. cbn [capacity quantum fillInterval]. repeat split; assumption.
Qed.

(* ------------------------------------------------------------ statements used by Properties/C19.v *)
Lemma bound_inhabited :
  new_bucket_with_rate 1000 1000 = Some p1000 /\ wf p1000 /\ within_1pct 1000 p1000 /\
  sorted_from 0 [(0, 600); (0, 600); (5, 1000)] /\ counts_in 1000 [(0, 600); (0, 600); (5, 1000)] /\
  run p1000 (binit p1000) [(0, 600); (0, 600); (5, 1000)] = [(0, 600); (200000000, 600); (1200000000, 1000)].
Proof.
  split; [exact search_1000|]. split; [unfold wf; cbn; lia|]. split; [unfold within_1pct; cbn; lia|].
  split; [cbn; lia|]. split; [repeat constructor; cbn; lia|]. vm_compute. reflexivity.
Qed.

Definition full_statement : Prop :=
  forall rate p reqs s e, wf p -> 0 < rate -> capacity p = rate -> within_1pct rate p ->
  0 <= s <= e -> sorted_from 0 reqs -> Forall (fun tc => 0 < snd tc) reqs ->
  100 * 1000000000 * released s e (run p (binit p) reqs)
  <= 101 * rate * (e - s) + 100 * 1000000000 * (rate + 2 * quantum p).

Lemma full_refuted : ~ full_statement.
Proof.
  intro H.
  specialize (H 1000 p1000 [(0, server_appDataMaxLength)] 15401000000 15401000000).
  rewrite (proj2 small_rate_burst) in H.
  assert (100 * 1000000000 * 16401 <= 101 * 1000 * (15401000000 - 15401000000) + 100 * 1000000000 * (1000 + 2 * quantum p1000)).
  { apply H; try lia.
    - unfold wf, p1000. cbn [capacity quantum fillInterval]. lia.
    - reflexivity.
    - unfold within_1pct, p1000. cbn [capacity quantum fillInterval]. lia.
    - cbn [sorted_from]. lia.
    - repeat constructor. }
  unfold p1000 in H0. cbn [quantum] in H0. lia.
Qed.

Lemma run_gaps_zero : forall p cs st t, run_gaps p st t (map (fun c => (0, c)) cs) = run_seq p st t cs.
Proof.
  induction cs as [|c cs IH]; intros st t; cbn [map run_gaps run_seq]; [reflexivity|].
  rewrite Z.add_0_r. destruct (take p st t c) as [st' w]. now rewrite IH.
Qed.

(* ------------------------------------------------------------ never released early *)
(* The ledger: K = everything requested so far.  What the bucket holds (negative: what the waiters still
   owe) plus K never exceeds the initial content plus the refill up to the tick the state was last
   adjusted to.  One request keeps the ledger, and its own release tick R satisfies K + c <= capacity +
   quantum * R WHATEVER the wait is: the wait is computed from the debt, with no upper limit. *)
Lemma ledger_step : forall p st now c K, wf p -> 0 < c -> 0 <= now ->
  avail st <= capacity p -> ltick st <= now / fillInterval p ->
  avail st + K <= capacity p + ltick st * quantum p ->
  let st' := fst (take p st now c) in
  let w := snd (take p st now c) in
  avail st' <= capacity p /\ ltick st' = now / fillInterval p /\
  avail st' + (K + c) <= capacity p + ltick st' * quantum p /\
  K + c <= capacity p + quantum p * ((now + w) / fillInterval p).
Proof.
  intros p st now c K Hwf Hc Hnow Hcap HL Hled st' w.
  pose proof (take_facts p st now c Hwf Hc Hnow) as (Est & _ & Hr & _ & Hbal & _).
  pose proof (adjust_uncapped p st (now / fillInterval p) Hwf Hcap HL) as Hun.
  pose proof (adjust_le_cap p st (now / fillInterval p) Hcap) as Hle.
  fold st' in Est, Hr, Hbal. fold w in Hr.
  rewrite Hr. unfold bal in Hbal. rewrite Est in Hbal |- *. cbn [avail ltick] in *.
  set (T := now / fillInterval p) in *. set (Av := avail (adjust p st T)) in *.
  set (R := rel p (mkB (Av - c) T)) in *. clearbody R Av T.
  repeat split; try lia; nia.
Qed.

Lemma never_early_gen : forall p reqs st lb K, wf p -> 0 <= lb ->
  avail st <= capacity p -> ltick st <= lb / fillInterval p ->
  avail st + K <= capacity p + ltick st * quantum p ->
  sorted_from lb reqs -> Forall (fun tc => 0 < snd tc) reqs ->
  Forall (fun rK => snd rK <= capacity p + quantum p * (fst rK / fillInterval p))
         (cumulate K (run p st reqs)).
Proof.
  intros p reqs. induction reqs as [|[t c] r IH]; intros st lb K Hwf Hlb Hcap HL Hled Hs Hpos; cbn [run cumulate]; [constructor|].
  destruct Hs as [Ht Hs]. inversion Hpos as [|x l Hc Hpos']; subst x l. cbn [snd] in Hc.
  assert (HL' : ltick st <= t / fillInterval p).
  { etransitivity; [exact HL|]. apply div_mono; [apply Hwf | exact Ht]. }
  pose proof (ledger_step p st t c K Hwf Hc ltac:(lia) Hcap HL' Hled) as (H1 & H2 & H3 & H4).
  destruct (take p st t c) as [st' w]. cbn [fst snd] in *. cbn [cumulate].
  constructor; [cbn [fst snd]; exact H4|].
  apply (IH st' t (K + c)); try assumption; lia.
Qed.

(* EVERY request sequence (non-decreasing request times, positive sizes - NO bound on the sizes, hence
   none on the waits): the request that completes the first K requested bytes is released in a tick R
   with K <= capacity + quantum * R. *)
Theorem never_early : forall p reqs, wf p -> sorted_from 0 reqs -> Forall (fun tc => 0 < snd tc) reqs ->
  Forall (fun rK => snd rK <= capacity p + quantum p * (fst rK / fillInterval p))
         (cumulate 0 (run p (binit p) reqs)).
Proof.
  intros p reqs Hwf Hs Hpos.
  apply (never_early_gen p reqs (binit p) 0 0); try assumption; cbn [binit avail ltick]; try lia.
  rewrite Z.div_0_l; [lia | destruct Hwf as (_ & _ & HF); lia].
Qed.

Lemma run_times_nonneg : forall p reqs st lb K, wf p -> 0 <= lb -> sorted_from lb reqs ->
  Forall (fun tc => 0 < snd tc) reqs ->
  Forall (fun rK => 0 <= fst rK) (cumulate K (run p st reqs)).
Proof.
  intros p reqs. induction reqs as [|[t c] r IH]; intros st lb K Hwf Hlb Hs Hpos; cbn [run cumulate]; [constructor|].
  destruct Hs as [Ht Hs]. inversion Hpos as [|x l Hc Hpos']; subst x l. cbn [snd] in Hc.
  pose proof (take_facts p st t c Hwf Hc ltac:(lia)) as (_ & Hw & _).
  destruct (take p st t c) as [st' w]. cbn [fst snd] in *. cbn [cumulate].
  constructor; [cbn [fst]; lia|]. apply (IH st' t); [exact Hwf | lia | exact Hs | exact Hpos'].
Qed.

(* in rate terms: ... released no earlier than (K - rate) / (1.01 rate) seconds after the bucket was made *)
Theorem never_early_rate : forall rate p reqs, wf p -> 0 < rate -> capacity p = rate -> within_1pct rate p ->
  sorted_from 0 reqs -> Forall (fun tc => 0 < snd tc) reqs ->
  Forall (fun rK => 0 <= fst rK /\ 100 * 1000000000 * (snd rK - rate) <= 101 * rate * fst rK)
         (cumulate 0 (run p (binit p) reqs)).
Proof.
  intros rate p reqs Hwf Hrate Hcap H1 Hs Hpos.
  pose proof (never_early p reqs Hwf Hs Hpos) as H.
  pose proof (run_times_nonneg p reqs (binit p) 0 0 Hwf ltac:(lia) Hs Hpos) as Hnn.
  destruct Hwf as (Hc0 & Hq & HF). unfold within_1pct in H1. rewrite Hcap in H.
  rewrite Forall_forall in *. intros [r K] Hin. specialize (H _ Hin). specialize (Hnn _ Hin). cbn [fst snd] in *.
  split; [exact Hnn|].
  set (F := fillInterval p) in *. set (q := quantum p) in *.
  assert (Hk0 : 0 <= r / F) by (apply Z.div_pos; lia).
  assert (HkF : F * (r / F) <= r) by (apply Z.mul_div_le; lia).
  assert (Hq1 : 100 * 1000000000 * q <= 101 * rate * F) by lia.
  set (k := r / F) in *. clearbody k F q.
  transitivity (100 * 1000000000 * (q * k)); [lia|].
  transitivity (101 * rate * F * k); [nia|]. nia.
Qed.

(* ------------------------------------------------------------ from the moment the bucket is made *)
Lemma positive_counts_in : forall reqs, Forall (fun tc : Z * Z => 0 < snd tc) reqs -> exists m, counts_in m reqs.
Proof.
  induction 1 as [|[t c] l Hc _ [m IH]]; [exists 0; constructor|]. cbn [snd] in Hc.
  exists (Z.max c m). constructor; [cbn [snd]; lia|].
  eapply Forall_impl; [|exact IH]. cbn beta. intros a Ha. lia.
Qed.

(* everything released up to time e, counted from the creation of the bucket, is covered by the initial
   content and the refill: NO term for the largest message here - for intervals that begin when the
   valve is made the property's literal bound holds, whatever the message sizes *)
Theorem from_start : forall p reqs e, wf p -> 0 <= e -> sorted_from 0 reqs -> Forall (fun tc => 0 < snd tc) reqs ->
  released 0 e (run p (binit p) reqs) <= capacity p + quantum p * (e / fillInterval p).
Proof.
  intros p reqs e Hwf He Hs Hpos.
  destruct (positive_counts_in reqs Hpos) as [m Hm].
  assert (HF : 0 < fillInterval p) by apply Hwf. assert (Hq : 0 < quantum p) by apply Hwf.
  assert (Hc0 : 0 < capacity p) by apply Hwf.
  assert (Hb0 : 0 <= e / fillInterval p) by (apply Z.div_pos; lia).
  rewrite released_sum_if.
  transitivity (sum_if (fun r => r / fillInterval p <=? e / fillInterval p) (run p (binit p) reqs)).
  { apply sum_if_mono. pose proof (run_counts p reqs (binit p) m Hm) as Hc.
    rewrite Forall_forall in *. intros rc Hin. specialize (Hc rc Hin). split; [lia|].
    intro H. apply andb_true_iff in H as [H1 H2].
    pose proof (div_mono (fst rc) e _ HF ltac:(lia)). lia. }
  destruct reqs as [|[t1 c1] rest]; [cbn [run sum_if]; nia|].
  pose proof (acc p ((t1, c1) :: rest) (binit p) 0 (e / fillInterval p) m Hwf ltac:(lia)) as Hacc.
  cbn [binit avail ltick] in Hacc. rewrite Z.div_0_l in Hacc by lia.
  specialize (Hacc ltac:(lia) ltac:(lia) Hs Hm). cbv beta iota in Hacc.
  destruct Hs as [Ht Hs]. inversion Hm as [|x l Hcp Hm']; subst x l. cbn [snd] in Hcp.
  destruct (Z.le_gt_cases (rel p (fst (take p (binit p) t1 c1))) (e / fillInterval p)) as [Hin|Hout].
  - specialize (Hacc Hin).
    pose proof (adjust_le_cap p (binit p) (t1 / fillInterval p)) as HA. cbn [binit avail] in HA. specialize (HA ltac:(lia)).
    assert (HT : 0 <= t1 / fillInterval p) by (apply Z.div_pos; lia).
    fold (binit p) in HA. cbn [binit] in Hacc |- *.
    set (X := sum_if _ _) in *. set (A := avail _) in *. clearbody X A. nia.
  - pose proof (take_facts p (binit p) t1 c1 Hwf ltac:(lia) ltac:(lia)) as (Est & _ & Hr & _).
    pose proof (run_ge p rest (fst (take p (binit p) t1 c1)) t1 Hwf ltac:(lia)) as Hge.
    cbn [run]. destruct (take p (binit p) t1 c1) as [st1 w1]. cbn [fst snd] in *.
    assert (Hcap1 : avail st1 <= capacity p).
    { rewrite Est. cbn [avail]. pose proof (adjust_le_cap p (binit p) (t1 / fillInterval p)) as HA.
      cbn [binit avail] in HA. specialize (HA ltac:(lia)). cbn [binit]. lia. }
    specialize (Hge Hcap1 ltac:(rewrite Est; cbn [ltick]; lia) Hs (or_intror (ex_intro _ m Hm'))).
    rewrite sum_if_none; [nia|]. constructor; [cbn [fst]; lia|].
    eapply Forall_impl; [|exact Hge]. intros rc Hrc. cbn beta in *. lia.
Qed.

Theorem from_start_rate : forall rate p reqs e, wf p -> 0 < rate -> capacity p = rate -> within_1pct rate p ->
  0 <= e -> sorted_from 0 reqs -> Forall (fun tc => 0 < snd tc) reqs ->
  100 * 1000000000 * released 0 e (run p (binit p) reqs) <= 101 * rate * e + 100 * 1000000000 * rate.
Proof.
  intros rate p reqs e Hwf Hrate Hcap H1 He Hs Hpos.
  pose proof (from_start p reqs e Hwf He Hs Hpos) as B. rewrite Hcap in B.
  destruct Hwf as (Hc & Hq & HF). unfold within_1pct in H1.
  set (F := fillInterval p) in *. set (q := quantum p) in *.
  assert (Hk0 : 0 <= e / F) by (apply Z.div_pos; lia).
  assert (HkF : F * (e / F) <= e) by (apply Z.mul_div_le; lia).
  assert (Hq1 : 100 * 1000000000 * q <= 101 * rate * F) by lia.
  set (k := e / F) in *. set (X := released _ _ _) in *. clearbody k F q X.
  assert (100 * 1000000000 * (q * k) <= 101 * rate * e).
  { transitivity (101 * rate * F * k); [nia|]. nia. }
  lia.
Qed.

(* ------------------------------------------------------------ back-to-back requests: the wait grows without limit *)
Lemma cumulate_run_repeat : forall p n k st K i r K',
  nth_error (cumulate K (run p st (repeat (0, n) k))) i = Some (r, K') -> K' = K + (Z.of_nat i + 1) * n.
Proof.
  intros p n k. induction k as [|k IH]; intros st K i r K' H; cbn [repeat run cumulate] in H.
  - destruct i; discriminate.
  - destruct (take p st 0 n) as [st' w]. cbn [cumulate] in H. destruct i as [|i]; cbn [nth_error] in H.
    + injection H as _ <-. lia.
    + apply IH in H. lia.
Qed.

Lemma cumulate_run_repeat_ex : forall p n k st K,
  exists r, nth_error (cumulate K (run p st (repeat (0, n) (S k)))) k = Some (r, K + (Z.of_nat k + 1) * n).
Proof.
  intros p n k. induction k as [|k IH]; intros st K.
  - cbn [repeat run]. destruct (take p st 0 n) as [st' w]. cbn [cumulate nth_error]. eexists. f_equal. f_equal. lia.
  - change (repeat (0, n) (S (S k))) with ((0, n) :: repeat (0, n) (S k)). cbn [run].
    destruct (take p st 0 n) as [st' w]. cbn [cumulate nth_error].
    destruct (IH st' (K + n)) as [r Hr]. exists r. rewrite Hr. f_equal. f_equal. lia.
Qed.

Lemma sorted_repeat0 : forall n k, sorted_from 0 (repeat (0, n) k).
Proof. induction k; cbn [repeat sorted_from]; [exact I | split; [lia | exact IHk]]. Qed.

Lemma positive_repeat : forall n k, 0 < n -> Forall (fun tc : Z * Z => 0 < snd tc) (repeat (0, n) k).
Proof. induction k; intros; cbn [repeat]; constructor; auto. Qed.

(* k requests of n bytes each, all issued at time 0 (k blocked senders, or one sender's backlog): the
   i-th (counting from 0) has K = (i+1)*n bytes requested up to and including itself and is released at
   a time r with (K - capacity) * fillInterval <= quantum * r, i.e. no earlier than (K - capacity)
   divided by the fill rate quantum/fillInterval - for EVERY i, k and n: the wait has no upper limit *)
Theorem backlog_wait : forall p n k i r K, wf p -> 0 < n ->
  nth_error (cumulate 0 (run p (binit p) (repeat (0, n) k))) i = Some (r, K) ->
  K = (Z.of_nat i + 1) * n /\ 0 <= r /\ (K - capacity p) * fillInterval p <= quantum p * r.
Proof.
  intros p n k i r K Hwf Hn H.
  split; [apply cumulate_run_repeat in H; lia|].
  pose proof (never_early p _ Hwf (sorted_repeat0 n k) (positive_repeat n k Hn)) as NE.
  pose proof (run_times_nonneg p _ (binit p) 0 0 Hwf ltac:(lia) (sorted_repeat0 n k) (positive_repeat n k Hn)) as NN.
  rewrite Forall_forall in NE, NN. apply nth_error_In in H. specialize (NE _ H). specialize (NN _ H). cbn [fst snd] in *.
  split; [exact NN|].
  destruct Hwf as (Hc & Hq & HF).
  assert (HkF : fillInterval p * (r / fillInterval p) <= r) by (apply Z.mul_div_le; lia).
  assert (Hk0 : 0 <= r / fillInterval p) by (apply Z.div_pos; lia).
  set (F := fillInterval p) in *. set (q := quantum p) in *. set (k' := r / F) in *. clearbody k' F q. nia.
Qed.

(* whatever W: some request of a long enough backlog waits longer than W (and it exists) *)
Theorem wait_unbounded : forall p n W, wf p -> 0 < n ->
  exists k r K, nth_error (cumulate 0 (run p (binit p) (repeat (0, n) (S k)))) k = Some (r, K) /\ W < r.
Proof.
  intros p n W Hwf Hn.
  set (F := fillInterval p). set (q := quantum p).
  set (k := Z.to_nat (capacity p + q * (Z.max 0 (W / F) + 1))).
  destruct (cumulate_run_repeat_ex p n k (binit p) 0) as [r Hr].
  exists k, r, (0 + (Z.of_nat k + 1) * n). split; [exact Hr|].
  pose proof (never_early p _ Hwf (sorted_repeat0 n (S k)) (positive_repeat n (S k) Hn)) as NE.
  rewrite Forall_forall in NE. specialize (NE _ (nth_error_In _ _ Hr)). cbn [fst snd] in NE.
  destruct Hwf as (Hc & Hq & HF). fold F in NE, HF. fold q in NE, Hq.
  assert (Hk : Z.of_nat k = capacity p + q * (Z.max 0 (W / F) + 1)).
  { subst k. rewrite Z2Nat.id; [reflexivity|]. nia. }
  assert (Hm : W < F * (W / F) + F).
  { pose proof (Z.div_mod W F ltac:(lia)). pose proof (Z.mod_pos_bound W F HF). lia. }
  assert (HrF : F * (r / F) <= r).
  { destruct (Z.le_gt_cases 0 r); [apply Z.mul_div_le; lia|].
    exfalso. assert (r / F < 0) by (apply Z.div_lt_upper_bound; lia). nia. }
  set (d := r / F) in *. set (v := W / F) in *. clearbody d v k F q.
  assert (q * (Z.max 0 v + 1) < q * d) by nia.
  assert (Z.max 0 v + 1 < d) by nia. nia.
Qed.

(* ------------------------------------------------------------ the capped wait is NOT the valve *)
Definition p500 : params := mkParams 500 1 2000000.

Lemma search_500 : new_bucket_with_rate 500 500 = Some p500.
Proof. vm_compute. reflexivity. Qed.

(* two 16030-byte messages (a 16000-byte write as a frame) at 500 B/s.  Wait: released after 31.06 s and
   63.12 s.  WaitMaxDuration(.., 30 s) with the result ignored (seeded change C19_r2m2): both refused,
   no token taken, both released at time 0: 32060 bytes in an interval of length 0, where even the
   bound with the largest message allows 16031 and the bucket never held more than 500 *)
Lemma capped_wait_exceeds :
  run p500 (binit p500) [(0, 16030); (0, 16030)] = [(31060000000, 16030); (63120000000, 16030)] /\
  run_capped p500 (binit p500) 30000000000 [(0, 16030); (0, 16030)] = [(0, 16030); (0, 16030)] /\
  released 0 0 (run_capped p500 (binit p500) 30000000000 [(0, 16030); (0, 16030)]) = 32060 /\
  quantum p500 * (0 / fillInterval p500 - 0 / fillInterval p500 + 1) + Z.max (capacity p500) 16030 = 16031 /\
  capacity p500 + quantum p500 * (0 / fillInterval p500) = 500.
Proof. repeat split; vm_compute; reflexivity. Qed.

(* non-vacuity of never_early / backlog_wait: waits of 15 s, 31 s, and of one hour *)
Lemma never_early_inhabited :
  cumulate 0 (run p1000 (binit p1000) [(0, 16401); (0, 16401)]) = [(15401000000, 16401); (31802000000, 32802)] /\
  cumulate 0 (run p1000 (binit p1000) [(0, 3601000)]) = [(3600000000000, 3601000)] /\
  nth_error (cumulate 0 (run p1000 (binit p1000) (repeat (0, 8000) 6))) 5 = Some (47000000000, 48000).
Proof. repeat split; vm_compute; reflexivity. Qed.
