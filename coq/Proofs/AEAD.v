(* Lemmas about the byte helpers, counter-mode xor and the generic encrypt-then-MAC AEAD.
   The round trip open (seal p) = Some p is proved once, for every key stream that is long
   enough and every MAC of fixed length - no cryptographic assumption is involved. *)
From Coq Require Import NArith List Bool Lia Arith PeanoNat ZArith ZifyN ZifyNat ZifyBool.
From Cloak Require Import Model.Crypto.CBytes Model.AEAD.
Import ListNotations.
Ltac Zify.zify_post_hook ::= Z.div_mod_to_equations.

Lemma lxor_cancel : forall x y : N, N.lxor (N.lxor x y) y = x.
Proof. intros x y. now rewrite N.lxor_assoc, N.lxor_nilpotent, N.lxor_0_r. Qed.

Lemma xorl_length : forall a b, length (xorl a b) = Nat.min (length a) (length b).
Proof.
  induction a as [|x a IH]; intros [|y b]; cbn [xorl length Nat.min]; try reflexivity.
  now rewrite IH.
Qed.

Lemma xorl_length_le : forall a b, length a <= length b -> length (xorl a b) = length a.
Proof. intros a b H. rewrite xorl_length. lia. Qed.

Lemma xorl_involutive : forall a b, length a <= length b -> xorl (xorl a b) b = a.
Proof.
  induction a as [|x a IH]; intros [|y b] H; cbn [xorl length] in *; try reflexivity; try lia.
  rewrite lxor_cancel, IH by lia. reflexivity.
Qed.

Lemma xorl_app : forall a1 a2 b1 b2, length a1 = length b1 ->
  xorl (a1 ++ a2) (b1 ++ b2) = xorl a1 b1 ++ xorl a2 b2.
Proof.
  induction a1 as [|x a1 IH]; intros a2 [|y b1] b2 H; cbn [length] in H; try discriminate.
  - reflexivity.
  - cbn [app xorl]. rewrite IH by lia. reflexivity.
Qed.

Lemma bytes_eqb_refl : forall a, bytes_eqb a a = true.
Proof. induction a as [|x a IH]; cbn [bytes_eqb]; [reflexivity|]. now rewrite N.eqb_refl, IH. Qed.

Lemma bytes_eqb_eq : forall a b, bytes_eqb a b = true -> a = b.
Proof.
  induction a as [|x a IH]; intros [|y b] H; cbn [bytes_eqb] in H; try discriminate; try reflexivity.
  apply andb_prop in H. destruct H as [H1 H2]. apply N.eqb_eq in H1. subst y. f_equal. now apply IH.
Qed.

Lemma le_bytes_length : forall n x, length (le_bytes n x) = n.
Proof. induction n as [|n IH]; intros x; cbn [le_bytes length]; [reflexivity|]. now rewrite IH. Qed.

Lemma be_bytes_length : forall n x, length (be_bytes n x) = n.
Proof. intros. unfold be_bytes. now rewrite rev_length, le_bytes_length. Qed.

Lemma zeros_length : forall n, length (zeros n) = n.
Proof. intros. apply repeat_length. Qed.

Lemma force_length : forall n l, length (firstn n (l ++ zeros n)) = n.
Proof. intros. rewrite firstn_length, app_length, zeros_length. lia. Qed.

Lemma stream_blocks_length : forall blk B, (forall c, length (blk c) = B) ->
  forall n c, length (stream_blocks blk c n) = n * B.
Proof.
  intros blk B HB. induction n as [|n IH]; intros c; cbn [stream_blocks length]; [reflexivity|].
  rewrite app_length, HB, IH. lia.
Qed.

Lemma blocks_for_covers : forall B len, 0 < B -> len <= blocks_for B len * B.
Proof. intros B len HB. unfold blocks_for. nia. Qed.

Section CtrXor.
  Variable blk : N -> list N.
  Variable B : nat.
  Hypothesis blk_len : forall c, length (blk c) = B.
  Hypothesis B_pos : 0 < B.

  Lemma ctr_stream_covers : forall c len, len <= length (stream_blocks blk c (blocks_for B len)).
  Proof. intros. rewrite (stream_blocks_length blk B blk_len). now apply blocks_for_covers. Qed.

  Lemma ctr_xor_length : forall c d, length (ctr_xor blk B c d) = length d.
  Proof. intros. unfold ctr_xor. apply xorl_length_le. apply ctr_stream_covers. Qed.

  (* xor with the same key stream twice is the identity *)
  Lemma ctr_xor_involutive : forall c d, ctr_xor blk B c (ctr_xor blk B c d) = d.
  Proof.
    intros. unfold ctr_xor at 1. rewrite ctr_xor_length. unfold ctr_xor.
    apply xorl_involutive. apply ctr_stream_covers.
  Qed.
End CtrXor.

(* ---- the generic AEAD -------------------------------------------------------------- *)
Section AEADProofs.
  Variable stream : list N -> list N -> nat -> list N.
  Variable mac : list N -> list N -> list N -> list N -> list N.
  Variable tag_len : nat.
  Hypothesis stream_covers : forall k n len, len <= length (stream k n len).
  Hypothesis mac_len : forall k n a c, length (mac k n a c) = tag_len.

  Lemma aead_enc_length : forall k n p, length (aead_enc stream k n p) = length p.
  Proof. intros. unfold aead_enc. apply xorl_length_le, stream_covers. Qed.

  Lemma aead_enc_involutive : forall k n p, aead_enc stream k n (aead_enc stream k n p) = p.
  Proof.
    intros. unfold aead_enc at 1. rewrite aead_enc_length. unfold aead_enc.
    apply xorl_involutive, stream_covers.
  Qed.

  Lemma aead_seal_length : forall k n p a,
    length (aead_seal stream mac k n p a) = length p + tag_len.
  Proof. intros. unfold aead_seal. now rewrite app_length, aead_enc_length, mac_len. Qed.

  (* the tag is the MAC of the ciphertext part *)
  Lemma aead_seal_split : forall k n p a,
    aead_seal stream mac k n p a = aead_enc stream k n p ++ mac k n a (aead_enc stream k n p).
  Proof. reflexivity. Qed.

  Theorem aead_open_seal : forall k n p a,
    aead_open stream mac tag_len k n (aead_seal stream mac k n p a) a = Some p.
  Proof.
    intros k n p a. unfold aead_open. rewrite aead_seal_length.
    destruct (Nat.ltb_spec (length p + tag_len) tag_len) as [Hlt|Hge]; [lia|].
    replace (length p + tag_len - tag_len) with (length (aead_enc stream k n p))
      by (rewrite aead_enc_length; lia).
    unfold aead_seal. rewrite firstn_app, Nat.sub_diag, firstn_all, firstn_O, app_nil_r.
    rewrite skipn_app, Nat.sub_diag, skipn_all. cbn [skipn app].
    rewrite bytes_eqb_refl. now rewrite aead_enc_involutive.
  Qed.

  (* whatever opens was decrypted from the ciphertext part, and is overhead shorter *)
  Lemma aead_open_length : forall k n c a p,
    aead_open stream mac tag_len k n c a = Some p -> length p + tag_len = length c.
  Proof.
    intros k n c a p. unfold aead_open.
    destruct (Nat.ltb_spec (length c) tag_len) as [Hlt|Hge]; [discriminate|].
    destruct (bytes_eqb _ _); [|discriminate].
    intros H. injection H as <-. rewrite aead_enc_length, firstn_length. lia.
  Qed.
End AEADProofs.
