(* C12: "all of the session's connections end up closed".  At every quiescent moment a closed
   session has a broken switchboard (closeAll has run), whoever closed it and whether or not the
   closing notice could be sent; with the WF invariant, its end of every pooled connection is closed. *)
From Coq Require Import NArith ZArith List Bool Lia.
From Coq Require Import ZifyN ZifyBool.
From Cloak Require Import Model.Reorder Model.Mux Proofs.MuxBase Proofs.MuxSafety.
Import ListNotations.
Local Open Scope N_scope.

Definition CB1 (se : session) : Prop := se_closed se = true -> se_broken se = true.
Definition CBs (y : sys) : Prop := forall x, CB1 (sess y x).

Lemma side_cases x s : x = s \/ x = other s. Proof. destruct x, s; auto. Qed.
Lemma CBs_set_sess y s se : CBs y -> CB1 se -> CBs (set_sess y s se).
Proof. intros H Hse x. rewrite sess_set. destruct (side_eqb s x); auto. Qed.
Lemma CBs_local y y' s : CBs y -> CB1 (sess y' s) -> sess y' (other s) = sess y (other s) -> CBs y'.
Proof. intros H Hs Ho x. destruct (side_cases x s) as [->| ->]; [exact Hs|rewrite Ho; apply H]. Qed.
Lemma CBs_set_conns y cs : CBs y -> CBs (set_conns y cs).
Proof. intros H x. rewrite sess_set_conns. apply H. Qed.
Lemma CBs_set_pend y p : CBs y -> CBs (set_pend y p).
Proof. intros H x. rewrite sess_set_pend. apply H. Qed.
Lemma CBs_set_now y t : CBs y -> CBs (set_now y t).
Proof. intros H x. rewrite sess_set_now. apply H. Qed.

Lemma close_all_broken y s y' evs : close_all y s = (y', evs) -> se_broken (sess y' s) = true.
Proof.
  unfold close_all. intros H. destruct (se_broken (sess y s)) eqn:E; [injection H as <- <-; exact E|].
  destruct (close_ends _ _ _) as [cs e]. injection H as <- <-. now rewrite sess_set_conns, sess_set_same.
Qed.
Lemma close_all_CBs y s y' evs : close_all y s = (y', evs) -> CBs y -> CBs y'.
Proof.
  intros H Hc. eapply CBs_local; [exact Hc| |eapply close_all_other; eauto].
  intros _. eapply close_all_broken; eauto.
Qed.
Lemma passive_close_CBs y s y' evs : passive_close y s = (y', evs) -> CBs y -> CBs y'.
Proof.
  unfold passive_close. intros H Hc. destruct (close_session_core (sess y s)) as [se ok].
  destruct ok; [|injection H as <- <-; exact Hc].
  eapply CBs_local; [exact Hc| |].
  - intros _. eapply close_all_broken; eauto.
  - apply close_all_other in H. now rewrite H, sess_set_other.
Qed.
Lemma deplex_error_CBs y s c y' evs : deplex_error y s c = (y', evs) -> CBs y -> CBs y'.
Proof.
  unfold deplex_error. intros H Hc. destruct (passive_close y s) as [y1 e1] eqn:Epc.
  pose proof (passive_close_CBs _ _ _ _ Epc Hc) as Hc1.
  destruct (nthN _ _) as [cn|]; [|injection H as <- <-; exact Hc1].
  destruct (conn_closed_end cn s); injection H as <- <-; [exact Hc1|now apply CBs_set_conns].
Qed.
Lemma sb_send_CBs y s fr p y' evs rc : sb_send y s fr p = (y', evs, rc) -> CBs y -> CBs y'.
Proof.
  unfold sb_send. intros H Hc.
  destruct (se_broken (sess y s)); [injection H as <- <- <-; exact Hc|].
  destruct (se_pool (sess y s)); [injection H as <- <- <-; exact Hc|].
  destruct (nthN _ _) as [cn|]; [|injection H as <- <- <-; exact Hc].
  destruct (_ || _).
  - destruct (passive_close y s) as [y1 e1] eqn:Epc. injection H as <- <- <-. eapply passive_close_CBs; eauto.
  - injection H as <- <- <-. now apply CBs_set_conns.
Qed.
Lemma session_close_CBs y s ch y' ch' evs rc : session_close y s ch = (y', ch', evs, rc) -> CBs y -> CBs y'.
Proof.
  unfold session_close. intros H Hc. destruct (close_session_core (sess y s)) as [se ok] eqn:Ecs.
  destruct ok; cbn [negb] in H; [|injection H as <- <- <- <-; exact Hc].
  destruct (hd_pick ch) as [c ch0].
  destruct (sb_send (set_sess y s se) s _ c) as [[y2 e2] rc2] eqn:Es.
  pose proof (sb_send_other _ _ _ _ _ _ _ Es) as Ho2. rewrite sess_set_other in Ho2.
  destruct (close_all y2 s) as [y3 e3] eqn:Eca.
  assert (Hc3 : CBs y3).
  { eapply CBs_local; [exact Hc| |].
    - intros _. eapply close_all_broken; eauto.
    - apply close_all_other in Eca. congruence. }
  destruct (rc2 =? 0); [|destruct (rc2 =? 1)]; injection H as <- <- <- <-; exact Hc3.
Qed.

(* a session whose flags did not change *)
Lemma CB1_flags se se' : se_closed se' = se_closed se -> se_broken se' = se_broken se -> CB1 se -> CB1 se'.
Proof. unfold CB1. intros -> ->. auto. Qed.

Lemma stream_emit_CBs y s sid pay ch y' ch' evs ok : stream_emit y s sid pay ch = (y', ch', evs, ok) -> CBs y -> CBs y'.
Proof.
  unfold stream_emit. intros H Hc.
  destruct (lookup sid (se_objs (sess y s))) as [st|]; [|injection H as <- <- <- <-; exact Hc].
  cbv zeta in H. destruct (hd_pick ch) as [c ch0].
  set (y1 := set_sess y s _) in H.
  assert (Hc1 : CBs y1) by (unfold y1; apply CBs_set_sess; [exact Hc|exact (Hc s)]).
  destruct (sb_send y1 s _ c) as [[y2 e2] rc] eqn:Es.
  pose proof (sb_send_CBs _ _ _ _ _ _ _ Es Hc1) as Hc2.
  destruct (rc =? 0); [injection H as <- <- <- <-; exact Hc2|].
  destruct (rc =? 1); [|injection H as <- <- <- <-; exact Hc2].
  destruct (passive_close y2 s) as [y3 e3] eqn:Epc. injection H as <- <- <- <-. eapply passive_close_CBs; eauto.
Qed.
Lemma write_loop_CBs fuel : forall y s sid data n ch y' ch' evs n' rc,
  write_loop fuel y s sid data n ch = (y', ch', evs, n', rc) -> CBs y -> CBs y'.
Proof.
  induction fuel as [|fuel IH]; intros y s sid data n ch y' ch' evs n' rc H Hc; cbn in H.
  - injection H as <- <- <- <- <-. exact Hc.
  - destruct data as [|b data']; [injection H as <- <- <- <- <-; exact Hc|].
    destruct (stream_emit y s sid _ ch) as [[[y1 ch1] evs1] ok] eqn:Ee.
    pose proof (stream_emit_CBs _ _ _ _ _ _ _ _ _ Ee Hc) as Hc1.
    destruct ok.
    + destruct (write_loop fuel y1 s sid _ _ ch1) as [[[[y2 ch2] evs2] n2] rc2] eqn:Ew. injection H as <- <- <- <- <-.
      eapply IH; eauto.
    + injection H as <- <- <- <- <-. exact Hc1.
Qed.
Lemma stream_write_CBs y s sid data ch y' evs : stream_write y s sid data ch = (y', evs) -> CBs y -> CBs y'.
Proof.
  unfold stream_write. intros H Hc. destruct (lookup _ _) as [st|]; [|injection H as <- <-; exact Hc].
  destruct (st_closed st); [injection H as <- <-; exact Hc|].
  destruct (write_loop _ y s sid data 0 ch) as [[[[y1 ch1] evs1] n] rc] eqn:Ew. injection H as <- <-.
  eapply write_loop_CBs; eauto.
Qed.
Lemma close_stream_CBs y s sid active ch y' ch' evs rc :
  close_stream y s sid active ch = (y', ch', evs, rc) -> CBs y -> CBs y'.
Proof.
  unfold close_stream. intros H Hc.
  destruct (lookup sid (se_objs (sess y s))) as [st|]; [|injection H as <- <- <- <-; exact Hc].
  destruct (st_closed st); [injection H as <- <- <- <-; exact Hc|].
  cbv zeta in H. set (y1 := set_sess y s _) in H.
  assert (Hc1 : CBs y1) by (unfold y1; apply CBs_set_sess; [exact Hc|exact (Hc s)]).
  destruct (if active then stream_emit y1 s sid [] ch else (y1, ch, [], true)) as [[[y2 ch2] evs2] ok] eqn:Ee.
  assert (Hc2 : CBs y2).
  { destruct active; [eapply stream_emit_CBs; eauto|injection Ee as <- <- <- <-; exact Hc1]. }
  destruct ok; cbn [negb] in H; [|injection H as <- <- <- <-; exact Hc2].
  set (se' := upd_count _ _) in H.
  assert (Hc3 : CBs (set_sess y2 s se')) by (apply CBs_set_sess; [exact Hc2|exact (Hc2 s)]).
  destruct (_ =? 0).
  - destruct (se_singleplex se').
    + destruct (session_close _ s ch2) as [[[y4 ch4] evs4] rc4] eqn:Esc. injection H as <- <- <- <-.
      eapply session_close_CBs; eauto.
    + injection H as <- <- <- <-. apply CBs_set_sess; [exact Hc3|exact (Hc2 s)].
  - injection H as <- <- <- <-. exact Hc3.
Qed.
Lemma recv_frame_CBs y s fr ch y' ch' evs : recv_frame y s fr ch = (y', ch', evs) -> CBs y -> CBs y'.
Proof.
  unfold recv_frame. intros H Hc.
  destruct (w_cl fr =? 2).
  { destruct (passive_close y s) as [y1 e1] eqn:Epc. injection H as <- <- <-. eapply passive_close_CBs; eauto. }
  destruct (se_closed (sess y s)); [injection H as <- <- <-; exact Hc|].
  assert (Hdel : forall y0, CBs y0 ->
     forall r, match lookup (w_sid fr) (se_objs (sess y0 s)) with
               | None => (y0, ch, [])
               | Some st =>
                   let '(rb', tbc, _) := rb_write (st_rb st) (mkF (w_seq fr) (negb (w_cl fr =? 0)) (w_pay fr)) in
                   let y1 := set_sess y0 s (upd_objs (sess y0 s) (update (w_sid fr) (st_set_rb st rb') (se_objs (sess y0 s)))) in
                   if tbc then let '(y2, ch2, evs2, _) := close_stream y1 s (w_sid fr) false ch in (y2, ch2, evs2)
                   else (y1, ch, [])
               end = r -> CBs (fst (fst r))).
  { intros y0 Hc0 r Hr.
    destruct (lookup (w_sid fr) (se_objs (sess y0 s))) as [st|]; [|subst r; exact Hc0].
    destruct (rb_write (st_rb st) _) as [[rb' tbc] er]. cbv zeta in Hr.
    assert (Hc1 : CBs (set_sess y0 s (upd_objs (sess y0 s) (update (w_sid fr) (st_set_rb st rb') (se_objs (sess y0 s))))))
      by (apply CBs_set_sess; [exact Hc0|exact (Hc0 s)]).
    destruct tbc.
    - destruct (close_stream _ s (w_sid fr) false ch) as [[[y2 ch2] evs2] rc] eqn:Ecs. subst r. cbn.
      eapply close_stream_CBs; eauto.
    - subst r. exact Hc1. }
  destruct (lookup (w_sid fr) (se_tab (sess y s))) as [[|]|].
  - exact (Hdel y Hc _ H).
  - injection H as <- <- <-. exact Hc.
  - refine (Hdel _ _ _ H). apply CBs_set_sess; [exact Hc|exact (Hc s)].
Qed.
Lemma open_stream_CBs y s y' evs : open_stream y s = (y', evs) -> CBs y -> CBs y'.
Proof.
  unfold open_stream. intros H Hc.
  destruct (se_closed (sess y s)); [injection H as <- <-; exact Hc|].
  destruct (_ && _); injection H as <- <-; (apply CBs_set_sess; [exact Hc|exact (Hc s)]).
Qed.
Lemma try_read_CBs y s sid k y' rc d : try_read y s sid k = Some (y', rc, d) -> CBs y -> CBs y'.
Proof.
  unfold try_read. intros H Hc. destruct (lookup sid (se_objs (sess y s))) as [st|]; [|injection H as <- _ _; exact Hc].
  destruct k as [|k]; [injection H as <- _ _; exact Hc|].
  destruct (rb_read (st_rb st) (S k)) as [rb' [dd| |]]; try discriminate; injection H as <- _ _; [|exact Hc].
  apply CBs_set_sess; [exact Hc|exact (Hc s)].
Qed.
Lemma try_accept_CBs y s y' rc id : try_accept y s = Some (y', rc, id) -> CBs y -> CBs y'.
Proof.
  unfold try_accept. intros H Hc. destruct (se_acceptq (sess y s)) as [|i q].
  - destruct (se_closed (sess y s)); [injection H as <- _ _; exact Hc|discriminate].
  - injection H as <- _ _. apply CBs_set_sess; [exact Hc|exact (Hc s)].
Qed.
Lemma resolve_CBs ps : forall y y' ps' evs, resolve ps y = (y', ps', evs) -> CBs y -> CBs y'.
Proof.
  induction ps as [|p t IH]; intros y y' ps' evs H Hc; cbn in H; [injection H as <- _ _; exact Hc|].
  destruct p as [x sid n|x].
  - destruct (try_read y x sid n) as [[[y1 rc] d]|] eqn:Et.
    + destruct (resolve t y1) as [[y2 ps2] evs2] eqn:Er. injection H as <- _ _. eapply IH; [exact Er|]. eapply try_read_CBs; eauto.
    + destruct (resolve t y) as [[y2 ps2] evs2] eqn:Er. injection H as <- _ _. eapply IH; eauto.
  - destruct (try_accept y x) as [[[y1 rc] id]|] eqn:Et.
    + destruct (resolve t y1) as [[y2 ps2] evs2] eqn:Er. injection H as <- _ _. eapply IH; [exact Er|]. eapply try_accept_CBs; eauto.
    + destruct (resolve t y) as [[y2 ps2] evs2] eqn:Er. injection H as <- _ _. eapply IH; eauto.
Qed.
Lemma fire_timers_CBs fuel : forall y s ch y' ch' evs, fire_timers fuel y s ch = (y', ch', evs) -> CBs y -> CBs y'.
Proof.
  induction fuel as [|fuel IH]; intros y s ch y' ch' evs H Hc; cbn in H.
  - injection H as <- <- <-. exact Hc.
  - destruct (se_timers (sess y s)) as [|t rest]; [injection H as <- <- <-; exact Hc|].
    destruct (t <=? sy_now y)%Z; [|injection H as <- <- <-; exact Hc].
    assert (Hc1 : CBs (set_sess y s (upd_timers (sess y s) rest))) by (apply CBs_set_sess; [exact Hc|exact (Hc s)]).
    destruct (_ && _).
    + destruct (session_close _ s ch) as [[[y2 ch2] evs2] rc2] eqn:Esc.
      destruct (fire_timers fuel y2 s ch2) as [[y3 ch3] evs3] eqn:Ef. injection H as <- <- <-.
      eapply IH; [exact Ef|]. eapply session_close_CBs; eauto.
    + eapply IH; eauto.
Qed.

Lemma step_core_CBs y l ch y' evs : step_core y l ch = (y', evs) -> CBs y -> CBs y'.
Proof.
  intros H Hc. destruct l as [x|x sid data|x sid n|x|x sid|x|x c|c|d|c|x c].
  - rewrite step_core_open in H. eapply open_stream_CBs; eauto.
  - rewrite step_core_write in H. eapply stream_write_CBs; eauto.
  - rewrite step_core_read in H. destruct (has_pending_read _ _ _); [injection H as <- _; exact Hc|].
    destruct (try_read y x sid n) as [[[y1 rc] dd]|] eqn:Et; injection H as <- _; [eapply try_read_CBs; eauto|now apply CBs_set_pend].
  - rewrite step_core_accept in H. destruct (se_closed _); [injection H as <- _; exact Hc|].
    destruct (try_accept y x) as [[[y1 rc] id]|] eqn:Et; [injection H as <- _; eapply try_accept_CBs; eauto|].
    destruct (has_pending_accept _ _); injection H as <- _; [exact Hc|now apply CBs_set_pend].
  - rewrite step_core_close_stream in H. destruct (close_stream y x sid true ch) as [[[y1 ch1] evs1] rc] eqn:Ec.
    injection H as <- _. eapply close_stream_CBs; eauto.
  - rewrite step_core_close_session in H. destruct (session_close y x ch) as [[[y1 ch1] evs1] rc] eqn:Ec.
    injection H as <- _. eapply session_close_CBs; eauto.
  - rewrite step_core_deliver in H. destruct (nthN (N.to_nat c) (sy_conns y)) as [cn|]; [|injection H as <- _; exact Hc].
    destruct (_ || _); [injection H as <- _; exact Hc|].
    destruct (conn_q cn x) as [|fr q].
    + destruct (conn_closed_end cn (other x)); [|injection H as <- _; exact Hc].
      destruct (deplex_error y x c) as [y1 e1] eqn:Ed. injection H as <- _. eapply deplex_error_CBs; eauto.
    + destruct (recv_frame _ x fr ch) as [[y2 ch2] evs2] eqn:Er. injection H as <- _.
      eapply recv_frame_CBs; [exact Er|now apply CBs_set_conns].
  - rewrite step_core_fail in H. destruct (nthN (N.to_nat c) (sy_conns y)) as [cn|]; [|injection H as <- _; exact Hc].
    cbv zeta in H. set (y0 := set_conns y _) in H.
    assert (Hc0 : CBs y0) by (now apply CBs_set_conns).
    destruct (if conn_closed_end cn SA || c_failed cn then (y0, []) else deplex_error y0 SA c) as [y1 e1] eqn:E1.
    assert (Hc1 : CBs y1).
    { destruct (_ || _) in E1; [injection E1 as <- _; exact Hc0|eapply deplex_error_CBs; eauto]. }
    destruct (if conn_closed_end cn SB || c_failed cn then (y1, []) else deplex_error y1 SB c) as [y2 e2] eqn:E2.
    injection H as <- _.
    destruct (_ || _) in E2; [injection E2 as <- _; exact Hc1|eapply deplex_error_CBs; eauto].
  - rewrite step_core_tick in H.
    destruct (fire_timers 64 (set_now y (sy_now y + d)%Z) SA ch) as [[y1 ch1] e1] eqn:E1.
    destruct (fire_timers 64 y1 SB ch1) as [[y2 ch2] e2] eqn:E2. injection H as <- _.
    eapply fire_timers_CBs; [exact E2|]. eapply fire_timers_CBs; [exact E1|]. now apply CBs_set_now.
  - rewrite step_core_break in H. destruct (nthN (N.to_nat c) (sy_conns y)) as [cn|]; injection H as <- _; [now apply CBs_set_conns|exact Hc].
  - rewrite step_core_notice in H. destruct (nthN (N.to_nat c) (sy_conns y)) as [cn|]; [|injection H as <- _; exact Hc].
    destruct (_ && _); [|injection H as <- _; exact Hc].
    destruct (deplex_error y x c) as [y1 e1] eqn:Ed. injection H as <- _. eapply deplex_error_CBs; eauto.
Qed.
Lemma step_CBs y l ch y' evs : step y l ch = (y', evs) -> CBs y -> CBs y'.
Proof.
  unfold step. intros H Hc. destruct (step_core y l ch) as [y1 evs1] eqn:Es.
  destruct (resolve (sy_pend y1) y1) as [[y2 ps] evs2] eqn:Er. injection H as <- _.
  apply CBs_set_pend. eapply resolve_CBs; [exact Er|]. eapply step_core_CBs; eauto.
Qed.
Lemma run_CBs ls : forall y y' os, run y ls = (y', os) -> CBs y -> CBs y'.
Proof.
  induction ls as [|[l ch] t IH]; intros y y' os H Hc; cbn in H; [injection H as <- _; exact Hc|].
  destruct (step y l ch) as [y1 o] eqn:Es. destruct (run y1 t) as [y2 os2] eqn:Er. injection H as <- _.
  eapply IH; [exact Er|]. eapply step_CBs; eauto.
Qed.
Lemma init_CBs k sp u ta tb : CBs (init k sp u ta tb).
Proof. intros x Hcl. destruct x; discriminate Hcl. Qed.

(* C12: in every reachable state, a closed session - closed by a fault, by the peer's notice, by its
   own Close (whether or not the notice could be sent), by the timer - has closed its end of every
   connection of its pool *)
Theorem closed_session_has_closed_its_connections k sp u ta tb ls s :
  let y := reach k sp u ta tb ls in
  se_closed (sess y s) = true ->
  se_broken (sess y s) = true /\
  forall c cn, In c (se_pool (sess y s)) -> nthN (N.to_nat c) (sy_conns y) = Some cn -> conn_closed_end cn s = true.
Proof.
  intros y Hcl. unfold y, reach in *. destruct (run (init k sp u ta tb) ls) as [y' os] eqn:Er. cbn [fst] in *.
  pose proof (run_CBs ls _ _ _ Er (init_CBs _ _ _ _ _) s Hcl) as Hb.
  split; [exact Hb|]. apply broken_all_conns_closed; [|exact Hb].
  eapply run_WF; [exact Er|apply init_WF].
Qed.
