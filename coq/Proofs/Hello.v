(* Proofs about Model/Hello.v: the hand-written parsers never let a panic escape, their loops
   terminate within the model's fuel (so the fuel never cuts a Go loop short), and
   unmarshalClientHello / unmarshalHidden contain no reachable panic at all. *)
From Coq Require Import NArith ZArith List Bool Arith Lia.
From Coq Require Import ZifyN ZifyNat ZifyBool.
From Cloak Require Import Model.Hello.
Import ListNotations.
Local Open Scope N_scope.

Lemma take_ok : forall n rest a b, take n rest = Ok (a, b) -> rest = a ++ b /\ length a = n.
Proof.
  intros n rest a b H. unfold take in H. destruct (n <=? length rest)%nat eqn:E; [|discriminate].
  apply Nat.leb_le in E. inversion H; subst. rewrite firstn_skipn. split; auto. apply firstn_length_le. lia.
Qed.
Lemma take_enough : forall n rest, (n <= length rest)%nat -> take n rest = Ok (firstn n rest, skipn n rest).
Proof. intros n rest H. unfold take. apply Nat.leb_le in H. rewrite H. reflexivity. Qed.

Lemma recover_no_panic : forall A e (r : res A), recover_as e r <> Panic.
Proof. intros A e [a|e'|]; cbn; discriminate. Qed.

Lemma copy_into_length : forall n src, length (copy_into n src) = n.
Proof.
  intros n src. unfold copy_into. rewrite firstn_length, app_length, repeat_length. lia.
Qed.

(* ---------------------------------------------------------------- parseExtensions *)
Lemma pe_loop_fuel : forall fuel rest acc, (length rest < fuel)%nat -> pe_loop fuel rest acc <> Err EFuel.
Proof.
  induction fuel as [|fuel IH]; intros rest acc Hlt; [lia|].
  cbn [pe_loop]. destruct rest as [|b rest']; [discriminate|].
  remember (b :: rest') as rest eqn:Hrest.
  destruct (take 2 rest) as [[typ r1]|e|] eqn:T1; cbn [bind]; try discriminate.
  destruct (take 2 r1) as [[lenb r2]|e|] eqn:T2; cbn [bind]; try discriminate.
  destruct (take (N.to_nat (be_val lenb)) r2) as [[data r3]|e|] eqn:T3; cbn [bind]; try discriminate.
  - apply take_ok in T1 as [E1 L1]. apply take_ok in T2 as [E2 L2]. apply take_ok in T3 as [E3 L3].
    apply IH. rewrite E1, E2, E3, !app_length in Hlt. lia.
  - unfold take in T3. destruct (_ <=? _)%nat; discriminate.
  - unfold take in T2. destruct (_ <=? _)%nat; discriminate.
  - unfold take in T1. destruct (_ <=? _)%nat; discriminate.
Qed.

Lemma parseExtensions_total : forall input,
  parseExtensions input <> Panic /\ parseExtensions input <> Err EFuel.
Proof.
  intros input. split; [apply recover_no_panic|].
  unfold parseExtensions, parseExtensions_raw.
  pose proof (pe_loop_fuel (S (length input)) input [] ltac:(lia)) as H.
  destruct (pe_loop (S (length input)) input []) as [a|e|]; cbn; try discriminate. exact H.
Qed.

(* ---------------------------------------------------------------- parseKeyShare *)
Lemma gs_sub_ok : forall lo hi s g, gs_sub lo hi s = Ok g -> (lo <= hi)%nat /\ (hi <= gs_cap s)%nat.
Proof.
  intros lo hi s g H. unfold gs_sub in H.
  destruct ((lo <=? hi)%nat && (hi <=? gs_cap s)%nat) eqn:E; [|discriminate].
  apply andb_prop in E as [A B]. apply Nat.leb_le in A, B. auto.
Qed.
Lemma gs_sub_not_err : forall lo hi s e, gs_sub lo hi s <> Err e.
Proof. intros. unfold gs_sub. destruct (_ && _); discriminate. Qed.

Lemma pks_loop_fuel : forall fuel totalLen pointer input,
  (pointer <= gs_cap input)%nat -> (gs_cap input < fuel + pointer)%nat ->
  pks_loop fuel totalLen pointer input <> Err EFuel.
Proof.
  induction fuel as [|fuel IH]; intros totalLen pointer input Hle Hlt; [lia|].
  cbn [pks_loop].
  destruct (pointer <? totalLen)%nat; [|discriminate].
  destruct (gs_sub pointer (pointer + 2) input) as [g|e|] eqn:G1; cbn [bind]; try discriminate.
  2:{ exfalso. eapply gs_sub_not_err; eauto. }
  destruct (bytes_eqb [0; 0x1d] (vis g)).
  - destruct (gs_sub (pointer + 2) (pointer + 4) input) as [lb|e|] eqn:G2; cbn [bind]; try discriminate.
    2:{ exfalso. eapply gs_sub_not_err; eauto. }
    destruct (negb (N.to_nat (be_val (vis lb)) =? 32)%nat); [discriminate|].
    destruct (gs_sub (pointer + 4) (pointer + 4 + N.to_nat (be_val (vis lb))) input) as [ks|e|] eqn:G3;
      cbn [bind]; try discriminate.
    exfalso. eapply gs_sub_not_err; eauto.
  - destruct (gs_sub (pointer + 2) (pointer + 4) input) as [lb|e|] eqn:G2; cbn [bind]; try discriminate.
    2:{ exfalso. eapply gs_sub_not_err; eauto. }
    destruct (gs_sub (pointer + 4) (pointer + 4 + N.to_nat (be_val (vis lb))) input) as [x|e|] eqn:G3;
      cbn [bind]; try discriminate.
    2:{ exfalso. eapply gs_sub_not_err; eauto. }
    apply gs_sub_ok in G3 as [_ Hcap].
    apply IH; lia.
Qed.

Lemma parseKeyShare_total : forall input,
  parseKeyShare input <> Panic /\ parseKeyShare input <> Err EFuel.
Proof.
  intros input. split; [apply recover_no_panic|].
  unfold parseKeyShare, parseKeyShare_raw.
  destruct (gs_sub 0 2 input) as [t|e|] eqn:G; cbn [bind recover_as]; try discriminate.
  2:{ exfalso. eapply gs_sub_not_err; eauto. }
  apply gs_sub_ok in G as [_ Hcap].
  pose proof (pks_loop_fuel (S (gs_cap input)) (N.to_nat (be_val (vis t))) 2 input Hcap ltac:(lia)) as H.
  destruct (pks_loop _ _ _ _) as [a|e|]; cbn; try discriminate. exact H.
Qed.

(* the key share that comes back has the 32 bytes the code insists on *)
Lemma pks_loop_len : forall fuel totalLen pointer input ks,
  pks_loop fuel totalLen pointer input = Ok ks -> length ks = 32%nat.
Proof.
  induction fuel as [|fuel IH]; intros totalLen pointer input ks H; [discriminate|].
  cbn [pks_loop] in H.
  destruct (pointer <? totalLen)%nat; [|discriminate].
  destruct (gs_sub pointer (pointer + 2) input) as [g|e|] eqn:G1; cbn [bind] in H; try discriminate.
  destruct (bytes_eqb [0; 0x1d] (vis g)).
  - destruct (gs_sub (pointer + 2) (pointer + 4) input) as [lb|e|] eqn:G2; cbn [bind] in H; try discriminate.
    destruct (N.to_nat (be_val (vis lb)) =? 32)%nat eqn:E32; cbn [negb] in H; [|discriminate].
    apply Nat.eqb_eq in E32. rewrite E32 in H.
    destruct (gs_sub (pointer + 4) (pointer + 4 + 32) input) as [k|e|] eqn:G3; cbn [bind] in H; try discriminate.
    inversion H; subst. unfold gs_sub in G3.
    destruct ((pointer + 4 <=? pointer + 4 + 32)%nat && (pointer + 4 + 32 <=? gs_cap input)%nat) eqn:C; [|discriminate].
    apply andb_prop in C as [_ C]. apply Nat.leb_le in C. inversion G3; subst. cbn [vis].
    rewrite firstn_length, skipn_length. unfold gs_cap in C. lia.
  - destruct (gs_sub (pointer + 2) (pointer + 4) input) as [lb|e|] eqn:G2; cbn [bind] in H; try discriminate.
    destruct (gs_sub (pointer + 4) (pointer + 4 + N.to_nat (be_val (vis lb))) input) as [x|e|] eqn:G3;
      cbn [bind] in H; try discriminate.
    eapply IH; eauto.
Qed.

(* ---------------------------------------------------------------- parseClientHello *)
Lemma bind_nofuel : forall A B (r : res A) (f : A -> res B),
  r <> Err EFuel -> (forall a, r = Ok a -> f a <> Err EFuel) -> bind r f <> Err EFuel.
Proof. intros A B [a|e|] f H1 H2; cbn; [apply H2; reflexivity | intros E; apply H1; congruence | discriminate]. Qed.
Lemma take_nofuel : forall n r, take n r <> Err EFuel.
Proof. intros. unfold take. destruct (_ <=? _)%nat; discriminate. Qed.
Lemma take1_nofuel : forall r, take1 r <> Err EFuel.
Proof. intros [|b r]; discriminate. Qed.
Lemma recover_nofuel : forall A e (r : res A), e <> EFuel -> r <> Err EFuel -> recover_as e r <> Err EFuel.
Proof. intros A e [a|e'|] He Hr; cbn; [discriminate | exact Hr | congruence]. Qed.

Lemma parseClientHello_total : forall data,
  parseClientHello data <> Panic /\ parseClientHello data <> Err EFuel.
Proof.
  intros data. split; [apply recover_no_panic|].
  unfold parseClientHello, parseClientHello_raw.
  apply recover_nofuel; [discriminate|].
  repeat first
    [ apply bind_nofuel; [ first [apply take_nofuel | apply take1_nofuel] | intros [? ?] _; cbv beta iota ]
    | match goal with |- (if ?c then _ else _) <> _ => destruct c; [discriminate|] end ].
  apply bind_nofuel; [apply parseExtensions_total | intros; discriminate].
Qed.

(* a parsed hello carries a 32-byte random *)
Lemma bind_ok : forall A B (r : res A) (f : A -> res B) b, bind r f = Ok b -> exists a, r = Ok a /\ f a = Ok b.
Proof. intros A B [a|e|] f b H; cbn in H; try discriminate. eauto. Qed.
Lemma recover_ok : forall A e (r : res A) a, recover_as e r = Ok a -> r = Ok a.
Proof. intros A e [x|e'|] a H; cbn in H; try discriminate. exact H. Qed.

Lemma parseClientHello_random : forall data ch, parseClientHello data = Ok ch -> length (ch_random ch) = 32%nat.
Proof.
  intros data ch H. unfold parseClientHello in H. apply recover_ok in H. unfold parseClientHello_raw in H.
  repeat first
    [ match type of H with
      | bind _ _ = Ok _ => let T := fresh "T" in apply bind_ok in H as ([? ?] & T & H); cbv beta iota in H
      | (if ?c then _ else _) = Ok _ => destruct c; [discriminate|]
      end ].
  apply bind_ok in H as (exts & Tx & H). inversion H; subst; cbn [ch_random].
  match goal with T : take 32 _ = Ok (?x, _) |- length ?x = _ => apply take_ok in T as [_ L]; exact L end.
Qed.

(* ---------------------------------------------------------------- unmarshalClientHello, unmarshalHidden *)
Section WithDH.
  Variable dh : list N -> list N -> option (list N).

  Lemma unmarshalClientHello_no_panic : forall ch pv,
    unmarshalClientHello dh ch pv <> Panic /\ unmarshalClientHello dh ch pv <> Err EFuel.
  Proof.
    intros ch pv. unfold unmarshalClientHello.
    destruct (negb _); [split; discriminate|].
    destruct (dh pv _); [|split; discriminate].
    destruct (parseKeyShare_total (ext_get key_share_ext (ch_extensions ch))) as [Hp Hf].
    destruct (parseKeyShare _) as [ks|e|]; cbn [bind]; try congruence.
    - destruct (negb _); split; discriminate.
    - split; [discriminate|]. intros E. apply Hf. congruence.
  Qed.

  Lemma tls_first_packet_total : forall data pv,
    tls_first_packet dh data pv <> Panic /\ tls_first_packet dh data pv <> Err EFuel.
  Proof.
    intros data pv. unfold tls_first_packet.
    destruct (parseClientHello_total data) as [Hp Hf].
    destruct (parseClientHello data) as [ch|e|]; cbn [bind]; try congruence.
    - apply unmarshalClientHello_no_panic.
    - split; [discriminate|]. intros E. apply Hf. congruence.
  Qed.

  Lemma unmarshalHidden_no_panic : forall hidden pv,
    unmarshalHidden dh hidden pv <> Panic /\ unmarshalHidden dh hidden pv <> Err EFuel.
  Proof.
    intros hidden pv. unfold unmarshalHidden.
    destruct (length hidden <? 96)%nat eqn:E; [split; discriminate|].
    apply Nat.ltb_ge in E.
    rewrite take_enough by lia. cbn [bind].
    destruct (negb _); [split; discriminate|].
    destruct (dh pv _); [|split; discriminate].
    destruct (negb _); split; discriminate.
  Qed.

  Lemma ws_first_packet_total : forall h pv,
    ws_first_packet dh h pv <> Panic /\ ws_first_packet dh h pv <> Err EFuel.
  Proof. intros [h|] pv; cbn; [apply unmarshalHidden_no_panic | split; discriminate]. Qed.

  (* shape of the fragments: 32-byte ephemeral value, 64-byte sealed block, secret = X25519(static, ephemeral) *)
  Lemma tls_fragments_shape : forall data pv fr, tls_first_packet dh data pv = Ok fr ->
    length (f_rand fr) = 32%nat /\ length (f_ct fr) = 64%nat /\ length (f_shared fr) = 32%nat /\
    exists sh, dh pv (f_rand fr) = Some sh /\ f_shared fr = copy_into 32 sh.
  Proof.
    intros data pv fr H. unfold tls_first_packet in H.
    destruct (parseClientHello data) as [ch|e|]; cbn [bind] in H; try discriminate.
    unfold unmarshalClientHello in H.
    destruct (negb _); [discriminate|].
    destruct (dh pv (copy_into 32 (ch_random ch))) as [sh|] eqn:Edh; [|discriminate].
    destruct (parseKeyShare _) as [ks|e|]; cbn [bind] in H; try discriminate.
    destruct (negb _); [discriminate|]. inversion H; subst. cbn [f_rand f_ct f_shared].
    rewrite !copy_into_length. repeat split; auto. exists sh. auto.
  Qed.
  Lemma ws_fragments_shape : forall h pv fr, ws_first_packet dh h pv = Ok fr ->
    length (f_rand fr) = 32%nat /\ length (f_ct fr) = 64%nat /\ length (f_shared fr) = 32%nat /\
    exists sh, dh pv (f_rand fr) = Some sh /\ f_shared fr = copy_into 32 sh.
  Proof.
    intros [h|] pv fr H; cbn in H; [|discriminate]. unfold unmarshalHidden in H.
    destruct (length h <? 96)%nat; [discriminate|].
    destruct (take 32 h) as [[r rest]|e|]; cbn [bind] in H; try discriminate.
    destruct (negb _); [discriminate|].
    destruct (dh pv (copy_into 32 r)) as [sh|] eqn:Edh; [|discriminate].
    destruct (negb _); [discriminate|]. inversion H; subst. cbn [f_rand f_ct f_shared].
    rewrite !copy_into_length. repeat split; auto. exists sh. auto.
  Qed.
End WithDH.
