(* Proofs about Model/Auth.v: the 48-byte plaintext (pack / unpack), the acceptance window, base64,
   the reply offsets, and the agreement of client and server for both transports (C06). *)
From Coq Require Import NArith ZArith List Bool Arith Lia ZifyN ZifyNat ZifyBool.
From Cloak Require Import Gen.Consts Model.HelloGrammar Model.Auth Proofs.HelloGrammar.
Import ListNotations.
Local Open Scope N_scope.

Ltac Zify.zify_post_hook ::= Z.div_mod_to_equations.

(* ------------------------------------------------------------------------------ lists *)
Lemma zeros_length : forall n, length (zeros n) = n.
Proof. intros. apply repeat_length. Qed.
Lemma zeros_app : forall a b, zeros (a + b) = zeros a ++ zeros b.
Proof. intros. apply repeat_app. Qed.

Lemma fit_length : forall n l, length (fit n l) = n.
Proof. intros. unfold fit. apply firstn_length_le. rewrite app_length, zeros_length. lia. Qed.
Lemma fit_exact : forall n l, length l = n -> fit n l = l.
Proof.
  intros n l H. unfold fit. rewrite firstn_app, H, Nat.sub_diag. cbn [firstn].
  rewrite app_nil_r. rewrite <- H. apply firstn_all.
Qed.

Lemma sub_length : forall lo hi l, (hi <= length l)%nat -> length (sub lo hi l) = (hi - lo)%nat.
Proof. intros. unfold sub. rewrite firstn_length, skipn_length. lia. Qed.

Lemma sub_mid : forall l a b c lo hi, l = a ++ b ++ c -> lo = length a -> hi = (lo + length b)%nat ->
  sub lo hi l = b.
Proof.
  intros l a b c lo hi -> -> ->. unfold sub.
  rewrite skipn_app, Nat.sub_diag, skipn_all. cbn [skipn app].
  replace (length a + length b - length a)%nat with (length b) by lia.
  rewrite firstn_app, Nat.sub_diag, firstn_all. cbn [firstn]. apply app_nil_r.
Qed.

Lemma nth_mid : forall (l a c : list N) x i d, l = a ++ x :: c -> i = length a -> nth i l d = x.
Proof. intros l a c x i d -> ->. rewrite app_nth2 by lia. rewrite Nat.sub_diag. reflexivity. Qed.

Lemma put_at_mid : forall off src dst a b c, dst = a ++ b ++ c -> length a = off -> length b = length src ->
  put_at off src dst = a ++ src ++ c.
Proof.
  intros off src dst a b c -> Ha Hb. unfold put_at.
  rewrite !app_length, Ha.
  replace (Nat.min (length src) (off + (length b + length c) - off)) with (length src) by lia.
  rewrite firstn_all. f_equal; [|f_equal].
  - rewrite <- Ha. rewrite firstn_app, Nat.sub_diag, firstn_all. cbn [firstn]. apply app_nil_r.
  - rewrite <- Ha, <- Hb. rewrite skipn_app.
    replace (length a + length b - length a)%nat with (length b) by lia.
    rewrite (skipn_all2 a) by lia. cbn [app].
    rewrite skipn_app, Nat.sub_diag, skipn_all. reflexivity.
Qed.

Lemma put_at_length : forall off src dst, (off <= length dst)%nat -> length (put_at off src dst) = length dst.
Proof.
  intros off src dst H. unfold put_at. rewrite !app_length, !firstn_length, skipn_length. lia.
Qed.

Lemma upd_at_mid : forall i f dst a x c, dst = a ++ x :: c -> length a = i -> upd_at i f dst = a ++ f x :: c.
Proof.
  intros i f dst a x c -> Ha. unfold upd_at. rewrite <- Ha.
  rewrite skipn_app, Nat.sub_diag, skipn_all. cbn [skipn app].
  rewrite firstn_app, Nat.sub_diag, firstn_all. cbn [firstn]. rewrite app_nil_r. reflexivity.
Qed.

(* ------------------------------------------------------------------------------ big-endian *)
Lemma be_dec_acc : forall l acc, fold_left (fun a b => a * 256 + b) l acc = acc * 256 ^ lenN l + be_dec l.
Proof.
  induction l as [|b l IH]; intros acc.
  - unfold be_dec. cbn [fold_left]. rewrite lenN_nil. change (256 ^ 0) with 1. lia.
  - unfold be_dec. cbn [fold_left]. rewrite (IH (acc * 256 + b)), (IH (0 * 256 + b)).
    rewrite lenN_cons. rewrite N.pow_add_r. change (256 ^ 1) with 256. lia.
Qed.
Lemma be_dec_cons : forall b l, be_dec (b :: l) = b * 256 ^ lenN l + be_dec l.
Proof. intros. unfold be_dec at 1. cbn [fold_left]. rewrite be_dec_acc. lia. Qed.

Lemma be_enc_length : forall n x, length (be_enc n x) = n.
Proof. induction n; intros; cbn [be_enc length]; [reflexivity|]. rewrite IHn. reflexivity. Qed.

Lemma be_dec_enc : forall n x, be_dec (be_enc n x) = x mod 256 ^ N.of_nat n.
Proof.
  induction n as [|n IH]; intros x.
  - cbn [be_enc]. change (256 ^ N.of_nat 0) with 1. rewrite N.mod_1_r. reflexivity.
  - cbn [be_enc]. rewrite be_dec_cons, IH. unfold lenN. rewrite be_enc_length.
    replace (N.of_nat (S n)) with (N.of_nat n + 1) by lia.
    rewrite N.pow_add_r. change (256 ^ 1) with 256.
    assert (Hp : 256 ^ N.of_nat n <> 0) by (apply N.pow_nonzero; discriminate).
    rewrite (N.mod_mul_r x (256 ^ N.of_nat n) 256) by (assumption || discriminate). lia.
Qed.

(* ------------------------------------------------------------------------------ bytes.Trim *)
Lemma drop0_nonzero_head : forall l, nth 0 l 0 <> 0 -> drop0 l = l.
Proof. intros [|x l] H; [reflexivity|]. cbn [nth] in H. cbn [drop0]. destruct x; [congruence|reflexivity]. Qed.
Lemma drop0_zeros_app : forall n l, drop0 (zeros n ++ l) = drop0 l.
Proof. induction n; intros; cbn [zeros repeat app drop0]; [reflexivity|]. apply IHn. Qed.
Lemma rev_zeros : forall n, rev (zeros n) = zeros n.
Proof.
  induction n; [reflexivity|]. unfold zeros in *. cbn [repeat rev]. rewrite IHn.
  change [0] with (repeat 0 1). rewrite <- repeat_app. replace (n + 1)%nat with (S n) by lia. reflexivity.
Qed.
Lemma nth0_rev_last : forall (l : list N) d, nth 0 (rev l) d = last l d.
Proof.
  induction l as [|x l IH]; intros d; [reflexivity|].
  cbn [rev]. destruct l as [|y l]; [reflexivity|].
  rewrite app_nth1. 2:{ cbn [rev]. rewrite app_length. cbn [length]. lia. }
  rewrite IH. reflexivity.
Qed.

(* the guard of the round trip: no NUL at either end (which also makes the name non-empty) *)
Definition no_nul_ends (m : list N) : Prop := nth 0 m 0 <> 0 /\ last m 0 <> 0.

Lemma trim0_padded : forall m n, no_nul_ends m -> trim0 (m ++ zeros n) = m.
Proof.
  intros m n [Hh Hl]. unfold trim0.
  rewrite (drop0_nonzero_head (m ++ zeros n)).
  2:{ destruct m as [|x m]; [cbn [nth] in Hh; congruence|]. exact Hh. }
  rewrite rev_app_distr, rev_zeros, drop0_zeros_app.
  rewrite drop0_nonzero_head by (rewrite nth0_rev_last; exact Hl).
  apply rev_involutive.
Qed.

(* ------------------------------------------------------------------------------ pack *)
Definition flag_byte (unordered : bool) : N := if unordered then N.lor 0 client_flag else 0.

(* the layout of the 48 bytes, for a 16-byte UID *)
Lemma pack_layout : forall i ts, length (i_uid i) = 16%nat ->
  let m := firstn 12 (i_method i) in
  pack i ts = i_uid i ++ (m ++ zeros (12 - length m)) ++ [i_enc i] ++ be_enc 8 ts ++ be_enc 4 (i_sid i) ++
              [flag_byte (i_unordered i)] ++ zeros 6.
Proof.
  intros i ts Hu m. unfold pack. fold m.
  assert (Hm : (length m <= 12)%nat) by (unfold m; rewrite firstn_length; lia).
  set (z := zeros (12 - length m)).
  assert (Hz : length z = (12 - length m)%nat) by (unfold z; apply zeros_length).
  (* UID *)
  rewrite (put_at_mid 0 (i_uid i) (zeros 48) [] (zeros 16) (zeros 32));
    [|reflexivity|reflexivity|rewrite zeros_length; lia].
  cbn [app].
  (* method *)
  rewrite (put_at_mid 16 m (i_uid i ++ zeros 32) (i_uid i) (zeros (length m)) (z ++ zeros 20));
    [| |exact Hu|apply zeros_length].
  2:{ f_equal. unfold z. rewrite app_assoc, <- zeros_app. f_equal.
      replace 32%nat with (length m + (12 - length m) + 20)%nat by lia. rewrite zeros_app. reflexivity. }
  (* encryption method *)
  rewrite (put_at_mid 28 [i_enc i] (i_uid i ++ m ++ z ++ zeros 20) (i_uid i ++ m ++ z) [0] (zeros 19));
    [|rewrite <- !app_assoc; reflexivity|rewrite !app_length; lia|reflexivity].
  (* timestamp *)
  rewrite (put_at_mid 29 (be_enc 8 ts) ((i_uid i ++ m ++ z) ++ [i_enc i] ++ zeros 19)
             (i_uid i ++ m ++ z ++ [i_enc i]) (zeros 8) (zeros 11));
    [|rewrite <- !app_assoc; reflexivity|rewrite !app_length; cbn [length]; lia|rewrite be_enc_length; reflexivity].
  (* session id *)
  rewrite (put_at_mid 37 (be_enc 4 (i_sid i)) ((i_uid i ++ m ++ z ++ [i_enc i]) ++ be_enc 8 ts ++ zeros 11)
             (i_uid i ++ m ++ z ++ [i_enc i] ++ be_enc 8 ts) (zeros 4) (zeros 7));
    [|rewrite <- !app_assoc; reflexivity|rewrite !app_length, be_enc_length; cbn [length]; lia
     |rewrite be_enc_length; reflexivity].
  (* flag *)
  destruct (i_unordered i); unfold flag_byte.
  - rewrite (upd_at_mid 41 _ _ (i_uid i ++ m ++ z ++ [i_enc i] ++ be_enc 8 ts ++ be_enc 4 (i_sid i)) 0 (zeros 6));
      [|rewrite <- !app_assoc; reflexivity|rewrite !app_length, !be_enc_length; cbn [length]; lia].
    rewrite <- !app_assoc. reflexivity.
  - rewrite <- !app_assoc. reflexivity.
Qed.

Lemma pack_length : forall i ts, length (i_uid i) = 16%nat -> length (pack i ts) = 48%nat.
Proof.
  intros i ts Hu. rewrite pack_layout by exact Hu. cbv zeta.
  rewrite !app_length, !be_enc_length, !zeros_length, Hu. cbn [length].
  assert (length (firstn 12 (i_method i)) <= 12)%nat by (rewrite firstn_length; lia). lia.
Qed.

(* generated obligation about the two UNORDERED_FLAG constants (client and server package) *)
Lemma flag_constants_agree :
  negb (N.land (N.lor 0 client_flag) server_flag =? 0) = true /\ negb (N.land 0 server_flag =? 0) = false.
Proof. split; vm_compute; reflexivity. Qed.

Lemma tolerance_is_180s : tolerance = (180 * 1000000000)%Z.
Proof. reflexivity. Qed.

(* what the server reads back from a packed plaintext: every field but the timestamp check *)
Lemma unpack_pack_fields : forall i ts now, length (i_uid i) = 16%nat -> i_sid i < 2 ^ 32 -> ts < 2 ^ 64 ->
  let i' := mkInfo (i_uid i) (trim0 (firstn 12 (i_method i) ++ zeros (12 - length (firstn 12 (i_method i)))))
                   (i_enc i) (i_sid i) (i_unordered i) in
  unpack (pack i ts) now =
  if in_window ts now then UOk i'
  else UWindow (mkInfo (i_uid i') (i_method i') (i_enc i') 0 (i_unordered i')).
Proof.
  intros i ts now Hu Hs Ht i'. unfold unpack.
  rewrite pack_length by exact Hu. cbn [Nat.ltb Nat.leb].
  pose proof (pack_layout i ts Hu) as HL. cbv zeta in HL.
  set (m := firstn 12 (i_method i)) in *. set (z := zeros (12 - length m)) in *.
  assert (Hm : (length m <= 12)%nat) by (unfold m; rewrite firstn_length; lia).
  assert (Hz : length z = (12 - length m)%nat) by (unfold z; apply zeros_length).
  assert (E_uid : sub 0 16 (pack i ts) = i_uid i).
  { apply (sub_mid _ [] (i_uid i) ((m ++ z) ++ [i_enc i] ++ be_enc 8 ts ++ be_enc 4 (i_sid i) ++
                                   [flag_byte (i_unordered i)] ++ zeros 6)); [exact HL|reflexivity|cbn [length]; lia]. }
  assert (E_m : sub 16 28 (pack i ts) = m ++ z).
  { apply (sub_mid _ (i_uid i) (m ++ z) ([i_enc i] ++ be_enc 8 ts ++ be_enc 4 (i_sid i) ++
                                         [flag_byte (i_unordered i)] ++ zeros 6)); [exact HL|lia|rewrite app_length; lia]. }
  assert (E_enc : nth 28 (pack i ts) 0 = i_enc i).
  { apply (nth_mid _ (i_uid i ++ m ++ z) (be_enc 8 ts ++ be_enc 4 (i_sid i) ++ [flag_byte (i_unordered i)] ++ zeros 6)).
    - rewrite HL. rewrite <- !app_assoc. reflexivity.
    - rewrite !app_length. lia. }
  assert (E_ts : sub 29 37 (pack i ts) = be_enc 8 ts).
  { apply (sub_mid _ (i_uid i ++ m ++ z ++ [i_enc i]) (be_enc 8 ts)
                   (be_enc 4 (i_sid i) ++ [flag_byte (i_unordered i)] ++ zeros 6)).
    - rewrite HL. rewrite <- !app_assoc. reflexivity.
    - rewrite !app_length. cbn [length]. lia.
    - rewrite be_enc_length. reflexivity. }
  assert (E_sid : sub 37 41 (pack i ts) = be_enc 4 (i_sid i)).
  { apply (sub_mid _ (i_uid i ++ m ++ z ++ [i_enc i] ++ be_enc 8 ts) (be_enc 4 (i_sid i))
                   ([flag_byte (i_unordered i)] ++ zeros 6)).
    - rewrite HL. rewrite <- !app_assoc. reflexivity.
    - rewrite !app_length, be_enc_length. cbn [length]. lia.
    - rewrite be_enc_length. reflexivity. }
  assert (E_flag : nth 41 (pack i ts) 0 = flag_byte (i_unordered i)).
  { apply (nth_mid _ (i_uid i ++ m ++ z ++ [i_enc i] ++ be_enc 8 ts ++ be_enc 4 (i_sid i)) (zeros 6)).
    - rewrite HL. rewrite <- !app_assoc. reflexivity.
    - rewrite !app_length, !be_enc_length. cbn [length]. lia. }
  rewrite E_uid, E_m, E_enc, E_ts, E_sid, E_flag.
  rewrite !be_dec_enc. change (256 ^ N.of_nat 8) with (2 ^ 64). change (256 ^ N.of_nat 4) with (2 ^ 32).
  rewrite (N.mod_small ts) by exact Ht. rewrite (N.mod_small (i_sid i)) by exact Hs.
  assert (E_f : negb (N.land (flag_byte (i_unordered i)) server_flag =? 0) = i_unordered i).
  { destruct (i_unordered i); unfold flag_byte; apply flag_constants_agree. }
  rewrite E_f. cbn [i_uid i_method i_enc i_unordered].
  destruct (in_window ts now); reflexivity.
Qed.

(* ------------------------------------------------------------------------------ round trip *)
Definition info_in_domain (i : info) : Prop :=
  length (i_uid i) = 16%nat /\ (length (i_method i) <= 12)%nat /\ no_nul_ends (i_method i) /\ i_sid i < 2 ^ 32.

Lemma plaintext_roundtrip : forall i ts now,
  info_in_domain i -> ts < 2 ^ 64 -> in_window ts now = true ->
  unpack (pack i ts) now = UOk i.
Proof.
  intros i ts now (Hu & Hm & Hn & Hs) Ht Hw.
  rewrite unpack_pack_fields by assumption. cbv zeta. rewrite Hw.
  rewrite (firstn_all2 (i_method i)) by lia. rewrite trim0_padded by exact Hn.
  destruct i; reflexivity.
Qed.

Lemma plaintext_outside_window : forall i ts now,
  info_in_domain i -> ts < 2 ^ 64 -> in_window ts now = false ->
  exists i0, unpack (pack i ts) now = UWindow i0 /\ i_sid i0 = 0.
Proof.
  intros i ts now (Hu & Hm & Hn & Hs) Ht Hw.
  rewrite unpack_pack_fields by assumption. cbv zeta. rewrite Hw. eexists. split; reflexivity.
Qed.

(* the guards are exact *)
Definition ex_uid : list N := [0;1;2;3;4;5;6;7;8;9;10;11;12;13;14;15].
Example method_trailing_nul_lost :
  unpack (pack (mkInfo ex_uid [97; 0] 1 5 false) 1700000000) 1700000000000000000%Z
  = UOk (mkInfo ex_uid [97] 1 5 false).
Proof. vm_compute. reflexivity. Qed.
Example method_leading_nul_lost :
  unpack (pack (mkInfo ex_uid [0; 97] 1 5 false) 1700000000) 1700000000000000000%Z
  = UOk (mkInfo ex_uid [97] 1 5 false).
Proof. vm_compute. reflexivity. Qed.
Example method_13_truncated :
  unpack (pack (mkInfo ex_uid [116;104;105;114;116;101;101;110;95;98;121;116;101] 1 5 false) 1700000000) 1700000000000000000%Z
  = UOk (mkInfo ex_uid [116;104;105;114;116;101;101;110;95;98;121;116] 1 5 false).
Proof. vm_compute. reflexivity. Qed.
(* copy(plaintext, UID) is not limited to 16 bytes: a longer UID spills into the method field *)
Example uid_18_spills :
  unpack (pack (mkInfo (ex_uid ++ [16; 17]) [97] 1 5 false) 1700000000) 1700000000000000000%Z
  = UOk (mkInfo ex_uid [97; 17] 1 5 false).
Proof. vm_compute. reflexivity. Qed.
Example empty_method_in_domain_is_impossible : ~ no_nul_ends [].
Proof. intros [H _]. apply H. reflexivity. Qed.

(* ------------------------------------------------------------------------------ the window *)
Local Open Scope Z_scope.
Lemma wrap64_small : forall z, - 2 ^ 63 <= z < 2 ^ 63 -> wrap64 z = z.
Proof. intros z H. unfold wrap64. rewrite Z.mod_small by lia. lia. Qed.

Lemma client_time_ns_small : forall ts : N, (ts < 2 ^ 62)%N -> client_time_ns ts = Z.of_N ts * 1000000000.
Proof.
  intros ts H. unfold client_time_ns, unixToInternal, ns_per_s.
  assert (0 <= Z.of_N ts < 2 ^ 62) by lia.
  rewrite (wrap64_small (Z.of_N ts)) by lia. rewrite wrap64_small by lia. lia.
Qed.

(* accepted iff |ts * 10^9 - now| < 180 * 10^9, in nanoseconds, both comparisons strict *)
Lemma window_exact : forall (ts : N) (now : Z), (ts < 2 ^ 62)%N ->
  in_window ts now = true <-> Z.abs (Z.of_N ts * 1000000000 - now) < 180 * 1000000000.
Proof.
  intros ts now H. unfold in_window. rewrite client_time_ns_small by exact H.
  rewrite tolerance_is_180s. rewrite andb_true_iff, !Z.ltb_lt. lia.
Qed.

Lemma window_unpack : forall i (ts : N) now, info_in_domain i -> (ts < 2 ^ 62)%N ->
  (exists i', unpack (pack i ts) now = UOk i') <-> Z.abs (Z.of_N ts * 1000000000 - now) < 180 * 1000000000.
Proof.
  intros i ts now Hd Ht. rewrite <- (window_exact ts now Ht).
  assert (Ht' : (ts < 2 ^ 64)%N) by lia.
  destruct (in_window ts now) eqn:E.
  - split; [reflexivity|]. intros _. exists i. apply plaintext_roundtrip; assumption.
  - split; [|discriminate]. intros [i' Hi'].
    destruct (plaintext_outside_window i ts now Hd Ht' E) as (i0 & Hi0 & _). congruence.
Qed.

(* the session id is read only after the window check *)
Lemma sid_only_inside_window : forall pt now i0, unpack pt now = UWindow i0 -> i_sid i0 = 0%N.
Proof.
  intros pt now i0 H. unfold unpack in H.
  destruct (length pt <? 42)%nat; [discriminate|].
  destruct (negb (in_window _ now)); [|discriminate]. inversion H. reflexivity.
Qed.

(* the timestamp the client writes: whole seconds; the truncation can cost up to one second *)
Lemma client_ts_spec : forall c_now, 0 <= c_now -> c_now / 1000000000 < 2 ^ 62 ->
  Z.of_N (client_ts c_now) = c_now / 1000000000 /\ (client_ts c_now < 2 ^ 62)%N.
Proof.
  intros c_now H0 H1. unfold client_ts, ns_per_s.
  assert (0 <= c_now / 1000000000) by (apply Z.div_pos; lia).
  rewrite Z.mod_small by lia. split; lia.
Qed.

Lemma offset_suffices : forall c_now s_now, 0 <= c_now -> c_now / 1000000000 < 2 ^ 62 ->
  - (179 * 1000000000) <= c_now - s_now < 180 * 1000000000 ->
  in_window (client_ts c_now) s_now = true.
Proof.
  intros c_now s_now H0 H1 Ho.
  destruct (client_ts_spec c_now H0 H1) as [E Hlt].
  apply window_exact; [exact Hlt|]. rewrite E. lia.
Qed.

(* an offset strictly inside (-180 s, -179 s) can be rejected: the client's clock is 179.5 s behind,
   its sub-second part is 0.9 s *)
Example truncation_edge :
  let c_now := 1700000000900000000 in let s_now := c_now + 179500000000 in
  Z.abs (c_now - s_now) < 180 * 1000000000 /\ in_window (client_ts c_now) s_now = false.
Proof. split; vm_compute; reflexivity. Qed.
Local Close Scope Z_scope.

(* ------------------------------------------------------------------------------ base64 *)
Lemma b64_val_char : forall v, v < 64 -> b64_val (b64_char v) = Some v.
Proof.
  intros v Hv. unfold b64_char.
  destruct (N.ltb_spec v 26); [|destruct (N.ltb_spec v 52); [|destruct (N.ltb_spec v 62); [|destruct (N.eqb_spec v 62)]]];
    unfold b64_val.
  - replace ((65 <=? 65 + v) && (65 + v <=? 90)) with true by lia. f_equal. lia.
  - replace ((65 <=? 97 + (v - 26)) && (97 + (v - 26) <=? 90)) with false by lia.
    replace ((97 <=? 97 + (v - 26)) && (97 + (v - 26) <=? 122)) with true by lia. f_equal. lia.
  - replace ((65 <=? 48 + (v - 52)) && (48 + (v - 52) <=? 90)) with false by lia.
    replace ((97 <=? 48 + (v - 52)) && (48 + (v - 52) <=? 122)) with false by lia.
    replace ((48 <=? 48 + (v - 52)) && (48 + (v - 52) <=? 57)) with true by lia. f_equal. lia.
  - subst. reflexivity.
  - assert (v = 63) by lia. subst. reflexivity.
Qed.
Lemma b64_char_not_pad : forall v, (b64_char v =? 61) = false.
Proof.
  intros v. unfold b64_char.
  destruct (N.ltb_spec v 26); [|destruct (N.ltb_spec v 52); [|destruct (N.ltb_spec v 62); [|destruct (N.eqb_spec v 62)]]]; lia.
Qed.

Definition wf_bytes (l : list N) : Prop := Forall (fun b => b < 256) l.

Lemma b64_quantum : forall a b c, a < 256 -> b < 256 -> c < 256 ->
  let v0 := a / 4 in let v1 := (a mod 4) * 16 + b / 16 in let v2 := (b mod 16) * 4 + c / 64 in let v3 := c mod 64 in
  v0 < 64 /\ v1 < 64 /\ v2 < 64 /\ v3 < 64 /\
  v0 * 4 + v1 / 16 = a /\ (v1 mod 16) * 16 + v2 / 4 = b /\ (v2 mod 4) * 64 + v3 = c.
Proof. intros. cbv zeta. repeat split; lia. Qed.

Lemma b64_roundtrip_fuel : forall n l f, (length l <= n)%nat -> (length l <= 3 * f)%nat -> wf_bytes l ->
  b64_decode_fuel f (b64_encode l) = l.
Proof.
  induction n as [|n IH]; intros l f Hn Hf Hw.
  - destruct l; [|cbn [length] in Hn; lia]. destruct f; reflexivity.
  - destruct l as [|a [|b [|c t]]].
    + destruct f; reflexivity.
    + destruct f as [|f]; [cbn [length] in Hf; lia|].
      inversion Hw as [|? ? Ha _]; subst.
      destruct (b64_quantum a 0 0 Ha) as (H0 & H1 & _ & _ & E0 & _); try lia. cbv zeta in *.
      cbn [b64_encode b64_decode_fuel].
      replace (a mod 4 * 16 + 0 / 16) with (a mod 4 * 16) in * by lia.
      rewrite !b64_val_char by assumption. cbn [N.eqb andb]. change ((61 =? 61) && (61 =? 61)) with true. cbv iota.
      rewrite E0. reflexivity.
    + destruct f as [|f]; [cbn [length] in Hf; lia|].
      inversion Hw as [|? ? Ha Hw']; subst. inversion Hw' as [|? ? Hb _]; subst.
      destruct (b64_quantum a b 0 Ha Hb) as (H0 & H1 & H2 & _ & E0 & E1 & _); try lia. cbv zeta in *.
      cbn [b64_encode b64_decode_fuel].
      replace (b mod 16 * 4 + 0 / 64) with (b mod 16 * 4) in * by lia.
      rewrite !b64_val_char by assumption.
      rewrite b64_char_not_pad. cbn [andb]. rewrite N.eqb_refl. rewrite E0, E1. reflexivity.
    + destruct f as [|f]; [cbn [length] in Hf; lia|].
      inversion Hw as [|? ? Ha Hw']; subst. inversion Hw' as [|? ? Hb Hw'']; subst.
      inversion Hw'' as [|? ? Hc Hwt]; subst.
      destruct (b64_quantum a b c Ha Hb Hc) as (H0 & H1 & H2 & H3 & E0 & E1 & E2). cbv zeta in *.
      cbn [b64_encode b64_decode_fuel].
      rewrite !b64_val_char by assumption.
      rewrite !b64_char_not_pad. cbn [andb]. rewrite E0, E1, E2.
      rewrite (IH t f); [reflexivity| | |exact Hwt]; cbn [length] in *; lia.
Qed.

Lemma b64_encode_length : forall n l, (length l <= n)%nat -> (length l <= 3 * length (b64_encode l))%nat.
Proof.
  induction n as [|n IH]; intros l Hn.
  - destruct l; [cbn; lia|cbn [length] in Hn; lia].
  - destruct l as [|a [|b [|c t]]]; cbn [b64_encode length]; try lia.
    assert (length t <= 3 * length (b64_encode t))%nat by (apply IH; cbn [length] in Hn; lia). lia.
Qed.

Lemma b64_roundtrip : forall l, wf_bytes l -> b64_decode (b64_encode l) = l.
Proof.
  intros l Hw. unfold b64_decode. apply (b64_roundtrip_fuel (length l)); [lia| |exact Hw].
  apply (b64_encode_length (length l)). lia.
Qed.

(* ------------------------------------------------------------------------------ the reply layout *)
Definition sh_random (nonce encKey : list N) : list N := fit 12 nonce ++ sub 0 20 (fit 48 encKey).
Definition sh_share (encKey filler : list N) : list N :=
  put_at 28 (fit 4 filler) (put_at 0 (sub 20 48 (fit 48 encKey)) (zeros 32)).

Lemma sh_random_length : forall n e, length (sh_random n e) = 32%nat.
Proof. intros. unfold sh_random. rewrite app_length, fit_length, sub_length; [reflexivity|rewrite fit_length; lia]. Qed.
Lemma sh_share_length : forall e f, length (sh_share e f) = 32%nat.
Proof.
  intros. unfold sh_share. rewrite !put_at_length; try apply zeros_length.
  - rewrite zeros_length; lia.
  - rewrite put_at_length; rewrite zeros_length; lia.
Qed.
Lemma sh_share_eq : forall e f, sh_share e f = sub 20 48 (fit 48 e) ++ fit 4 f.
Proof.
  intros. unfold sh_share.
  assert (L : length (sub 20 48 (fit 48 e)) = 28%nat) by (rewrite sub_length; [reflexivity|rewrite fit_length; lia]).
  rewrite (put_at_mid 0 _ (zeros 32) [] (zeros 28) (zeros 4)); [|reflexivity|reflexivity|rewrite zeros_length; lia].
  cbn [app].
  rewrite (put_at_mid 28 (fit 4 f) _ (sub 20 48 (fit 48 e)) (zeros 4) []);
    [rewrite app_nil_r; reflexivity|rewrite app_nil_r; reflexivity|exact L|rewrite fit_length; apply zeros_length].
Qed.

Lemma compose_server_hello_layout : forall sid nonce encKey filler,
  compose_server_hello sid nonce encKey filler =
  [2; 0; 0; 0x76; 3; 3] ++ sh_random nonce encKey ++ [0x20] ++ sid ++
  [0x13; 0x02; 0; 0; 0x2e; 0; 0x33; 0; 0x24; 0; 0x1d; 0; 0x20] ++ sh_share encKey filler ++ [0; 0x2b; 0; 2; 3; 4].
Proof.
  intros. unfold compose_server_hello. fold (sh_random nonce encKey). fold (sh_share encKey filler).
  rewrite <- !app_assoc. reflexivity.
Qed.

Lemma compose_server_hello_length : forall sid nonce encKey filler, length sid = 32%nat ->
  length (compose_server_hello sid nonce encKey filler) = 122%nat.
Proof.
  intros. rewrite compose_server_hello_layout, !app_length, sh_random_length, sh_share_length, H. reflexivity.
Qed.

(* the client's offsets: buf[6:38] is the ServerHello random, buf[84:116] the key share, for a 32-byte session id *)
Lemma client_offsets : forall sid nonce encKey filler pad, length sid = 32%nat ->
  let buf := compose_server_hello sid nonce encKey filler ++ pad in
  sub 6 38 buf = sh_random nonce encKey /\ sub 84 116 buf = sh_share encKey filler.
Proof.
  intros sid nonce encKey filler pad Hs buf. unfold buf. rewrite compose_server_hello_layout. split.
  - apply (sub_mid _ [2; 0; 0; 0x76; 3; 3] (sh_random nonce encKey)
             ([0x20] ++ sid ++ [0x13; 0x02; 0; 0; 0x2e; 0; 0x33; 0; 0x24; 0; 0x1d; 0; 0x20] ++ sh_share encKey filler ++
              [0; 0x2b; 0; 2; 3; 4] ++ pad)).
    + rewrite <- !app_assoc. reflexivity.
    + reflexivity.
    + rewrite sh_random_length. reflexivity.
  - apply (sub_mid _ ([2; 0; 0; 0x76; 3; 3] ++ sh_random nonce encKey ++ [0x20] ++ sid ++
                      [0x13; 0x02; 0; 0; 0x2e; 0; 0x33; 0; 0x24; 0; 0x1d; 0; 0x20])
             (sh_share encKey filler) ([0; 0x2b; 0; 2; 3; 4] ++ pad)).
    + rewrite <- !app_assoc. reflexivity.
    + rewrite !app_length, sh_random_length, Hs. reflexivity.
    + rewrite sh_share_length. reflexivity.
Qed.

(* ... and they reassemble exactly nonce ++ encrypted key *)
Lemma reassembly : forall nonce encKey filler, length nonce = 12%nat -> length encKey = 48%nat ->
  let encrypted := sh_random nonce encKey ++ sh_share encKey filler in
  sub 0 12 encrypted = nonce /\ sub 12 60 encrypted = encKey.
Proof.
  intros nonce encKey filler Hn He encrypted. unfold encrypted, sh_random. rewrite sh_share_eq.
  rewrite (fit_exact 12 nonce Hn), (fit_exact 48 encKey He).
  assert (L1 : length (sub 0 20 encKey) = 20%nat) by (apply sub_length; lia).
  assert (L2 : length (sub 20 48 encKey) = 28%nat) by (apply sub_length; lia).
  split.
  - apply (sub_mid _ [] nonce (sub 0 20 encKey ++ sub 20 48 encKey ++ fit 4 filler)).
    + rewrite <- !app_assoc. reflexivity.
    + reflexivity.
    + cbn [length]. lia.
  - assert (E : sub 0 20 encKey ++ sub 20 48 encKey = encKey).
    { unfold sub. cbn [skipn]. change (20 - 0)%nat with 20%nat. change (48 - 20)%nat with 28%nat.
      rewrite <- (firstn_skipn 20 encKey) at 3. f_equal.
      apply firstn_all2. rewrite skipn_length. lia. }
    apply (sub_mid _ nonce encKey (fit 4 filler)).
    + rewrite <- !app_assoc. rewrite (app_assoc (sub 0 20 encKey)), E. reflexivity.
    + lia.
    + lia.
Qed.

Lemma reply_offsets : forall sid nonce encKey filler pad,
  length sid = 32%nat -> length nonce = 12%nat -> length encKey = 48%nat ->
  let buf := compose_server_hello sid nonce encKey filler ++ pad in
  let encrypted := sub 6 38 buf ++ sub 84 116 buf in
  sub 0 12 encrypted = nonce /\ sub 12 60 encrypted = encKey.
Proof.
  intros sid nonce encKey filler pad Hs Hn He buf encrypted.
  destruct (client_offsets sid nonce encKey filler pad Hs) as [E1 E2].
  unfold encrypted, buf. cbv zeta in E1, E2. rewrite E1, E2. exact (reassembly nonce encKey filler Hn He).
Qed.

Lemma add_record_layer_eq : forall input typ, lenN input < 65536 ->
  add_record_layer input typ [3; 3] = [typ; 3; 3; lenN input / 256; lenN input mod 256] ++ input.
Proof.
  intros input typ H. unfold add_record_layer. cbn [be_enc app fit firstn zeros repeat].
  change (256 ^ N.of_nat 1) with 256. change (256 ^ N.of_nat 0) with 1.
  rewrite N.div_1_r. replace ((lenN input / 256) mod 256) with (lenN input / 256) by lia. reflexivity.
Qed.

Lemma tlsconn_read_record : forall typ v1 v0 body rest bufsize,
  lenN body < 65536 -> (5 <= bufsize)%nat -> (length body <= bufsize)%nat ->
  tlsconn_read bufsize ([typ; v1; v0; lenN body / 256; lenN body mod 256] ++ body ++ rest) = Some (body, rest).
Proof.
  intros typ v1 v0 body rest bufsize Hl Hb Hb2. unfold tlsconn_read.
  replace (bufsize <? 5)%nat with false by (symmetry; apply Nat.ltb_ge; lia).
  change ([typ; v1; v0; lenN body / 256; lenN body mod 256] ++ body ++ rest)
    with ([typ; v1; v0; lenN body / 256; lenN body mod 256] ++ (body ++ rest)).
  rewrite (g_take_app_n 5) by reflexivity.
  unfold sub. cbn [skipn firstn Nat.sub]. unfold be_dec. cbn [fold_left].
  replace ((0 * 256 + lenN body / 256) * 256 + lenN body mod 256) with (lenN body) by lia.
  rewrite to_nat_lenN.
  replace (bufsize <? length body)%nat with false by (symmetry; apply Nat.ltb_ge; lia).
  apply g_take_app.
Qed.

(* ------------------------------------------------------------------------------ agreement *)
Lemma sub_split_64 : forall ct, length ct = 64%nat -> sub 0 32 ct ++ sub 32 64 ct = ct.
Proof.
  intros ct H. unfold sub. cbn [skipn]. change (32 - 0)%nat with 32%nat. change (64 - 32)%nat with 32%nat.
  rewrite <- (firstn_skipn 32 ct) at 3. f_equal. apply firstn_all2. rewrite skipn_length. lia.
Qed.

Section Agreement.
  Variable dh : list N -> list N -> option (list N).
  Variable pub : list N -> list N.
  Variable seal : list N -> list N -> list N -> list N -> list N.
  Variable open : list N -> list N -> list N -> list N -> option (list N).

  (* NOT proved for X25519: validated against Go on every run *)
  Hypothesis dh_comm : forall a b, dh a (pub b) = dh b (pub a).
  Hypothesis pub_length : forall a, length (pub a) = 32%nat.
  Hypothesis open_seal : forall k n p a, open k n (seal k n p a) a = Some p.
  Hypothesis seal_length : forall k n p a, length (seal k n p a) = (length p + 16)%nat.

  Lemma client_payload_ok : forall i ts ephPv staticPv secret, length (i_uid i) = 16%nat ->
    dh ephPv (pub staticPv) = Some secret ->
    client_payload dh pub seal i ts ephPv (pub staticPv) =
    Some (pub ephPv, seal (fit 32 secret) (firstn 12 (pub ephPv)) (pack i ts) [], fit 32 secret) /\
    length (seal (fit 32 secret) (firstn 12 (pub ephPv)) (pack i ts) []) = 64%nat.
  Proof.
    intros i ts ephPv staticPv secret Hu Hdh. unfold client_payload. rewrite Hdh.
    rewrite (fit_exact 32 (pub ephPv)) by apply pub_length.
    assert (L : length (seal (fit 32 secret) (firstn 12 (pub ephPv)) (pack i ts) []) = 64%nat)
      by (rewrite seal_length, pack_length by exact Hu; reflexivity).
    rewrite (fit_exact 64 _ L). split; [reflexivity|exact L].
  Qed.

  Lemma decrypt_ok : forall i ts now shared randPub sid,
    info_in_domain i -> ts < 2 ^ 64 -> in_window ts now = true ->
    decrypt_client_info open shared randPub (seal shared (firstn 12 randPub) (pack i ts) []) sid now
    = Accept i shared sid.
  Proof.
    intros i ts now shared randPub sid Hd Ht Hw. unfold decrypt_client_info.
    rewrite open_seal. rewrite plaintext_roundtrip by assumption. reflexivity.
  Qed.

  (* direct transport, for every ClientHello in which the grammar finds the three fields *)
  Lemma agreement_tls_located : forall i ts s_now ephPv staticPv secret hello key nonce filler cert,
    info_in_domain i -> ts < 2 ^ 64 -> in_window ts s_now = true ->
    dh ephPv (pub staticPv) = Some secret ->
    length key = 32%nat -> length nonce = 12%nat -> (length cert <= 1024)%nat ->
    let shared := fit 32 secret in
    let ct := seal shared (firstn 12 (pub ephPv)) (pack i ts) [] in
    locate_fields hello = Some (pub ephPv, sub 0 32 ct, sub 32 64 ct) ->
    server_process_tls dh open hello staticPv s_now = Accept i shared (sub 0 32 ct) /\
    client_finish_tls open shared (server_reply_tls seal shared (sub 0 32 ct) key nonce filler cert) = Some key.
  Proof.
    intros i ts s_now ephPv staticPv secret hello key nonce filler cert Hd Ht Hw Hdh Hk Hn Hc shared ct Hloc.
    assert (Hu : length (i_uid i) = 16%nat) by apply Hd.
    destruct (client_payload_ok i ts ephPv staticPv secret Hu Hdh) as [_ Lct]. fold shared in Lct. fold ct in Lct.
    assert (Ls : length (sub 0 32 ct) = 32%nat) by (apply sub_length; lia).
    split.
    - unfold server_process_tls. rewrite Hloc.
      rewrite (fit_exact 32 (pub ephPv)) by apply pub_length.
      rewrite dh_comm, Hdh. rewrite sub_split_64 by exact Lct. rewrite Lct. cbn [Nat.eqb negb].
      rewrite (fit_exact 64 ct Lct). fold shared. unfold ct. apply decrypt_ok; assumption.
    - unfold server_reply_tls, client_finish_tls.
      rewrite (fit_exact 12 nonce Hn).
      set (ek := seal shared nonce key []).
      assert (Lek : length ek = 48%nat) by (unfold ek; rewrite seal_length, Hk; reflexivity).
      rewrite (fit_exact 48 ek Lek).
      unfold compose_reply.
      set (sh := compose_server_hello (sub 0 32 ct) nonce ek filler).
      assert (Lsh : length sh = 122%nat) by (apply compose_server_hello_length; exact Ls).
      assert (LshN : lenN sh = 122) by (unfold lenN; rewrite Lsh; reflexivity).
      rewrite (add_record_layer_eq sh) by lia.
      rewrite (add_record_layer_eq [1]) by (cbn; lia).
      rewrite (add_record_layer_eq cert) by (unfold lenN; lia).
      rewrite <- !app_assoc.
      rewrite (tlsconn_read_record 0x16 3 3 sh) by (try rewrite LshN; try rewrite Lsh; lia).
      (* buf = sh ++ zeros *)
      rewrite (put_at_mid 0 sh (zeros 1024) [] (zeros 122) (zeros 902));
        [|reflexivity|reflexivity|rewrite zeros_length; lia].
      rewrite app_nil_l.
      destruct (client_offsets (sub 0 32 ct) nonce ek filler (zeros 902) Ls) as [E1 E2]. cbv zeta in E1, E2.
      fold sh in E1, E2. rewrite E1, E2.
      destruct (reassembly nonce ek filler Hn Lek) as [R1 R2]. cbv zeta in R1, R2. rewrite R1, R2.
      unfold ek. rewrite open_seal.
      rewrite (tlsconn_read_record 0x14 3 3 [1]) by (cbn; lia).
      replace ([23; 3; 3; lenN cert / 256; lenN cert mod 256] ++ cert)
        with ([23; 3; 3; lenN cert / 256; lenN cert mod 256] ++ cert ++ []) by (rewrite app_nil_r; reflexivity).
      rewrite (tlsconn_read_record 0x17 3 3 cert []) by (unfold lenN; lia).
      rewrite (fit_exact 32 key Hk). reflexivity.
  Qed.

  (* direct transport, hello written by the composer from any well-formed skeleton *)
  Lemma agreement_tls : forall sk i c_now s_now ephPv staticPv secret key nonce filler cert,
    wf_skeleton sk = true ->
    info_in_domain i -> in_window (client_ts c_now) s_now = true ->
    dh ephPv (pub staticPv) = Some secret ->
    length key = 32%nat -> length nonce = 12%nat -> (length cert <= 1024)%nat ->
    exists hello shared sid,
      client_first_packet_tls dh pub seal sk i (client_ts c_now) ephPv (pub staticPv) = Some (hello, shared) /\
      server_process_tls dh open hello staticPv s_now = Accept i shared sid /\
      client_finish_tls open shared (server_reply_tls seal shared sid key nonce filler cert) = Some key.
  Proof.
    intros sk i c_now s_now ephPv staticPv secret key nonce filler cert Hsk Hd Hw Hdh Hk Hn Hc.
    assert (Hu : length (i_uid i) = 16%nat) by apply Hd.
    assert (Ht : client_ts c_now < 2 ^ 64).
    { unfold client_ts. assert (0 <= (c_now / ns_per_s) mod 2 ^ 64 < 2 ^ 64)%Z by (apply Z.mod_pos_bound; reflexivity). lia. }
    destruct (client_payload_ok i (client_ts c_now) ephPv staticPv secret Hu Hdh) as [Ep Lct].
    set (shared := fit 32 secret) in *. set (ct := seal shared (firstn 12 (pub ephPv)) (pack i (client_ts c_now)) []) in *.
    exists (mk_client_hello sk (pub ephPv) (sub 0 32 ct) (sub 32 64 ct)), shared, (sub 0 32 ct).
    split; [unfold client_first_packet_tls; rewrite Ep; reflexivity|].
    apply (agreement_tls_located i (client_ts c_now) s_now ephPv staticPv secret _ key nonce filler cert); try assumption.
    assert (L1 : length (sub 0 32 ct) = 32%nat) by (rewrite sub_length by (rewrite Lct; lia); reflexivity).
    assert (L2 : length (sub 32 64 ct) = 32%nat) by (rewrite sub_length by (rewrite Lct; lia); reflexivity).
    apply locate_mk_client_hello; [exact Hsk|apply pub_length|exact L1|exact L2].
  Qed.

  (* CDN transport: from the `hidden` header to the 60-byte message.  base64 carries bytes: *)
  Hypothesis pub_bytes : forall a, wf_bytes (pub a).
  Hypothesis seal_bytes : forall k n p a, wf_bytes (seal k n p a).

  Lemma agreement_ws : forall i c_now s_now ephPv staticPv secret key nonce,
    info_in_domain i -> in_window (client_ts c_now) s_now = true ->
    dh ephPv (pub staticPv) = Some secret ->
    length key = 32%nat -> length nonce = 12%nat ->
    exists hidden shared,
      client_first_packet_ws dh pub seal i (client_ts c_now) ephPv (pub staticPv) = Some (hidden, shared) /\
      server_process_ws dh open hidden staticPv s_now = Accept i shared [] /\
      client_finish_ws open shared (server_reply_ws seal shared key nonce) = Some key.
  Proof.
    intros i c_now s_now ephPv staticPv secret key nonce Hd Hw Hdh Hk Hn.
    assert (Hu : length (i_uid i) = 16%nat) by apply Hd.
    assert (Ht : client_ts c_now < 2 ^ 64).
    { unfold client_ts. assert (0 <= (c_now / ns_per_s) mod 2 ^ 64 < 2 ^ 64)%Z by (apply Z.mod_pos_bound; reflexivity). lia. }
    destruct (client_payload_ok i (client_ts c_now) ephPv staticPv secret Hu Hdh) as [Ep Lct].
    set (shared := fit 32 secret) in *. set (ct := seal shared (firstn 12 (pub ephPv)) (pack i (client_ts c_now)) []) in *.
    exists (b64_encode (pub ephPv ++ ct)), shared.
    split; [unfold client_first_packet_ws; rewrite Ep; reflexivity|]. split.
    - unfold server_process_ws. rewrite b64_roundtrip.
      2:{ apply Forall_app. split; [apply pub_bytes|apply seal_bytes]. }
      rewrite app_length, pub_length, Lct. cbn [Nat.ltb Nat.leb].
      assert (E1 : sub 0 32 (pub ephPv ++ ct) = pub ephPv).
      { apply (sub_mid _ [] (pub ephPv) ct); [reflexivity|reflexivity|rewrite pub_length; reflexivity]. }
      assert (E2 : skipn 32 (pub ephPv ++ ct) = ct).
      { rewrite skipn_app, pub_length, Nat.sub_diag. rewrite skipn_all2 by (rewrite pub_length; lia). reflexivity. }
      rewrite E1, E2, (fit_exact 32 (pub ephPv)) by apply pub_length.
      rewrite dh_comm, Hdh, Lct. cbn [Nat.eqb negb]. rewrite (fit_exact 64 ct Lct).
      fold shared. unfold ct. apply decrypt_ok; assumption.
    - unfold client_finish_ws, server_reply_ws.
      rewrite app_length, seal_length, Hn, Hk. cbn [Nat.add Nat.eqb negb].
      assert (E1 : sub 0 12 (nonce ++ seal shared nonce key []) = nonce).
      { apply (sub_mid _ [] nonce (seal shared nonce key [])); [reflexivity|reflexivity|rewrite Hn; reflexivity]. }
      assert (E2 : skipn 12 (nonce ++ seal shared nonce key []) = seal shared nonce key []).
      { rewrite skipn_app, Hn, Nat.sub_diag. rewrite skipn_all2 by lia. reflexivity. }
      rewrite E1, E2, open_seal, (fit_exact 32 key Hk). reflexivity.
  Qed.
End Agreement.

(* ------------------------------------------------------------------------------ instances *)
From Cloak Require Import Model.Crypto.X25519 Model.Crypto.GCM Proofs.Crypto.

Lemma le_encode_length : forall n z, length (le_encode n z) = n.
Proof. induction n; intros; cbn [le_encode length]; [reflexivity|]. rewrite IHn. reflexivity. Qed.
Lemma pub_x25519_length : forall a, length (pub_x25519 a) = 32%nat.
Proof. intros. unfold pub_x25519, x25519_base, x25519. apply le_encode_length. Qed.

(* the AEAD hypotheses hold of the Gallina AES-GCM (any key length the model accepts) *)
Lemma agreement_tls_gcm : forall dh pub,
  (forall a b, dh a (pub b) = dh b (pub a)) -> (forall a, length (pub a) = 32%nat) ->
  forall sk i c_now s_now ephPv staticPv secret key nonce filler cert,
  wf_skeleton sk = true ->
  info_in_domain i -> in_window (client_ts c_now) s_now = true ->
  dh ephPv (pub staticPv) = Some secret ->
  length key = 32%nat -> length nonce = 12%nat -> (length cert <= 1024)%nat ->
  exists hello shared sid,
    client_first_packet_tls dh pub gcm_seal sk i (client_ts c_now) ephPv (pub staticPv) = Some (hello, shared) /\
    server_process_tls dh gcm_open hello staticPv s_now = Accept i shared sid /\
    client_finish_tls gcm_open shared (server_reply_tls gcm_seal shared sid key nonce filler cert) = Some key.
Proof.
  intros dh pub Hc Hl. apply (agreement_tls dh pub gcm_seal gcm_open Hc Hl gcm_open_seal gcm_seal_length).
Qed.

(* the hypotheses of the agreement theorems are satisfiable (a toy commutative "DH" and a toy AEAD) *)
Definition toy_pub (a : list N) : list N := fit 32 a.
Fixpoint toy_add (a b : list N) : list N :=
  match a, b with x :: a', y :: b' => (x + y) mod 256 :: toy_add a' b' | _, _ => [] end.
Definition toy_dh (a b : list N) : option (list N) := Some (toy_add (fit 32 a) (fit 32 b)).
Definition toy_seal (k n p a : list N) : list N := p ++ zeros 16.
Definition toy_open (k n c a : list N) : option (list N) := Some (firstn (length c - 16) c).

Lemma toy_add_comm : forall a b, toy_add a b = toy_add b a.
Proof. induction a; destruct b; cbn [toy_add]; try reflexivity. rewrite IHa, N.add_comm. reflexivity. Qed.
Lemma fit_idem : forall n l, fit n (fit n l) = fit n l.
Proof. intros. apply fit_exact. apply fit_length. Qed.

Example agreement_hypotheses_inhabited :
  (forall a b, toy_dh a (toy_pub b) = toy_dh b (toy_pub a)) /\
  (forall a, length (toy_pub a) = 32%nat) /\
  (forall k n p a, toy_open k n (toy_seal k n p a) a = Some p) /\
  (forall k n p a, length (toy_seal k n p a) = (length p + 16)%nat).
Proof.
  repeat split; intros.
  - unfold toy_dh, toy_pub. rewrite !fit_idem. f_equal. apply toy_add_comm.
  - apply fit_length.
  - unfold toy_open, toy_seal. rewrite app_length, zeros_length.
    replace (length p + 16 - 16)%nat with (length p) by lia.
    rewrite firstn_app, Nat.sub_diag, firstn_all. cbn [firstn]. rewrite app_nil_r. reflexivity.
  - unfold toy_seal. rewrite app_length, zeros_length. reflexivity.
Qed.

(* a concrete skeleton (the shape of a Firefox hello: SNI first, a P-256 share after the X25519 one) *)
Definition ex_name : list N := [119;119;119;46;101;120;97;109;112;108;101;46;99;111;109].
Definition ex_skeleton : skeleton :=
  mkSk [0x13;0x01;0x13;0x03;0x13;0x02;0xc0;0x2b] [0]
       [(0, [0;18;0;0;15] ++ ex_name); (23, []); (10, [0;4;0;29;0;23]); (43, [4;3;4;3;3])]
       [] [(23, repeat 7 65)] [(45, [1;1])].
Example ex_skeleton_wf :
  wf_skeleton ex_skeleton = true /\
  wf_client_hello ex_name (mk_client_hello ex_skeleton (repeat 1 32) (repeat 2 32) (repeat 3 32)) = true.
Proof. split; vm_compute; reflexivity. Qed.
Example ex_info_in_domain : info_in_domain (mkInfo ex_uid [115;115] 1 (2 ^ 32 - 1) true).
Proof. repeat split; cbn; try lia; discriminate. Qed.
