(* Proofs about Model/FirstPacket.v (readFirstPacket, connReadLine, relay). *)
From Coq Require Import NArith ZArith List Bool Arith Lia.
From Coq Require Import ZifyN ZifyNat ZifyBool.
From Cloak Require Import Gen.Consts Model.Hello Model.FirstPacket.
Import ListNotations.
Local Open Scope N_scope.

(* ------------------------------------------------------------------ generated obligation *)
Lemma fps_ge_5 : (5 <= fps)%nat.
Proof. unfold fps, server_firstPacketSize. lia. Qed.

(* ------------------------------------------------------------------ io.ReadFull, any segmentation *)
Lemma read_full_seg_flat : forall chunks n,
  let '(d, rest, ok) := read_full_seg n chunks in
  d = firstn n (concat chunks) /\ concat rest = skipn n (concat chunks)
  /\ ok = (n <=? length (concat chunks))%nat.
Proof.
  induction chunks as [|c cs IH]; intros n.
  - destruct n; cbn; auto.
  - destruct n as [|n'].
    + cbn. auto.
    + cbn [read_full_seg concat].
      destruct (length c <=? S n')%nat eqn:Hle.
      * apply Nat.leb_le in Hle.
        specialize (IH (S n' - length c)%nat).
        destruct (read_full_seg (S n' - length c) cs) as [[d rest] ok].
        destruct IH as (Hd & Hr & Hok).
        rewrite firstn_app, skipn_app, app_length.
        rewrite (firstn_all2 c) by lia. rewrite (skipn_all2 c) by lia.
        cbn [app]. subst d. repeat split; auto.
        rewrite Hok. apply eq_true_iff_eq. rewrite !Nat.leb_le. lia.
      * apply Nat.leb_gt in Hle.
        rewrite firstn_app, skipn_app, app_length.
        replace (S n' - length c)%nat with 0%nat by lia.
        cbn [firstn skipn concat]. rewrite app_nil_r. repeat split; auto.
        symmetry. apply Nat.leb_le. lia.
Qed.

Lemma read_full_seg_eq : forall chunks n,
  let '(d, rest, ok) := read_full_seg n chunks in
  read_full n (concat chunks) = (d, concat rest, ok).
Proof.
  intros chunks n. pose proof (read_full_seg_flat chunks n) as H.
  destruct (read_full_seg n chunks) as [[d rest] ok]. destruct H as (-> & -> & ->). reflexivity.
Qed.

(* ------------------------------------------------------------------ connReadLine *)
Lemma read_line_spec : forall room conn l c st,
  read_line room conn = (l, c, st) ->
  conn = l ++ c /\ (length l <= room)%nat /\
  match st with
  | LOk => exists body, l = body ++ [10] /\ ~ In 10 body
  | LShort => length l = room /\ ~ In 10 l
  | LErr => c = [] /\ ~ In 10 l /\ (length l < room)%nat
  end.
Proof.
  induction room as [|room IH]; intros conn l c st H.
  - cbn in H. inversion H; subst. cbn. auto.
  - cbn [read_line] in H. destruct conn as [|b conn'].
    + inversion H; subst. cbn. repeat split; auto; lia.
    + destruct (b =? 10) eqn:Hb.
      * apply N.eqb_eq in Hb. inversion H; subst. cbn. repeat split; try lia.
        exists []. auto.
      * apply N.eqb_neq in Hb.
        destruct (read_line room conn') as [[l' c'] st'] eqn:Hr.
        inversion H; subst. specialize (IH _ _ _ _ Hr). destruct IH as (Hc & Hl & Hs).
        subst conn'. cbn [app length]. repeat split; try lia.
        destruct st.
        -- destruct Hs as (body & -> & Hn). exists (b :: body). split; auto.
           intros [E|E]; [congruence | auto].
        -- destruct Hs as (Hlen & Hn). split; [lia|]. intros [E|E]; [congruence|auto].
        -- destruct Hs as (-> & Hn & Hlt). repeat split; auto; try lia.
           intros [E|E]; [congruence|auto].
Qed.

(* a well-formed line is read back exactly when there is room for it *)
Lemma read_line_line : forall body rest room,
  ~ In 10 body -> (length body < room)%nat ->
  read_line room ((body ++ [10]) ++ rest) = (body ++ [10], rest, LOk).
Proof.
  induction body as [|b body IH]; intros rest room Hn Hroom.
  - destruct room; [cbn in Hroom; lia|]. cbn. reflexivity.
  - destruct room; [cbn in Hroom; lia|].
    cbn [app read_line].
    destruct (b =? 10) eqn:Hb.
    + apply N.eqb_eq in Hb. exfalso. apply Hn. left. auto.
    + rewrite IH.
      * reflexivity.
      * intros E. apply Hn. right. auto.
      * cbn in Hroom. lia.
Qed.

(* ------------------------------------------------------------------ specification vocabulary *)
Definition is_line (l : list N) : Prop := exists body, l = body ++ [10] /\ ~ In 10 body.
Definition head_line (l : list N) : Prop := is_line l /\ l <> [CR; LF].

(* a complete request head that fits the buffer: 'G', lines, then the empty line *)
Definition http_complete (bsz : nat) (s : list N) : Prop :=
  exists lines tail, s = 0x47 :: concat lines ++ [CR; LF] ++ tail /\ Forall head_line lines
                     /\ (1 + length (concat lines) + 2 <= bsz)%nat.
(* a request whose head does not end within the buffer *)
Definition http_overlong (bsz : nat) (s : list N) : Prop :=
  exists u, s = 0x47 :: u /\ (bsz <= length s)%nat /\ ~ http_complete bsz s.
Definition tls_complete (bsz : nat) (s : list N) : Prop :=
  exists t1 t2 hi lo body tail, s = 0x16 :: t1 :: t2 :: hi :: lo :: body ++ tail
    /\ N.of_nat (length body) = hi * 256 + lo /\ hi * 256 + lo + 5 <= N.of_nat bsz.
Definition tls_oversize (bsz : nat) (s : list N) : Prop :=
  exists t1 t2 hi lo tail, s = 0x16 :: t1 :: t2 :: hi :: lo :: tail /\ N.of_nat bsz < hi * 256 + lo + 5.
Definition unrecognised (s : list N) : Prop :=
  exists b t, s = b :: t /\ b <> 0x16 /\ b <> 0x47.

(* "the peer has sent a complete first record or request, or something unrecognisable" *)
Definition sent_enough (bsz : nat) (s : list N) : Prop :=
  tls_complete bsz s \/ tls_oversize bsz s \/ http_complete bsz s \/ http_overlong bsz s \/ unrecognised s.

(* ------------------------------------------------------------------ the 0x47 loop *)
Definition wf_out (s : list N) (bsz : nat) (r : rfp_out) : Prop :=
  r_buf r ++ r_rest r = s /\ r_n r = length (r_buf r) /\ (r_n r <= bsz)%nat.

Lemma first_line_unique : forall body body0 rest rest0,
  ~ In 10 body -> ~ In 10 body0 ->
  (body ++ [10]) ++ rest = (body0 ++ [10]) ++ rest0 -> body = body0 /\ rest = rest0.
Proof.
  induction body as [|b body IHb]; intros body0 rest rest0 Hnb Hnb0 H.
  - destruct body0 as [|c0 body0]; cbn in H.
    + inversion H. auto.
    + inversion H as [[Hc0 Hrest]]. exfalso. apply Hnb0. left. auto.
  - destruct body0 as [|c0 body0]; cbn in H.
    + inversion H as [[Hc0 Hrest]]. exfalso. apply Hnb. left. auto.
    + inversion H as [[Hc0 Hrest]].
      destruct (IHb body0 rest rest0) as [E1 E2]; auto.
      * intros E. apply Hnb. right. auto.
      * intros E. apply Hnb0. right. auto.
      * split; auto. f_equal. auto.
Qed.

Lemma crlf_is_line : [CR; LF] = [CR] ++ [10] /\ ~ In 10 [CR].
Proof. split; [reflexivity|]. unfold CR. cbn. intros [E|[]]. discriminate. Qed.

(* if the stream begins with a line that is not the blank line, every decomposition into head lines
   followed by the blank line begins with that very line *)
Lemma head_decomp_step : forall body conn' lines tail,
  ~ In 10 body -> body ++ [10] <> [CR; LF] ->
  (body ++ [10]) ++ conn' = concat lines ++ [CR; LF] ++ tail -> Forall head_line lines ->
  exists lines', lines = (body ++ [10]) :: lines' /\ conn' = concat lines' ++ [CR; LF] ++ tail
                 /\ Forall head_line lines'.
Proof.
  intros body conn' lines tail Hnb Hne H Hf.
  destruct lines as [|l0 lines'].
  - exfalso. cbn [concat app] in H.
    destruct crlf_is_line as [Hcl Hcn].
    change (CR :: LF :: tail) with ([CR; LF] ++ tail) in H. rewrite Hcl in H.
    destruct (first_line_unique _ _ _ _ Hnb Hcn H) as [E1 E2].
    apply Hne. rewrite E1. reflexivity.
  - inversion Hf as [|? ? Hl0 Hf' [Ea Eb]].
    destruct Hl0 as ((body0 & Hl0 & Hnb0) & Hne0).
    cbn [concat] in H. rewrite Hl0 in H. rewrite <- (app_assoc (body0 ++ [10])) in H.
    destruct (first_line_unique _ _ _ _ Hnb Hnb0 H) as [E1 E2].
    exists lines'. rewrite Hl0, E1. auto.
Qed.

Lemma bytes_eqb_true : forall a b, bytes_eqb a b = true -> a = b.
Proof.
  induction a as [|x a IH]; destruct b as [|y b]; cbn; intros H; try discriminate; auto.
  apply andb_prop in H as [H1 H2]. apply N.eqb_eq in H1. f_equal; auto.
Qed.
Lemma bytes_eqb_refl : forall a, bytes_eqb a a = true.
Proof. induction a; cbn; auto. rewrite N.eqb_refl. auto. Qed.

Lemma ws_loop_spec : forall fuel bsz e buf n conn,
  (bsz < fuel + n)%nat -> n = length buf -> (n <= bsz)%nat ->
  let r := ws_loop fuel bsz e buf n conn in
  wf_out (buf ++ conn) bsz r /\ r_tr r = TWS /\
  ( (r_err r = RNone /\ r_redir r = true /\ r_closed r = false /\
       exists lines tail, conn = concat lines ++ [CR; LF] ++ tail /\ Forall head_line lines
                          /\ r_buf r = buf ++ concat lines ++ [CR; LF] /\ r_rest r = tail)
    \/ (r_err r = RShortBuffer /\ r_redir r = true /\ r_closed r = false /\ r_n r = bsz /\
        ~ exists lines tail, conn = concat lines ++ [CR; LF] ++ tail /\ Forall head_line lines
                             /\ (n + length (concat lines) + 2 <= bsz)%nat)
    \/ (r_err r = RRead e /\ r_redir r = false /\ r_closed r = true /\ r_rest r = [] /\ (r_n r < bsz)%nat /\
        ~ exists lines tail, conn = concat lines ++ [CR; LF] ++ tail /\ Forall head_line lines) ).
Proof.
  induction fuel as [|fuel IH]; intros bsz e buf n conn Hfuel Hn Hle.
  - exfalso. lia.
  - cbn [ws_loop].
    destruct (read_line (bsz - n) conn) as [[line conn'] st] eqn:Hrl.
    pose proof (read_line_spec _ _ _ _ _ Hrl) as (Hconn & Hlen & Hst).
    destruct st.
    + (* LOk *)
      destruct Hst as (body & Hline & Hnb).
      destruct (bytes_eqb line [CR; LF]) eqn:Hcr.
      * (* blank line: done *)
        apply bytes_eqb_true in Hcr.
        cbn. split; [|split; [reflexivity|]].
        -- unfold wf_out; cbn. rewrite Hconn. rewrite app_length. rewrite <- app_assoc. repeat split; auto; lia.
        -- left. repeat split; auto. exists [], conn'. cbn. rewrite Hconn, Hcr. repeat split; auto.
      * (* another header line *)
        assert (line <> [CR; LF]) as Hne.
        { intros E. rewrite E in Hcr. rewrite bytes_eqb_refl in Hcr. discriminate. }
        assert (1 <= length line)%nat as Hpos.
        { rewrite Hline. rewrite app_length. cbn. lia. }
        specialize (IH bsz e (buf ++ line) (n + length line)%nat conn').
        destruct IH as (Hwf & Htr & Hcases).
        { lia. } { rewrite app_length. lia. } { lia. }
        split; [|split; [exact Htr|]].
        -- unfold wf_out in *. destruct Hwf as (Ha & Hb & Hc). rewrite Hconn.
           rewrite <- app_assoc in Ha. auto.
        -- destruct Hcases as [H1 | [H2 | H3]].
           ++ left. destruct H1 as (A & B & C & lines & tail & Hc' & Hf & Hb & Hr).
              repeat split; auto. exists (line :: lines), tail. cbn [concat].
              split; [rewrite Hconn; rewrite Hc' at 1; rewrite <- !app_assoc; reflexivity|].
              split; [constructor; auto; split; auto; exists body; auto|].
              split; [rewrite Hb; rewrite <- !app_assoc; reflexivity | exact Hr].
           ++ right; left. destruct H2 as (A & B & C & D & E). repeat split; auto.
              intros (lines & tail & Hc' & Hf & Hb).
              apply E. clear E.
              rewrite Hconn, Hline in Hc'. rewrite Hline in Hne.
              destruct (head_decomp_step _ _ _ _ Hnb Hne Hc' Hf) as (lines' & El & Ec & Hf').
              exists lines', tail. repeat split; auto.
              rewrite El in Hb. cbn [concat] in Hb. rewrite app_length in Hb. rewrite Hline. lia.
           ++ right; right. destruct H3 as (A & B & C & D & E & F). repeat split; auto.
              intros (lines & tail & Hc' & Hf).
              apply F. clear F.
              rewrite Hconn, Hline in Hc'. rewrite Hline in Hne.
              destruct (head_decomp_step _ _ _ _ Hnb Hne Hc' Hf) as (lines' & El & Ec & Hf').
              exists lines', tail. auto.
    + (* LShort *)
      destruct Hst as (Hroom & Hnl).
      cbn. split; [|split; [reflexivity|]].
      * unfold wf_out; cbn. rewrite Hconn. rewrite app_length, <- app_assoc. repeat split; auto; lia.
      * right; left. repeat split; auto; try lia.
        intros (lines & tail & Hc' & Hf & Hb).
        (* a complete head within the room would put a LF inside `line` *)
        assert (In 10 line) as Hin; [|contradiction].
        rewrite Hconn in Hc'.
        assert (length (concat lines ++ [CR; LF]) <= length line)%nat as Hfit.
        { rewrite app_length. cbn. lia. }
        assert (In 10 (concat lines ++ [CR; LF])) as Hin2.
        { apply in_or_app. right. unfold LF. cbn. auto. }
        change (concat lines ++ CR :: LF :: tail) with (concat lines ++ [CR; LF] ++ tail) in Hc'.
        rewrite app_assoc in Hc'.
        remember (concat lines ++ [CR; LF]) as pre eqn:Hpre. clear Hpre Hb Hf Hnl Hrl Hlen Hroom Hconn.
        revert line Hc' Hfit. induction pre as [|p pre IHp]; intros line Hc' Hfit.
        -- destruct Hin2.
        -- destruct line as [|a line']; [cbn in Hfit; lia|].
           cbn in Hc'. inversion Hc' as [[Ha Hrest]].
           destruct Hin2 as [E|E].
           ++ left. auto.
           ++ right. apply IHp; auto. cbn in Hfit. lia.
    + (* LErr *)
      destruct Hst as (Hc & Hnl & Hlt).
      cbn. split; [|split; [reflexivity|]].
      * unfold wf_out; cbn. rewrite Hconn. rewrite app_length, <- app_assoc. repeat split; auto; lia.
      * right; right. repeat split; auto; try lia.
        intros (lines & tail & Hc' & Hf).
        rewrite Hconn, Hc in Hc'. rewrite app_nil_r in Hc'.
        apply Hnl. rewrite Hc'. apply in_or_app. right. unfold LF. cbn. auto.
Qed.

(* ------------------------------------------------------------------ readFirstPacket: every branch *)
Lemma be_val_2 : forall hi lo, be_val [hi; lo] = hi * 256 + lo.
Proof. intros. unfold be_val. cbn [fold_left]. lia. Qed.

Lemma wf_first_data : forall s bsz r, wf_out s bsz r ->
  first_data r = r_buf r /\ r_buf r = firstn (r_n r) s /\ r_rest r = skipn (r_n r) s /\ relay r = s
  /\ (r_n r <= length s)%nat.
Proof.
  intros s bsz r (Ha & Hb & Hc).
  assert (first_data r = r_buf r) as Hfd.
  { unfold first_data. rewrite Hb. rewrite firstn_app, firstn_all, Nat.sub_diag. cbn. apply app_nil_r. }
  repeat split; auto.
  - rewrite <- Ha, Hb. rewrite firstn_app, firstn_all, Nat.sub_diag. cbn. symmetry. apply app_nil_r.
  - rewrite <- Ha, Hb. rewrite skipn_app, skipn_all, Nat.sub_diag. reflexivity.
  - unfold relay. rewrite Hfd. exact Ha.
  - rewrite <- Ha, app_length. lia.
Qed.

Definition early (bsz : nat) (s : list N) (e : ending) (r : rfp_out) : Prop :=
  r_redir r = false /\ r_closed r = true /\ r_err r = RRead e /\ r_rest r = [] /\ ~ sent_enough bsz s.

Lemma not_enough_short16 : forall bsz s, (length s < 5)%nat -> (exists t, s = 0x16 :: t) -> ~ sent_enough bsz s.
Proof.
  intros bsz s Hlen (t & Hs) [H|[H|[H|[H|H]]]].
  - destruct H as (t1 & t2 & hi & lo & body & tail & E & _). rewrite E in Hlen. cbn in Hlen. lia.
  - destruct H as (t1 & t2 & hi & lo & tail & E & _). rewrite E in Hlen. cbn in Hlen. lia.
  - destruct H as (lines & tail & E & _). rewrite Hs in E. discriminate.
  - destruct H as (u & E & _). rewrite Hs in E. discriminate.
  - destruct H as (b & t' & E & Hb & _). rewrite Hs in E. inversion E. congruence.
Qed.

Lemma rfp_cases : forall bsz s e, (5 <= bsz)%nat ->
  let r := rfp_gen bsz s e in
  wf_out s bsz r /\ r_err r <> RFuel /\
  ( (r_tr r = TTLS /\ r_err r = RNone /\ r_redir r = true /\ r_closed r = false /\
       exists t1 t2 hi lo body tail, s = 0x16 :: t1 :: t2 :: hi :: lo :: body ++ tail
         /\ N.of_nat (length body) = hi * 256 + lo /\ hi * 256 + lo + 5 <= N.of_nat bsz
         /\ r_buf r = 0x16 :: t1 :: t2 :: hi :: lo :: body /\ r_rest r = tail)
    \/ (r_tr r = TTLS /\ r_err r = RShortBuffer /\ r_redir r = true /\ r_closed r = false /\ r_n r = 5%nat /\
        tls_oversize bsz s)
    \/ (r_tr r = TWS /\ r_err r = RNone /\ r_redir r = true /\ r_closed r = false /\
        exists lines tail, s = 0x47 :: concat lines ++ [CR; LF] ++ tail /\ Forall head_line lines
          /\ (1 + length (concat lines) + 2 <= bsz)%nat
          /\ r_buf r = 0x47 :: concat lines ++ [CR; LF] /\ r_rest r = tail)
    \/ (r_tr r = TWS /\ r_err r = RShortBuffer /\ r_redir r = true /\ r_closed r = false /\ r_n r = bsz /\
        http_overlong bsz s)
    \/ (r_tr r = TNone /\ r_err r = RUnrecognised /\ r_redir r = true /\ r_closed r = false /\ r_n r = 1%nat /\
        unrecognised s)
    \/ early bsz s e r ).
Proof.
  intros bsz s e Hbsz.
  destruct s as [|b0 conn0].
  - (* nothing at all *)
    cbn. split; [unfold wf_out; cbn; repeat split; auto; lia|]. split; [discriminate|].
    do 5 right. unfold early; cbn. repeat split; auto.
    intros [H|[H|[H|[H|H]]]].
    + destruct H as (? & ? & ? & ? & ? & ? & E & _). discriminate.
    + destruct H as (? & ? & ? & ? & ? & E & _). discriminate.
    + destruct H as (? & ? & E & _). discriminate.
    + destruct H as (? & E & _). discriminate.
    + destruct H as (? & ? & E & _). discriminate.
  - unfold rfp_gen, read_full.
    change (firstn 1 (b0 :: conn0)) with [b0].
    change (skipn 1 (b0 :: conn0)) with conn0.
    change (1 <=? length (b0 :: conn0))%nat with true.
    cbn [negb nth].
    destruct (b0 =? 0x16) eqn:H16.
    + apply N.eqb_eq in H16. subst b0.
      destruct (4 <=? length conn0)%nat eqn:Hhdr.
      2:{ (* header incomplete *)
        apply Nat.leb_gt in Hhdr. cbn [negb].
        rewrite (firstn_all2 conn0) by lia. rewrite (skipn_all2 conn0) by lia.
        split; [unfold wf_out; cbn; rewrite app_nil_r; repeat split; auto; lia|]. split; [cbn; discriminate|].
        do 5 right. unfold early; cbn. repeat split; auto.
        apply not_enough_short16; [cbn; lia | eauto]. }
      apply Nat.leb_le in Hhdr. cbn [negb].
      destruct conn0 as [|t1 [|t2 [|hi [|lo rest]]]]; cbn in Hhdr; try lia.
      cbn [firstn skipn app length].
      rewrite be_val_2.
      destruct (N.of_nat bsz <? hi * 256 + lo + 5) eqn:Hbig.
      * (* record cannot fit *)
        apply N.ltb_lt in Hbig.
        split; [unfold wf_out; cbn; repeat split; auto; lia|]. split; [cbn; discriminate|].
        right; left. cbn. repeat split; auto. exists t1, t2, hi, lo, rest. auto.
      * apply N.ltb_ge in Hbig.
        remember (N.to_nat (hi * 256 + lo)) as dl eqn:Hdl.
        destruct (dl <=? length rest)%nat eqn:Hbody; cbn [negb].
        -- apply Nat.leb_le in Hbody.
           split; [unfold wf_out; cbn; rewrite firstn_length_le by lia;
                   rewrite firstn_skipn; repeat split; auto; lia|].
           split; [cbn; discriminate|].
           left. cbn. repeat split; auto.
           exists t1, t2, hi, lo, (firstn dl rest), (skipn dl rest).
           rewrite firstn_skipn. rewrite firstn_length_le by lia. repeat split; auto; lia.
        -- apply Nat.leb_gt in Hbody.
           rewrite (firstn_all2 rest) by lia. rewrite (skipn_all2 rest) by lia.
           split; [unfold wf_out; cbn; rewrite app_nil_r; repeat split; auto; lia|].
           split; [cbn; discriminate|].
           do 5 right. unfold early; cbn. repeat split; auto.
           intros [H|[H|[H|[H|H]]]].
           ++ destruct H as (a1 & a2 & h & l & body & tail & E & Hl & Hfit).
              inversion E; subst. rewrite app_length in Hbody. lia.
           ++ destruct H as (a1 & a2 & h & l & tail & E & Hov). inversion E; subst. lia.
           ++ destruct H as (? & ? & E & _). discriminate.
           ++ destruct H as (? & E & _). discriminate.
           ++ destruct H as (b & t' & E & Hb & _). inversion E. congruence.
    + destruct (b0 =? 0x47) eqn:H47.
      * apply N.eqb_eq in H47. subst b0. apply N.eqb_neq in H16.
        pose proof (ws_loop_spec (S bsz) bsz e [0x47] 1 conn0) as Hspec.
        cbn zeta in Hspec. destruct Hspec as (Hwf & Htr & Hc); [lia | reflexivity | lia |].
        cbn [app] in Hwf.
        split; [exact Hwf|].
        destruct Hc as [H1|[H2|H3]].
        -- destruct H1 as (A & B & C & lines & tail & Ec & Hf & Hb & Hr).
           split; [rewrite A; discriminate|].
           do 2 right; left. repeat split; auto.
           exists lines, tail. repeat split; auto.
           ++ rewrite Ec. reflexivity.
           ++ destruct Hwf as (_ & Hn & Hle). rewrite Hn, Hb in Hle. cbn in Hle.
              rewrite app_length in Hle. cbn in Hle. lia.
        -- destruct H2 as (A & B & C & D & E).
           split; [rewrite A; discriminate|].
           do 3 right; left. repeat split; auto.
           exists conn0. split; [reflexivity|].
           destruct (wf_first_data _ _ _ Hwf) as (_ & _ & _ & _ & Hlen). split; [lia|].
           intros (lines & tail & Es & Hf & Hfit). apply E.
           inversion Es as [Ec]. exists lines, tail. repeat split; auto; lia.
        -- destruct H3 as (A & B & C & D & E & F).
           split; [rewrite A; discriminate|].
           do 5 right. unfold early. repeat split; auto.
           destruct (wf_first_data _ _ _ Hwf) as (_ & _ & Hrest & _ & Hlen).
           assert (length (0x47 :: conn0) = r_n (ws_loop (S bsz) bsz e [0x47] 1 conn0)) as Hall.
           { destruct Hwf as (Ha & Hb & _). rewrite D, app_nil_r in Ha. rewrite Hb. f_equal. symmetry. exact Ha. }
           intros [H|[H|[H|[H|H]]]].
           ++ destruct H as (? & ? & ? & ? & ? & ? & E' & _). inversion E'.
           ++ destruct H as (? & ? & ? & ? & ? & E' & _). inversion E'.
           ++ destruct H as (lines & tail & Es & Hf & _). apply F. inversion Es.
              exists lines, tail. split; [reflexivity | exact Hf].
           ++ destruct H as (u & Es & Hlong & _). lia.
           ++ destruct H as (b & t' & Es & _ & Hb). inversion Es. congruence.
      * apply N.eqb_neq in H16. apply N.eqb_neq in H47.
        split; [unfold wf_out; cbn; repeat split; auto; lia|]. split; [cbn; discriminate|].
        do 4 right; left. cbn. repeat split; auto. exists b0, conn0. auto.
Qed.

(* ------------------------------------------------------------------ the lemmas the property file uses *)
Lemma consumed_exact : forall bsz s e, (5 <= bsz)%nat ->
  let r := rfp_gen bsz s e in
  r_buf r = firstn (r_n r) s /\ r_rest r = skipn (r_n r) s /\ first_data r = firstn (r_n r) s
  /\ nth_error (r_rest r) 0 = nth_error s (r_n r)
  /\ (r_n r <= bsz)%nat /\ (r_n r <= length s)%nat /\ r_err r <> RFuel.
Proof.
  intros bsz s e Hb. destruct (rfp_cases bsz s e Hb) as (Hwf & Hfuel & _).
  destruct (wf_first_data _ _ _ Hwf) as (Hfd & Hbuf & Hrest & _ & Hlen).
  cbn zeta. repeat split; auto.
  - rewrite Hfd. exact Hbuf.
  - rewrite Hrest. clear. generalize (r_n (rfp_gen bsz s e)). induction s as [|a s IH]; intros [|n]; cbn; auto. apply IH.
  - destruct Hwf as (_ & _ & H). exact H.
Qed.

Lemma target_gets_everything : forall bsz s e, (5 <= bsz)%nat ->
  let r := rfp_gen bsz s e in
  (sent_enough bsz s -> r_redir r = true /\ r_closed r = false /\ relay r = s) /\
  (~ sent_enough bsz s -> r_redir r = false /\ r_closed r = true /\ r_err r = RRead e /\ r_n r = length s).
Proof.
  intros bsz s e Hb. destruct (rfp_cases bsz s e Hb) as (Hwf & _ & Hc).
  destruct (wf_first_data _ _ _ Hwf) as (_ & _ & Hrest & Hrelay & Hlen).
  cbn zeta. split.
  - intros Hs. destruct Hc as [H|[H|[H|[H|[H|H]]]]].
    + destruct H as (_ & _ & A & B & _). auto.
    + destruct H as (_ & _ & A & B & _). auto.
    + destruct H as (_ & _ & A & B & _). auto.
    + destruct H as (_ & _ & A & B & _). auto.
    + destruct H as (_ & _ & A & B & _). auto.
    + destruct H as (_ & _ & _ & _ & Hn). contradiction.
  - intros Hs. destruct Hc as [H|[H|[H|[H|[H|H]]]]].
    + exfalso. apply Hs. left. destruct H as (_ & _ & _ & _ & t1 & t2 & hi & lo & body & tail & E & L & F & _).
      exists t1, t2, hi, lo, body, tail. auto.
    + exfalso. apply Hs. right; left. destruct H as (_ & _ & _ & _ & _ & H). exact H.
    + exfalso. apply Hs. do 2 right; left. destruct H as (_ & _ & _ & _ & lines & tail & E & Hf & Hfit & _).
      exists lines, tail. auto.
    + exfalso. apply Hs. do 3 right; left. destruct H as (_ & _ & _ & _ & _ & H). exact H.
    + exfalso. apply Hs. do 4 right. destruct H as (_ & _ & _ & _ & _ & H). exact H.
    + destruct H as (A & B & C & D & _). repeat split; auto.
      destruct Hwf as (Ha & Hn & _). rewrite D, app_nil_r in Ha. rewrite Hn. f_equal. exact Ha.
Qed.

(* what is handed on per class of stream *)
Lemma class_details : forall bsz s e, (5 <= bsz)%nat ->
  let r := rfp_gen bsz s e in
  (tls_oversize bsz s -> r_err r = RShortBuffer /\ r_n r = 5%nat) /\
  (unrecognised s -> r_err r = RUnrecognised /\ r_n r = 1%nat) /\
  (forall t1 t2 hi lo body tail, s = 0x16 :: t1 :: t2 :: hi :: lo :: body ++ tail ->
     N.of_nat (length body) = hi * 256 + lo -> hi * 256 + lo + 5 <= N.of_nat bsz ->
     r_err r = RNone /\ first_data r = 0x16 :: t1 :: t2 :: hi :: lo :: body /\ r_rest r = tail).
Proof.
  intros bsz s e Hb. destruct (rfp_cases bsz s e Hb) as (Hwf & _ & Hc).
  destruct (wf_first_data _ _ _ Hwf) as (Hfd & _ & _ & _ & _).
  cbn zeta. split; [|split].
  - intros (t1 & t2 & hi & lo & tail & E & Hov).
    destruct Hc as [H|[H|[H|[H|[H|H]]]]].
    + destruct H as (_ & _ & _ & _ & a1 & a2 & h & l & body & tl & E' & L & F & _).
      rewrite E in E'. inversion E'; subst. lia.
    + destruct H as (_ & A & _ & _ & B & _). auto.
    + destruct H as (_ & _ & _ & _ & ? & ? & E' & _). rewrite E in E'. discriminate.
    + destruct H as (_ & _ & _ & _ & _ & u & E' & _). rewrite E in E'. discriminate.
    + destruct H as (_ & _ & _ & _ & _ & b & t' & E' & Hb' & _). rewrite E in E'. inversion E'. congruence.
    + destruct H as (_ & _ & _ & _ & Hn). exfalso. apply Hn. right; left. exists t1, t2, hi, lo, tail. auto.
  - intros (b & t & E & Hb1 & Hb2).
    destruct Hc as [H|[H|[H|[H|[H|H]]]]].
    + destruct H as (_ & _ & _ & _ & a1 & a2 & h & l & body & tl & E' & _). rewrite E in E'. inversion E'. congruence.
    + destruct H as (_ & _ & _ & _ & _ & a1 & a2 & h & l & tl & E' & _). rewrite E in E'. inversion E'. congruence.
    + destruct H as (_ & _ & _ & _ & ? & ? & E' & _). rewrite E in E'. inversion E'. congruence.
    + destruct H as (_ & _ & _ & _ & _ & u & E' & _). rewrite E in E'. inversion E'. congruence.
    + destruct H as (_ & A & _ & _ & B & _). auto.
    + destruct H as (_ & _ & _ & _ & Hn). exfalso. apply Hn. do 4 right. exists b, t. auto.
  - intros t1 t2 hi lo body tail E L F.
    destruct Hc as [H|[H|[H|[H|[H|H]]]]].
    + destruct H as (_ & A & _ & _ & a1 & a2 & h & l & body' & tl & E' & L' & F' & Hbuf & Hrest).
      rewrite E in E'. inversion E' as [[E1 E2 E3 E4 Eb]]. subst a1 a2 h l.
      assert (length body = length body') as Hlen by lia.
      assert (body = body' /\ tail = tl) as [Eb1 Eb2].
      { clear - Eb Hlen. revert body' Eb Hlen. induction body as [|x body IH]; intros [|y body'] Eb Hlen;
          cbn in *; try discriminate; auto.
        inversion Eb. destruct (IH body') as [A B]; auto. split; congruence. }
      subst. rewrite Hfd. auto.
    + destruct H as (_ & _ & _ & _ & _ & a1 & a2 & h & l & tl & E' & Hov).
      rewrite E in E'. inversion E'; subst. lia.
    + destruct H as (_ & _ & _ & _ & ? & ? & E' & _). rewrite E in E'. discriminate.
    + destruct H as (_ & _ & _ & _ & _ & u & E' & _). rewrite E in E'. discriminate.
    + destruct H as (_ & _ & _ & _ & _ & b & t' & E' & Hb' & _). rewrite E in E'. inversion E'. congruence.
    + destruct H as (_ & _ & _ & _ & Hn). exfalso. apply Hn. left. exists t1, t2, hi, lo, body, tail. auto.
Qed.

(* satisfiability of the hypotheses: a 3-byte record, an oversize record, a request, junk, a stalled peer *)
Example ex_tls_complete : tls_complete 3000 [0x16; 3; 1; 0; 3; 7; 8; 9; 42].
Proof. exists 3, 1, 0, 3, [7; 8; 9], [42]. repeat split; cbn; lia. Qed.
Example ex_http_complete : http_complete 3000 ([0x47; 69; 84; 10] ++ [CR; LF] ++ [1; 2]).
Proof.
  exists [[69; 84; 10]], [1; 2]. repeat split; cbn; try lia.
  constructor; [|constructor]. split.
  - exists [69; 84]. split; [reflexivity|]. cbn. intros [E|[E|[]]]; discriminate.
  - unfold CR, LF. discriminate.
Qed.
Example ex_early : ~ sent_enough 3000 [0x16; 3; 1; 0].
Proof. apply not_enough_short16; [cbn; lia | eauto]. Qed.
