(* C13: the (stream id, sequence number) pairs of all stream frames one endpoint puts on the wire
   are pairwise distinct - with the per-session key this is the uniqueness of the AEAD nonce. *)
From Coq Require Import NArith ZArith List Bool Lia.
From Coq Require Import ZifyN ZifyBool.
From Cloak Require Import Model.Reorder Model.Mux Proofs.MuxBase Proofs.MuxSafety Proofs.MuxView
  Proofs.MuxEffect Proofs.MuxPay Proofs.MuxData.
Import ListNotations.
Local Open Scope N_scope.

Definition side_frames (s : side) (evs : list ev) : list wframe :=
  flat_map (fun e => match e with
                     | EFrame x _ fr => if side_eqb x s && negb (w_cl fr =? 2) then [fr] else []
                     | _ => [] end) evs.
(* every stream frame of side s, in emission order (session-closing notices excluded) *)
Definition all_frames (s : side) (os : list (list ev)) : list wframe := flat_map (side_frames s) os.

Lemma filter_flat_map {A B} (p : B -> bool) (f : A -> list B) l :
  filter p (flat_map f l) = flat_map (fun a => filter p (f a)) l.
Proof. induction l as [|a t IH]; cbn; [reflexivity|]. now rewrite filter_app, IH. Qed.

Lemma ev_frames_filter s sid evs :
  ev_frames s sid evs = filter (fun fr => w_sid fr =? sid) (side_frames s evs).
Proof.
  unfold MuxView.ev_frames, side_frames. rewrite filter_flat_map. apply flat_map_ext. intros e.
  destruct e as [x c fr| | |]; try reflexivity. unfold MuxView.keep.
  destruct (side_eqb x s); cbn [andb]; [|reflexivity].
  destruct (w_cl fr =? 2); cbn [negb andb filter]; [now rewrite andb_false_r|].
  rewrite andb_true_r. destruct (w_sid fr =? sid); reflexivity.
Qed.
Lemma run_frames_filter s sid os :
  run_frames s sid os = filter (fun fr => w_sid fr =? sid) (all_frames s os).
Proof.
  unfold all_frames. induction os as [|evs t IH]; cbn; [reflexivity|].
  now rewrite filter_app, IH, ev_frames_filter.
Qed.

Lemma nodup_by_key {A} (g h : A -> N) (L : list A) :
  (forall a, NoDup (map h (filter (fun x => g x =? a) L))) -> NoDup (map (fun x => (g x, h x)) L).
Proof.
  induction L as [|x t IH]; intros H; cbn; [constructor|]. constructor.
  - intros Hin. apply in_map_iff in Hin as (y & Heq & Hy). injection Heq as Hg Hh.
    specialize (H (g x)). cbn in H. rewrite N.eqb_refl in H. cbn in H. inversion H as [|? ? Hn _]; subst.
    apply Hn. apply in_map_iff. exists y. split; [exact Hh|]. apply filter_In. split; [exact Hy|lia].
  - apply IH. intros a. specialize (H a). cbn in H. destruct (g x =? a); [cbn in H; inversion H; assumption|exact H].
Qed.

Lemma nodup_numbered {A} (h : A -> N) (L : list A) :
  (forall i x, nth_error L i = Some x -> h x = N.of_nat i) -> NoDup (map h L).
Proof.
  intros H. apply NoDup_nth_error. intros i j Hi Heq. rewrite map_length in Hi.
  rewrite !nth_error_map in Heq.
  destruct (nth_error L i) as [x|] eqn:Ex; [|apply nth_error_None in Ex; lia].
  destruct (nth_error L j) as [y|] eqn:Ey; [|discriminate]. cbn in Heq. injection Heq as Heq.
  rewrite (H _ _ Ex), (H _ _ Ey) in Heq. lia.
Qed.

Theorem nonces_unique k sp u ta tb s ls :
  fresh_run (init k sp u ta tb) ls ->
  (forall sid, nE (run_frames s sid (outputs k sp u ta tb ls)) + 2 < two64) ->
  NoDup (map (fun fr => (w_sid fr, w_seq fr)) (all_frames s (outputs k sp u ta tb ls))).
Proof.
  intros Hf Hb. apply nodup_by_key. intros sid. rewrite <- run_frames_filter.
  apply nodup_numbered. intros i fr Hn.
  destruct (frames_numbered k sp u ta tb s sid ls Hf (Hb sid) i fr Hn) as (Hs & _). exact Hs.
Qed.
