(* Proofs about Model/UserDB.v (property C18). *)
From Coq Require Import ZArith NArith List Bool Lia.
From Coq Require Import ZifyN ZifyNat ZifyBool.
From Cloak Require Import Model.UserDB.
Import ListNotations.
Local Open Scope Z_scope.
Ltac Zify.zify_post_hook ::= Z.div_mod_to_equations.

(* ======================================================================================== *)
(* 1. the big-endian codec                                                                   *)
Lemma be_dec_app l b : be_dec (l ++ [b]) = (be_dec l * 256 + b)%N.
Proof. unfold be_dec. rewrite fold_left_app. reflexivity. Qed.

Lemma be_enc_length k : forall n, length (be_enc k n) = k.
Proof. induction k as [|k IH]; intros n; cbn [be_enc]; [reflexivity|].
  rewrite app_length, IH. cbn. lia. Qed.

Definition wf_bytes (l : list N) : Prop := Forall (fun b => (b < 256)%N) l.

Lemma be_enc_wf k : forall n, wf_bytes (be_enc k n).
Proof. induction k as [|k IH]; intros n; cbn [be_enc]; [constructor|].
  apply Forall_app. split; [apply IH|]. constructor; [|constructor].
  apply N.mod_lt. discriminate. Qed.

Lemma be_dec_enc k : forall n, be_dec (be_enc k n) = (n mod 256 ^ N.of_nat k)%N.
Proof.
  induction k as [|k IH]; intros n.
  - cbn. now rewrite N.mod_1_r.
  - cbn [be_enc]. rewrite be_dec_app, IH.
    replace (256 ^ N.of_nat (S k))%N with (256 * 256 ^ N.of_nat k)%N
      by (rewrite Nat2N.inj_succ, N.pow_succ_r'; reflexivity).
    rewrite N.mod_mul_r by (try discriminate; apply N.pow_nonzero; discriminate).
    lia.
Qed.

Lemma be_dec_bound l : wf_bytes l -> (be_dec l < 256 ^ N.of_nat (length l))%N.
Proof.
  induction l as [|b l IH] using rev_ind; intros H.
  - cbn. lia.
  - apply Forall_app in H. destruct H as [Hl Hb]. inversion Hb as [|? ? Hb' _]; subst.
    rewrite be_dec_app, app_length. cbn [length].
    replace (N.of_nat (length l + 1)) with (N.succ (N.of_nat (length l))) by lia.
    rewrite N.pow_succ_r'. specialize (IH Hl). lia.
Qed.

Lemma firstn_wf n l : wf_bytes l -> wf_bytes (firstn n l).
Proof. revert n. induction l as [|a l IH]; intros n H; destruct n; cbn; try constructor.
  - inversion H; assumption.
  - apply IH. inversion H; assumption. Qed.

Lemma u64t_enc n : u64t (be_enc 8 n) = (n mod 18446744073709551616)%N.
Proof. unfold u64t. rewrite be_enc_length. cbn [Nat.ltb Nat.leb].
  rewrite <- (be_enc_length 8 n) at 1. rewrite firstn_all. apply (be_dec_enc 8). Qed.
Lemma u32t_enc n : u32t (be_enc 4 n) = (n mod 4294967296)%N.
Proof. unfold u32t. rewrite be_enc_length. cbn [Nat.ltb Nat.leb].
  rewrite <- (be_enc_length 4 n) at 1. rewrite firstn_all. apply (be_dec_enc 4). Qed.

Lemma u64t_bound b : wf_bytes b -> (u64t b < 18446744073709551616)%N.
Proof. intros H. unfold u64t. destruct (length b <? 8)%nat eqn:E; [lia|].
  pose proof (be_dec_bound (firstn 8 b) (firstn_wf 8 b H)) as Hb.
  rewrite firstn_length_le in Hb by lia. exact Hb. Qed.
Lemma u32t_bound b : wf_bytes b -> (u32t b < 4294967296)%N.
Proof. intros H. unfold u32t. destruct (length b <? 4)%nat eqn:E; [lia|].
  pose proof (be_dec_bound (firstn 4 b) (firstn_wf 4 b H)) as Hb.
  rewrite firstn_length_le in Hb by lia. exact Hb. Qed.

Lemma to_u64_bound v : (to_u64 v < 18446744073709551616)%N.
Proof. unfold to_u64, two64. lia. Qed.
Lemma to_u32_bound v : (to_u32 v < 4294967296)%N.
Proof. unfold to_u32, two32. lia. Qed.

Lemma i64_roundtrip v : in_i64 v -> to_i64 (to_u64 v) = v.
Proof. unfold in_i64, to_i64, to_u64, two63, two64. intros H.
  destruct (Z.of_N (Z.to_N (v mod 18446744073709551616)) <? 9223372036854775808) eqn:E; lia. Qed.
Lemma i32_roundtrip v : in_i32 v -> to_i32 (to_u32 v) = v.
Proof. unfold in_i32, to_i32, to_u32, two31, two32. intros H.
  destruct (Z.of_N (Z.to_N (v mod 4294967296)) <? 2147483648) eqn:E; lia. Qed.

Lemma codec64 v : in_i64 v -> int64_of_be (be_of_int64 v) = v.
Proof. intros H. unfold int64_of_be, be_of_int64. rewrite u64t_enc.
  rewrite N.mod_small by apply to_u64_bound. now apply i64_roundtrip. Qed.
Lemma codec32 v : in_i32 v -> int32_of_be (be_of_int32 v) = v.
Proof. intros H. unfold int32_of_be, be_of_int32. rewrite u32t_enc.
  rewrite N.mod_small by apply to_u32_bound. now apply i32_roundtrip. Qed.

Lemma to_i64_range n : (n < 18446744073709551616)%N -> in_i64 (to_i64 n).
Proof. unfold in_i64, to_i64, two63, two64. intros H.
  destruct (Z.of_N n <? 9223372036854775808) eqn:E; lia. Qed.
Lemma wrap64_range z : in_i64 (wrap64 z).
Proof. unfold wrap64. apply to_i64_range, to_u64_bound. Qed.
Lemma wrap64_id z : in_i64 z -> wrap64 z = z.
Proof. apply i64_roundtrip. Qed.

(* the cap read back unsigned is the signed value modulo 2^32 *)
Lemma cap_unsigned n : (n < 4294967296)%N -> Z.of_N n = to_i32 n mod two32.
Proof. unfold to_i32, two31, two32. intros H. destruct (Z.of_N n <? 2147483648) eqn:E; lia. Qed.

(* ======================================================================================== *)
(* 2. association lists                                                                      *)
Lemma uid_eqb_spec a : forall b, uid_eqb a b = true <-> a = b.
Proof. induction a as [|x a IH]; intros [|y b]; cbn; try (split; congruence).
  rewrite andb_true_iff, N.eqb_eq, IH. split; [intros [-> ->]; reflexivity | intros H; inversion H; auto]. Qed.
Lemma uid_eqb_refl a : uid_eqb a a = true.
Proof. now apply uid_eqb_spec. Qed.
Lemma uid_eqb_sym a b : uid_eqb a b = uid_eqb b a.
Proof. destruct (uid_eqb a b) eqn:E.
  - apply uid_eqb_spec in E. subst. symmetry. apply uid_eqb_refl.
  - destruct (uid_eqb b a) eqn:E2; [|reflexivity]. apply uid_eqb_spec in E2. subst.
    rewrite uid_eqb_refl in E. discriminate. Qed.

Section AlistMap.
Context {A B : Type} (f : A -> B).
Definition amap (s : list (uid * A)) : list (uid * B) := map (fun kv => (fst kv, f (snd kv))) s.
Lemma lookup_amap u s : lookup u (amap s) = option_map f (lookup u s).
Proof. unfold amap. induction s as [|[k v] t IH]; cbn; [reflexivity|]. destruct (uid_eqb u k); [reflexivity|exact IH]. Qed.
Lemma bucket_amap u s : bucket u (amap s) = option_map f (bucket u s).
Proof. unfold bucket. destruct (is_nil u); [reflexivity|apply lookup_amap]. Qed.
Lemma put_amap u v s : put u (f v) (amap s) = amap (put u v s).
Proof. unfold amap. induction s as [|[k w] t IH]; cbn; [reflexivity|]. destruct (uid_eqb u k); cbn; [reflexivity|].
  now rewrite IH. Qed.
Lemma remove_amap u s : remove u (amap s) = amap (remove u s).
Proof. unfold remove, amap. induction s as [|[k w] t IH]; cbn; [reflexivity|].
  destruct (uid_eqb u k); cbn; [exact IH|]. now rewrite IH. Qed.
End AlistMap.

(* characterisation of the finite-map operations (used for the abstract specification) *)
Section AlistSpec.
Context {A : Type}.
Implicit Types s : list (uid * A).
Lemma lookup_put u u' v s : lookup u (put u' v s) = if uid_eqb u u' then Some v else lookup u s.
Proof. induction s as [|[k w] t IH]; cbn.
  - reflexivity.
  - destruct (uid_eqb u' k) eqn:E; cbn.
    + apply uid_eqb_spec in E. subst k. destruct (uid_eqb u u'); reflexivity.
    + destruct (uid_eqb u k) eqn:E2.
      * apply uid_eqb_spec in E2. subst k. rewrite uid_eqb_sym, E. reflexivity.
      * exact IH.
Qed.
Lemma lookup_remove u u' s : lookup u (remove u' s) = if uid_eqb u u' then None else lookup u s.
Proof. unfold remove. induction s as [|[k w] t IH]; cbn.
  - now destruct (uid_eqb u u').
  - destruct (uid_eqb u' k) eqn:E; cbn.
    + apply uid_eqb_spec in E. subst k. rewrite IH. now destruct (uid_eqb u u').
    + destruct (uid_eqb u k) eqn:E2; [|exact IH].
      apply uid_eqb_spec in E2. subst k. rewrite uid_eqb_sym, E. reflexivity.
Qed.
Definition keys s : list uid := map fst s.
Lemma keys_put_in u v s k : In k (keys (put u v s)) <-> k = u \/ In k (keys s).
Proof. unfold keys. induction s as [|[k' w] t IH]; cbn; [intuition|].
  destruct (uid_eqb u k') eqn:E; cbn.
  - apply uid_eqb_spec in E. subst k'. intuition.
  - rewrite IH. intuition. Qed.
Lemma keys_put_nodup u v s : NoDup (keys s) -> NoDup (keys (put u v s)).
Proof. unfold keys. induction s as [|[k' w] t IH]; cbn; intros H.
  - constructor; [intros []|constructor].
  - inversion H as [|? ? Hn Ht]; subst. destruct (uid_eqb u k') eqn:E; cbn.
    + constructor; assumption.
    + constructor; [|now apply IH]. intros Hin. apply (keys_put_in u v t k') in Hin.
      destruct Hin as [->|Hin]; [rewrite uid_eqb_refl in E; discriminate|contradiction]. Qed.
Lemma keys_remove_nodup u s : NoDup (keys s) -> NoDup (keys (remove u s)).
Proof. unfold keys, remove. induction s as [|[k' w] t IH]; cbn; intros H; [constructor|].
  inversion H as [|? ? Hn Ht]; subst. destruct (uid_eqb u k'); cbn; [now apply IH|].
  constructor; [|now apply IH]. intros Hin. apply Hn. apply in_map_iff in Hin.
  destruct Hin as [[k2 w2] [Hk Hin]]. apply filter_In in Hin. apply in_map_iff. exists (k2, w2). tauto. Qed.
Lemma in_lookup u v s : NoDup (keys s) -> (In (u, v) s <-> lookup u s = Some v).
Proof. unfold keys. induction s as [|[k w] t IH]; cbn; intros H; [split; [intros []|discriminate]|].
  inversion H as [|? ? Hn Ht]; subst. destruct (uid_eqb u k) eqn:E.
  - apply uid_eqb_spec in E. subst k. split.
    + intros [Heq|Hin]; [congruence|]. exfalso. apply Hn. apply in_map_iff. exists (u, v). auto.
    + intros Heq. left. congruence.
  - rewrite <- (IH Ht). split; [intros [Heq|Hin]; [|exact Hin]|auto].
    inversion Heq; subst. rewrite uid_eqb_refl in E. discriminate. Qed.
End AlistSpec.

(* ======================================================================================== *)
(* 3. the fixed decoders are total; what they return                                         *)
Lemma u64_fixed b : u64 true b = Ok (u64t b).
Proof. unfold u64, u64t. now destruct (length b <? 8)%nat. Qed.
Lemma u32_fixed b : u32 true b = Ok (u32t b).
Proof. unfold u32, u32t. now destruct (length b <? 4)%nat. Qed.
Lemma rd_i64_fixed f r : rd_i64 true f r = Ok (int64_of_be (getb f r)).
Proof. unfold rd_i64. now rewrite u64_fixed. Qed.
Lemma rd_cap_signed_fixed r : rd_cap_signed true r = Ok (int32_of_be (getb FCap r)).
Proof. unfold rd_cap_signed. now rewrite u32_fixed. Qed.
Lemma rd_cap_unsigned_fixed r : rd_cap_unsigned true r = Ok (Z.of_N (u32t (getb FCap r))).
Proof. unfold rd_cap_unsigned. now rewrite u32_fixed. Qed.
Lemma read_vals_fixed r : read_vals true r = Ok (abs_rec r).
Proof. unfold read_vals. rewrite rd_cap_signed_fixed, !rd_i64_fixed. reflexivity. Qed.
Lemma list_all_fixed s : list_all true s = Ok (abs_store s).
Proof. induction s as [|[u r] t IH]; cbn [list_all]; [reflexivity|].
  rewrite read_vals_fixed. cbn [bind]. rewrite IH. reflexivity. Qed.

(* ---- well-formed stores: every stored value is a string of bytes ------------------------- *)
Definition wf_opt (o : option (list N)) : Prop := match o with Some b => wf_bytes b | None => True end.
Definition wf_rec (r : rec) : Prop := forall f, wf_opt (getf f r).
Definition store_wf (s : store) : Prop := Forall (fun kv => wf_rec (snd kv)) s.

Lemma getf_setf f g v r : getf f (setf g v r) = if (match f, g with
  | FCap, FCap | FUpRate, FUpRate | FDownRate, FDownRate | FUpCredit, FUpCredit
  | FDownCredit, FDownCredit | FExpiry, FExpiry => true | _, _ => false end) then Some v else getf f r.
Proof. destruct f, g; reflexivity. Qed.
Lemma wf_setf g v r : wf_bytes v -> wf_rec r -> wf_rec (setf g v r).
Proof. intros Hv Hr f. rewrite getf_setf. pose proof (Hr f) as Hf. destruct f, g; cbn in *; assumption. Qed.
Lemma wf_rec_empty : wf_rec rec_empty.
Proof. intros []; exact I. Qed.
Lemma wf_put_opt f enc o r : (forall v, wf_bytes (enc v)) -> wf_rec r -> wf_rec (put_opt f enc o r).
Proof. intros He Hr. destruct o; cbn; [apply wf_setf; auto|exact Hr]. Qed.
Lemma wf_write_rec w r : wf_rec r -> wf_rec (write_rec w r).
Proof. intros H. unfold write_rec.
  repeat (apply wf_put_opt; [intros v; apply be_enc_wf|]). exact H. Qed.
Lemma wf_getb f r : wf_rec r -> wf_bytes (getb f r).
Proof. intros H. unfold getb. specialize (H f). destruct (getf f r); [exact H|constructor]. Qed.

Lemma store_wf_lookup u s r : store_wf s -> lookup u s = Some r -> wf_rec r.
Proof. induction s as [|[k v] t IH]; cbn; intros H E; [discriminate|].
  inversion H; subst. destruct (uid_eqb u k); [inversion E; subst; assumption|auto]. Qed.
Lemma store_wf_bucket u s r : store_wf s -> bucket u s = Some r -> wf_rec r.
Proof. unfold bucket. destruct (is_nil u); [discriminate|apply store_wf_lookup]. Qed.
Lemma store_wf_put u r s : store_wf s -> wf_rec r -> store_wf (put u r s).
Proof. induction s as [|[k v] t IH]; cbn; intros H Hr.
  - constructor; [exact Hr|constructor].
  - inversion H as [|? ? Hh Ht]; subst. destruct (uid_eqb u k); constructor; cbn in *; auto.
    apply IH; assumption. Qed.
Lemma store_wf_remove u s : store_wf s -> store_wf (remove u s).
Proof. unfold store_wf, remove. intros H. apply Forall_forall. intros x Hx.
  apply filter_In in Hx. rewrite Forall_forall in H. now apply H. Qed.

(* ======================================================================================== *)
(* 4. one record: write then decode = merge                                                  *)
Definition wsel (f : field) (w : wrec) : option Z :=
  match f with FCap => w_cap w | FUpRate => w_uprate w | FDownRate => w_downrate w
             | FUpCredit => w_upcredit w | FDownCredit => w_downcredit w | FExpiry => w_expiry w end.
Definition enc_of (f : field) : Z -> list N := match f with FCap => be_of_int32 | _ => be_of_int64 end.

(* the bytes under key f after WriteUserInfo: the new value if the request mentions f, the
   old bytes otherwise *)
Lemma getb_write_rec f w r :
  getb f (write_rec w r) = match wsel f w with Some v => enc_of f v | None => getb f r end.
Proof. destruct f, w as [[?|] [?|] [?|] [?|] [?|] [?|]]; reflexivity. Qed.

Lemma abs_write_rec w r : wrec_ok w -> abs_rec (write_rec w r) = merge w (abs_rec r).
Proof.
  intros (Hc & Ha & Hb & Hd & He & Hx).
  unfold abs_rec, merge. rewrite !getb_write_rec. cbn [wsel enc_of v_cap v_uprate v_downrate v_upcredit v_downcredit v_expiry].
  destruct w as [c a b d e x]; cbn [w_cap w_uprate w_downrate w_upcredit w_downcredit w_expiry] in *.
  f_equal.
  - destruct c; cbn [ov]; [now apply codec32|reflexivity].
  - destruct a; cbn [ov]; [now apply codec64|reflexivity].
  - destruct b; cbn [ov]; [now apply codec64|reflexivity].
  - destruct d; cbn [ov]; [now apply codec64|reflexivity].
  - destruct e; cbn [ov]; [now apply codec64|reflexivity].
  - destruct x; cbn [ov]; [now apply codec64|reflexivity].
Qed.

Lemma abs_rec_empty : abs_rec rec_empty = vals_zero.
Proof. reflexivity. Qed.

(* ======================================================================================== *)
(* 5. every handler, with the decoders as they are now, computes the abstract answer         *)
Lemma lookup_abs u s : lookup u (abs_store s) = option_map abs_rec (lookup u s).
Proof. exact (lookup_amap abs_rec u s). Qed.
Lemma bucket_abs u s : bucket u (abs_store s) = option_map abs_rec (bucket u s).
Proof. exact (bucket_amap abs_rec u s). Qed.
Lemma put_abs u r s : put u (abs_rec r) (abs_store s) = abs_store (put u r s).
Proof. exact (put_amap abs_rec u r s). Qed.
Lemma remove_abs u s : remove u (abs_store s) = abs_store (remove u s).
Proof. exact (remove_amap abs_rec u s). Qed.

Lemma authenticate_fixed now s u : authenticate true now s u = Ok (a_auth now (abs_store s) u).
Proof. unfold authenticate, a_auth. rewrite bucket_abs.
  destruct (bucket u s) as [r|]; cbn [option_map]; [|reflexivity].
  rewrite !rd_i64_fixed. cbn [bind]. unfold abs_rec. cbn [v_upcredit v_downcredit v_expiry v_uprate v_downrate].
  reflexivity. Qed.

Lemma authorise_fixed now s u n : store_wf s ->
  authorise true now s u n = Ok (a_sess now (abs_store s) u n).
Proof. intros Hwf. unfold authorise, a_sess. rewrite bucket_abs.
  destruct (bucket (pad16 u) s) as [r|] eqn:E; cbn [option_map]; [|reflexivity].
  rewrite rd_cap_unsigned_fixed, !rd_i64_fixed. cbn [bind]. unfold abs_rec.
  cbn [v_upcredit v_downcredit v_expiry v_cap]. unfold int32_of_be.
  rewrite <- cap_unsigned; [reflexivity|].
  apply u32t_bound, wf_getb. eapply store_wf_bucket; eassumption. Qed.

Lemma get_user_fixed s p : get_user true s p = Ok (a_get (abs_store s) p).
Proof. unfold get_user, a_get. destruct p as [|u]; [reflexivity|].
  rewrite bucket_abs. destruct (bucket u s) as [r|]; cbn [option_map]; [|reflexivity].
  rewrite read_vals_fixed. reflexivity. Qed.

Lemma upload_one_fixed now u a b r : wf_rec r ->
  exists r2, upload_one true now u a b r = Ok (r2, snd (a_upload_one now u a b (abs_rec r)))
          /\ abs_rec r2 = fst (a_upload_one now u a b (abs_rec r)) /\ wf_rec r2.
Proof.
  intros Hwf. unfold upload_one. rewrite rd_i64_fixed. cbn [bind].
  set (nu := wrap64 (int64_of_be (getb FUpCredit r) - a)).
  rewrite rd_i64_fixed. cbn [bind].
  replace (getb FDownCredit (setf FUpCredit (be_of_int64 nu) r)) with (getb FDownCredit r) by reflexivity.
  set (nd := wrap64 (int64_of_be (getb FDownCredit r) - b)).
  rewrite rd_i64_fixed. cbn [bind].
  replace (getb FExpiry (setf FDownCredit (be_of_int64 nd) (setf FUpCredit (be_of_int64 nu) r)))
    with (getb FExpiry r) by reflexivity.
  eexists. split; [reflexivity|]. split.
  - unfold a_upload_one, abs_rec. cbn [fst v_cap v_uprate v_downrate v_upcredit v_downcredit v_expiry].
    fold nu nd. unfold getb at 4 5. cbn [getf setf f_upcredit f_downcredit].
    rewrite !codec64 by apply wrap64_range. reflexivity.
  - apply wf_setf; [apply be_enc_wf|]. apply wf_setf; [apply be_enc_wf|exact Hwf].
Qed.

Lemma upload_fixed now l : forall s, store_wf s ->
  exists s', upload true now s l = Ok (s', snd (a_upload now (abs_store s) l))
          /\ abs_store s' = fst (a_upload now (abs_store s) l) /\ store_wf s'.
Proof.
  induction l as [|x t IH]; intros s Hwf; cbn [upload a_upload].
  - exists s. cbn. auto.
  - rewrite bucket_abs. destruct (bucket (up_uid x) s) as [r|] eqn:E; cbn [option_map].
    + destruct (upload_one_fixed now (up_uid x) (up_up x) (up_down x) r) as (r2 & E1 & E2 & Hw2).
      { eapply store_wf_bucket; eassumption. }
      rewrite E1. cbn [bind fst snd].
      destruct (IH (put (up_uid x) r2 s)) as (s' & F1 & F2 & F3). { now apply store_wf_put. }
      rewrite F1. cbn [bind fst snd]. exists s'.
      rewrite <- E2, put_abs. auto.
    + destruct (IH s Hwf) as (s' & F1 & F2 & F3). rewrite F1. cbn [bind fst snd].
      exists s'. auto.
Qed.

Lemma post_sim s p b : store_wf s -> op_ok (OReq (RqPost p b)) ->
  abs_store (fst (post s p b)) = fst (a_post (abs_store s) p b)
  /\ snd (post s p b) = snd (a_post (abs_store s) p b) /\ store_wf (fst (post s p b)).
Proof.
  intros Hwf Hok. unfold post, a_post. destruct p as [|u]; [cbn; auto|]. destruct b as [|bu w]; [cbn; auto|].
  destruct (negb (uid_eqb u bu)); [cbn; auto|]. destruct (is_nil bu); [cbn; auto|].
  cbn [fst snd]. cbn in Hok. rewrite lookup_abs, <- put_abs.
  destruct (lookup bu s) as [r|] eqn:E; cbn [option_map].
  - rewrite abs_write_rec by exact Hok. repeat split.
    apply store_wf_put; [exact Hwf|]. apply wf_write_rec. eapply store_wf_lookup; eassumption.
  - rewrite abs_write_rec by exact Hok. repeat split.
    apply store_wf_put; [exact Hwf|]. apply wf_write_rec, wf_rec_empty.
Qed.

Lemma delete_sim s p : store_wf s ->
  abs_store (fst (delete s p)) = fst (a_delete (abs_store s) p)
  /\ snd (delete s p) = snd (a_delete (abs_store s) p) /\ store_wf (fst (delete s p)).
Proof.
  intros Hwf. unfold delete, a_delete. destruct p as [|u]; [cbn; auto|].
  rewrite bucket_abs. destruct (bucket u s); cbn [option_map fst snd]; [|auto].
  rewrite remove_abs. repeat split. now apply store_wf_remove.
Qed.

Lemma step_sim now s o : store_wf s -> op_ok o ->
  exists s', step true now s o = Ok (s', snd (a_step now (abs_store s) o))
          /\ abs_store s' = fst (a_step now (abs_store s) o) /\ store_wf s'.
Proof.
  intros Hwf Hok. destruct o as [[|p|p b|p|]| |l|u|u n]; cbn [step a_step].
  - rewrite list_all_fixed. cbn. eauto.
  - rewrite get_user_fixed. cbn. eauto.
  - destruct (post_sim s p b Hwf Hok) as (E1 & E2 & E3). eexists. rewrite E2. cbn [fst snd]. eauto.
  - destruct (delete_sim s p Hwf) as (E1 & E2 & E3). eexists. rewrite E2. cbn [fst snd]. eauto.
  - cbn. eauto.
  - cbn. eauto.
  - destruct (upload_fixed now l s Hwf) as (s' & E1 & E2 & E3). rewrite E1. cbn. eauto.
  - rewrite authenticate_fixed. cbn. eauto.
  - rewrite authorise_fixed by exact Hwf. cbn. eauto.
Qed.

Lemma run_sim now ops : forall s, store_wf s -> Forall op_ok ops ->
  exists s', run true now s ops = Ok (s', snd (a_run now (abs_store s) ops))
          /\ abs_store s' = fst (a_run now (abs_store s) ops) /\ store_wf s'.
Proof.
  induction ops as [|o t IH]; intros s Hwf Hok; cbn [run a_run].
  - exists s. cbn. auto.
  - inversion Hok as [|? ? Ho Ht]; subst.
    destruct (step_sim now s o Hwf Ho) as (s1 & E1 & E2 & E3). rewrite E1. cbn [bind fst snd].
    destruct (IH s1 E3 Ht) as (s2 & F1 & F2 & F3). rewrite F1. cbn [bind fst snd].
    exists s2. rewrite <- E2. auto.
Qed.

Lemma store_wf_nil : store_wf [].
Proof. constructor. Qed.

(* the abstract specification is a finite map: keys stay distinct *)
Lemma a_upload_keys now l : forall m, NoDup (keys m) -> NoDup (keys (fst (a_upload now m l))).
Proof. induction l as [|x t IH]; intros m H; cbn [a_upload]; [exact H|].
  destruct (bucket (up_uid x) m); cbn [fst]; apply IH; [now apply keys_put_nodup|exact H]. Qed.
Lemma a_step_keys now m o : NoDup (keys m) -> NoDup (keys (fst (a_step now m o))).
Proof. intros H. destruct o as [[|p|p b|p|]| |l|u|u n]; cbn [a_step fst]; try exact H.
  - unfold a_post. destruct p; [exact H|]. destruct b; [exact H|].
    destruct (negb _); [exact H|]. destruct (is_nil _); [exact H|]. now apply keys_put_nodup.
  - unfold a_delete. destruct p; [exact H|]. destruct (bucket _ _); [|exact H]. now apply keys_remove_nodup.
  - now apply a_upload_keys. Qed.
Lemma a_run_keys now ops : forall m, NoDup (keys m) -> NoDup (keys (fst (a_run now m ops))).
Proof. induction ops as [|o t IH]; intros m H; cbn [a_run fst]; [exact H|].
  apply IH. now apply a_step_keys. Qed.

(* ======================================================================================== *)
(* 6. no panic, for EVERY store (well-formed or not), with the decoders as they are now      *)
Lemma authorise_total now s u n : exists e, authorise true now s u n = Ok e.
Proof. unfold authorise. destruct (bucket (pad16 u) s); [|eauto].
  rewrite rd_cap_unsigned_fixed, !rd_i64_fixed. cbn [bind]. eauto. Qed.
Lemma upload_one_total now u a b r : exists q, upload_one true now u a b r = Ok q.
Proof. unfold upload_one. rewrite rd_i64_fixed. cbn [bind]. rewrite rd_i64_fixed. cbn [bind].
  rewrite rd_i64_fixed. cbn [bind]. eauto. Qed.
Lemma upload_total now l : forall s, exists q, upload true now s l = Ok q.
Proof. induction l as [|x t IH]; intros s; cbn [upload]; [eauto|].
  destruct (bucket (up_uid x) s) as [r|].
  - destruct (upload_one_total now (up_uid x) (up_up x) (up_down x) r) as [q E]. rewrite E. cbn [bind].
    destruct (IH (put (up_uid x) (fst q) s)) as [p F]. rewrite F. cbn [bind]. eauto.
  - destruct (IH s) as [p F]. rewrite F. cbn [bind]. eauto. Qed.
Lemma step_total now s o : exists q, step true now s o = Ok q.
Proof. destruct o as [[|p|p b|p|]| |l|u|u n]; cbn [step]; eauto.
  - rewrite list_all_fixed. cbn. eauto.
  - rewrite get_user_fixed. cbn. eauto.
  - destruct (upload_total now l s) as [q E]. rewrite E. cbn. eauto.
  - rewrite authenticate_fixed. cbn. eauto.
  - destruct (authorise_total now s u n) as [e E]. rewrite E. cbn. eauto. Qed.
Lemma run_total now ops : forall s, exists q, run true now s ops = Ok q.
Proof. induction ops as [|o t IH]; intros s; cbn [run]; [eauto|].
  destruct (step_total now s o) as [q E]. rewrite E. cbn [bind].
  destruct (IH (fst q)) as [p F]. rewrite F. cbn [bind]. eauto. Qed.

Lemma no_panic_fixed now s :
  (forall u, authenticate true now s u <> Panic) /\
  (forall u n, authorise true now s u n <> Panic) /\
  (forall p, get_user true s p <> Panic) /\
  list_all true s <> Panic /\
  (forall l, upload true now s l <> Panic).
Proof. repeat split; intros.
  - rewrite authenticate_fixed. discriminate.
  - destruct (authorise_total now s u n) as [e E]. rewrite E. discriminate.
  - rewrite get_user_fixed. discriminate.
  - rewrite list_all_fixed. discriminate.
  - destruct (upload_total now l s) as [q E]. rewrite E. discriminate. Qed.

(* ---- the owner connects --------------------------------------------------------------- *)
(* exact characterisation of the crash: the record passes AuthenticateUser and one of its
   rates is not positive *)
Lemma connect_panic_iff now s u :
  connect false true now s u = Panic <->
  exists up down, authenticate true now s u = Ok (AuthOk up down) /\ (up <= 0 \/ down <= 0).
Proof.
  unfold connect. rewrite authenticate_fixed. cbn [bind andb].
  destruct (a_auth now (abs_store s) u) as [up down|e].
  - unfold make_valve. destruct ((0 <? up) && (0 <? down)) eqn:E; cbn [bind].
    + destruct (authorise_total now s u 0) as [e F]. rewrite F. cbn [bind].
      split; [discriminate|]. intros (up' & down' & H & Hle). inversion H; subst. lia.
    + split; [|reflexivity]. intros _. exists up, down. split; [reflexivity|lia].
  - split; [discriminate|]. intros (up' & down' & H & _). discriminate. Qed.

Lemma connect_guarded_total now s u : exists c, connect true true now s u = Ok c.
Proof.
  unfold connect. rewrite authenticate_fixed. cbn [bind andb].
  destruct (a_auth now (abs_store s) u) as [up down|e]; [|eauto].
  unfold make_valve. destruct ((0 <? up) && (0 <? down)); cbn [negb bind]; [|eauto].
  destruct (authorise_total now s u 0) as [e F]. rewrite F. cbn [bind]. eauto. Qed.

Lemma connect_use_total now s u rx tx : exists q, connect_use true true now s u rx tx = Ok q.
Proof.
  unfold connect_use. destruct (connect_guarded_total now s u) as [c E]. rewrite E. cbn [bind].
  destruct c as [e|e|up down]; [eauto| |].
  - destruct (upload_total now [mkUpd (pad16 u) 0 0] s) as [q F]. rewrite F. cbn [bind]. eauto.
  - destruct (upload_total now [mkUpd (pad16 u) rx tx] s) as [q1 F1]. rewrite F1. cbn [bind].
    destruct (upload_total now [mkUpd (pad16 u) 0 0] (fst q1)) as [q2 F2]. rewrite F2. cbn [bind]. eauto.
Qed.

Lemma no_panic_connect now s :
  (forall u, exists c, connect true true now s u = Ok c) /\
  (forall u rx tx, exists q, connect_use true true now s u rx tx = Ok q).
Proof. split; [intros u; apply connect_guarded_total | intros u rx tx; apply connect_use_total]. Qed.

Lemma credit_checks_not_badrate a b c d : credit_checks a b c d <> Some ErrBadRate.
Proof. unfold credit_checks. destruct (a <=? 0); [discriminate|]. destruct (b <=? 0); [discriminate|].
  destruct (c <? d); discriminate. Qed.
Lemma a_auth_not_badrate now m u : a_auth now m u <> AuthErr ErrBadRate.
Proof. unfold a_auth. destruct (bucket u m) as [v|]; [|discriminate].
  destruct (credit_checks _ _ _ _) as [e|] eqn:E; [|discriminate].
  intros H. inversion H; subst. revert E. apply credit_checks_not_badrate. Qed.

(* a refused record is refused for its rate only when it would otherwise have been authenticated *)
Lemma connect_badrate_iff now s u :
  connect true true now s u = Ok (CnAuthErr ErrBadRate) <->
  exists up down, authenticate true now s u = Ok (AuthOk up down) /\ (up <= 0 \/ down <= 0).
Proof.
  unfold connect. rewrite authenticate_fixed. cbn [bind andb].
  destruct (a_auth now (abs_store s) u) as [up down|e] eqn:Ea.
  - unfold make_valve. destruct ((0 <? up) && (0 <? down)) eqn:E; cbn [negb bind].
    + destruct (authorise_total now s u 0) as [e F]. rewrite F. cbn [bind].
      split; [destruct e; discriminate|]. intros (up' & down' & H & Hle). inversion H; subst. lia.
    + split; [|reflexivity]. intros _. exists up, down. split; [reflexivity|lia].
  - split.
    + intros H. inversion H; subst. exfalso. revert Ea. apply a_auth_not_badrate.
    + intros (up' & down' & H & _). discriminate.
Qed.

(* the guard changes nothing for records with positive rates *)
Lemma connect_guard_agree now s u c : connect false true now s u = Ok c -> connect true true now s u = Ok c.
Proof.
  unfold connect. rewrite authenticate_fixed. cbn [bind andb].
  destruct (a_auth now (abs_store s) u) as [up down|e]; [|auto].
  unfold make_valve. destruct ((0 <? up) && (0 <? down)); cbn [negb bind]; [auto|discriminate]. Qed.

(* ======================================================================================== *)
(* 7. statements used by Properties/C18.v                                                    *)
Lemma refines_map now ops s : store_wf s -> Forall op_ok ops ->
  exists s', run true now s ops = Ok (s', snd (a_run now (abs_store s) ops))
          /\ abs_store s' = fst (a_run now (abs_store s) ops).
Proof. intros Hwf Hok. destruct (run_sim now ops s Hwf Hok) as (s' & E1 & E2 & _). eauto. Qed.

Definition accepted (r : resp) : bool :=
  match r with RsStatus c => (200 <=? c) && (c <? 300) | _ => true end.

Lemma spec_is_map :
  (* lookup after update / delete *)
  (forall (u u' : uid) (v : vals) (m : astore),
      lookup u (put u' v m) = if uid_eqb u u' then Some v else lookup u m) /\
  (forall (u u' : uid) (m : astore),
      lookup u (remove u' m) = if uid_eqb u u' then None else lookup u m) /\
  (* an accepted update merges the mentioned fields into the old record (all-zero if new) *)
  (forall m u w, u <> [] ->
      a_post m (PUid u) (BJson u w) =
      (put u (merge w (match lookup u m with Some v => v | None => vals_zero end)) m, RsStatus 201)) /\
  (forall w v, merge w v = mkV (ov (w_cap w) (v_cap v)) (ov (w_uprate w) (v_uprate v))
      (ov (w_downrate w) (v_downrate v)) (ov (w_upcredit w) (v_upcredit v))
      (ov (w_downcredit w) (v_downcredit v)) (ov (w_expiry w) (v_expiry v))) /\
  (* a request that is not accepted changes nothing *)
  (forall m p b, accepted (snd (a_post m p b)) = false -> fst (a_post m p b) = m) /\
  (forall m p, accepted (snd (a_delete m p)) = false -> fst (a_delete m p) = m) /\
  (* an accepted delete removes the user *)
  (forall m u, accepted (snd (a_delete m (PUid u))) = true -> lookup u (fst (a_delete m (PUid u))) = None) /\
  (* the listing is the map: distinct keys, membership = lookup *)
  (forall now ops, let m := fst (a_run now [] ops) in
      NoDup (keys m) /\ forall u v, In (u, v) m <-> lookup u m = Some v).
Proof.
  split; [intros; apply lookup_put|]. split; [intros; apply lookup_remove|].
  split. { intros m u w Hu. unfold a_post. rewrite uid_eqb_refl. cbn [negb].
           destruct u; [congruence|reflexivity]. }
  split; [reflexivity|].
  split. { intros m p b. unfold a_post. destruct p; [reflexivity|]. destruct b; [reflexivity|].
           destruct (negb _); [reflexivity|]. destruct (is_nil _); [reflexivity|]. cbn. discriminate. }
  split. { intros m p. unfold a_delete. destruct p; [reflexivity|]. destruct (bucket _ _); [|reflexivity].
           cbn. discriminate. }
  split. { intros m u. unfold a_delete. destruct (bucket u m); cbn [fst snd accepted]; [|cbn; discriminate].
           intros _. rewrite lookup_remove, uid_eqb_refl. reflexivity. }
  intros now ops m. assert (H : NoDup (keys m)) by (apply a_run_keys; constructor).
  split; [exact H|]. intros u v. now apply in_lookup.
Qed.

(* close + reopen anywhere in a history changes no other observation and not the final store *)
Definition is_reopen (o : op) : bool := match o with OReopen => true | _ => false end.
Definition is_obreopen (b : obs) : bool := match b with ObReopen => true | _ => false end.
Definition drop_reopen (ops : list op) : list op := filter (fun o => negb (is_reopen o)) ops.
Definition drop_obreopen (os : list obs) : list obs := filter (fun b => negb (is_obreopen b)) os.

Lemma step_obs_not_reopen fx now s o s1 ob :
  step fx now s o = Ok (s1, ob) -> is_reopen o = false -> is_obreopen ob = false.
Proof.
  destruct o as [[|p|p b|p|]| |l|u|u n]; cbn [step is_reopen]; intros E H; try discriminate;
  try (match type of E with context [bind ?x _] => destruct x end; cbn in E; try discriminate);
  inversion E; reflexivity.
Qed.

Lemma persist fx now ops : forall s,
  run fx now s (drop_reopen ops) =
  match run fx now s ops with
  | Ok q => Ok (fst q, drop_obreopen (snd q))
  | Panic => Panic
  end.
Proof.
  induction ops as [|o t IH]; intros s; [reflexivity|].
  destruct (is_reopen o) eqn:Er.
  - destruct o; try discriminate. cbn [drop_reopen filter is_reopen negb run step bind fst snd reopen].
    unfold reopen. fold (drop_reopen t). rewrite IH. destruct (run fx now s t) as [q|]; reflexivity.
  - unfold drop_reopen. cbn [filter]. rewrite Er. cbn [negb run]. fold (drop_reopen t).
    destruct (step fx now s o) as [[s1 ob]|] eqn:E; cbn [bind fst snd]; [|reflexivity].
    rewrite IH. destruct (run fx now s1 t) as [q|]; cbn [bind fst snd]; [|reflexivity].
    unfold drop_obreopen. cbn [filter]. rewrite (step_obs_not_reopen _ _ _ _ _ _ E Er). reflexivity.
Qed.

(* ---- witnesses ------------------------------------------------------------------------- *)
(* F7 (fixed by cd5140b): a record created with a subset of the fields *)
Definition wit_partial : list op :=
  [OReq (RqPost (PUid [1%N]) (BJson [1%N] (mkW None None None (Some 5) None None)))].

Lemma refuted_prefix_nil :
  exists s os, run false 0 [] wit_partial = Ok (s, os)
    /\ authenticate false 0 s [1%N] = Panic
    /\ authorise false 0 s (pad16 [1%N]) 0 = Ok (Some ErrUserNotFound)
    /\ get_user false s (PUid [1%N]) = Panic
    /\ list_all false s = Panic
    /\ upload false 0 s [mkUpd [1%N] 0 0] = Panic
    /\ run false 0 [] (wit_partial ++ [OReq RqList]) = Panic.
Proof. eexists. eexists. split; [vm_compute; reflexivity|]. repeat split; vm_compute; reflexivity. Qed.

Definition wit_uid16 : uid := [1;2;3;4;5;6;7;8;9;10;11;12;13;14;15;16]%N.
Lemma refuted_prefix_nil_authorise :
  exists s os, run false 0 [] [OReq (RqPost (PUid wit_uid16) (BJson wit_uid16 (mkW None None None (Some 5) None None)))] = Ok (s, os)
    /\ authorise false 0 s wit_uid16 0 = Panic.
Proof. eexists. eexists. split; [vm_compute; reflexivity|]. vm_compute; reflexivity. Qed.

(* F8 (open): credits and expiry only - the rates read as 0 *)
Definition wit_zero_rate : list op :=
  [OReq (RqPost (PUid wit_uid16) (BJson wit_uid16 (mkW (Some 5) None None (Some 1000) (Some 1000) (Some 100))))].
Definition wit_neg_rate : list op :=
  [OReq (RqPost (PUid wit_uid16) (BJson wit_uid16 (mkW (Some 5) (Some 10) (Some (-1)) (Some 1000) (Some 1000) (Some 100))))].

(* the statement about the owner connecting, for either variant of GetUser *)
Definition no_panic_on_connect (guard : bool) : Prop :=
  forall now ops u s os, Forall op_ok ops -> run true now [] ops = Ok (s, os) ->
    connect guard true now s u <> Panic.
Lemma no_panic_on_connect_now : no_panic_on_connect true.
Proof. intros now ops u s os _ _. destruct (connect_guarded_total now s u) as [c E]. rewrite E. discriminate. Qed.

Lemma wit_zero_rate_ok : Forall op_ok wit_zero_rate.
Proof. repeat constructor; cbn; unfold in_i32, in_i64, two31, two63; lia. Qed.
Lemma wit_neg_rate_ok : Forall op_ok wit_neg_rate.
Proof. repeat constructor; cbn; unfold in_i32, in_i64, two31, two63; lia. Qed.

Lemma makevalve_refuted : ~ no_panic_on_connect false.
Proof. intros H.
  destruct (run true 50 [] wit_zero_rate) as [[s os]|] eqn:E; [|vm_compute in E; discriminate].
  apply (H 50 wit_zero_rate wit_uid16 s os wit_zero_rate_ok E).
  vm_compute in E. inversion E; subst. vm_compute. reflexivity. Qed.
Lemma makevalve_refuted_negative :
  exists s os, run true 50 [] wit_neg_rate = Ok (s, os) /\ authenticate true 50 s wit_uid16 = Ok (AuthOk 10 (-1))
    /\ connect false true 50 s wit_uid16 = Panic /\ connect true true 50 s wit_uid16 = Ok (CnAuthErr ErrBadRate).
Proof. eexists. eexists. split; [vm_compute; reflexivity|]. repeat split; vm_compute; reflexivity. Qed.

Lemma partial_no_panic_positive_rates now s u :
  (forall up down, authenticate true now s u = Ok (AuthOk up down) -> 0 < up /\ 0 < down) ->
  connect false true now s u <> Panic.
Proof. intros H E. apply connect_panic_iff in E. destruct E as (up & down & Ha & Hle).
  specialize (H _ _ Ha). lia. Qed.

Definition wit_good : list op :=
  [OReq (RqPost (PUid wit_uid16) (BJson wit_uid16 (mkW (Some 5) (Some 100) (Some 1000) (Some 10000) (Some 100000) (Some 1000000))))].
Lemma example_positive_rates :
  exists s os, run true 50 [] wit_good = Ok (s, os)
    /\ (forall up down, authenticate true 50 s wit_uid16 = Ok (AuthOk up down) -> 0 < up /\ 0 < down)
    /\ connect false true 50 s wit_uid16 = Ok (CnOk 100 1000).
Proof. eexists. eexists. split; [vm_compute; reflexivity|]. split; [|vm_compute; reflexivity].
  intros up down H. vm_compute in H. inversion H. lia. Qed.

(* O5: a negative SessionsCap is shown signed by the API and read unsigned by AuthoriseNewSession *)
Lemma example_O5_negative_cap :
  let ops := [OReq (RqPost (PUid wit_uid16) (BJson wit_uid16 (mkW (Some (-1)) (Some 1) (Some 1) (Some 1) (Some 1) (Some 100))))] in
  exists s os, run true 50 [] ops = Ok (s, os)
    /\ get_user true s (PUid wit_uid16) = Ok (RsUser wit_uid16 (mkV (-1) 1 1 1 1 100))
    /\ authorise true 50 s wit_uid16 4000000000 = Ok None.
Proof. eexists. eexists. split; [vm_compute; reflexivity|]. repeat split; vm_compute; reflexivity. Qed.

Lemma example_refines_hyps : store_wf [] /\ Forall op_ok (wit_good ++ wit_neg_rate ++ [OReq RqList; OReopen; OUpload [mkUpd wit_uid16 7 8]]).
Proof. split; [constructor|]. repeat constructor; cbn; unfold in_i32, in_i64, two31, two63; lia. Qed.
