(* C01, completeness half: nothing is lost.  Along label sequences without connection resets,
   every data frame the sender has put on the wire is either still in flight or has reached the
   receiver's re-sequencer, as long as the receiver's stream object is open.  With the data
   invariant PD this gives: once nothing is in flight, what was read plus what waits in the pipe
   is everything that was written. *)
From Coq Require Import NArith ZArith List Bool Lia Sorting.Permutation.
From Coq Require Import ZifyN ZifyBool.
From Cloak Require Import Model.Reorder Model.Mux Proofs.Reorder Proofs.ReorderExt Proofs.MuxBase Proofs.MuxSafety
  Proofs.MuxView Proofs.MuxWire Proofs.MuxEffect Proofs.MuxPay Proofs.MuxData Proofs.MuxCount.
Import ListNotations.
Local Open Scope N_scope.

Section Cov.
Variable s : side.
Variable sid : N.
Let o := other s.
Notation inflight := (inflight s sid).
Notation sview := (sview s sid).
Notation rview := (rview s sid).
Notation keep := (keep sid).
Notation vstep := (vstep s sid).
Notation vsteps := (vsteps s sid).
Notation PD := (PD s sid).
Notation wfE := (wfE sid).
Notation ev_frames := (ev_frames s sid).

(* frame number i has reached the re-sequencer: consumed in order, or parked *)
Definition arr (rb : rbuf) (i : N) : Prop := i < next rb \/ exists g, In g (heap rb) /\ seq g = i.
Definition arrived (y : sys) (i : N) : Prop :=
  match rview y with Some (rb, _) => arr rb i | None => False end.
Definition onwire (IF : list wframe) (i : N) : Prop := exists fr, In fr IF /\ w_seq fr = i.
(* the receiver's stream object is not closed *)
Definition ron (v : option (rbuf * bool)) : Prop := match v with Some (_, true) => False | _ => True end.

Definition COV (y : sys) (E P : list wframe) : Prop :=
  ron (rview y) -> forall i, i < nE E -> onwire (inflight y ++ P) i \/ arrived y i.

Lemma onwire_perm l l' i : Permutation l l' -> onwire l i -> onwire l' i.
Proof. intros Hp (fr & Hin & Hs). exists fr. split; [eapply Permutation_in; eauto|exact Hs]. Qed.

Lemma rclose_ron a b : rclose a b -> ron b -> ron a /\ b = a.
Proof.
  intros [->|(rb & -> & ->)] Hr; [auto|]. destruct Hr.
Qed.

(* a closed stream object stays closed *)
Lemma ron_back b y a y' : vstep b y a y' -> ron (rview y') -> ron (rview y).
Proof.
  intros Hv Hr.
  destruct Hv as [y y' (Hp & Hsc & Hrc)
                 |y y' q w pay Hs1 Hs2 Hp Hr2
                 |y y' q w Hs1 Hs2 Hp Hrc
                 |y y' q w w' Hs1 Hs2 Hp Hrc
                 |y y' l Hbt Hp Hs2 Hr2
                 |y y' fr rb c Hr1 Hr2 Hi2 Hs2
                 |y y' rb c k d rb' Hr1 Hrd Hr2 Hi2 Hs2
                 |y y' Hs1 Hs2 Hi2 Hr2
                 |y y' Hr1 Hr2 Hi2 Hs2].
  - apply (rclose_ron _ _ Hrc Hr).
  - now rewrite <- Hr2.
  - apply (rclose_ron _ _ Hrc Hr).
  - apply (rclose_ron _ _ Hrc Hr).
  - now rewrite <- Hr2.
  - rewrite Hr1. rewrite Hr2 in Hr. exact Hr.
  - rewrite Hr1. rewrite Hr2 in Hr. exact Hr.
  - now rewrite <- Hr2.
  - now rewrite Hr1.
Qed.
Lemma ron_backs b y acts y' : vsteps b y acts y' -> ron (rview y') -> ron (rview y).
Proof. induction 1 as [y|y a y1 l y2 Hstep Hrest IH]; [auto|]. intros Hr. eapply ron_back; eauto. Qed.

Lemma rb_read_arr rb k rb' d i : rb_read rb k = (rb', RdData d) -> arr rb' i <-> arr rb i.
Proof.
  unfold rb_read. destruct (pipe rb); [destruct (pclosed rb); discriminate|].
  intros H. injection H as <- _. reflexivity.
Qed.

Lemma Inv_arr F cl A rb out i : Inv F cl 0 A rb out -> (In i A <-> arr rb i).
Proof.
  intros (k & Hn & Hpc & Hs & Ho & Hncl & HA). rewrite HA. unfold arr. split; intros [H|H]; auto; left; lia.
Qed.

(* ---- one action ---- *)
Lemma COV_step y a y' E Rd P P' :
  vstep false y a y' -> PD y E Rd P -> COV y E P -> nE (E ++ emitted [a]) + 2 < two64 ->
  all_data (E ++ emitted [a]) ->
  (match a with AArrive fr => Permutation P (fr :: P') | _ => P' = P end) ->
  COV y' (E ++ emitted [a]) P'.
Proof.
  intros Hv Hpd Hc Hb Had HP Hron.
  pose proof (ron_back _ _ _ _ Hv Hron) as Hron0. specialize (Hc Hron0).
  destruct Hpd as (Hw & Hs & Hn & Hg & Hnd & Hr).
  destruct Hv as [y y' (Hp & Hsc & Hrc)
                 |y y' q w pay Hs1 Hs2 Hp Hr2
                 |y y' q w Hs1 Hs2 Hp Hrc
                 |y y' q w w' Hs1 Hs2 Hp Hrc
                 |y y' l Hbt Hp Hs2 Hr2
                 |y y' fr rb c Hr1 Hr2 Hi2 Hs2
                 |y y' rb c k d rb' Hr1 Hrd Hr2 Hi2 Hs2
                 |y y' Hs1 Hs2 Hi2 Hr2
                 |y y' Hr1 Hr2 Hi2 Hs2]; cbn [emitted readout flat_map app] in *; rewrite ?app_nil_r in *; subst.
  - (* quiet *)
    destruct (rclose_ron _ _ Hrc Hron) as [_ Heq]. intros i Hi.
    destruct (Hc i Hi) as [Ho|Ha]; [left; eapply onwire_perm; [apply Permutation_app_tail; exact Hp|exact Ho]|right].
    unfold arrived in *. now rewrite Heq.
  - (* data frame emitted *)
    destruct (Hs _ _ Hs1) as (-> & -> & _). intros i Hi. rewrite nE_app in Hi.
    assert (Hpp : Permutation (mkW sid (nE E) 0 pay :: (inflight y ++ P)) (inflight y' ++ P)).
    { change (mkW sid (nE E) 0 pay :: inflight y ++ P) with ((mkW sid (nE E) 0 pay :: inflight y) ++ P).
      apply Permutation_app_tail. symmetry. exact Hp. }
    destruct (N.eq_dec i (nE E)) as [->|Hne].
    + left. eapply onwire_perm; [exact Hpp|]. eexists. split; [left; reflexivity|reflexivity].
    + destruct (Hc i) as [(f & Hf & Hsf)|Ha]; [lia| |].
      * left. eapply onwire_perm; [exact Hpp|]. exists f. split; [right; exact Hf|exact Hsf].
      * right. unfold arrived in *. now rewrite Hr2.
  - (* closing frame: excluded *)
    exfalso. assert (Hx : w_cl (mkW sid q 1 []) = 0) by (apply Had; apply in_or_app; right; now left). discriminate Hx.
  - (* lost *)
    destruct (rclose_ron _ _ Hrc Hron) as [_ Heq]. intros i Hi.
    destruct (Hc i Hi) as [Ho|Ha]; [left; eapply onwire_perm; [apply Permutation_app_tail; exact Hp|exact Ho]|right].
    unfold arrived in *. now rewrite Heq.
  - discriminate Hbt.
  - (* a frame reaches the re-sequencer *)
    rewrite Hr2 in Hron. cbn in Hron. destruct c; [destruct Hron|]. clear Hron.
    assert (Hfr : In fr (inflight y ++ P)).
    { apply in_or_app. right. eapply Permutation_in; [symmetry; exact HP|now left]. }
    pose proof (Hg _ Hfr) as Hgf. pose proof (nthf_lt _ _ _ Hgf) as Hlt.
    rewrite Hr1 in Hr.
    remember (Some (rb, false)) as rv eqn:Erv.
    destruct Hr as [Hr0|rb0 A Hp HI HA Hd|rb0 Hp Hcl Ho Hi|rb0 k Hp Hk Ho]; try discriminate; injection Erv as ->.
    2:{ apply app_eq_nil in Hi as [_ ->]. apply Permutation_nil_cons in HP. destruct HP. }
    assert (Hbb : nE E + 1 < two64) by lia.
    assert (Hni : ~ In (w_seq fr) A) by (apply Hd; exact Hfr).
    destruct (write_pres (FE E) (cl_of E) (FE_seq sid E Hw) (FE_closing sid E Hw Hbb) 0 A rb Rd (w_seq fr) HI Hni) as (st' & c' & Hwr & HcF & HcT);
      [lia|lia|].
    assert (Hc2 : cl_of E = two64) by (apply all_data_cl_of; exact Had).
    destruct c'.
    { exfalso. destruct (HcT eq_refl) as (Hall & _).
      assert (Hclin : In (cl_of E) (w_seq fr :: A)) by (apply Hall; lia).
      destruct Hclin as [Heq|Hx]; [lia|]. specialize (HA _ Hx). lia. }
    specialize (HcF eq_refl).
    intros i Hi. unfold arrived. rewrite Hr2, (to_frame_genuine _ _ Hgf), Hwr. cbn [fst].
    destruct (Hc i Hi) as [(f & Hf & Hsf)|Ha].
    + apply in_app_or in Hf as [Hf|Hf].
      * left. exists f. split; [apply in_or_app; left; rewrite Hi2; exact Hf|exact Hsf].
      * assert (Hf' : In f (fr :: P')) by (eapply Permutation_in; eauto).
        destruct Hf' as [<-|Hf'].
        -- right. apply (Inv_arr _ _ _ _ _ _ HcF). left. exact Hsf.
        -- left. exists f. split; [apply in_or_app; right; exact Hf'|exact Hsf].
    + right. apply (Inv_arr _ _ _ _ _ _ HcF). right. apply (Inv_arr _ _ _ _ _ _ HI).
      unfold arrived in Ha. rewrite Hr1 in Ha. exact Ha.
  - (* read *)
    intros i Hi. destruct (Hc i Hi) as [Ho|Ha]; [left; now rewrite Hi2|right].
    unfold arrived in *. rewrite Hr2. rewrite Hr1 in Ha. now apply (rb_read_arr _ _ _ _ _ Hrd).
  - (* the sender's stream appears: nothing has been emitted *)
    rewrite (Hn Hs1). intros i Hi. cbn in Hi. lia.
  - (* the receiver's stream appears *)
    intros i Hi. destruct (Hc i Hi) as [Ho|Ha]; [left; now rewrite Hi2|]. unfold arrived in Ha. now rewrite Hr1 in Ha.
Qed.

Lemma all_data_app_l a b : all_data (a ++ b) -> all_data a.
Proof. intros H fr Hin. apply H. apply in_or_app. now left. Qed.

Lemma COV_steps_noarr y acts y' : vsteps false y acts y' -> forall E Rd P,
  arrivals acts = [] -> PD y E Rd P -> COV y E P -> nE (E ++ emitted acts) + 2 < two64 ->
  all_data (E ++ emitted acts) -> COV y' (E ++ emitted acts) P.
Proof.
  induction 1 as [y|y a y1 l y2 Hstep Hrest IH]; intros E Rd P Ha Hpd Hc Hb Had.
  - cbn. now rewrite !app_nil_r.
  - rewrite emitted_cons, !app_assoc.
    assert (Ha1 : match a with AArrive fr => False | _ => True end /\ arrivals l = []).
    { destruct a; cbn in Ha; try discriminate; auto. }
    destruct Ha1 as [Hna Hal].
    rewrite emitted_cons in Hb, Had.
    assert (Hb1 : nE (E ++ emitted [a]) + 2 < two64) by (pose proof (nE_app_le E (emitted [a]) (emitted l)); lia).
    assert (Had1 : all_data (E ++ emitted [a])) by (rewrite app_assoc in Had; eapply all_data_app_l; exact Had).
    assert (HP : match a with AArrive fr => Permutation P (fr :: P) | _ => P = P end) by (destruct a; try reflexivity; contradiction).
    apply (IH _ (Rd ++ readout [a])); [exact Hal| | |rewrite <- app_assoc; exact Hb|rewrite <- app_assoc; exact Had].
    + eapply PD_step; [exact Hstep|exact Hpd|exact Hb1|exact HP].
    + eapply COV_step; [exact Hstep|exact Hpd|exact Hc|exact Hb1|exact Had1|exact HP].
Qed.

Lemma COV_steps_arr y acts y' : vsteps false y acts y' -> forall E Rd fr,
  arrivals acts = [fr] -> PD y E Rd [fr] -> COV y E [fr] -> nE (E ++ emitted acts) + 2 < two64 ->
  all_data (E ++ emitted acts) -> COV y' (E ++ emitted acts) [].
Proof.
  induction 1 as [y|y a y1 l y2 Hstep Hrest IH]; intros E Rd fr Ha Hpd Hc Hb Had.
  - discriminate.
  - rewrite emitted_cons, !app_assoc. rewrite emitted_cons in Hb, Had.
    assert (Hb1 : nE (E ++ emitted [a]) + 2 < two64) by (pose proof (nE_app_le E (emitted [a]) (emitted l)); lia).
    assert (Had1 : all_data (E ++ emitted [a])) by (rewrite app_assoc in Had; eapply all_data_app_l; exact Had).
    destruct a as [| | | | |f| | |]; cbn [arrivals flat_map app] in Ha;
      try (eapply (IH _ (Rd ++ readout [_]) fr); [exact Ha| | |rewrite <- app_assoc; exact Hb|rewrite <- app_assoc; exact Had];
           [eapply PD_step; [exact Hstep|exact Hpd|exact Hb1|reflexivity]
           |eapply COV_step; [exact Hstep|exact Hpd|exact Hc|exact Hb1|exact Had1|reflexivity]]).
    injection Ha as -> Hal.
    apply (COV_steps_noarr _ _ _ Hrest _ (Rd ++ readout [AArrive fr])); [exact Hal| | |rewrite <- app_assoc; exact Hb|rewrite <- app_assoc; exact Had].
    + eapply PD_step; [exact Hstep|exact Hpd|exact Hb1|reflexivity].
    + eapply COV_step; [exact Hstep|exact Hpd|exact Hc|exact Hb1|exact Had1|reflexivity].
Qed.

Lemma COV_same_view y y' E P :
  inflight y' = inflight y -> rview y' = rview y -> COV y E P -> COV y' E P.
Proof. unfold COV, arrived. intros -> ->. exact (fun H => H). Qed.

(* ---- one label ---- *)
Lemma COV_label y l ch y' evs E Rd :
  step y l ch = (y', evs) -> droppy l = false -> WF y -> CIs y -> se_closed (sess y o) = false ->
  PD y E Rd [] -> COV y E [] -> fresh_at y l ->
  nE (E ++ ev_frames evs) + 2 < two64 -> all_data (E ++ ev_frames evs) ->
  COV y' (E ++ ev_frames evs) [].
Proof.
  unfold step. intros H Hdr Hwf Hci Hopen Hpd Hcov Hfresh Hb Had.
  destruct (step_core y l ch) as [yc ec] eqn:Ec.
  destruct (resolve (sy_pend yc) yc) as [[yr ps] er] eqn:Er. injection H as <- <-.
  assert (Hw2 : forall q w, sview y = Some (q, w, false) -> w <> 2).
  { intros q w Hsv. destruct Hpd as (_ & Hs & _). destruct (Hs _ _ Hsv) as (_ & -> & _). lia. }
  destruct (step_core_effect s sid _ _ _ _ _ Ec Hwf Hfresh Hw2) as (y1 & pend & acts & Hpop & Hv & He & Hr & Hpr & Harr & Hlab).
  rewrite Hdr in Hv.
  destruct (resolve_effect s sid _ _ _ _ _ Er) as (acts2 & Hv2 & He2 & Ha2 & Hr2 & Hf2 & Hd2).
  assert (HE : ev_frames (ec ++ er) = emitted acts ++ emitted acts2).
  { rewrite (ev_frames_app s sid), He, He2, Hf2. reflexivity. }
  rewrite HE, !app_assoc. rewrite HE, app_assoc in Hb, Had.
  assert (Hb1 : nE (E ++ emitted acts) + 2 < two64).
  { pose proof (nE_app_le E (emitted acts) (emitted acts2)). rewrite <- app_assoc in Hb. lia. }
  assert (Had1 : all_data (E ++ emitted acts)) by (eapply all_data_app_l; exact Had).
  (* the data invariant after the core part *)
  assert (Hpdc : PD yc (E ++ emitted acts) (Rd ++ readout acts) []).
  { destruct Hpop as [[-> ->]|(fr & -> & Hk & Hperm & Hs1 & Hr1)].
    - destruct Harr as [[Ha _]|(f & Hf & _)]; [|discriminate].
      apply (PD_steps_noarr s sid _ _ _ _ Hv); assumption.
    - pose proof (PD_pop s sid _ _ _ _ _ Hpd Hperm Hs1 Hr1) as Hpd1.
      destruct Harr as [[Ha _]|(f & Hf & Ha)].
      + eapply PD_drop_P. apply (PD_steps_noarr s sid _ _ _ _ Hv); eassumption.
      + injection Hf as <-. apply (PD_steps_arr s sid _ _ _ _ Hv _ _ fr); assumption. }
  assert (Hcore : COV yc (E ++ emitted acts) []).
  { destruct Hpop as [[-> ->]|(fr & -> & Hk & Hperm & Hs1 & Hr1)].
    - destruct Harr as [[Ha _]|(f & Hf & _)]; [|discriminate].
      eapply COV_steps_noarr; eassumption.
    - pose proof (PD_pop s sid _ _ _ _ _ Hpd Hperm Hs1 Hr1) as Hpd1.
      assert (Hcov1 : COV y1 E [fr]).
      { intros Hron i Hi. rewrite Hr1 in Hron. destruct (Hcov Hron i Hi) as [Ho|Ha]; [left|right].
        - rewrite app_nil_r in Ho. eapply onwire_perm; [|exact Ho]. rewrite Hperm. apply Permutation_cons_append.
        - unfold arrived in *. now rewrite Hr1. }
      destruct Harr as [[Ha Hdisc]|(f & Hf & Ha)].
      + (* the frame was discarded: then the receiver's stream object is closed *)
        intros Hron. exfalso.
        pose proof (ron_backs _ _ _ _ Hv Hron) as Hron1. rewrite Hr1 in Hron1.
        assert (Hsid : w_sid fr = sid) by (unfold MuxView.keep in Hk; apply andb_prop in Hk as [Hk _]; lia).
        destruct (Hdisc fr eq_refl) as [Hc2|[Hcl|[Hfalse|[Htrue Hnone]]]].
        * unfold MuxView.keep in Hk. apply andb_prop in Hk as [_ Hk]. lia.
        * change (se_closed (sess y o) = true) in Hcl. rewrite Hopen in Hcl. discriminate Hcl.
        * change (lookup (w_sid fr) (se_tab (sess y o)) = Some false) in Hfalse. rewrite Hsid in Hfalse. destruct (Hci o Hopen) as (_ & _ & _ & T3).
          destruct (lookup sid (se_objs (sess y o))) as [st|] eqn:El.
          2:{ apply (T3 sid); [rewrite Hfalse; discriminate|exact El]. }
          destruct (WF_sess y o Hwf) as (Hobj & _). destruct (Hobj _ _ El) as (_ & Hop & _).
          unfold MuxView.rview in Hron1. fold o in Hron1. rewrite El in Hron1. cbn in Hron1.
          destruct (st_closed st); [exact Hron1|]. rewrite (Hop eq_refl) in Hfalse. discriminate.
        * change (lookup (w_sid fr) (se_tab (sess y o)) = Some true) in Htrue.
          change (lookup (w_sid fr) (se_objs (sess y o)) = None) in Hnone.
          rewrite Hsid in Htrue, Hnone. destruct (Hci o Hopen) as (_ & _ & T2 & _).
          destruct (T2 sid Htrue) as (st & El & _). congruence.
      + injection Hf as <-. eapply COV_steps_arr; eassumption. }
  apply (COV_same_view yr); [reflexivity|unfold MuxView.rview; now rewrite sess_set_pend|].
  eapply COV_steps_noarr; [exact Hv2|exact Ha2|exact Hpdc|exact Hcore|exact Hb|exact Had].
Qed.

(* ---- what full coverage means ---- *)
Lemma covered_complete y E Rd :
  PD y E Rd [] -> COV y E [] -> all_data E -> nE E + 2 < two64 ->
  inflight y = [] -> ron (rview y) ->
  flat_map w_pay E = Rd ++ match rview y with Some (rb, _) => pipe rb | None => [] end.
Proof.
  intros (Hw & Hs & Hn & Hg & Hnd & Hr) Hc Had Hb Hif Hron.
  specialize (Hc Hron). rewrite Hif in Hc. cbn [app] in Hc.
  assert (Hall : forall i, i < nE E -> arrived y i).
  { intros i Hi. destruct (Hc i Hi) as [(f & [] & _)|Ha]. exact Ha. }
  assert (Hc2 : cl_of E = two64) by (apply all_data_cl_of; exact Had).
  unfold arrived in Hall.
  destruct (rview y) as [[rb c]|] eqn:Erv.
  - destruct c; [destruct Hron|].
    remember (Some (rb, false)) as rv eqn:Ev.
    destruct Hr as [Hr0|rb0 A Hp HI HA Hd|rb0 Hp Hcl Ho Hi|rb0 k Hp Hk Ho]; try discriminate; injection Ev as ->.
    2:{ congruence. }
    pose proof HI as (k & Hnx & Hpc & Hso & Ho & Hncl & HAiff).
    assert (Hk : N.of_nat k = nE E).
    { destruct (N.lt_trichotomy (N.of_nat k) (nE E)) as [Hlt|[Heq|Hgt]]; [|exact Heq|].
      - exfalso. assert (Harr : arr rb (next rb)) by (apply Hall; lia).
        destruct Harr as [Hx|(g & Hg1 & Hg2)]; [lia|].
        assert (Hbb : nE E + 1 < two64) by lia.
        pose proof (sorted_above_in (FE E) (cl_of E) (FE_seq sid E Hw) (FE_closing sid E Hw Hbb) _ _ _ Hso Hg1). lia.
      - exfalso. assert (Hin : In (nE E) A) by (apply HAiff; left; lia). specialize (HA _ Hin). lia. }
    rewrite Ho. rewrite cat_FE by (unfold nE in Hk; lia).
    replace k with (length E) by (unfold nE in Hk; lia). now rewrite firstn_all.
  - (* no stream object at the receiver: nothing was emitted *)
    assert (HE : E = []).
    { destruct E as [|f t]; [reflexivity|]. exfalso. apply (Hall 0). unfold nE. cbn. lia. }
    subst E. remember (@None (rbuf * bool)) as rv eqn:Ev.
    destruct Hr as [Hr0|rb0 A Hp HI HA Hd|rb0 Hp Hcl Ho Hi|rb0 k Hp Hk Ho]; try discriminate.
    subst Rd. reflexivity.
Qed.
End Cov.
